/-
Two arguments that DESIGN.md used to give in prose only.

1. `history_refines` (C01-C04): the per-operation contracts discharged by pyvc say, for every public mutating call `op`, that from a
   well-formed representation `c` the call ends in a well-formed representation whose abstract view is the abstract operation applied to
   the view of `c` (a rejected call leaves both unchanged, which is part of `step` / `astep`).  The history-level statement of the
   properties - after ANY finite sequence of calls the view equals what the same sequence produces on the abstract model - follows by
   induction on the history.  `step`, `astep`, `view`, `wf` are arbitrary: nothing about hypergraphx is assumed here; the hypothesis
   `sim` is exactly what the per-function obligations establish.

2. `degree_sum` (C08): "degrees sum to the total size of the hyperedges".  With degree n = number of hyperedges containing n (the verified
   contract of `degree`), the identity is double counting of the incidences.
-/
import Mathlib.Data.List.Basic
import Mathlib.Algebra.BigOperators.Group.Finset.Basic
import Mathlib.Combinatorics.Enumerative.DoubleCounting

open Finset

theorem history_refines {C A Op : Type*} (step : C → Op → C) (astep : A → Op → A) (view : C → A) (wf : C → Prop)
    (sim : ∀ c op, wf c → wf (step c op) ∧ view (step c op) = astep (view c) op)
    (c₀ : C) (h₀ : wf c₀) (ops : List Op) :
    wf (ops.foldl step c₀) ∧ view (ops.foldl step c₀) = ops.foldl astep (view c₀) := by
  induction ops generalizing c₀ with
  | nil => exact ⟨h₀, rfl⟩
  | cons op rest ih =>
    obtain ⟨hw, hv⟩ := sim c₀ op h₀
    have := ih (step c₀ op) hw
    simpa [List.foldl, hv] using this

/-- every observation that is a function of the view agrees with the abstract model after every history -/
theorem queries_agree {C A Op Q : Type*} (step : C → Op → C) (astep : A → Op → A) (view : C → A) (wf : C → Prop)
    (query : C → Q) (aquery : A → Q)
    (sim : ∀ c op, wf c → wf (step c op) ∧ view (step c op) = astep (view c) op)
    (qsim : ∀ c, wf c → query c = aquery (view c))
    (c₀ : C) (h₀ : wf c₀) (ops : List Op) :
    query (ops.foldl step c₀) = aquery (ops.foldl astep (view c₀)) := by
  obtain ⟨hw, hv⟩ := history_refines step astep view wf sim c₀ h₀ ops
  rw [qsim _ hw, hv]

theorem degree_sum {α : Type*} [DecidableEq α] (V : Finset α) (E : Finset (Finset α)) (h : ∀ e ∈ E, e ⊆ V) :
    ∑ n ∈ V, (E.filter (fun e => n ∈ e)).card = ∑ e ∈ E, e.card := by
  have key := Finset.sum_card_bipartiteAbove_eq_sum_card_bipartiteBelow (s := V) (t := E) (fun n e => n ∈ e)
  simp only [Finset.bipartiteAbove, Finset.bipartiteBelow] at key
  rw [key]
  apply Finset.sum_congr rfl
  intro e he
  congr 1
  ext n
  simp only [Finset.mem_filter]
  exact ⟨fun hn => hn.2, fun hn => ⟨h e he hn, hn⟩⟩
