/-
Lemmas behind the axioms `vsum_mono`, `vsum_nonneg`, `vsum_zero` of hv/pyvc/theory.py (property C18, simplicial contagion).

`vsum d v` is `sum(d.values())` of a Python dict of ints: the sum of `v` over the finite key set `d`.  The axioms are stated in z3 with a
Skolem witness ("either the witness key violates the premise, or the conclusion holds"), which is the contrapositive form of the three
statements below.
-/
import Mathlib.Algebra.Order.BigOperators.Group.Finset
import Mathlib.Tactic

open Finset

def vsum (d : Finset ℤ) (v : ℤ → ℤ) : ℤ := ∑ x ∈ d, v x

/-- pointwise `≤` on the keys gives `≤` of the sums -/
theorem vsum_mono (d : Finset ℤ) (v w : ℤ → ℤ) (h : ∀ x ∈ d, v x ≤ w x) : vsum d v ≤ vsum d w :=
  Finset.sum_le_sum h

/-- a sum of non-negative values is non-negative -/
theorem vsum_nonneg (d : Finset ℤ) (v : ℤ → ℤ) (h : ∀ x ∈ d, 0 ≤ v x) : 0 ≤ vsum d v :=
  Finset.sum_nonneg h

/-- a sum of non-negative values that is not positive has only zero values -/
theorem vsum_zero (d : Finset ℤ) (v : ℤ → ℤ) (h : ∀ x ∈ d, 0 ≤ v x) (hz : vsum d v ≤ 0) : ∀ x ∈ d, v x = 0 := by
  have h0 : vsum d v = 0 := le_antisymm hz (vsum_nonneg d v h)
  exact (Finset.sum_eq_zero_iff_of_nonneg h).mp h0

/-- the Skolemised forms used as axioms: for ANY choice of the witness function the disjunction holds when it holds for every key -/
theorem vsum_mono_sk (d : Finset ℤ) (v w : ℤ → ℤ) (wit : ℤ) (hw : (∃ x ∈ d, w x < v x) → (wit ∈ d ∧ w wit < v wit)) :
    (wit ∈ d ∧ w wit < v wit) ∨ vsum d v ≤ vsum d w := by
  by_cases hex : ∃ x ∈ d, w x < v x
  · exact Or.inl (hw hex)
  · right
    apply vsum_mono
    intro x hx
    by_contra hlt
    exact hex ⟨x, hx, not_le.mp hlt⟩
