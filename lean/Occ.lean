/-
Lemma behind the axiom `occ_update` of hv/contracts/generation.py (property C16).

`occ at n x` is the number of positions k < n of a list of node sets `at` whose set contains x - the degree of x in the chain state of the
Hy-MMSBM sampler.  Its two defining equations are the axioms occ_0 / occ_step.  Replacing the set at one position i < n changes the count by
what position i contributed before and contributes now (stated without subtraction over ℕ).
-/
import Mathlib.Logic.Function.Basic
import Mathlib.Tactic

variable {α : Type*}

def occ (at_ : ℕ → α → Prop) [∀ k x, Decidable (at_ k x)] : ℕ → α → ℕ
  | 0, _ => 0
  | n + 1, x => occ at_ n x + if at_ n x then 1 else 0

theorem occ_update (at_ : ℕ → α → Prop) [∀ k x, Decidable (at_ k x)] (S : α → Prop) [DecidablePred S]
    (i n : ℕ) (x : α) (h : i < n)
    [∀ k y, Decidable (Function.update at_ i S k y)] :
    occ (Function.update at_ i S) n x + (if at_ i x then 1 else 0) = occ at_ n x + (if S x then 1 else 0) := by
  induction n with
  | zero => exact absurd h (Nat.not_lt_zero _)
  | succ m ih =>
    by_cases hm : i = m
    · subst hm
      -- positions below i are untouched
      have below : ∀ k, k ≤ i → occ (Function.update at_ i S) k x = occ at_ k x := by
        intro k hk
        induction k with
        | zero => rfl
        | succ j ihj =>
          have hj : j ≠ i := by omega
          simp only [occ, Function.update_of_ne hj]
          rw [ihj (by omega)]
      simp only [occ, Function.update_self]
      rw [below i le_rfl]
      split_ifs <;> omega
    · have hlt : i < m := by omega
      have hne : m ≠ i := fun e => hm e.symm
      simp only [occ, Function.update_of_ne hne]
      have := ih hlt
      omega
