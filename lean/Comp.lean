/-
Lemmas behind the axioms `comp_class` and `comp_nodes` of hv/contracts/cc.py (property C08).

Setting: `R a b` stands for "nodes a and b lie in a common (filtered) hyperedge" - symmetric by its form -, `C n` for
COMP(hg, n, filter).  The hypotheses `refl`, `step`, `least` are exactly the definitional axioms comp_refl, comp_step,
comp_least (with `closed S` unfolded to `∀ a b, a ∈ S → R a b → b ∈ S`).  Nothing else is assumed.
-/
import Mathlib.Data.Set.Basic
import Mathlib.Logic.Relation

variable {α : Type*}

/-- comp_class: a member of a class has the same class (classes of a symmetric relation are equal or disjoint). -/
theorem comp_class (R : α → α → Prop) (hsymm : ∀ a b, R a b → R b a) (C : α → Set α)
    (refl : ∀ n, n ∈ C n)
    (step : ∀ n a b, a ∈ C n → R a b → b ∈ C n)
    (least : ∀ n (S : Set α), n ∈ S → (∀ a b, a ∈ S → R a b → b ∈ S) → C n ⊆ S)
    (n m : α) (h : m ∈ C n) : C m = C n := by
  have sub : ∀ x y, y ∈ C x → C y ⊆ C x :=
    fun x y hy => least y (C x) hy (fun a b ha hab => step x a b ha hab)
  have symm : ∀ x y, y ∈ C x → x ∈ C y := by
    intro x y hy
    have hsub : C x ⊆ {z | x ∈ C z} := by
      apply least x
      · exact refl x
      · intro a b ha hab
        have hba : R b a := hsymm a b hab
        have hab' : a ∈ C b := step b b a (refl b) hba
        exact sub b a hab' ha
    exact hsub hy
  exact Set.Subset.antisymm (sub n m h) (sub m n (symm n m h))

/-- comp_nodes: if every node sharing a hyperedge with anything is a node (nodes_ok), a class of a node consists of nodes. -/
theorem comp_nodes (R : α → α → Prop) (C : α → Set α)
    (least : ∀ n (S : Set α), n ∈ S → (∀ a b, a ∈ S → R a b → b ∈ S) → C n ⊆ S)
    (V : Set α) (hV : ∀ a b, R a b → b ∈ V) (n : α) (hn : n ∈ V) : C n ⊆ V :=
  least n V hn (fun a b _ hab => hV a b hab)

/-- The three definitional axioms are satisfiable (so adding them cannot make the theory inconsistent): the reflexive-transitive
closure of R provides such a `C`. -/
theorem comp_exists (R : α → α → Prop) :
    ∃ C : α → Set α, (∀ n, n ∈ C n) ∧ (∀ n a b, a ∈ C n → R a b → b ∈ C n) ∧
      (∀ n (S : Set α), n ∈ S → (∀ a b, a ∈ S → R a b → b ∈ S) → C n ⊆ S) := by
  refine ⟨fun n => {m | Relation.ReflTransGen R n m}, ?_, ?_, ?_⟩
  · intro n
    exact Relation.ReflTransGen.refl
  · intro n a b ha hab
    exact Relation.ReflTransGen.tail ha hab
  · intro n S hn hS m hm
    induction hm with
    | refl => exact hn
    | tail _ hbc ih => exact hS _ _ ih hbc
