#!/bin/bash
# Re-record obligations.lock.json (the obligations discharged on the reference tree) for every property with contracts.
cd "$(dirname "$0")/.."
for i in $(seq -w 1 20); do
  ./check C$i --update-baseline --no-b 2>&1 | grep -v "^WARNING" | grep -i "baseline" || true
done
