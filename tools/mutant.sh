#!/bin/bash
# usage: tools/mutant.sh <file relative to repo> <old text> <new text> <contract qualified names...>
# Runs the deductive engine on a scratch copy of /repo/hypergraphx with one textual replacement applied (scratch copy removed afterwards).
set -e
D=$(mktemp -d /tmp/hvmut.XXXXXX)
trap 'rm -rf "$D"' EXIT
cp -r /repo/hypergraphx "$D/"
python3 - "$D/$1" "$2" "$3" <<'PY'
import sys
f, old, new = sys.argv[1:4]
s = open(f).read()
assert s.count(old) >= 1, "pattern not found"
open(f, "w").write(s.replace(old, new, 1))
PY
shift 3
cd /verif && VERIF_REPO="$D" .venv/bin/python -m hv.pyvc.run "$@" 2>&1 | grep -v WARNING | cut -c1-220 | head -8
