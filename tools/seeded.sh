#!/bin/bash
# usage: tools/seeded.sh <mutant dir with patch.diff, demo.py, meta.json> [properties to check, default: the one in meta.json]
# Confirms the seeded change (demo passes on the clean tree, fails with the change; the repository's tests pass with the change) on a scratch
# copy of /repo, then runs the registered quick checks against that copy (VERIF_REPO) and reports which of them raise a VIOLATION.
set -u
V=$(cd "$(dirname "$0")/.." && pwd)
M=$(cd "$1" && pwd); shift
PROP=$(python3 -c "import json,sys; print(json.load(open('$M/meta.json'))['property'])")
PROPS=${@:-$PROP}
D=$(mktemp -d /tmp/hvseed.XXXXXX)
trap 'rm -rf "$D"' EXIT
rsync -a --exclude .git /repo/ "$D/"
cd "$D"
PYTHONPATH="$D" /venv/bin/python "$M/demo.py" > "$D/demo_clean.log" 2>&1; c0=$?
if ! patch -p1 --quiet < "$M/patch.diff"; then echo "RESULT $M patch-does-not-apply"; exit 2; fi
PYTHONPATH="$D" /venv/bin/python "$M/demo.py" > "$D/demo_mut.log" 2>&1; c1=$?
T=$(PYTHONPATH="$D" /venv/bin/python -m pytest -q -p no:cacheprovider tests 2>&1 | tail -1)
echo "CONFIRM demo_clean_exit=$c0 demo_mutant_exit=$c1 tests='$T'"
cd "$V"
echo "{\"demo_clean_exit\": $c0, \"demo_mutant_exit\": $c1, \"tests_with_change\": \"$T\", \"checks\": {" > "$M/eval.json"
first=1
for p in $PROPS; do
  VERIF_REPO="$D" ./check $p --tier quick > "$D/check_$p.log" 2>&1; rc=$?
  echo "CHECK $p rc=$rc $(grep -c '^VIOLATION' "$D/check_$p.log") violations: $(grep '^VIOLATION' "$D/check_$p.log" | sed "s/.*replays\///" | cut -c1-110 | head -4 | tr '\n' ';')"
  [ $first = 1 ] || echo "," >> "$M/eval.json"; first=0
  VI=$(grep "^VIOLATION" "$D/check_$p.log" | sed "s/.*replays\///" | python3 -c "import sys,json; print(json.dumps([l.strip() for l in sys.stdin][:8]))")
  echo "\"$p\": {\"exit\": $rc, \"violations\": $VI}" >> "$M/eval.json"
done
echo "}}" >> "$M/eval.json"
git -C "$V" checkout -q -- evidence 2>/dev/null
