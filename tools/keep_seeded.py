#!/usr/bin/env python3
"""tools/keep_seeded.py <mutant dir> <name>: store a confirmed seeded change under /verif/seeded/<name>/ (patch.diff, demo.py, meta.json)."""
import json, os, shutil, sys
src, name = sys.argv[1], sys.argv[2]
dst = os.path.join(os.path.dirname(os.path.dirname(os.path.abspath(__file__))), "seeded", name)
os.makedirs(dst, exist_ok=True)
for f in ("patch.diff", "demo.py"):
    shutil.copy(os.path.join(src, f), os.path.join(dst, f))
meta = json.load(open(os.path.join(src, "meta.json")))
ev = json.load(open(os.path.join(src, "eval.json")))
assert ev["demo_clean_exit"] == 0 and ev["demo_mutant_exit"] != 0 and "430 passed" in ev["tests_with_change"], ev
meta["what_was_run"] = ("tools/seeded.sh: scratch copy of /repo; demo.py on the clean copy (exit %d) and with the change (exit %d); the repository's test suite with the "
                        "change (%s); then the registered quick checks against the changed copy (VERIF_REPO)" % (ev["demo_clean_exit"], ev["demo_mutant_exit"], ev["tests_with_change"]))
meta["detected_by"] = {p: r for p, r in ev["checks"].items()}
meta["origin"] = "independent sub-agent given only the property text and a scratch worktree"
json.dump(meta, open(os.path.join(dst, "meta.json"), "w"), indent=1)
print(name, {p: (r["exit"], len(r["violations"])) for p, r in ev["checks"].items()})
