#!/bin/bash
# usage: tools/seeded_all.sh [jobs]   - re-evaluate every stored seeded change (seeded/<id>-mutN) against the current checks.
# Prints one line per change; exit 0 iff every change is detected by the check of its property. Writes seeded_eval.log.
cd "$(dirname "$0")/.."
J=${1:-3}
ls -d seeded/*/ | sed 's|/$||' | xargs -P "$J" -I{} bash -c 'r=$(tools/seeded.sh {} 2>&1 | grep -v conda | tr "\n" " "); echo "{} $r"' | tee seeded_eval.log | cut -c1-200
missed=$(grep -c "rc=0" seeded_eval.log)
bad=$(grep -vc "demo_clean_exit=0 demo_mutant_exit=1 tests=.430 passed" seeded_eval.log)
echo "SEEDED-SUMMARY total=$(wc -l < seeded_eval.log) undetected=$missed unconfirmed=$bad"
[ "$missed" = 0 ] && [ "$bad" = 0 ]
