#!/bin/bash
# Run every registered check (quick tier by default) and report exit codes; used before committing evidence.
cd "$(dirname "$0")/.."
TIER=${1:-quick}
for p in $(python3 -c "import json; print(' '.join(c['property_id'] for c in json.load(open('MANIFEST.json'))['checks']))"); do
  s=$(date +%s)
  ./check $p --tier $TIER > /tmp/hv_run_$p.log 2>&1; rc=$?
  e=$(date +%s)
  echo "$p rc=$rc $((e-s))s  $(grep -c '^KNOWN-FINDING' /tmp/hv_run_$p.log) known  $(tail -1 /tmp/hv_run_$p.log | cut -c1-150)"
done
