#!/usr/bin/env python3
"""tools/design_table.py: regenerate the per-property numbers table of DESIGN.md §7 from evidence/*.json (quick tier)."""
import json, os, re
root = os.path.dirname(os.path.dirname(os.path.abspath(__file__)))
kf = json.load(open(os.path.join(root, "known_findings.json")))
nk = {}
for f in kf["findings"]:
    nk[f["property"]] = nk.get(f["property"], 0) + 1
rows = ["| id | D: obligations discharged / functions under contract | B: evaluations (distinct non-trivial cases) | quick wall | recorded findings |",
        "|----|---------------|-------------|-----------|----------------|"]
for i in range(1, 21):
    pid = f"C{i:02d}"
    d = json.load(open(os.path.join(root, "evidence", pid + ".json")))
    c = d["coverage"]
    fns = c.get("functions_under_contract") or []
    dcol = f"{c.get('discharged', 0)} / {len(fns)} fns" + (f" + {len(c['assumed_contracts'])} assumed" if c.get("assumed_contracts") else "") if c.get("obligations") else "–"
    rows.append(f"| {pid} | {dcol} | {c.get('evaluations', 0)} ({c.get('distinct_nontrivial', 0)}) | {d['wall_s']:.0f} s | {nk.get(pid, '–')} |")
p = os.path.join(root, "DESIGN.md")
s = open(p).read()
a = s.index("| id | D")
b = s.index("\n\n", a)
open(p, "w").write(s[:a] + "\n".join(rows) + s[b:])
print("\n".join(rows))
