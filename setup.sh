#!/bin/bash
# Offline: build the Python 3.12 overlay venv used by every check.
# It sees /venv's site-packages (hypergraphx's third-party deps) and adds z3-solver, cvc5, sympy
# from the offline wheelhouse. hypergraphx itself is always imported from the tree named by
# VERIF_REPO (default /repo) through PYTHONPATH, never from an installed copy.
set -e
HERE="$(cd "$(dirname "$0")" && pwd)"
VENV="$HERE/.venv"
STAMP="$VENV/.ok"
if [ -f "$STAMP" ]; then exit 0; fi
LOCK="$HERE/.venv.lock"
# simple lock so that concurrent checks do not race while building
n=0
until mkdir "$LOCK" 2>/dev/null; do
  sleep 1; n=$((n+1))
  if [ -f "$STAMP" ]; then exit 0; fi
  if [ $n -gt 600 ]; then echo "setup: lock timeout" >&2; rmdir "$LOCK" 2>/dev/null || true; fi
done
trap 'rmdir "$LOCK" 2>/dev/null || true' EXIT
if [ -f "$STAMP" ]; then exit 0; fi
rm -rf "$VENV"
/venv/bin/python -m venv --without-pip "$VENV"
SP="$VENV/lib/python3.12/site-packages"
echo "import site; site.addsitedir('/venv/lib/python3.12/site-packages')" > "$SP/_repo_overlay.pth"
PIP_NO_INDEX=1 /venv/bin/python -m pip install --quiet --no-index --find-links /opt/veriftools/wheels \
   --target "$SP" z3-solver cvc5 sympy jsonschema >/dev/null 2>"$HERE/.venv.pip.log" || {
     cat "$HERE/.venv.pip.log" >&2; exit 3; }
"$VENV/bin/python" - <<'PY'
import z3, cvc5, sympy, numpy, scipy, networkx
print("setup ok: z3", z3.get_version_string())
PY
touch "$STAMP"
