"""Contract for the connectivity test of the motif census (C11): hypergraphx/motifs/utils.py `_is_connected(edges, N)`.

It decides which labelled patterns enter the class table (`generate_motifs`) and which node subsets count as motifs. The reachability classes are
those of hv/contracts/cc.py (least sets closed under sharing a hyperedge; lemmas in lean/Comp.lean), over the listed hyperedges and the labels
occurring in them: `comp_of(edges, n)`, `members(edges)`.
"""
from ..pyvc.engine import Contract

FILE = "hypergraphx/motifs/utils.py"
NB = "any(count(edges, e) >= 1 and a in e and b in e for e in Tuple)"          # a and b share a listed hyperedge
DOM = "all((a in graph) == (a in members(edges)) for a in Node)"
DONE0 = "any(count(_done0, e) >= 1 and a in e and b in e for e in Tuple)"
COMPLETE0 = "all(implies(count(_done0, e) >= 1 and a in e and b in e and a != b, a in graph and b in graph[a]) for e in Tuple for a in Node for b in Node)"
TA, TB = "tpos(edge, a)", "tpos(edge, b)"
ROW1 = f"(a in edge and b in edge and a != b and ({TA} < _j1 or {TB} < _j1))"
ROW2 = f"(a in edge and b in edge and a != b and ({TA} < i or {TB} < i or ({TA} == i and {TB} < _j2) or ({TB} == i and {TA} < _j2)))"


def SEEN(v):
    return f"({v} in visited or count(queue, {v}) >= 1)"


CONTRACTS = [
    Contract("_is_connected", FILE, ["_is_connected"], properties=["C11"],
             params={"edges": "Bag[Tup]", "N": "Int"}, result="Bool", pure=True, options=["empty_tests", "staged_invariants"],
             locals={"graph": "Map[Int,Set[Int]]", "visited": "Set[Int]", "queue": "Bag[Int]"},
             requires={"law": "finite_subset_law()", "distinct": "all(distinct(e) for e in edges)", "order": "N >= 1"},
             ensures={"result": "result == (len(edges) > 0 and card(members(edges)) == N "
                                f"and all(any(b != a and {NB} for b in Node) for a in members(edges)) "
                                "and all(m in comp_of(edges, s) for s in members(edges) for m in members(edges) if trig(s in members(edges), m in members(edges))))"},
             invariants={
                 0: {"dom": DOM, "sound": f"all(implies(a in graph and b in graph[a], a != b and {DONE0}) for a in Node for b in Node)", "complete": COMPLETE0},
                 1: {"dom": DOM, "edge": "distinct(edge) and count(edges, edge) >= 1",
                     "sound": f"all(implies(a in graph and b in graph[a], a != b and ({DONE0} or {ROW1})) for a in Node for b in Node)",
                     "complete": COMPLETE0, "rows": f"all(implies({ROW1}, a in graph and b in graph[a]) for a in Node for b in Node)"},
                 2: {"dom": DOM, "edge": "distinct(edge) and count(edges, edge) >= 1",
                     "sound": f"all(implies(a in graph and b in graph[a], a != b and ({DONE0} or {ROW2})) for a in Node for b in Node)",
                     "complete": COMPLETE0, "rows": f"all(implies({ROW2}, a in graph and b in graph[a]) for a in Node for b in Node)"},
                 # the search: everything seen so far lies in the class of one node that has been seen, and every neighbour of a visited
                 # node is visited or waiting
                 3: {"anchor": f"any(s in members(edges) and {SEEN('s')} and all(implies({SEEN('x')}, x in comp_of(edges, s)) for x in Node) for s in Node)",
                     "nodes": f"all(implies({SEEN('x')}, x in members(edges)) for x in Node)",
                     "frontier": "all(implies(x in visited and x in graph and y in graph[x], y in visited or count(queue, y) >= 1) for x in Node for y in Node)",
                     "closed": "implies(len(queue) == 0, closed_under(edges, visited))"},
             }),
]
