"""Contracts for hypergraphx/linalg/linalg.py (C09): the coordinate lists behind every incidence / adjacency matrix.

`hye_list_to_binary_incidence` turns a list of index tuples into the two coordinate lists handed to scipy's COO constructor. The constructor is
an ASSUMED library contract (hv/pyvc/calls.py `coo_new`): ValueError unless the lists are equally long and inside the shape; entry (i, j) is 0
when no position addresses it and the datum of the position when exactly one does. What is proved through the real loop: every pair
(node, column) of the relation "node belongs to the tuple at that column" is addressed by exactly one position and nothing else is, so the
matrix is the indicator of that relation; the shape test raises exactly when a label or the number of tuples does not fit.
"""
import z3
from ..pyvc import ty as T
from ..pyvc.engine import Contract, Layout
from ..pyvc.ty import fresh
from ..pyvc import theory as TH
from . import hypergraph as H
from . import dynamics as D

FILE = "hypergraphx/linalg/linalg.py"


def enc_ok(eng, p, m):
    """A fitted label encoder: the known labels are numbered 0..N-1 bijectively, `_inv` being the inverse table (what the assumed contract of
    LabelEncoder.fit provides, hv/pyvc/calls.py `le_facts`)."""
    enc, inv = m.fields["_enc"], m.fields["_inv"]
    n, i = fresh("n", T.I), fresh("i", T.I)
    N = T.Set(T.INT).card()(enc.dom)
    return {
        "enc": z3.ForAll([n], z3.Implies(enc.dom[n], z3.And(0 <= enc.val[n], enc.val[n] < N, inv.dom[enc.val[n]], inv.val[enc.val[n]] == n)), patterns=[enc.val[n], enc.dom[n]]),
        "inv_dom": z3.ForAll([i], inv.dom[i] == z3.And(0 <= i, i < N), patterns=[inv.dom[i]]),
        "inv": z3.ForAll([i], z3.Implies(z3.And(0 <= i, i < N), z3.And(enc.dom[inv.val[i]], enc.val[inv.val[i]] == i)), patterns=[inv.val[i], inv.dom[i]]),
    }


# is_column(A, M, c, k): column c of the table A is the indicator of the tuple k under the numbering M, i.e. A[i, c] == 1 exactly for the
# indices i that M maps to a member of k.  A defined predicate (intro / elim with a Skolem witness), so that "some column is the column of k"
# has a term to be matched on.
_PT = T.Pair(T.INT, T.INT)
_CELLS, _AIB, _AII = z3.ArraySort(_PT.sort(), T.R), z3.ArraySort(T.I, T.B), z3.ArraySort(T.I, T.I)
ISCOL = z3.Function("is_column", _CELLS, _AIB, _AII, T.I, T.TupS, T.B)
ISCOLW = z3.Function("is_column_wit", _CELLS, _AIB, _AII, T.I, T.TupS, T.I)
_a, _md, _mv = z3.Const("_ica", _CELLS), z3.Const("_icmd", _AIB), z3.Const("_icmv", _AII)
_c, _i, _k = z3.Int("_icc"), z3.Int("_ici"), z3.Const("_ick", T.TupS)
_IC = ISCOL(_a, _md, _mv, _c, _k)
_cell = lambda i: (_a[_PT.mk(i, _c)] == 1) == z3.And(_md[i], TH.tmem(_k, _mv[i]))      # noqa: E731
TH.EXTRA.update({
    "is_column_elim (definition)": z3.ForAll([_a, _md, _mv, _c, _k, _i], z3.Implies(_IC, _cell(_i)),
                                             patterns=[z3.MultiPattern(_IC, _a[_PT.mk(_i, _c)]), z3.MultiPattern(_IC, _mv[_i])]),
    "is_column_intro (definition)": z3.ForAll([_a, _md, _mv, _c, _k], z3.Or(_IC, z3.Not(_cell(ISCOLW(_a, _md, _mv, _c, _k)))), patterns=[_IC]),
})


def iscol_view(eng, p, a, m, c, k):
    return T.sv_bool(ISCOL(a.fields["_m"].val, m.dom, m.val, eng.coerce(c, T.INT).t, eng.coerce(k, T.TUP).t))


D.LAYOUTS[0].views["is_column"] = iscol_view

LAYOUTS = [Layout("LabelEnc", {"_enc": "Map[Int,Int]", "_inv": "Map[Int,Int]"}, multi={"enc_ok": enc_ok})]


def IN(n, c):
    return f"(0 <= {c} and {c} < len(hye_list) and {n} in hye_list[{c}])"


CP = "cpos(rows, columns, n, c)"
CONTRACTS = [
    Contract("hye_list_to_binary_incidence", FILE, ["hye_list_to_binary_incidence"], properties=["C09"],
             params={"hye_list": "Seq[Tup]", "shape": "Opt[Tup]"}, result="Obj[NpArray2]", pure=True,
             options=["listing_positional", "staged_invariants"],
             locals={"rows": "Seq[Int]", "columns": "Seq[Int]"},
             requires={"indices": f"all(implies({IN('n', 'c')}, n >= 0) for c in Int for n in Node)",     # "list of integers, representing nodes, starting from 0"
                       "shape_pair": "shape is None or len(shape) == 2"},      # "list of integers, representing nodes, starting from 0"
             raises={"ValueError": f"shape is not None and (shape[1] < len(hye_list) or shape[0] < 0 or any({IN('n', 'c')} and n >= shape[0] for c in Int for n in Node))"},
             ensures={
                 "entries": f"all(result._m[pair(n, c)] == (1 if {IN('n', 'c')} else 0) for c in Int for n in Node)",
                 "cells": "all((pair(a, b) in result._m) == (0 <= a and a < result._r and 0 <= b and b < result._c) for a in Int for b in Int)",
                 "shape_given": "implies(shape is not None, result._r == shape[0] and result._c == shape[1])",
                 "shape_inferred": f"implies(shape is None, result._c == len(hye_list) and result._r >= 0 and all(implies({IN('n', 'c')}, n < result._r) for c in Int for n in Node) "
                                   f"and (result._r == 0 or any({IN('n', 'c')} and n == result._r - 1 for c in Int for n in Node)))"},
             invariants={0: {
                 "len": "len(rows) == len(columns) and len(rows) >= 0",
                 "sound": "all(implies(0 <= q and q < len(rows), 0 <= columns[q] and columns[q] < _j0 and rows[q] in hye_list[columns[q]]) for q in Int)",
                 "chosen": "all(implies(0 <= q and q < len(rows), cpos(rows, columns, rows[q], columns[q]) == q) for q in Int)",
                 "complete": f"all(implies(0 <= c and c < _j0 and n in hye_list[c], 0 <= {CP} and {CP} < len(rows) and rows[{CP}] == n and columns[{CP}] == c) "
                             "for c in Int for n in Node if trig(n in hye_list[c]))"}},
             note="binary incidence of a list of index tuples: indicator of membership, one coordinate per (node, column) pair"),
    # the node mapping: Hypergraph.get_mapping fits a fresh encoder on the node list
    Contract("Hypergraph.get_mapping", H.FILE, ["Hypergraph", "get_mapping"], self_cls="Hypergraph", properties=["C09"],
             params={}, result="Obj[LabelEnc]", pure=True, requires={"wf": "wf(self)"},
             ensures={"labels": "all((n in result._enc) == (n in V(self)) for n in Node)", "bijection": "enc_ok(result)"}),
    Contract("DirectedHypergraph.get_mapping", "hypergraphx/core/directed_hypergraph.py", ["DirectedHypergraph", "get_mapping"], self_cls="DirectedHypergraph",
             properties=["C09"], params={}, result="Obj[LabelEnc]", pure=True, requires={"wf": "wf(self)"},
             ensures={"labels": "all((n in result._enc) == (n in V(self)) for n in Node)", "bijection": "enc_ok(result)"}),
    Contract("TemporalHypergraph.get_mapping", "hypergraphx/core/temporal_hypergraph.py", ["TemporalHypergraph", "get_mapping"], self_cls="TemporalHypergraph",
             properties=["C09"], params={}, result="Obj[LabelEnc]", pure=True, requires={"wf": "wf(self)"},
             ensures={"labels": "all((n in result._enc) == (n in V(self)) for n in Node)", "bijection": "enc_ok(result)"}),
    Contract("get_inverse_mapping", "hypergraphx/utils/labeling.py", ["get_inverse_mapping"], properties=["C09"],
             params={"mapping": "Obj[LabelEnc]"}, result="Map[Int,Int]", pure=True, requires={"fitted": "enc_ok(mapping)"},
             ensures={"dom": "all((i in result) == (i in mapping._inv) for i in Int)", "val": "all(result[i] == mapping._inv[i] for i in result)"}),
]


def _bim(tag, fixed, result, ens):
    L = 'local("_listed0")'
    M = "result[1]" if fixed else None
    mat = "result[0]" if fixed else "result"
    ensures = {
        "shape": f"{mat}._r == card(V(hypergraph)) and {mat}._c == card(E(hypergraph))",
        "cells": f"all((pair(a, b) in {mat}._m) == (0 <= a and a < {mat}._r and 0 <= b and b < {mat}._c) for a in Int for b in Int)",
        # the columns: the hyperedges in the order get_edges() handed them out, every one once
        "columns": f"len({L}) == card(E(hypergraph)) and all(implies(0 <= c and c < len({L}), {L}[c] in E(hypergraph)) for c in Int) "
                   f"and all(0 <= seqpos({L}, k) and seqpos({L}, k) < len({L}) and {L}[seqpos({L}, k)] == k for k in E(hypergraph))",
    }
    ensures.update(ens(L, mat, M))
    return Contract(f"binary_incidence_matrix{tag}", FILE, ["binary_incidence_matrix"], properties=["C09"],
                    params={"hypergraph": "Obj[Hypergraph]", "return_mapping": "Bool"}, fixed={"return_mapping": fixed}, result=result, pure=True,
                    options=["listing_bags", "staged_ensures"], locals={"_listed0": "Seq[Tup]", "encoder": "Obj[LabelEnc]"},
                    requires={"wf": "wf(hypergraph)"}, ensures=ensures,
                    note="entry (i, e) is 1 exactly when the node numbered i belongs to the e-th hyperedge of get_edges(); the mapping numbers the nodes bijectively")


ENTRIES_PLAIN = lambda L, mat, M: {      # without the mapping in the result the numbering is spoken of through the local encoder
    "entries": f"all({mat}._m[pair(i, c)] == (1 if 0 <= c and c < len({L}) and i in local('encoder')._inv and local('encoder')._inv[i] in {L}[c] else 0) for c in Int for i in Int)",
    "numbering": "enc_ok(local('encoder')) and all((n in local('encoder')._enc) == (n in V(hypergraph)) for n in Node)"}

CONTRACTS += [
    _bim("", False, "Obj[NpArray2]", ENTRIES_PLAIN),
    _bim("@mapping", True, "Multi[Obj[NpArray2],Map[Int,Int]]", lambda L, mat, M: {
        "mapping_dom": f"all((i in {M}) == (0 <= i and i < card(V(hypergraph))) for i in Int)",
        "mapping_nodes": f"all({M}[i] in V(hypergraph) for i in {M})",
        "mapping_injective": f"all(implies({M}[i] == {M}[i2], i == i2) for i in {M} for i2 in {M})",
        "mapping_onto": f"all(any(i in {M} and {M}[i] == n for i in Int) for n in V(hypergraph))",
        "entries": f"all({mat}._m[pair(i, c)] == (1 if 0 <= c and c < len({L}) and i in {M} and {M}[i] in {L}[c] else 0) for c in Int for i in Int)",
        # the same without the callee's enumeration (what a caller gets): every hyperedge has a column, every column is a hyperedge's
        "binary": f"all({mat}._m[pair(i, c)] == 0 or {mat}._m[pair(i, c)] == 1 for c in Int for i in Int)",
        "column_at": f"all(is_column({mat}, {M}, seqpos({L}, k), k) for k in E(hypergraph))",
        "column_of": f"all(any(0 <= c and c < {mat}._c and is_column({mat}, {M}, c, k) for c in Int) for k in E(hypergraph))",
        # (spoken of through the cells, which gives the quantifier a term to be matched on; a table without rows has no columns either)
        "columns_only": f"all(implies(pair(i, c) in {mat}._m, any(k in E(hypergraph) and is_column({mat}, {M}, c, k) for k in Tuple)) for c in Int for i in Int)"}),
]



# the methods of Hypergraph delegate to the module function
for _tag, _fixed, _res in (("", False, "Obj[NpArray2]"), ("@mapping", True, "Multi[Obj[NpArray2],Map[Int,Int]]")):
    _c = [c for c in CONTRACTS if c.qual == f"binary_incidence_matrix{_tag}"][0]
    _sub = lambda t: t.replace("hypergraph", "self")       # noqa: E731
    if _fixed:       # the numbering is in the result; the column order is that of the callee's enumeration, not observable here beyond the mapping
        _ens = {k: _sub(v) for k, v in _c.ensures.items() if k.startswith("mapping_") or k in ("shape", "cells", "binary", "column_of", "columns_only")}
    else:
        _ens = {"shape": _sub(_c.ensures["shape"]), "cells": _sub(_c.ensures["cells"])}
    CONTRACTS.append(Contract(f"Hypergraph.binary_incidence_matrix{_tag}", H.FILE, ["Hypergraph", "binary_incidence_matrix"], self_cls="Hypergraph", properties=["C09"],
                              params={"return_mapping": "Bool"}, fixed={"return_mapping": _fixed}, result=_res, pure=True,
                              requires={"wf": "wf(self)"}, ensures=_ens))
