"""Contracts for hypergraphx/representations/projections.py (C10).

networkx graphs are modelled by the ASSUMED contract of the library class (hv/pyvc/calls.py `nx_new` / `nx_method`): a graph over integer
vertices is (vertex set, set of ordered pairs, `weight` attribute per pair); `nx.Graph.add_edge(u, v)` adds u, v to the vertex set and both
orientations of the link, `nx.DiGraph.add_edge(u, v)` adds the arc u -> v only. Other attributes (`bipartite=`) are not modelled.
Specification views: GV(g) vertex set, LINK(g, a, b) the pair (a, b) is present, HASW / GW weight attribute of the pair.
"""
import z3
from ..pyvc import ty as T
from ..pyvc import theory as TH
from ..pyvc.engine import Contract, Layout

FILE = "hypergraphx/representations/projections.py"
_PT = T.Pair(T.INT, T.INT)
NXFIELDS = {"_gv": "Set[Int]", "_ge": "Set[Pair[Int,Int]]", "_gw": "Map[Pair[Int,Int],Real]"}
NXVIEWS = {
    "GV": lambda eng, p, g: g.fields["_gv"],
    "LINK": lambda eng, p, g, a, b: T.sv_bool(g.fields["_ge"].t[_PT.mk(eng.coerce(a, T.INT).t, eng.coerce(b, T.INT).t)]),
    "HASW": lambda eng, p, g, a, b: T.sv_bool(g.fields["_gw"].dom[_PT.mk(eng.coerce(a, T.INT).t, eng.coerce(b, T.INT).t)]),
    "GW": lambda eng, p, g, a, b: T.sv_real(g.fields["_gw"].val[_PT.mk(eng.coerce(a, T.INT).t, eng.coerce(b, T.INT).t)]),
}
LAYOUTS = [Layout("NxGraph", NXFIELDS, views=NXVIEWS), Layout("NxDiGraph", NXFIELDS, views=NXVIEWS),
           # 2-D numpy array of floats (np.zeros((r, c)), a[i, j], a.flatten()): cells, number of rows, number of columns
           Layout("NpArray2", {"_m": "Map[Pair[Int,Int],Real]", "_r": "Int", "_c": "Int"})]

# position of a member in a tuple (k.index(n)): a specification function, scoped to the queries that mention it
TIDX = z3.Function("tidx", T.TupS, T.I, T.I)
_k, _n, _j = z3.Const("_pk", T.TupS), z3.Int("_pn"), z3.Int("_pj")
# No axiom below creates a term that re-triggers it: tidx_def fires only on positions the specification mentions, tat_inj creates no term.
TH.EXTRA["tidx_def (tuple.index: a member has a position)"] = z3.ForAll(
    [_k, _n], z3.Implies(TH.tmem(_k, _n), z3.And(0 <= TIDX(_k, _n), TIDX(_k, _n) < TH.tlen(_k), TH.tat(_k, TIDX(_k, _n)) == _n)),
    patterns=[TIDX(_k, _n)])
_x, _y = z3.Int("_px"), z3.Int("_py")
TH.EXTRA["tat_inj (a duplicate-free tuple holds different elements at different positions; stated with tidx so that it is scoped)"] = z3.ForAll(
    [_k, _x, _y], z3.Implies(z3.And(TH.distinct_t(_k), 0 <= _x, _x < TH.tlen(_k), 0 <= _y, _y < TH.tlen(_k), TH.tat(_k, _x) == TH.tat(_k, _y),
                                    TIDX(_k, TH.tat(_k, _x)) == TIDX(_k, TH.tat(_k, _x))), _x == _y),
    patterns=[z3.MultiPattern(TH.tat(_k, _x), TH.tat(_k, _y), TH.distinct_t(_k))])
NXVIEWS["tindex"] = lambda eng, p, g, k, n: T.sv_int(TIDX(k.t, eng.coerce(n, T.INT).t))

DONE1 = "any(count(_done1, k) >= 1 and a in k and b in k for k in Tuple)"
VDONE1 = "any(count(_done1, k) >= 1 and n in k and len(k) >= 2 for k in Tuple)"
VB = "(keep_isolated and n in V(h))"
NOW = "all(not HASW(g, a, b) for a in Node for b in Node)"
TA, TB, TN = "tindex(g, edge, a)", "tindex(g, edge, b)", "tindex(g, edge, n)"
# links: sound (every link is justified) and complete (every justified link is there), stated separately so that no existential sits under an iff
L1S = f"all(implies(LINK(g, a, b), a != b and {DONE1}) for a in Node for b in Node)"
L1C = "all(implies(count(_done1, k) >= 1 and a in k and b in k and a != b, LINK(g, a, b)) for k in Tuple for a in Node for b in Node)"
V1S = f"all(implies(n in GV(g), {VB} or {VDONE1}) for n in Node)"
V1C = "all(implies(count(_done1, k) >= 1 and n in k and len(k) >= 2, n in GV(g)) for k in Tuple for n in Node)"
V1K = "implies(keep_isolated, all(n in GV(g) for n in V(h)))"
# the pairs of the current hyperedge linked so far, by the positions of the two nodes: rows < i completely, row i up to column _j3
IN2 = f"(a in edge and b in edge and a != b and ({TA} < _j2 or {TB} < _j2))"
IN3 = f"(a in edge and b in edge and a != b and ({TA} < i or {TB} < i or ({TA} == i and {TB} < _j3) or ({TB} == i and {TA} < _j3)))"
EDGE_OK = "strict(edge) and edge in E(h)"

SHARE = "any(k in E(h) and a in k and b in k for k in Tuple)"
CONTRACTS = [
    # two nodes are joined exactly when some hyperedge contains both; with keep_isolated every node is a vertex, otherwise exactly the nodes
    # of hyperedges of size >= 2 (nx.Graph.add_edge creates its end points)
    Contract("clique_projection", FILE, ["clique_projection"], properties=["C10"],
             params={"h": "Obj[Hypergraph]", "keep_isolated": "Bool"}, result="Obj[NxGraph]", pure=True,
             requires={"wf": "wf(h)"},
             ensures={"links": f"all(LINK(result, a, b) == (a != b and {SHARE}) for a in Node for b in Node)",
                      "vertices": "all((n in GV(result)) == ((keep_isolated and n in V(h)) or any(k in E(h) and n in k and len(k) >= 2 for k in Tuple)) for n in Node)",
                      "unweighted": "all(not HASW(result, a, b) for a in Node for b in Node)"},
             invariants={
                 0: {"kept": "all((n in GV(g)) == (n in _done0) for n in Node)", "nolinks": "all(not LINK(g, a, b) for a in Node for b in Node)",
                     "noweights": NOW.replace("(g,", "(g,")},
                 1: {"links_sound": L1S, "links_complete": L1C, "vertices_sound": V1S, "vertices_complete": V1C, "vertices_kept": V1K, "noweights": NOW},
                 2: {"edge": EDGE_OK,
                     "links_sound": f"all(implies(LINK(g, a, b), a != b and ({DONE1} or {IN2})) for a in Node for b in Node)",
                     "links_done": L1C, "links_rows": f"all(implies({IN2}, LINK(g, a, b)) for a in Node for b in Node)",
                     "vertices_sound": f"all(implies(n in GV(g), {VB} or {VDONE1} or (_j2 >= 1 and n in edge)) for n in Node)",
                     "vertices_done": V1C, "vertices_kept": V1K,
                     "vertices_rows": "implies(_j2 >= 1, all(n in GV(g) for n in edge))",
                     "noweights": NOW},
                 3: {"edge": EDGE_OK,
                     "links_sound": f"all(implies(LINK(g, a, b), a != b and ({DONE1} or {IN3})) for a in Node for b in Node)",
                     "links_done": L1C, "links_rows": f"all(implies({IN3}, LINK(g, a, b)) for a in Node for b in Node)",
                     "vertices_sound": f"all(implies(n in GV(g), {VB} or {VDONE1} or (i >= 1 and n in edge) or (_j3 > i + 1 and n in edge and i <= {TN} and {TN} < _j3)) for n in Node)",
                     "vertices_done": V1C, "vertices_kept": V1K,
                     "vertices_rows": "implies(i >= 1, all(n in GV(g) for n in edge))",
                     "vertices_row": f"implies(_j3 > i + 1, all(implies(n in edge and i <= {TN} and {TN} < _j3, n in GV(g)) for n in Node))",
                     "noweights": NOW},
             }),
]

# ---- directed line graph: one vertex per hyperedge (numbered through the returned id table), an arc e -> f exactly when e != f and the
# target set of e and the source set of f share at least s nodes; with weighted=True the arc carries that number as weight
IDS = "result[1]"
OVER = "card({x for x in Node if x in snd(%s) and x in fst(%s)})"
ARC_R = f"(result[1][i] != result[1][j] and {OVER % ('result[1][i]', 'result[1][j]')} >= s)"
ARC_L = f"(id_to_edge[i] != id_to_edge[j] and {OVER % ('id_to_edge[i]', 'id_to_edge[j]')} >= s)"
TABLE = {"dom": "all((i in id_to_edge) == (0 <= i and i < cont) for i in Int)",
         "cont": "cont == len(_done0)",
         "e2i_dom": "all((k in edge_to_id) == (count(_done0, k) >= 1) for k in Key)",
         "inv1": "all(id_to_edge[edge_to_id[k]] == k and 0 <= edge_to_id[k] and edge_to_id[k] < cont for k in edge_to_id)",
         "inv2": "all(edge_to_id[id_to_edge[i]] == i and id_to_edge[i] in edge_to_id for i in id_to_edge)"}
FINAL_TABLE = {"dom": "all((i in id_to_edge) == (0 <= i and i < card(E(h))) for i in Int)",
               "e2i_dom": "all((k in edge_to_id) == (k in E(h)) for k in Key)",
               "inv1": "all(id_to_edge[edge_to_id[k]] == k and 0 <= edge_to_id[k] and edge_to_id[k] < card(E(h)) for k in edge_to_id)",
               "inv2": "all(edge_to_id[id_to_edge[i]] == i and id_to_edge[i] in edge_to_id for i in id_to_edge)",
               "vertices": "all((i in GV(g)) == (0 <= i and i < card(E(h))) for i in Int)"}
CONTRACTS += [
    Contract("directed_line_graph@intersection", FILE, ["directed_line_graph"], properties=["C10"],
             params={"h": "Obj[DirectedHypergraph]", "distance": "Str", "s": "Int", "weighted": "Bool"}, fixed={"distance": "intersection"},
             result="Multi[Obj[NxDiGraph],Map[Int,Pair[Tup,Tup]]]", pure=True,
             locals={"edge_to_id": "Map[Pair[Tup,Tup],Int]", "id_to_edge": "Map[Int,Pair[Tup,Tup]]"},
             requires={"wf": "wf(h)"},
             ensures={"ids_dom": f"all((i in {IDS}) == (0 <= i and i < card(E(h))) for i in Int)",
                      "ids_edges": f"all({IDS}[i] in E(h) for i in {IDS})",
                      "ids_injective": f"all(implies(i in {IDS} and j in {IDS} and {IDS}[i] == {IDS}[j], i == j) for i in Int for j in Int)",
                      "ids_onto": f"all(any(i in {IDS} and {IDS}[i] == k for i in Int) for k in E(h))",
                      "vertices": "all((i in GV(result[0])) == (0 <= i and i < card(E(h))) for i in Int)",
                      "arcs_sound": f"all(implies(LINK(result[0], i, j), i in {IDS} and j in {IDS} and {ARC_R}) for i in Int for j in Int)",
                      "arcs_complete": f"all(implies(i in {IDS} and j in {IDS} and {ARC_R}, LINK(result[0], i, j)) for i in Int for j in Int)",
                      "weights": f"all(implies(LINK(result[0], i, j), HASW(result[0], i, j) == weighted and implies(weighted, GW(result[0], i, j) == real({OVER % ('result[1][i]', 'result[1][j]')}))) for i in Int for j in Int)"},
             invariants={
                 0: TABLE,
                 1: {**FINAL_TABLE, "noweight": "all(implies(not LINK(g, i, j), not HASW(g, i, j)) for i in Int for j in Int)",
                     "arcs_sound": f"all(implies(LINK(g, i, j), i in id_to_edge and j in id_to_edge and count(_done1, id_to_edge[i]) >= 1 and {ARC_L}) for i in Int for j in Int)",
                     "arcs_complete": f"all(implies(i in id_to_edge and j in id_to_edge and count(_done1, id_to_edge[i]) >= 1 and {ARC_L}, LINK(g, i, j)) for i in Int for j in Int)",
                     "weights": f"all(implies(LINK(g, i, j), HASW(g, i, j) == weighted and implies(weighted, GW(g, i, j) == real({OVER % ('id_to_edge[i]', 'id_to_edge[j]')}))) for i in Int for j in Int)"},
                 2: {**FINAL_TABLE, "edge1": "edge1 in E(h) and count(_done1, edge1) == 0",
                     "noweight": "all(implies(not LINK(g, i, j), not HASW(g, i, j)) for i in Int for j in Int)",
                     "arcs_sound": f"all(implies(LINK(g, i, j), i in id_to_edge and j in id_to_edge and (count(_done1, id_to_edge[i]) >= 1 or (id_to_edge[i] == edge1 and count(_done2, id_to_edge[j]) >= 1)) and {ARC_L}) for i in Int for j in Int)",
                     "arcs_complete": f"all(implies(i in id_to_edge and j in id_to_edge and (count(_done1, id_to_edge[i]) >= 1 or (id_to_edge[i] == edge1 and count(_done2, id_to_edge[j]) >= 1)) and {ARC_L}, LINK(g, i, j)) for i in Int for j in Int)",
                     "weights": f"all(implies(LINK(g, i, j), HASW(g, i, j) == weighted and implies(weighted, GW(g, i, j) == real({OVER % ('id_to_edge[i]', 'id_to_edge[j]')}))) for i in Int for j in Int)"},
             }),
]
