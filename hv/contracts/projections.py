"""Contracts for hypergraphx/representations/projections.py (C10).

networkx graphs are modelled by the ASSUMED contract of the library class (hv/pyvc/calls.py `nx_new` / `nx_method`): a graph over integer
vertices is (vertex set, set of ordered pairs, `weight` attribute per pair); `nx.Graph.add_edge(u, v)` adds u, v to the vertex set and both
orientations of the link, `nx.DiGraph.add_edge(u, v)` adds the arc u -> v only. Other attributes (`bipartite=`) are not modelled.
Specification views: GV(g) vertex set, LINK(g, a, b) the pair (a, b) is present, HASW / GW weight attribute of the pair.
"""
import z3
from ..pyvc import ty as T
from ..pyvc import theory as TH
from ..pyvc.engine import Contract, Layout

FILE = "hypergraphx/representations/projections.py"
_PT = T.Pair(T.INT, T.INT)
NXFIELDS = {"_gv": "Set[Int]", "_ge": "Set[Pair[Int,Int]]", "_gw": "Map[Pair[Int,Int],Real]"}
def _pk(eng, g, a, b):
    vt = g.fields["_gv"].ty.e
    return T.Pair(vt, vt).mk(eng.coerce(a, vt).t, eng.coerce(b, vt).t)


NXVIEWS = {
    "GV": lambda eng, p, g: g.fields["_gv"],
    "LINK": lambda eng, p, g, a, b: T.sv_bool(g.fields["_ge"].t[_pk(eng, g, a, b)]),
    "HASW": lambda eng, p, g, a, b: T.sv_bool(g.fields["_gw"].dom[_pk(eng, g, a, b)]),
    "GW": lambda eng, p, g, a, b: T.sv_real(g.fields["_gw"].val[_pk(eng, g, a, b)]),
}
NXSFIELDS = {"_gv": "Set[VName]", "_ge": "Set[Pair[VName,VName]]", "_gw": "Map[Pair[VName,VName],Real]"}
LAYOUTS = [Layout("NxGraph", NXFIELDS, views=NXVIEWS), Layout("NxDiGraph", NXFIELDS, views=NXVIEWS),
           Layout("NxGraphS", NXSFIELDS, views=NXVIEWS)]       # a graph whose vertices are the vertex names of the bipartite projection

# position of a member in a tuple (k.index(n)): a specification function, scoped to the queries that mention it
TIDX = z3.Function("tidx", T.TupS, T.I, T.I)
_k, _n, _j = z3.Const("_pk", T.TupS), z3.Int("_pn"), z3.Int("_pj")
# No axiom below creates a term that re-triggers it: tidx_def fires only on positions the specification mentions, tat_inj creates no term.
TH.EXTRA["tidx_def (tuple.index: a member has a position)"] = z3.ForAll(
    [_k, _n], z3.Implies(TH.tmem(_k, _n), z3.And(0 <= TIDX(_k, _n), TIDX(_k, _n) < TH.tlen(_k), TH.tat(_k, TIDX(_k, _n)) == _n)),
    patterns=[TIDX(_k, _n)])
_x, _y = z3.Int("_px"), z3.Int("_py")
TH.EXTRA["tat_inj (a duplicate-free tuple holds different elements at different positions; stated with tidx so that it is scoped)"] = z3.ForAll(
    [_k, _x, _y], z3.Implies(z3.And(TH.distinct_t(_k), 0 <= _x, _x < TH.tlen(_k), 0 <= _y, _y < TH.tlen(_k), TH.tat(_k, _x) == TH.tat(_k, _y),
                                    TIDX(_k, TH.tat(_k, _x)) == TIDX(_k, TH.tat(_k, _x))), _x == _y),
    patterns=[z3.MultiPattern(TH.tat(_k, _x), TH.tat(_k, _y), TH.distinct_t(_k))])
# common(k1, k2) = |set(k1) & set(k2)| as the specification term scommon(tset(k1), tset(k2)) (hv/pyvc/theory.py, hv/contracts/similarity.py):
# the value `intersection(set(e_i), set(e_j))` returns by its contract, so no cardinality reasoning is needed in the projection's own proof
NXVIEWS["jacc"] = lambda eng, p, g, k1, k2: T.sv_real(TH.sjaccard(TH.tset(k1.t), TH.tset(k2.t)))
NXVIEWS["common"] = lambda eng, p, g, k1, k2: T.sv_int(TH.scommon(TH.tset(k1.t), TH.tset(k2.t)))
def _cent(kind):
    return lambda eng, p, g: T.sv_map(g.fields["_gv"].ty.e, T.REAL, g.fields["_gv"].t, TH.nx_centrality(kind, g.ty.cls, g.fields["_gv"].ty.e)(
        g.fields["_gv"].t, g.fields["_ge"].t, g.fields["_gw"].dom, g.fields["_gw"].val))


NXVIEWS["BC"] = _cent("betweenness_centrality")      # nx.betweenness_centrality(g) / nx.closeness_centrality(g) as specification terms
NXVIEWS["CC"] = _cent("closeness_centrality")
NXVIEWS["pairkey"] = lambda eng, p, g, a, b: T.scalar(T.TUP, TH.canon(TH.tpair(eng.coerce(a, T.INT).t, eng.coerce(b, T.INT).t)))   # tuple(sorted((a, b)))
def _bpos(eng, p, g, d, k, x):
    """d[k].index(x) for a dict d of lists; mentioning it puts the enumeration facts of d[k] on the path (k must not be a bound variable)"""
    mv, kk = eng.bag_enum(d, eng.coerce(k, d.ty.k), p)
    return T.sv_int(eng.bag_fns(d.ty)[1](mv, kk, x.t))


NXVIEWS["bpos"] = _bpos
NXVIEWS["tindex"] = lambda eng, p, g, k, n: T.sv_int(TIDX(k.t, eng.coerce(n, T.INT).t))

DONE1 = "any(count(_done1, k) >= 1 and a in k and b in k for k in Tuple)"
VDONE1 = "any(count(_done1, k) >= 1 and n in k and len(k) >= 2 for k in Tuple)"
VB = "(keep_isolated and n in V(h))"
NOW = "all(not HASW(g, a, b) for a in Node for b in Node)"
TA, TB, TN = "tindex(g, edge, a)", "tindex(g, edge, b)", "tindex(g, edge, n)"
# links: sound (every link is justified) and complete (every justified link is there), stated separately so that no existential sits under an iff
L1S = f"all(implies(LINK(g, a, b), a != b and {DONE1}) for a in Node for b in Node)"
L1C = "all(implies(count(_done1, k) >= 1 and a in k and b in k and a != b, LINK(g, a, b)) for k in Tuple for a in Node for b in Node)"
V1S = f"all(implies(n in GV(g), {VB} or {VDONE1}) for n in Node)"
V1C = "all(implies(count(_done1, k) >= 1 and n in k and len(k) >= 2, n in GV(g)) for k in Tuple for n in Node)"
V1K = "implies(keep_isolated, all(n in GV(g) for n in V(h)))"
# the pairs of the current hyperedge linked so far, by the positions of the two nodes: rows < i completely, row i up to column _j3
IN2 = f"(a in edge and b in edge and a != b and ({TA} < _j2 or {TB} < _j2))"
IN3 = f"(a in edge and b in edge and a != b and ({TA} < i or {TB} < i or ({TA} == i and {TB} < _j3) or ({TB} == i and {TA} < _j3)))"
EDGE_OK = "strict(edge) and edge in E(h)"

SHARE = "any(k in E(h) and a in k and b in k for k in Tuple)"
CONTRACTS = [
    # two nodes are joined exactly when some hyperedge contains both; with keep_isolated every node is a vertex, otherwise exactly the nodes
    # of hyperedges of size >= 2 (nx.Graph.add_edge creates its end points)
    Contract("clique_projection", FILE, ["clique_projection"], properties=["C10"],
             params={"h": "Obj[Hypergraph]", "keep_isolated": "Bool"}, result="Obj[NxGraph]", pure=True,
             requires={"wf": "wf(h)"},
             ensures={"links": f"all(LINK(result, a, b) == (a != b and {SHARE}) for a in Node for b in Node)",
                      "vertices": "all((n in GV(result)) == ((keep_isolated and n in V(h)) or any(k in E(h) and n in k and len(k) >= 2 for k in Tuple)) for n in Node)",
                      "unweighted": "all(not HASW(result, a, b) for a in Node for b in Node)"},
             invariants={
                 0: {"kept": "all((n in GV(g)) == (n in _done0) for n in Node)", "nolinks": "all(not LINK(g, a, b) for a in Node for b in Node)",
                     "noweights": NOW.replace("(g,", "(g,")},
                 1: {"links_sound": L1S, "links_complete": L1C, "vertices_sound": V1S, "vertices_complete": V1C, "vertices_kept": V1K, "noweights": NOW},
                 2: {"edge": EDGE_OK,
                     "links_sound": f"all(implies(LINK(g, a, b), a != b and ({DONE1} or {IN2})) for a in Node for b in Node)",
                     "links_done": L1C, "links_rows": f"all(implies({IN2}, LINK(g, a, b)) for a in Node for b in Node)",
                     "vertices_sound": f"all(implies(n in GV(g), {VB} or {VDONE1} or (_j2 >= 1 and n in edge)) for n in Node)",
                     "vertices_done": V1C, "vertices_kept": V1K,
                     "vertices_rows": "implies(_j2 >= 1, all(n in GV(g) for n in edge))",
                     "noweights": NOW},
                 3: {"edge": EDGE_OK,
                     "links_sound": f"all(implies(LINK(g, a, b), a != b and ({DONE1} or {IN3})) for a in Node for b in Node)",
                     "links_done": L1C, "links_rows": f"all(implies({IN3}, LINK(g, a, b)) for a in Node for b in Node)",
                     "vertices_sound": f"all(implies(n in GV(g), {VB} or {VDONE1} or (i >= 1 and n in edge) or (_j3 > i + 1 and n in edge and i <= {TN} and {TN} < _j3)) for n in Node)",
                     "vertices_done": V1C, "vertices_kept": V1K,
                     "vertices_rows": "implies(i >= 1, all(n in GV(g) for n in edge))",
                     "vertices_row": f"implies(_j3 > i + 1, all(implies(n in edge and i <= {TN} and {TN} < _j3, n in GV(g)) for n in Node))",
                     "noweights": NOW},
             }),
]

# ---- directed line graph: one vertex per hyperedge (numbered through the returned id table), an arc e -> f exactly when e != f and the
# target set of e and the source set of f share at least s nodes; with weighted=True the arc carries that number as weight
IDS = "result[1]"
TABLE = {"dom": "all((i in id_to_edge) == (0 <= i and i < cont) for i in Int)",
         "cont": "cont == len(_done0)",
         "e2i_dom": "all((k in edge_to_id) == (count(_done0, k) >= 1) for k in Key)",
         "inv1": "all(id_to_edge[edge_to_id[k]] == k and 0 <= edge_to_id[k] and edge_to_id[k] < cont for k in edge_to_id)",
         "inv2": "all(edge_to_id[id_to_edge[i]] == i and id_to_edge[i] in edge_to_id for i in id_to_edge if trig(id_to_edge[i]))"}
FINAL_TABLE = {"dom": "all((i in id_to_edge) == (0 <= i and i < card(E(h))) for i in Int)",
               "e2i_dom": "all((k in edge_to_id) == (k in E(h)) for k in Key)",
               "inv1": "all(id_to_edge[edge_to_id[k]] == k and 0 <= edge_to_id[k] and edge_to_id[k] < card(E(h)) for k in edge_to_id)",
               "inv2": "all(edge_to_id[id_to_edge[i]] == i and id_to_edge[i] in edge_to_id for i in id_to_edge if trig(id_to_edge[i]))",
               "vertices": "all((i in GV(g)) == (0 <= i and i < card(E(h))) for i in Int)"}


def _directed_line_graph(distance, measure, wt, sty):
    over_r = f"{measure}(result[0], snd(result[1][i]), fst(result[1][j]))"
    over_l = f"{measure}(g, snd(id_to_edge[i]), fst(id_to_edge[j]))"
    arc_r = f"(result[1][i] != result[1][j] and {over_r} >= s)"
    arc_l = f"(id_to_edge[i] != id_to_edge[j] and {over_l} >= s)"
    wl = f"all(implies(LINK(g, i, j), HASW(g, i, j) == weighted and implies(weighted, GW(g, i, j) == {wt.format(inter=over_l)})) for i in Int for j in Int)"
    nw = "all(implies(not LINK(g, i, j), not HASW(g, i, j)) for i in Int for j in Int)"
    return Contract(f"directed_line_graph@{distance}", FILE, ["directed_line_graph"], properties=["C10"], options={"tuple_sets"},
             params={"h": "Obj[DirectedHypergraph]", "distance": "Str", "s": sty, "weighted": "Bool"}, fixed={"distance": distance},
             result="Multi[Obj[NxDiGraph],Map[Int,Pair[Tup,Tup]]]", pure=True,
             locals={"edge_to_id": "Map[Pair[Tup,Tup],Int]", "id_to_edge": "Map[Int,Pair[Tup,Tup]]"},
             requires={"wf": "wf(h)"},
             ensures={"ids_dom": f"all((i in {IDS}) == (0 <= i and i < card(E(h))) for i in Int)",
                      "ids_edges": f"all({IDS}[i] in E(h) for i in {IDS})",
                      "ids_injective": f"all(implies(i in {IDS} and j in {IDS} and {IDS}[i] == {IDS}[j], i == j) for i in Int for j in Int)",
                      "ids_onto": f"all(any(i in {IDS} and {IDS}[i] == k for i in Int) for k in E(h))",
                      "vertices": "all((i in GV(result[0])) == (0 <= i and i < card(E(h))) for i in Int)",
                      "arcs_sound": f"all(implies(LINK(result[0], i, j), i in {IDS} and j in {IDS} and {arc_r}) for i in Int for j in Int)",
                      "arcs_complete": f"all(implies(i in {IDS} and j in {IDS} and {arc_r}, LINK(result[0], i, j)) for i in Int for j in Int)",
                      "weights": f"all(implies(LINK(result[0], i, j), HASW(result[0], i, j) == weighted and implies(weighted, GW(result[0], i, j) == {wt.format(inter=over_r)})) for i in Int for j in Int)"},
             invariants={
                 0: TABLE,
                 1: {**FINAL_TABLE, "noweight": nw,
                     "arcs_sound": f"all(implies(LINK(g, i, j), i in id_to_edge and j in id_to_edge and count(_done1, id_to_edge[i]) >= 1 and {arc_l}) for i in Int for j in Int)",
                     "arcs_complete": f"all(implies(i in id_to_edge and j in id_to_edge and count(_done1, id_to_edge[i]) >= 1 and {arc_l}, LINK(g, i, j)) for i in Int for j in Int)",
                     "weights": wl},
                 2: {**FINAL_TABLE, "edge1": "edge1 in E(h) and count(_done1, edge1) == 0", "noweight": nw,
                     "arcs_sound": f"all(implies(LINK(g, i, j), i in id_to_edge and j in id_to_edge and (count(_done1, id_to_edge[i]) >= 1 or (id_to_edge[i] == edge1 and count(_done2, id_to_edge[j]) >= 1)) and {arc_l}) for i in Int for j in Int)",
                     "arcs_complete": f"all(implies(i in id_to_edge and j in id_to_edge and (count(_done1, id_to_edge[i]) >= 1 or (id_to_edge[i] == edge1 and count(_done2, id_to_edge[j]) >= 1)) and {arc_l}, LINK(g, i, j)) for i in Int for j in Int)",
                     "weights": wl},
             })


# an arc e -> f exactly when e != f and the similarity of the target set of e and the source set of f is at least s; with weighted=True the
# arc carries that value as weight
CONTRACTS += [_directed_line_graph("intersection", "common", "real({inter})", "Int"), _directed_line_graph("jaccard", "jacc", "{inter}", "Real")]

# ---- line graph (undirected): vertices 0..|E|-1 numbered through the returned id table
UTABLE = {k: v.replace("for k in Key", "for k in Tuple").replace("_done0", "_done1") for k, v in TABLE.items()}
UFINAL = {k: v.replace("for k in Key", "for k in Tuple") for k, v in FINAL_TABLE.items()}
ADJ = {"adj_dom": "all((n in adj) == (n in V(h)) for n in Node)",
       "adj_val": "all(count(adj[n], k) == (1 if k in E(h) and n in k else 0) for n in adj for k in Tuple)"}
TR = "if trig(LINK({g}, a, b))"


def _lg(ids, g, measure="common", wt="real({inter})"):
    """Clause texts of the line graph over the id table `ids` and the graph `g` (instantiated on the links the goal talks about)."""
    inter = f"{measure}({g}, {ids}[a], {ids}[b])"
    pair = f"a in {ids} and b in {ids} and a != b"
    tr = TR.format(g=g)
    return dict(inter=inter, pair=pair,
                sound=f"all(implies(LINK({g}, a, b), {pair} and any(m in {ids}[a] and m in {ids}[b] for m in Node) and {inter} >= s) for a in Int for b in Int {tr})",
                weights=f"all(implies(LINK({g}, a, b), HASW({g}, a, b) and GW({g}, a, b) == ({wt.format(inter=inter)} if weighted else 1)) for a in Int for b in Int {tr})")


_T = TR.format(g="g")
PA, PB = "bpos(g, adj, n, id_to_edge[a])", "bpos(g, adj, n, id_to_edge[b])"
HERE = "(n in id_to_edge[a] and n in id_to_edge[b])"
NOWT = f"all(implies(not LINK(g, a, b), not HASW(g, a, b)) for a in Int for b in Int {_T})"
POS_OK = "all(implies(k in E(h) and n in k, 0 <= bpos(g, adj, n, k) and bpos(g, adj, n, k) < len(adj[n]) and count(adj[n], k) == 1) for k in Tuple if trig(bpos(g, adj, n, k)))"


def _line_graph(distance, measure, wt, sty):
    """line_graph for one distance function: two hyperedges are joined exactly when they are different, share a node and their similarity is at
    least s (for the intersection size and s >= 1, and for the Jaccard index and s > 0, the middle condition follows from the last; it is what
    makes the enumeration through the per-node incidence lists complete); the link carries the similarity as weight when weighted=True and 1
    otherwise; vertices 0..|E|-1 are numbered by the returned id table.  A pair of hyperedges is examined the first time a node they share is
    visited; `vis` remembers the examined pairs."""
    R_, L_ = _lg("result[1]", "result[0]", measure, wt), _lg("id_to_edge", "g", measure, wt)
    lc2 = f"all(implies({L_['pair']} and m in _done2 and m in id_to_edge[a] and m in id_to_edge[b] and {L_['inter']} >= s, LINK(g, a, b)) for a in Int for b in Int for m in Node if trig(LINK(g, a, b), m in id_to_edge[a]))"
    lc3 = f"all(implies({L_['pair']} and {HERE} and ({PA} < _j3 or {PB} < _j3) and {L_['inter']} >= s, LINK(g, a, b)) for a in Int for b in Int {_T})"
    lc4 = f"all(implies({L_['pair']} and {HERE} and ({PA} < i or {PB} < i or ({PA} == i and {PB} < _j4) or ({PB} == i and {PA} < _j4)) and {L_['inter']} >= s, LINK(g, a, b)) for a in Int for b in Int {_T})"
    vs = f"all(implies({L_['pair']} and pairkey(g, a, b) in vis and {L_['inter']} >= s, LINK(g, a, b)) for a in Int for b in Int {_T})"
    common = {**{k: v for k, v in UFINAL.items()}, "links_sound": L_["sound"], "links_seen": vs, "weights": L_["weights"], "noweight": NOWT}
    return Contract(f"line_graph@{distance}", FILE, ["line_graph"], properties=["C10", "C20"], options={"pair_literals", "tuple_sets"},
                    params={"h": "Obj[Hypergraph]", "distance": "Str", "s": sty, "weighted": "Bool"}, fixed={"distance": distance},
                    result="Multi[Obj[NxGraph],Map[Int,Tup]]", pure=True,
                    locals={"adj": "Map[Int,Bag[Tup]]", "edge_to_id": "Map[Tup,Int]", "id_to_edge": "Map[Int,Tup]", "vis": "Map[Tup,Bool]"},
                    requires={"wf": "wf(h)"},
                    ensures={"ids_dom": f"all((i in {IDS}) == (0 <= i and i < card(E(h))) for i in Int)",
                             "ids_edges": f"all({IDS}[i] in E(h) for i in {IDS})",
                             "ids_injective": f"all(implies(i in {IDS} and j in {IDS} and {IDS}[i] == {IDS}[j], i == j) for i in Int for j in Int)",
                             "ids_onto": f"all(any(i in {IDS} and {IDS}[i] == k for i in Int) for k in E(h))",
                             "vertices": "all((i in GV(result[0])) == (0 <= i and i < card(E(h))) for i in Int)",
                             "links_sound": R_["sound"],
                             "links_complete": f"all(implies({R_['pair']} and m in {IDS}[a] and m in {IDS}[b] and {R_['inter']} >= s, LINK(result[0], a, b)) for a in Int for b in Int for m in Node if trig(LINK(result[0], a, b), m in {IDS}[a]))",
                             "weights": R_["weights"]},
                    invariants={
                        0: {"adj_dom": "all((n in adj) == (count(_done0, n) >= 1) for n in Node)", "adj_val": ADJ["adj_val"]},
                        1: UTABLE,
                        2: {**common, "links_complete": lc2},
                        3: {**common, "node": "n in adj and n not in _done2", "pos_ok": POS_OK, "links_done": lc2, "links_rows": lc3},
                        4: {**common, "node": "n in adj and n not in _done2", "pos_ok": POS_OK, "links_done": lc2, "links_rows": lc4},
                    })


CONTRACTS += [_line_graph("intersection", "common", "real({inter})", "Int"), _line_graph("jaccard", "jacc", "{inter}", "Real")]

# ------------------------------------------------------------------ hypergraphx/measures/s_centralities.py (C20)
# the s-betweenness / s-closeness of a hyperedge is the networkx centrality of its vertex in the s-line graph built by line_graph (verified
# above): every hyperedge receives exactly one value, read through the id table; networkx's centrality functions are uninterpreted
SC = "hypergraphx/measures/s_centralities.py"
LGL, IDL = 'local("lg")', 'local("id_to_edge")'
_SL = _lg(IDL, LGL)


def _s_contract(name, view):
    return Contract(name, SC, [name], properties=["C20"],
                    params={"H": "Obj[Hypergraph]", "s": "Int"}, result="Map[Tup,Real]", pure=True,
                    requires={"wf": "wf(H)"},
                    ensures={"one_value_per_hyperedge": "all((k in result) == (k in E(H)) for k in Tuple)",
                             "value": f"all(implies(i in {IDL}, result[{IDL}[i]] == {view}({LGL})[i]) for i in Int)",
                             "table": f"all((i in {IDL}) == (0 <= i and i < card(E(H))) for i in Int) and all({IDL}[i] in E(H) for i in {IDL})",
                             "vertices": f"all((i in GV({LGL})) == (i in {IDL}) for i in Int)",
                             "links_sound": _SL["sound"].replace("E(h)", "E(H)"),
                             "links_complete": f"all(implies({_SL['pair']} and m in {IDL}[a] and m in {IDL}[b] and {_SL['inter']} >= s, LINK({LGL}, a, b)) "
                                               f"for a in Int for b in Int for m in Node if trig(LINK({LGL}, a, b), m in {IDL}[a]))"})


CONTRACTS += [_s_contract("s_betweenness", "BC"), _s_contract("s_closeness", "CC")]

# ------------------------------------------------------------------ bipartite projection (C10) and the node centralities on it (C20)
# One vertex "N<i>" per node and one "E<j>" per hyperedge (vertex names are the datatype of §3.3); the returned table maps every vertex back to
# its node / hyperedge, bijectively; a hyperedge vertex and a node vertex are linked exactly when the node belongs to the hyperedge; there is
# no other link. `bipartite=` attributes are not modelled.
def _bip(t, g, cur=None):
    """link clause over the table t and graph g; with cur (name of the hyperedge being processed) its links reach the first _j2 nodes only"""
    def one(x, y):
        base = f"(is_vE({x}) and is_vN({y}) and {x} in {t} and {y} in {t} and nodeof({t}[{y}]) in edgeof({t}[{x}])"
        if cur is not None:
            base += f" and ({x} != {cur} or inprefix(nodeof({t}[{y}]), edge, _j2))"
        return base + ")"
    return f"all(LINK({g}, x, y) == ({one('x', 'y')} or {one('y', 'x')}) for x in VName for y in VName)"


def _names(nv, done_n, done_e, ne):
    """table clauses: node names below nv for the nodes satisfying done_n(n), hyperedge names below ne for the hyperedges satisfying done_e(k)"""
    return {
        "n_dom": f"all((vN(i) in id_to_obj) == (0 <= i and i < {nv}) for i in Int)",
        "n_val": f"all(implies(0 <= i and i < {nv}, is_onode(id_to_obj[vN(i)]) and {done_n('nodeof(id_to_obj[vN(i)])')} "
                 f"and onode(nodeof(id_to_obj[vN(i)])) in obj_to_id and obj_to_id[id_to_obj[vN(i)]] == vN(i)) for i in Int)",
        "n_inv": f"all(implies({done_n('n')}, onode(n) in obj_to_id and is_vN(obj_to_id[onode(n)]) and 0 <= vidx(obj_to_id[onode(n)]) "
                 f"and vidx(obj_to_id[onode(n)]) < {nv} and id_to_obj[obj_to_id[onode(n)]] == onode(n)) for n in Node)",
        "e_dom": f"all((vE(i) in id_to_obj) == (0 <= i and i < {ne}) for i in Int)",
        "e_val": f"all(implies(0 <= i and i < {ne}, is_oedge(id_to_obj[vE(i)]) and {done_e('edgeof(id_to_obj[vE(i)])')} "
                 f"and oedge(edgeof(id_to_obj[vE(i)])) in obj_to_id and obj_to_id[id_to_obj[vE(i)]] == vE(i)) for i in Int)",
        "e_inv": f"all(implies({done_e('k')}, oedge(k) in obj_to_id and is_vE(obj_to_id[oedge(k)]) and 0 <= vidx(obj_to_id[oedge(k)]) "
                 f"and vidx(obj_to_id[oedge(k)]) < {ne} and id_to_obj[obj_to_id[oedge(k)]] == oedge(k)) for k in Tuple)",
        "o2i_dom": f"all((o in obj_to_id) == ((is_onode(o) and {done_n('nodeof(o)')}) or (is_oedge(o) and {done_e('edgeof(o)')})) for o in VObj)",
        "vertices": "all((x in GV(g)) == (x in id_to_obj) for x in VName)",
        "noweights": "all(not HASW(g, x, y) for x in VName for y in VName)",
    }


TB = "result[1]"
CV, CE = "card(V(h))", "card(E(h))"
L0 = {**_names("idx", lambda n: f"count(_done0, {n}) >= 1", lambda k: "False", "0"), "idx": "idx == len(_done0)",
      "links": "all(not LINK(g, x, y) for x in VName for y in VName)"}
L1 = {**_names(CV, lambda n: f"{n} in V(h)", lambda k: f"count(_done1, {k}) >= 1", "idx"), "idx": "idx == len(_done1)", "links": _bip("id_to_obj", "g")}
L2 = {**_names(CV, lambda n: f"{n} in V(h)", lambda k: f"(count(_done1, {k}) >= 1 or {k} == edge)", "idx"), "idx": "idx == len(_done1) + 1",
      "edge": "strict(edge) and edge in E(h) and count(_done1, edge) == 0",
      "cur": "oedge(edge) in obj_to_id and obj_to_id[oedge(edge)] == vE(idx - 1)",
      "links": _bip("id_to_obj", "g", cur="vE(idx - 1)")}
CONTRACTS += [
    Contract("bipartite_projection", FILE, ["bipartite_projection"], properties=["C10", "C20"], options={"nx_strings"},
             params={"h": "Obj[Hypergraph]"}, result="Multi[Obj[NxGraphS],Map[VName,VObj]]", pure=True,
             locals={"id_to_obj": "Map[VName,VObj]", "obj_to_id": "Map[VObj,VName]"},
             requires={"wf": "wf(h)"},
             ensures={"node_names": f"all((vN(i) in {TB}) == (0 <= i and i < {CV}) for i in Int) and "
                                    f"all(implies(0 <= i and i < {CV}, is_onode({TB}[vN(i)]) and nodeof({TB}[vN(i)]) in V(h)) for i in Int)",
                      "node_names_injective": f"all(implies(0 <= i and i < {CV} and 0 <= j and j < {CV} and {TB}[vN(i)] == {TB}[vN(j)], i == j) for i in Int for j in Int)",
                      "node_names_onto": f"all(any(0 <= i and i < {CV} and {TB}[vN(i)] == onode(n) for i in Int) for n in V(h))",
                      "edge_names": f"all((vE(i) in {TB}) == (0 <= i and i < {CE}) for i in Int) and "
                                    f"all(implies(0 <= i and i < {CE}, is_oedge({TB}[vE(i)]) and edgeof({TB}[vE(i)]) in E(h)) for i in Int)",
                      "edge_names_injective": f"all(implies(0 <= i and i < {CE} and 0 <= j and j < {CE} and {TB}[vE(i)] == {TB}[vE(j)], i == j) for i in Int for j in Int)",
                      "edge_names_onto": f"all(any(0 <= i and i < {CE} and {TB}[vE(i)] == oedge(k) for i in Int) for k in E(h))",
                      "vertices": f"all((x in GV(result[0])) == (x in {TB}) for x in VName)",
                      "links": _bip(TB, "result[0]")},
             invariants={0: L0, 1: L1, 2: L2}),
]

# node versions: one value per node, namely networkx's centrality of the node's vertex "N<i>" in the bipartite projection (hyperedge vertices
# are filtered out by the letter E in their names); stated for Hypergraph arguments
LGB, IDB = 'local("lg")', 'local("id_to_edge")'


def _sn_contract(name, view):
    return Contract(name, SC, [name], properties=["C20"],
                    params={"H": "Obj[Hypergraph]"}, result="Map[VObj,Real]", pure=True,
                    requires={"wf": "wf(H)"},
                    ensures={"one_value_per_node": "all((o in result) == (is_onode(o) and nodeof(o) in V(H)) for o in VObj)",
                             "value": f"all(implies(0 <= i and i < card(V(H)), result[{IDB}[vN(i)]] == {view}({LGB})[vN(i)]) for i in Int)",
                             "names": f"all((vN(i) in {IDB}) == (0 <= i and i < card(V(H))) for i in Int) and "
                                      f"all(implies(0 <= i and i < card(V(H)), is_onode({IDB}[vN(i)]) and nodeof({IDB}[vN(i)]) in V(H)) for i in Int)",
                             "graph": _bip(IDB, LGB)})


CONTRACTS += [_sn_contract("s_betweenness_nodes", "BC"), _sn_contract("s_closeness_nodes", "CC")]
