"""Contract for hypergraphx/filters/metadata_filters.py: filter_hypergraph on a Hypergraph (C19).

`matches_criteria` (a nested helper built on a generator expression) is an uninterpreted predicate MATCH(metadata, criteria): assumed pure
and total; its body is checked in the bounded tier. Verified against it: the two-phase removal keeps exactly the nodes / hyperedges the
statement names (keep_edges=False), through the contracts of remove_node and remove_edge, and changes nothing else about the survivors.
"""
from ..pyvc.engine import Contract
from . import hypergraph as H

FILE = "hypergraphx/filters/metadata_filters.py"
MATCHN = 'helper("matches_criteria", NM(old(hypergraph), n), node_criteria)'
MATCHE = 'helper("matches_criteria", M(old(hypergraph), k), edge_criteria)'
RMN = f'(node_criteria is not None and ((mode == "keep" and not {MATCHN}) or (mode == "remove" and {MATCHN})))'
RME = f'(edge_criteria is not None and ((mode == "keep" and not {MATCHE}) or (mode == "remove" and {MATCHE})))'
MUT = ["_adj", "_edge_list", "_reverse_edge_list", "_weights", "_edge_metadata"]
KEPT = {"W_kept": "all(W(hypergraph, k) == W(old(hypergraph), k) for k in E(hypergraph))",
        "M_kept": "all(M(hypergraph, k) == M(old(hypergraph), k) for k in E(hypergraph))",
        "NM_kept": "all(NM(hypergraph, n) == NM(old(hypergraph), n) for n in V(hypergraph))",
        "weighted": "weighted(hypergraph) == weighted(old(hypergraph))"}

CONTRACTS = [
    Contract("filter_hypergraph[Hypergraph]", FILE, ["filter_hypergraph"], properties=["C19"],
             params={"hypergraph": "Obj[Hypergraph]", "node_criteria": "Opt[Meta]", "edge_criteria": "Opt[Meta]", "mode": "Str", "keep_edges": "Bool"},
             fixed={"keep_edges": False},
             locals={"nodes_to_process": "Bag[Int]", "edges_to_process": "Bag[Tup]"},
             requires={"wf": "wf(hypergraph)"},
             raises={"ValueError": 'mode != "keep" and mode != "remove"'},
             modifies_args={"hypergraph": MUT},
             ensures={
                 "wf": "wf(hypergraph)",
                 # exactly the nodes the node criteria keep ...
                 "V": f"all((n in V(hypergraph)) == (n in V(old(hypergraph)) and not {RMN}) for n in Node)",
                 # ... and exactly the hyperedges the hyperedge criteria keep that contain no removed node
                 "E": f"all((k in E(hypergraph)) == (k in E(old(hypergraph)) and all(n in V(hypergraph) for n in k) and not {RME}) for k in Tuple)",
                 **KEPT},
             invariants={
                 0: {"list": f"all(count(nodes_to_process, n) == (1 if n in _done0 and {RMN} else 0) for n in Node)"},
                 1: {"wf": "wf(hypergraph)",
                     "V": "all((n in V(hypergraph)) == (n in V(old(hypergraph)) and count(_done1, n) == 0) for n in Node)",
                     "E": "all((k in E(hypergraph)) == (k in E(old(hypergraph)) and all(count(_done1, n) == 0 for n in k)) for k in Tuple)",
                     **KEPT},
                 2: {"list": f"all(count(edges_to_process, k) == (1 if k in _done2 and {RME} else 0) for k in Tuple)"},
                 3: {"wf": "wf(hypergraph)", "V": "V(hypergraph) == pre(V(hypergraph))",
                     "E": "all((k in E(hypergraph)) == (k in pre(E(hypergraph)) and count(_done3, k) == 0) for k in Tuple)",
                     **KEPT}},
             ),
]


# ---- the same function applied to a TemporalHypergraph (records keyed (time, node tuple); removal through remove_edge(edge[1], edge[0]))
MUT_T = ["_adj", "_node_metadata", "_edge_list", "_reverse_edge_list", "_weights", "_edge_metadata"]
CONTRACTS.append(
    Contract("filter_hypergraph[TemporalHypergraph]", FILE, ["filter_hypergraph"], properties=["C19"],
             params={"hypergraph": "Obj[TemporalHypergraph]", "node_criteria": "Opt[Meta]", "edge_criteria": "Opt[Meta]", "mode": "Str", "keep_edges": "Bool"},
             fixed={"keep_edges": False},
             locals={"nodes_to_process": "Bag[Int]", "edges_to_process": "Bag[Pair[Int,Tup]]"},
             requires={"wf": "wf(hypergraph)"},
             raises={"ValueError": 'mode != "keep" and mode != "remove"'},
             modifies_args={"hypergraph": MUT_T},
             ensures={
                 "wf": "wf(hypergraph)",
                 "V": f"all((n in V(hypergraph)) == (n in V(old(hypergraph)) and not {RMN}) for n in Node)",
                 "E": f"all((k in E(hypergraph)) == (k in E(old(hypergraph)) and all(n in V(hypergraph) for n in snd(k)) and not {RME}) for k in Key)",
                 **KEPT},
             invariants={
                 0: {"list": f"all(count(nodes_to_process, n) == (1 if n in _done0 and {RMN} else 0) for n in Node)"},
                 1: {"wf": "wf(hypergraph)",
                     "V": "all((n in V(hypergraph)) == (n in V(old(hypergraph)) and count(_done1, n) == 0) for n in Node)",
                     "E": "all((k in E(hypergraph)) == (k in E(old(hypergraph)) and all(count(_done1, n) == 0 for n in snd(k))) for k in Key)",
                     **KEPT},
                 2: {"list": f"all(count(edges_to_process, k) == (1 if k in _done2 and {RME} else 0) for k in Key)"},
                 3: {"wf": "wf(hypergraph)", "V": "V(hypergraph) == pre(V(hypergraph))",
                     "E": "all((k in E(hypergraph)) == (k in pre(E(hypergraph)) and count(_done3, k) == 0) for k in Key)",
                     **KEPT}},
             ))


# ---- and to a MultiplexHypergraph (records keyed (node tuple, layer); removal through remove_edge((nodes, layer)))
CONTRACTS.append(
    Contract("filter_hypergraph[MultiplexHypergraph]", FILE, ["filter_hypergraph"], properties=["C19"],
             params={"hypergraph": "Obj[MultiplexHypergraph]", "node_criteria": "Opt[Meta]", "edge_criteria": "Opt[Meta]", "mode": "Str", "keep_edges": "Bool"},
             fixed={"keep_edges": False},
             locals={"nodes_to_process": "Bag[Int]", "edges_to_process": "Bag[Pair[Tup,Layer]]"},
             requires={"wf": "wf(hypergraph)"},
             raises={"ValueError": 'mode != "keep" and mode != "remove"'},
             modifies_args={"hypergraph": MUT_T},
             ensures={
                 "wf": "wf(hypergraph)",
                 "V": f"all((n in V(hypergraph)) == (n in V(old(hypergraph)) and not {RMN}) for n in Node)",
                 "E": f"all((k in E(hypergraph)) == (k in E(old(hypergraph)) and all(n in V(hypergraph) for n in fst(k)) and not {RME}) for k in Key)",
                 **KEPT},
             invariants={
                 0: {"list": f"all(count(nodes_to_process, n) == (1 if n in _done0 and {RMN} else 0) for n in Node)"},
                 1: {"wf": "wf(hypergraph)",
                     "V": "all((n in V(hypergraph)) == (n in V(old(hypergraph)) and count(_done1, n) == 0) for n in Node)",
                     "E": "all((k in E(hypergraph)) == (k in E(old(hypergraph)) and all(count(_done1, n) == 0 for n in fst(k))) for k in Key)",
                     **KEPT},
                 2: {"list": f"all(count(edges_to_process, k) == (1 if k in _done2 and {RME} else 0) for k in Key)"},
                 3: {"wf": "wf(hypergraph)", "V": "V(hypergraph) == pre(V(hypergraph))",
                     "E": "all((k in E(hypergraph)) == (k in pre(E(hypergraph)) and count(_done3, k) == 0) for k in Key)",
                     **KEPT}},
             ))


# ---- and to a DirectedHypergraph (keys (source tuple, target tuple))
MUT_D = ["_adj_source", "_adj_target", "_node_metadata", "_edge_list", "_reverse_edge_list", "_weights", "_edge_metadata"]
IN_K = "all(n in V(hypergraph) for n in fst(k)) and all(n in V(hypergraph) for n in snd(k))"
CONTRACTS.append(
    Contract("filter_hypergraph[DirectedHypergraph]", FILE, ["filter_hypergraph"], properties=["C19"],
             params={"hypergraph": "Obj[DirectedHypergraph]", "node_criteria": "Opt[Meta]", "edge_criteria": "Opt[Meta]", "mode": "Str", "keep_edges": "Bool"},
             fixed={"keep_edges": False},
             locals={"nodes_to_process": "Bag[Int]", "edges_to_process": "Bag[Pair[Tup,Tup]]"},
             requires={"wf": "wf(hypergraph)"},
             raises={"ValueError": 'mode != "keep" and mode != "remove"'},
             modifies_args={"hypergraph": MUT_D},
             ensures={
                 "wf": "wf(hypergraph)",
                 "V": f"all((n in V(hypergraph)) == (n in V(old(hypergraph)) and not {RMN}) for n in Node)",
                 "E": f"all((k in E(hypergraph)) == (k in E(old(hypergraph)) and {IN_K} and not {RME}) for k in Key)",
                 **KEPT},
             invariants={
                 0: {"list": f"all(count(nodes_to_process, n) == (1 if n in _done0 and {RMN} else 0) for n in Node)"},
                 1: {"wf": "wf(hypergraph)",
                     "V": "all((n in V(hypergraph)) == (n in V(old(hypergraph)) and count(_done1, n) == 0) for n in Node)",
                     "E": "all((k in E(hypergraph)) == (k in E(old(hypergraph)) and all(count(_done1, n) == 0 for n in fst(k)) and all(count(_done1, n) == 0 for n in snd(k))) for k in Key)",
                     **KEPT},
                 2: {"list": f"all(count(edges_to_process, k) == (1 if k in _done2 and {RME} else 0) for k in Key)"},
                 3: {"wf": "wf(hypergraph)", "V": "V(hypergraph) == pre(V(hypergraph))",
                     "E": "all((k in E(hypergraph)) == (k in pre(E(hypergraph)) and count(_done3, k) == 0) for k in Key)",
                     **KEPT}},
             ))


# ---- keep_edges=True on a Hypergraph: the removed nodes are taken out of their hyperedges (remove_node(keep_edges=True), verified), so the
# statement's hyperedge clause has its exception ("unless hyperedges are kept and shrunk"). What the statement still says, and what is proved:
# exactly the nodes the node criteria keep survive, with their metadata; weightedness is unchanged; no surviving hyperedge fails the hyperedge
# criteria (evaluated on the metadata it has after the node phase, which the hyperedge phase does not touch).
RME_NOW = ('(edge_criteria is not None and ((mode == "keep" and not helper("matches_criteria", M(hypergraph, k), edge_criteria)) or '
           '(mode == "remove" and helper("matches_criteria", M(hypergraph, k), edge_criteria))))')
KEPT_N = {"NM_kept": "all(NM(hypergraph, n) == NM(old(hypergraph), n) for n in V(hypergraph))", "weighted": "weighted(hypergraph) == weighted(old(hypergraph))"}
CONTRACTS.append(
    Contract("filter_hypergraph[Hypergraph]@keep_edges", FILE, ["filter_hypergraph"], properties=["C19"],
             params={"hypergraph": "Obj[Hypergraph]", "node_criteria": "Opt[Meta]", "edge_criteria": "Opt[Meta]", "mode": "Str", "keep_edges": "Bool"},
             fixed={"keep_edges": True},
             locals={"nodes_to_process": "Bag[Int]", "edges_to_process": "Bag[Tup]"},
             requires={"wf": "wf(hypergraph)"},
             raises={"ValueError": 'mode != "keep" and mode != "remove"'},
             modifies_args={"hypergraph": ["_adj", "_node_metadata", "_edge_list", "_reverse_edge_list", "_weights", "_edge_metadata", "_next_edge_id"]},
             ensures={"wf": "wf(hypergraph)",
                      "V": f"all((n in V(hypergraph)) == (n in V(old(hypergraph)) and not {RMN}) for n in Node)",
                      "E_criteria": f"all(not {RME_NOW} for k in E(hypergraph))",
                      **KEPT_N},
             invariants={
                 0: {"list": f"all(count(nodes_to_process, n) == (1 if n in _done0 and {RMN} else 0) for n in Node)"},
                 1: {"wf": "wf(hypergraph)",
                     "V": "all((n in V(hypergraph)) == (n in V(old(hypergraph)) and count(_done1, n) == 0) for n in Node)",
                     **KEPT_N},
                 2: {"list": f"all(count(edges_to_process, k) == (1 if k in _done2 and {RME_NOW} else 0) for k in Tuple)"},
                 3: {"wf": "wf(hypergraph)", "V": "V(hypergraph) == pre(V(hypergraph))",
                     "E": "all((k in E(hypergraph)) == (k in pre(E(hypergraph)) and count(_done3, k) == 0) for k in Tuple)",
                     "M": "all(M(hypergraph, k) == pre(M(hypergraph, k)) for k in E(hypergraph))",
                     **KEPT_N}},
             ))


def _keep_variant(cls, ety, key, mut):
    return Contract(f"filter_hypergraph[{cls}]@keep_edges", FILE, ["filter_hypergraph"], properties=["C19"],
                    params={"hypergraph": f"Obj[{cls}]", "node_criteria": "Opt[Meta]", "edge_criteria": "Opt[Meta]", "mode": "Str", "keep_edges": "Bool"},
                    fixed={"keep_edges": True},
                    locals={"nodes_to_process": "Bag[Int]", "edges_to_process": f"Bag[{ety}]"},
                    requires={"wf": "wf(hypergraph)"},
                    raises={"ValueError": 'mode != "keep" and mode != "remove"'},
                    modifies_args={"hypergraph": mut},
                    ensures={"wf": "wf(hypergraph)",
                             "V": f"all((n in V(hypergraph)) == (n in V(old(hypergraph)) and not {RMN}) for n in Node)",
                             "E_criteria": f"all(not {RME_NOW} for k in E(hypergraph))",
                             **KEPT_N},
                    invariants={
                        0: {"list": f"all(count(nodes_to_process, n) == (1 if n in _done0 and {RMN} else 0) for n in Node)"},
                        1: {"wf": "wf(hypergraph)",
                            "V": "all((n in V(hypergraph)) == (n in V(old(hypergraph)) and count(_done1, n) == 0) for n in Node)",
                            **KEPT_N},
                        2: {"list": f"all(count(edges_to_process, k) == (1 if k in _done2 and {RME_NOW} else 0) for k in {key})"},
                        3: {"wf": "wf(hypergraph)", "V": "V(hypergraph) == pre(V(hypergraph))",
                            "E": f"all((k in E(hypergraph)) == (k in pre(E(hypergraph)) and count(_done3, k) == 0) for k in {key})",
                            "M": "all(M(hypergraph, k) == pre(M(hypergraph, k)) for k in E(hypergraph))",
                            **KEPT_N}})


# the same for the temporal and multiplex containers (their remove_node(keep_edges=True) is verified too; DirectedHypergraph.remove_node with
# keep_edges=True leaves the node inside its hyperedges - outside C02's statement, not contracted)
CONTRACTS += [_keep_variant("TemporalHypergraph", "Pair[Int,Tup]", "Key", MUT_T + ["_next_edge_id"]),
              _keep_variant("MultiplexHypergraph", "Pair[Tup,Layer]", "Key", MUT_T + ["_next_edge_id", "_existing_layers"])]
