"""All layouts and contracts."""
from ..pyvc.engine import Registry


def build():
    reg = Registry()
    from . import hypergraph, directed, temporal, multiplex, cc, generation, filters, similarity, hashing, projections, dynamics, motifs, linalg, contagion
    mods = [hypergraph, directed, temporal, multiplex, cc, generation, filters, similarity, hashing, projections, dynamics, motifs, linalg, contagion]
    for m in mods:
        if hasattr(m, "LAYOUT"):
            reg.add_layout(m.LAYOUT)
        for lay in getattr(m, "LAYOUTS", []):
            reg.add_layout(lay)
    for m in mods:
        for c in m.CONTRACTS:
            reg.add(c)
    # C07 (hash is a canonical fingerprint) rests on "no table holds an entry for a removed node or hyperedge": the table-domain
    # conjuncts of wf (nm_exact, el_tables, liveness through _edge_list) re-proved after every mutator of the four containers
    for q, c in reg.contracts.items():
        if c.self_cls in ("Hypergraph", "DirectedHypergraph", "TemporalHypergraph", "MultiplexHypergraph") and \
                c.path[-1] in ("add_node", "add_edge", "remove_edge", "remove_node", "clear") and "C07" not in c.properties:
            c.properties.append("C07")
    _check_symbol_names()
    return reg


def _check_symbol_names():
    """Contract-module axioms are scoped per query by the NAMES of their symbols (theory.extra_for): two different functions with one name
    would drag each other's axioms into unrelated queries (met once: a second `wsum` made two obligations of the multiplex aggregation fail
    on the unchanged tree). Refuse to build such a registry."""
    import z3
    from ..pyvc import theory as TH
    seen = {}
    todo = list(TH.EXTRA.values()) + list(TH.THEORY.values())
    visited = set()
    while todo:
        t = todo.pop()
        if t.get_id() in visited:
            continue
        visited.add(t.get_id())
        if z3.is_quantifier(t):
            todo.append(t.body())
            continue
        if z3.is_app(t):
            d = t.decl()
            if d.kind() == z3.Z3_OP_UNINTERPRETED and d.arity() > 0:
                sig = tuple(d.domain(i).sexpr() for i in range(d.arity())) + (d.range().sexpr(),)
                if seen.setdefault(d.name(), sig) != sig:
                    raise AssertionError(f"two different specification functions are both called {d.name()!r}")
            todo.extend(t.children())
