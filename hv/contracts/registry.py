"""All layouts and contracts."""
from ..pyvc.engine import Registry


def build():
    reg = Registry()
    from . import hypergraph, directed, temporal, multiplex, cc, generation, filters
    mods = [hypergraph, directed, temporal, multiplex, cc, generation, filters]
    for m in mods:
        if hasattr(m, "LAYOUT"):
            reg.add_layout(m.LAYOUT)
        for lay in getattr(m, "LAYOUTS", []):
            reg.add_layout(lay)
    for m in mods:
        for c in m.CONTRACTS:
            reg.add(c)
    return reg
