"""All layouts and contracts."""
from ..pyvc.engine import Registry


def build():
    reg = Registry()
    from . import hypergraph, directed, temporal, multiplex, cc, generation, filters, similarity, hashing, projections, dynamics
    mods = [hypergraph, directed, temporal, multiplex, cc, generation, filters, similarity, hashing, projections, dynamics]
    for m in mods:
        if hasattr(m, "LAYOUT"):
            reg.add_layout(m.LAYOUT)
        for lay in getattr(m, "LAYOUTS", []):
            reg.add_layout(lay)
    for m in mods:
        for c in m.CONTRACTS:
            reg.add(c)
    # C07 (hash is a canonical fingerprint) rests on "no table holds an entry for a removed node or hyperedge": the table-domain
    # conjuncts of wf (nm_exact, el_tables, liveness through _edge_list) re-proved after every mutator of the four containers
    for q, c in reg.contracts.items():
        if c.self_cls in ("Hypergraph", "DirectedHypergraph", "TemporalHypergraph", "MultiplexHypergraph") and \
                c.path[-1] in ("add_node", "add_edge", "remove_edge", "remove_node", "clear") and "C07" not in c.properties:
            c.properties.append("C07")
    return reg
