"""Contracts for hypergraphx/core/multiplex_hypergraph.py and measures/multiplex/overlap.py (C04; C07/C19 rest on them).

Abstract view: V(h) nodes; E(h) set of keys (canonical node tuple, layer); W, M, NM, weighted; LAYERS(h) the layer names seen.
"""
import z3
from ..pyvc import ty as T
from ..pyvc import theory as TH
from ..pyvc.engine import Layout, Contract
from ..pyvc.ty import fresh

FILE = "hypergraphx/core/multiplex_hypergraph.py"
CLS = "MultiplexHypergraph"
MK = T.Pair(T.TUP, T.LAYER)

FIELDS = {
    "_weighted": "Bool",
    "_weights": "Map[Int,Real]",
    "_adj": "Map[Int,Bag[Int]]",
    "_edge_list": "Map[Pair[Tup,Layer],Int]",
    "_node_metadata": "Map[Int,Meta]",
    "_edge_metadata": "Map[Int,Meta]",
    "_reverse_edge_list": "Map[Int,Pair[Tup,Layer]]",
    "_hypergraph_metadata": "Meta",
    "_existing_layers": "Set[Layer]",
    "_next_edge_id": "Int",
}


def nd(k):
    return MK.fst(k)


def ly(k):
    return MK.snd(k)


def live(h, i):
    el, rv = h.fields["_edge_list"], h.fields["_reverse_edge_list"]
    return z3.And(rv.dom[i], el.dom[rv.val[i]], el.val[rv.val[i]] == i)


def wf(eng, p, h):
    F = h.fields
    el, rv, w, em = F["_edge_list"], F["_reverse_edge_list"], F["_weights"], F["_edge_metadata"]
    adj, nm, nxt, wt, lay = F["_adj"], F["_node_metadata"], F["_next_edge_id"].t, F["_weighted"].t, F["_existing_layers"].t
    k, i, n = fresh("k", MK.sort()), fresh("i", T.I), fresh("n", T.I)
    FA, MP = z3.ForAll, z3.MultiPattern
    return {
        "el_rv": FA([k], z3.Implies(el.dom[k], z3.And(rv.dom[el.val[k]], rv.val[el.val[k]] == k, TH.strict(nd(k)), TH.tlen(nd(k)) >= 1,
                                                       lay[ly(k)], 0 <= el.val[k], el.val[k] < nxt)), patterns=[el.dom[k], el.val[k]]),
        "el_tables": FA([k], z3.Implies(el.dom[k], z3.And(w.dom[el.val[k]], em.dom[el.val[k]])), patterns=[el.dom[k], el.val[k]]),
        "next": nxt >= 0,
        "nm_exact": nm.dom == adj.dom,
        # get_edges(metadata=True) enumerates the metadata table: it may hold entries for stored records only
        "em_live": FA([i], z3.Implies(em.dom[i], live(h, i)), patterns=[em.dom[i]]),
        "inc_dom": FA([i, n], z3.Implies(z3.And(live(h, i), TH.tmem(nd(rv.val[i]), n)), adj.dom[n]),
                      patterns=[MP(rv.dom[i], TH.tmem(nd(rv.val[i]), n))]),
        "inc_once": FA([n, i], z3.Implies(adj.dom[n], adj.val[n][i] == z3.If(z3.And(live(h, i), TH.tmem(nd(rv.val[i]), n)), 1, 0)),
                       patterns=[adj.val[n][i]]),
        "inc_key": FA([n, k], z3.Implies(z3.And(adj.dom[n], el.dom[k]), adj.val[n][el.val[k]] == z3.If(TH.tmem(nd(k), n), 1, 0)),
                      patterns=[MP(el.dom[k], TH.tmem(nd(k), n), adj.dom[n]), adj.val[n][el.val[k]]]),
        "unweighted_1": z3.Implies(z3.Not(wt), FA([k], z3.Implies(el.dom[k], w.val[el.val[k]] == 1), patterns=[el.val[k]])),
    }


def W_(h, k):
    return h.fields["_weights"].val[h.fields["_edge_list"].val[k]]


def M_(h, k):
    return h.fields["_edge_metadata"].val[h.fields["_edge_list"].val[k]]


def view_eq(eng, p, a, b):
    k, n = fresh("k", MK.sort()), fresh("n", T.I)
    ea, eb = a.fields["_edge_list"], b.fields["_edge_list"]
    return {
        "V": a.fields["_adj"].dom == b.fields["_adj"].dom,
        "E": ea.dom == eb.dom,
        "W": z3.ForAll([k], z3.Implies(ea.dom[k], W_(a, k) == W_(b, k))),
        "M": z3.ForAll([k], z3.Implies(ea.dom[k], M_(a, k) == M_(b, k))),
        "NM": z3.ForAll([n], z3.Implies(a.fields["_adj"].dom[n], a.fields["_node_metadata"].val[n] == b.fields["_node_metadata"].val[n])),
        "INC": z3.ForAll([n, k], z3.Implies(z3.And(a.fields["_adj"].dom[n], ea.dom[k]),
                                            a.fields["_adj"].val[n][ea.val[k]] == b.fields["_adj"].val[n][eb.val[k]])),
        "weighted": a.fields["_weighted"].t == b.fields["_weighted"].t,
        "HM": a.fields["_hypergraph_metadata"].t == b.fields["_hypergraph_metadata"].t,
    }


VIEWS = {
    "V": lambda eng, p, h: T.scalar(T.Set(T.INT), h.fields["_adj"].dom),
    "E": lambda eng, p, h: T.scalar(T.Set(MK), h.fields["_edge_list"].dom),
    "W": lambda eng, p, h, k: T.sv_real(W_(h, k.t)),
    "M": lambda eng, p, h, k: T.scalar(T.META, M_(h, k.t)),
    "NM": lambda eng, p, h, n: T.scalar(T.META, h.fields["_node_metadata"].val[n.t]),
    "HM": lambda eng, p, h: h.fields["_hypergraph_metadata"],
    "LAYERS": lambda eng, p, h: h.fields["_existing_layers"],
    "weighted": lambda eng, p, h: h.fields["_weighted"],
    "KLEN": lambda eng, p, h, k: T.sv_int(TH.tlen(nd(k.t))),
    "ID": lambda eng, p, h, k: T.sv_int(h.fields["_edge_list"].val[k.t]),
    # wsum(h, t, L): total weight of the records of the listing L whose node set is t; osum(h, t, S): the same over the layers in S
    "wsum": lambda eng, p, h, t, L: T.sv_real(WSUM(h.fields["_edge_list"].val, h.fields["_weights"].val, t.t, L.t)),
    "osum": lambda eng, p, h, t, S: T.sv_real(OSUM(h.fields["_edge_list"].dom, h.fields["_edge_list"].val, h.fields["_weights"].val, t.t, S.t)),
}

LAYOUT = Layout(CLS, FIELDS, aliases={"Key": "Pair[Tup,Layer]"}, views=VIEWS, multi={"wf": wf, "view_eq": view_eq})


# ---- finite sums over the records (specification functions defined by their fold axioms; assumed as definitions)
BK = T.Bag(MK)
SL = T.Set(T.LAYER)
ELV, WV = z3.ArraySort(MK.sort(), T.I), z3.ArraySort(T.I, T.R)
ELD = z3.ArraySort(MK.sort(), T.B)
WSUM = z3.Function("wsum", ELV, WV, T.TupS, BK.sort(), T.R)          # sum of the weights of the listed records whose node set is t
OSUM = z3.Function("osum", ELD, ELV, WV, T.TupS, SL.sort(), T.R)     # sum over the layers l in S of the weight of (t, l) if stored
_el, _w, _eld = z3.Const("_el", ELV), z3.Const("_w", WV), z3.Const("_eld", ELD)
_t, _b, _x, _v = z3.Const("_t", T.TupS), z3.Const("_bk", BK.sort()), z3.Const("_xk", MK.sort()), z3.Int("_vk")
_S, _l = z3.Const("_Sl", SL.sort()), z3.Const("_ll", T.LayerS)
TH.EXTRA.update({
    "wsum_empty (definition)": z3.ForAll([_el, _w, _t], WSUM(_el, _w, _t, z3.K(MK.sort(), z3.IntVal(0))) == 0,
                                         patterns=[WSUM(_el, _w, _t, z3.K(MK.sort(), z3.IntVal(0)))]),
    "wsum_step (definition)": z3.ForAll([_el, _w, _t, _b, _x, _v], z3.Implies(_v == _b[_x] + 1,
                                        WSUM(_el, _w, _t, z3.Store(_b, _x, _v)) == WSUM(_el, _w, _t, _b) + z3.If(MK.fst(_x) == _t, _w[_el[_x]], 0)),
                                        patterns=[WSUM(_el, _w, _t, z3.Store(_b, _x, _v))]),
    "osum_empty (definition)": z3.ForAll([_eld, _el, _w, _t], OSUM(_eld, _el, _w, _t, z3.K(T.LayerS, z3.BoolVal(False))) == 0,
                                         patterns=[OSUM(_eld, _el, _w, _t, z3.K(T.LayerS, z3.BoolVal(False)))]),
    "osum_step (definition)": z3.ForAll([_eld, _el, _w, _t, _S, _l], z3.Implies(z3.Not(_S[_l]),
                                        OSUM(_eld, _el, _w, _t, z3.Store(_S, _l, True)) == OSUM(_eld, _el, _w, _t, _S) +
                                        z3.If(_eld[MK.mk(_t, _l)], _w[_el[MK.mk(_t, _l)]], 0)),
                                        patterns=[OSUM(_eld, _el, _w, _t, z3.Store(_S, _l, True))]),
})


# weight handed to the record k by the first j positions of a batch (edge_list, edge_layer, weights): fold-defined
BSUM = z3.Function("bsum_m", z3.ArraySort(T.I, T.TupS), z3.ArraySort(T.I, T.LAYER.sort()), T.B, z3.ArraySort(T.I, T.R), T.I, MK.sort(), T.R)
_be, _bl, _bh, _bw = z3.Const("_bem", z3.ArraySort(T.I, T.TupS)), z3.Const("_blm", z3.ArraySort(T.I, T.LAYER.sort())), z3.Bool("_bhm"), z3.Const("_bwm", z3.ArraySort(T.I, T.R))
_bj, _bk = z3.Int("_bjm"), z3.Const("_bkm", MK.sort())
TH.EXTRA.update({
    "bsum_m_0 (definition)": z3.ForAll([_be, _bl, _bh, _bw, _bk], BSUM(_be, _bl, _bh, _bw, 0, _bk) == 0, patterns=[BSUM(_be, _bl, _bh, _bw, 0, _bk)]),
    "bsum_m_step (definition)": z3.ForAll([_be, _bl, _bh, _bw, _bj, _bk], z3.Implies(_bj >= 0,
        BSUM(_be, _bl, _bh, _bw, _bj + 1, _bk) == BSUM(_be, _bl, _bh, _bw, _bj, _bk) +
        z3.If(MK.mk(TH.canon(_be[_bj]), _bl[_bj]) == _bk, z3.If(_bh, _bw[_bj], z3.RealVal(1)), z3.RealVal(0))),
        patterns=[BSUM(_be, _bl, _bh, _bw, _bj + 1, _bk)]),
})


def _bsum(eng, p, h, el, ly, ws, j, k):
    if ws.ty == T.NONE:
        hw, aw = z3.BoolVal(False), z3.K(T.I, z3.RealVal(0))
    elif isinstance(ws.ty, T.Opt):
        hw, aw = z3.Not(ws.is_none), ws.val.at
    else:
        hw, aw = z3.BoolVal(True), ws.at
    return T.sv_real(BSUM(el.at, ly.at, hw, aw, eng.coerce(j, T.INT).t, k.t))


VIEWS["bsum"] = _bsum


def C(name, **kw):
    kw.setdefault("properties", ["C04"])
    return Contract(f"{CLS}.{name}", FILE, [CLS, name], self_cls=CLS, **kw)


KEY = "pair(canon(edge), layer)"
OTHER_EDGES = {
    "W_others": f"all(W(self, k) == W(old(self), k) for k in E(old(self)) if k != {KEY})",
    "M_others": f"all(M(self, k) == M(old(self), k) for k in E(old(self)) if k != {KEY})",
}
OTHER_EDGES_P = {   # for remove_edge, whose argument is the pair ((nodes...), layer)
    "W_others": "all(W(self, k) == W(old(self), k) for k in E(old(self)) if k != canon(edge))",
    "M_others": "all(M(self, k) == M(old(self), k) for k in E(old(self)) if k != canon(edge))",
}
NODE_MD_KEPT = {"NM_kept": "all(NM(self, n) == NM(old(self), n) for n in V(old(self)))"}
SAME_WEIGHTED = {"weighted": "weighted(self) == weighted(old(self))", "HM": "HM(self) == HM(old(self))"}


def _adj_kept(cur, old):
    n = fresh("n", T.I)
    return z3.ForAll([n], z3.Implies(old.fields["_adj"].dom[n], cur.fields["_adj"].val[n] == old.fields["_adj"].val[n]),
                     patterns=[cur.fields["_adj"].val[n]])


def _adj_new_empty(cur, old, node):
    return z3.Implies(z3.Not(old.fields["_adj"].dom[node]), cur.fields["_adj"].val[node] == z3.K(T.I, z3.IntVal(0)))


def _add_nodes_inv(eng, p, cx):
    cur, pre = p.env["self"], cx.pre_env["self"]
    seq, j = p.env["_it0"].t, p.env["_j0"].t
    adj, oadj = cur.fields["_adj"], pre.fields["_adj"]
    nm, onm = cur.fields["_node_metadata"], pre.fields["_node_metadata"]
    n, i = fresh("n", T.I), fresh("i", T.I)
    return {
        "j_range": z3.And(0 <= j, j <= TH.tlen(seq)),
        "dom": z3.ForAll([n], adj.dom[n] == z3.Or(oadj.dom[n], TH.pmem(seq, j, n)), patterns=[adj.dom[n]]),
        "nm_dom": nm.dom == adj.dom,
        "cnt": z3.ForAll([n, i], z3.Implies(adj.dom[n], adj.val[n][i] == z3.If(oadj.dom[n], oadj.val[n][i], 0)), patterns=[adj.val[n][i]]),
        "nm_old": z3.ForAll([n], z3.Implies(oadj.dom[n], nm.val[n] == onm.val[n]), patterns=[nm.val[n]]),
    }


def _append_inv(eng, p, cx):
    cur, pre = p.env["self"], cx.pre_env["self"]
    seq, j = p.env["_it1"].t, p.env["_j1"].t
    adj, oadj = cur.fields["_adj"], pre.fields["_adj"]
    eid = p.env["e_id"].t
    n, i = fresh("n", T.I), fresh("i", T.I)
    return {
        "j_range": z3.And(0 <= j, j <= TH.tlen(seq)),
        "dom": adj.dom == oadj.dom,
        "cnt": z3.ForAll([n, i], z3.Implies(adj.dom[n], adj.val[n][i] == oadj.val[n][i] + z3.If(z3.And(i == eid, TH.pmem(seq, j, n)), 1, 0)),
                         patterns=[adj.val[n][i]]),
    }


def _rm_inv(eng, p, cx):
    cur, pre = p.env["self"], cx.pre_env["self"]
    seq, j = p.env["_it0"].t, p.env["_j0"].t
    adj, oadj = cur.fields["_adj"], pre.fields["_adj"]
    eid = p.env["edge_id"].t
    n, i = fresh("n", T.I), fresh("i", T.I)
    return {
        "j_range": z3.And(0 <= j, j <= TH.tlen(seq)),
        "dom": adj.dom == oadj.dom,
        "cnt": z3.ForAll([n, i], z3.Implies(adj.dom[n], adj.val[n][i] == oadj.val[n][i] - z3.If(z3.And(i == eid, TH.pmem(seq, j, n)), 1, 0)),
                         patterns=[adj.val[n][i]]),
    }


CONTRACTS = [
    Contract("_canon_edge[multiplex]", FILE, ["_canon_edge"], params={"edge": "NodeSeq"}, result="Tup", pure=True,
             ensures={"result": "result == canon(edge)"}, properties=["C04"]),
    C("add_node", params={"node": "Node", "metadata": "Opt[Meta]"},
      requires={"nm_exact": lambda eng, p, cx: wf(eng, p, p.env["self"])["nm_exact"]},
      modifies=["_adj", "_node_metadata"],
      ensures={
          "nm_exact": lambda eng, p, cx: wf(eng, p, p.env["self"])["nm_exact"],
          "V": "all((n in V(self)) == (n in V(old(self)) or n == node) for n in Node)",
          "adj_old": lambda eng, p, cx: _adj_kept(p.env["self"], cx.old_env["self"]),
          "adj_new": lambda eng, p, cx: _adj_new_empty(p.env["self"], cx.old_env["self"], p.env["node"].t),
          "NM_others": "all(NM(self, n) == NM(old(self), n) for n in V(old(self)) if n != node)",
          "NM_none": "implies(node in V(old(self)) and metadata is None, NM(self, node) == NM(old(self), node))",
          "NM_kept": "implies(node in V(old(self)) and NM(old(self), node) != EMPTY, NM(self, node) == NM(old(self), node))",
          "NM_new": "implies(node not in V(old(self)), NM(self, node) == (EMPTY if metadata is None else metadata))",
      }),
    C("add_edge", params={"edge": "NodeSeq", "layer": "Layer", "weight": "Opt[Real]", "metadata": "Opt[Meta]"},
      requires={"wf": "wf(self)", "distinct": "distinct(edge)", "nonempty": "len(edge) >= 1"},
      raises={"ValueError": "not weighted(self) and weight is not None and weight != 1"},
      modifies=["_adj", "_node_metadata", "_edge_list", "_reverse_edge_list", "_weights", "_edge_metadata", "_next_edge_id", "_existing_layers"],
      ensures={
          "wf": "wf(self)",
          "V": "all((n in V(self)) == (n in V(old(self)) or n in edge) for n in Node)",
          # the same node set lives independently in every layer: only the record (canon(edge), layer) is touched
          "E": f"all((k in E(self)) == (k in E(old(self)) or k == {KEY}) for k in Key)",
          "W_new": f"implies({KEY} not in E(old(self)), W(self, {KEY}) == (real(1 if weight is None else weight) if weighted(self) else 1))",
          "W_again": f"implies({KEY} in E(old(self)), W(self, {KEY}) == (W(old(self), {KEY}) + real(1 if weight is None else weight) if weighted(self) else W(old(self), {KEY})))",
          **OTHER_EDGES,
          "M_given": f"implies(metadata is not None, M(self, {KEY}) == metadata)",
          "layers": "all((l in LAYERS(self)) == (l in LAYERS(old(self)) or l == layer) for l in Layer)",
          "ids": "all(ID(self, k) == ID(old(self), k) for k in E(old(self)))",
          **NODE_MD_KEPT, **SAME_WEIGHTED,
      },
      invariants={0: {"inv": _add_nodes_inv}, 1: {"inv": _append_inv}}),
    C("remove_edge", params={"edge": "Key"},
      requires={"wf": "wf(self)"},
      raises={"ValueError": "canon(edge) not in E(self)"},
      modifies=["_adj", "_edge_list", "_reverse_edge_list", "_weights", "_edge_metadata"],
      ensures={"wf": "wf(self)", "V": "V(self) == V(old(self))",
               "E": "all((k in E(self)) == (k in E(old(self)) and k != canon(edge)) for k in Key)",
               "ids": "all(ID(self, k) == ID(old(self), k) for k in E(self))",
               **OTHER_EDGES_P, **NODE_MD_KEPT, **SAME_WEIGHTED},
      invariants={0: {"inv": _rm_inv}}),
    C("get_weight", params={"edge": "NodeSeq", "layer": "Layer"}, result="Real", pure=True, requires={"wf": "wf(self)"},
      raises={"ValueError": f"{KEY} not in E(self)"}, ensures={"result": f"result == W(self, {KEY})"}),
    C("set_weight", params={"edge": "NodeSeq", "layer": "Layer", "weight": "Real"}, requires={"wf": "wf(self)"},
      raises={"ValueError": f"(not weighted(self) and weight != 1) or {KEY} not in E(self)"},
      modifies=["_weights"], ensures={"wf": "wf(self)", "W": f"W(self, {KEY}) == weight", **OTHER_EDGES}),
    C("get_edge_metadata", params={"edge": "NodeSeq", "layer": "Layer"}, result="Meta", pure=True,
      requires={"wf": "wf(self)", "distinct": "distinct(edge)"},
      raises={"ValueError": f"{KEY} not in E(self)"}, ensures={"result": f"result == M(self, {KEY})"}),
    C("set_attr_to_edge_metadata", params={"edge": "NodeSeq", "layer": "Layer", "field": "Field", "value": "Val"}, requires={"wf": "wf(self)"},
      raises={"ValueError": f"{KEY} not in E(self)"}, modifies=["_edge_metadata"],
      ensures={"wf": "wf(self)", "M": f"M(self, {KEY}) == mset(M(old(self), {KEY}), field, value)", **OTHER_EDGES}),
    C("remove_attr_from_edge_metadata", params={"edge": "NodeSeq", "layer": "Layer", "field": "Field"}, requires={"wf": "wf(self)"},
      raises={"ValueError": f"{KEY} not in E(self)"},
      may_raise={"KeyError": f"{KEY} in E(self) and not mhas(M(self, {KEY}), field)"}, modifies=["_edge_metadata"],
      ensures={"wf": "wf(self)", "M": f"M(self, {KEY}) == mdel(M(old(self), {KEY}), field)", **OTHER_EDGES}),
    C("is_weighted", params={}, result="Bool", pure=True, ensures={"result": "result == weighted(self)"}),
    C("get_existing_layers", params={}, result="Set[Layer]", pure=True, ensures={"result": "result == LAYERS(self)"}),
    C("get_nodes", params={"metadata": "Bool"}, fixed={"metadata": False}, result="Bag[Int]", pure=True,
      requires={"wf": "wf(self)"},
      ensures={"result": "all(count(result, n) == (1 if n in V(self) else 0) for n in Node)"}),
    C("get_edges", params={"metadata": "Bool"}, fixed={"metadata": False}, result="Bag[Key]", pure=True,
      ensures={"result": "all(count(result, k) == (1 if k in E(self) else 0) for k in Key)"}),
    Contract(f"{CLS}.get_nodes@md", FILE, [CLS, "get_nodes"], self_cls=CLS, properties=["C04", "C19"],
      params={"metadata": "Bool"}, fixed={"metadata": True}, result="Map[Int,Meta]", pure=True,
      requires={"wf": "wf(self)"},
      ensures={"dom": "all((n in result) == (n in V(self)) for n in Node)",
               "val": "all(result[n] == NM(self, n) for n in V(self))"}),
    # enumerates the metadata table and maps ids back to records: exactly the stored records (wf.em_live), each with its metadata
    Contract(f"{CLS}.get_edges@md", FILE, [CLS, "get_edges"], self_cls=CLS, properties=["C04", "C19"],
      params={"metadata": "Bool"}, fixed={"metadata": True}, result="Map[Key,Meta]", pure=True,
      requires={"wf": "wf(self)"},
      ensures={"dom": "all((k in result) == (k in E(self)) for k in Key)",
               "val": "all(result[k] == M(self, k) for k in E(self))"}),
    C("get_incident_edges", params={"node": "Node", "order": "Opt[Int]", "size": "Opt[Int]"}, result="Bag[Key]", pure=True, requires={"wf": "wf(self)"},
      raises={"ValueError": "node not in V(self) or (order is not None and size is not None)"},
      ensures={"result": "all(count(result, k) == (1 if k in E(self) and node in fst(k) and sel(self, k, order, size, False) else 0) for k in Key)"},
      properties=["C04", "C08"]),
    # per-node view of the same numbers: every node exactly once (a dict), its value the degree under the same filter
    Contract("degree_sequence[MultiplexHypergraph]", "hypergraphx/measures/degree.py", ["degree_sequence"], properties=["C04", "C08"],
      params={"hg": "Obj[MultiplexHypergraph]", "order": "Opt[Int]", "size": "Opt[Int]"}, result="Map[Int,Int]", pure=True,
      requires={"wf": "wf(hg)"},
      raises={"ValueError": "order is not None and size is not None"},
      ensures={"dom": "all((n in result) == (n in V(hg)) for n in Node)",
               "val": "all(result[n] == card({k for k in E(hg) if n in fst(k) and sel(hg, k, order, size, False)}) for n in V(hg))"}),
    C("degree_sequence", params={"order": "Opt[Int]", "size": "Opt[Int]"}, result="Map[Int,Int]", pure=True,
      requires={"wf": "wf(self)"},
      raises={"ValueError": "order is not None and size is not None"},
      ensures={"dom": "all((n in result) == (n in V(self)) for n in Node)",
               "val": "all(result[n] == card({k for k in E(self) if n in fst(k) and sel(self, k, order, size, False)}) for n in V(self))"},
      properties=["C04", "C08"]),
    Contract("degree[MultiplexHypergraph]", "hypergraphx/measures/degree.py", ["degree"], properties=["C04", "C08"],
      params={"hg": "Obj[MultiplexHypergraph]", "node": "Node", "order": "Opt[Int]", "size": "Opt[Int]"}, result="Int", pure=True,
      requires={"wf": "wf(hg)"},
      raises={"ValueError": "(order is not None and size is not None) or node not in V(hg)"},
      ensures={"result": "result == card({k for k in E(hg) if node in fst(k) and sel(hg, k, order, size, False)})"}),
    C("remove_node", params={"node": "Node", "keep_edges": "Bool"}, fixed={"keep_edges": False},
      requires={"wf": "wf(self)"},
      raises={"ValueError": "node not in V(self)"},
      modifies=["_adj", "_node_metadata", "_edge_list", "_reverse_edge_list", "_weights", "_edge_metadata"],
      ensures={"wf": "wf(self)",
               "V": "all((n in V(self)) == (n in V(old(self)) and n != node) for n in Node)",
               "E": "all((k in E(self)) == (k in E(old(self)) and node not in fst(k)) for k in Key)",
               "W_kept": "all(W(self, k) == W(old(self), k) for k in E(self))",
               "M_kept": "all(M(self, k) == M(old(self), k) for k in E(self))",
               "NM_kept": "all(NM(self, n) == NM(old(self), n) for n in V(self))", **SAME_WEIGHTED},
      invariants={1: {"wf": "wf(self)", "V": "V(self) == V(old(self))",
                      "E": "all((k in E(self)) == (k in E(old(self)) and count(_done1, ID(old(self), k)) == 0) for k in Key)",
                      "ids": "all(ID(self, k) == ID(old(self), k) for k in E(self))",
                      "W_kept": "all(W(self, k) == W(old(self), k) for k in E(self))",
                      "M_kept": "all(M(self, k) == M(old(self), k) for k in E(self))",
                      "NM_kept": "all(NM(self, n) == NM(old(self), n) for n in V(old(self)))",
                      "weighted": "weighted(self) == weighted(old(self))", "HM": "HM(self) == HM(old(self))"}},
      properties=["C04", "C19"]),
    Contract(f"{CLS}.remove_node@keep", FILE, [CLS, "remove_node"], self_cls=CLS, properties=["C04", "C19"],
      params={"node": "Node", "keep_edges": "Bool"}, fixed={"keep_edges": True},
      requires={"wf": "wf(self)"},
      raises={"ValueError": "node not in V(self)"},
      modifies=["_adj", "_node_metadata", "_edge_list", "_reverse_edge_list", "_weights", "_edge_metadata", "_next_edge_id", "_existing_layers"],
      ensures={"wf": "wf(self)",
               "V": "all((n in V(self)) == (n in V(old(self)) and n != node) for n in Node)",
               "E": "all((k in E(self)) == (node not in fst(k) and (k in E(old(self)) or (node not in fst(k) and strict(fst(k)) and len(fst(k)) >= 1 and pair(with_node(fst(k), node), snd(k)) in E(old(self))))) for k in Key)",
               "W": "implies(weighted(self), all(W(self, k) == (W(old(self), k) if k in E(old(self)) else 0) + (W(old(self), pair(with_node(fst(k), node), snd(k))) if (node not in fst(k) and strict(fst(k)) and len(fst(k)) >= 1 and pair(with_node(fst(k), node), snd(k)) in E(old(self))) else 0) for k in E(self)))",
               "NM_kept": "all(NM(self, n) == NM(old(self), n) for n in V(self))",
               "weighted": "weighted(self) == weighted(old(self))"},
      invariants={0: {
          "wf": "wf(self)", "V": "V(self) == V(old(self))",
          "E": "all((k in E(self)) == ((k in E(old(self)) and not (node in fst(k) and count(_done0, ID(old(self), k)) >= 1)) or (node not in fst(k) and strict(fst(k)) and len(fst(k)) >= 1 and pair(with_node(fst(k), node), snd(k)) in E(old(self)) and count(_done0, ID(old(self), pair(with_node(fst(k), node), snd(k)))) >= 1)) for k in Key)",
          "ids": "all(implies(k in E(self), ID(self, k) == ID(old(self), k)) for k in E(old(self)))",
          "W": "implies(weighted(self), all(W(self, k) == (W(old(self), k) if (k in E(old(self)) and not (node in fst(k) and count(_done0, ID(old(self), k)) >= 1)) else 0) + (W(old(self), pair(with_node(fst(k), node), snd(k))) if (node not in fst(k) and strict(fst(k)) and len(fst(k)) >= 1 and pair(with_node(fst(k), node), snd(k)) in E(old(self)) and count(_done0, ID(old(self), pair(with_node(fst(k), node), snd(k)))) >= 1) else 0) for k in E(self)))",
          "NM_kept": "all(NM(self, n) == NM(old(self), n) for n in V(old(self)))",
          "weighted": "weighted(self) == weighted(old(self))"}}),
    # ------------------------------------------------------------------ aggregation across layers
    # ------------------------------------------------------------------ construction and batched forms
    C("__init__",
      params={"edge_list": "None", "edge_layer": "None", "weighted": "Bool", "weights": "None", "hypergraph_metadata": "Opt[Meta]",
              "node_metadata": "None", "edge_metadata": "None"},
      fixed={"edge_list": None, "edge_layer": None, "weights": None, "node_metadata": None, "edge_metadata": None},
      modifies=list(FIELDS),
      ensures={"wf": "wf(self)", "V": "all(n not in V(self) for n in Node)", "E": "all(k not in E(self) for k in Key)",
               "layers": "all(l not in LAYERS(self) for l in Layer)", "weighted": "weighted(self) == weighted"}),
    C("add_nodes", params={"node_list": "Bag[Int]", "node_metadata": "Opt[Map[Int,Meta]]"},
      requires={"wf": "wf(self)"},
      may_raise={"ValueError": "node_metadata is not None and any(n not in node_metadata for n in node_list)"},
      on_raise={"wf": "wf(self)", "E": "E(self) == E(old(self))"},
      modifies=["_adj", "_node_metadata"],
      ensures={"wf": "wf(self)",
               "V": "all((n in V(self)) == (n in V(old(self)) or count(node_list, n) >= 1) for n in Node)",
               "E": "E(self) == E(old(self))",
               "NM_kept": "all(implies(node_metadata is None or NM(old(self), n) != EMPTY, NM(self, n) == NM(old(self), n)) for n in V(old(self)))",
               "NM_new": "all(implies(n not in V(old(self)) and count(node_list, n) == 1, NM(self, n) == (EMPTY if node_metadata is None else node_metadata[n])) for n in node_list)"},
      invariants={0: {
          "wf": "wf(self)",
          "V": "all((n in V(self)) == (n in V(old(self)) or count(_done0, n) >= 1) for n in Node)",
          "NM_kept": "all(implies(node_metadata is None or NM(old(self), n) != EMPTY, NM(self, n) == NM(old(self), n)) for n in V(old(self)))",
          "NM_new": "all(implies(n not in V(old(self)) and count(node_list, n) == 1, NM(self, n) == (EMPTY if node_metadata is None else node_metadata[n])) for n in _done0)",
          "meta_ok": "implies(node_metadata is not None, all(n in node_metadata for n in _done0))"}}),
    # batched insertion = fold of add_edge over the parallel lists (hyperedge, layer, weight, metadata): the same node set may be
    # put into several layers by one weighted batch, each record getting the weight at its own position
    C("add_edges", params={"edge_list": "Seq[Tup]", "edge_layer": "Seq[Layer]", "weights": "Opt[Seq[Real]]", "metadata": "Opt[Seq[Meta]]"},
      requires={"wf": "wf(self)",
                "edges_ok": "all(distinct(edge_list[m]) and len(edge_list[m]) >= 1 for m in Int if 0 <= m and m < len(edge_list))",
                "layers_len": "len(edge_layer) >= len(edge_list)",
                "weights_ok": "implies(weights is not None, weighted(self))",
                "metadata_len": "implies(metadata is not None, len(metadata) >= len(edge_list))"},
      # the only rejections (a repeated (hyperedge, layer) pair or a length mismatch in a weighted batch) happen before anything is modified
      on_raise={"wf": "wf(self)", "V": "V(self) == V(old(self))", "E": "E(self) == E(old(self))",
                "W": "all(W(self, k) == W(old(self), k) for k in E(self))"},
      may_raise={"ValueError": "weights is not None"},
      modifies=["_adj", "_node_metadata", "_edge_list", "_reverse_edge_list", "_weights", "_edge_metadata", "_next_edge_id", "_existing_layers"],
      ensures={"wf": "wf(self)",
               "V": "all((n in V(self)) == (n in V(old(self)) or any(0 <= m and m < len(edge_list) and n in edge_list[m] for m in Int)) for n in Node)",
               "E": "all((k in E(self)) == (k in E(old(self)) or any(0 <= m and m < len(edge_list) and pair(canon(edge_list[m]), edge_layer[m]) == k for m in Int)) for k in Key)",
               "W": "implies(weighted(self), all(W(self, k) == (W(old(self), k) if k in E(old(self)) else 0) + bsum(self, edge_list, edge_layer, weights, len(edge_list), k) for k in E(self)))",
               "layers": "all((l in LAYERS(self)) == (l in LAYERS(old(self)) or any(0 <= m and m < len(edge_list) and edge_layer[m] == l for m in Int)) for l in Layer)",
               **NODE_MD_KEPT, **SAME_WEIGHTED},
      invariants={0: {
          "i": "i == _j0", "j": "0 <= _j0 and _j0 <= len(edge_list)", "wf": "wf(self)",
          "V": "all((n in V(self)) == (n in V(old(self)) or any(0 <= m and m < _j0 and n in edge_list[m] for m in Int)) for n in Node)",
          "E": "all((k in E(self)) == (k in E(old(self)) or any(0 <= m and m < _j0 and pair(canon(edge_list[m]), edge_layer[m]) == k for m in Int)) for k in Key)",
          "W": "implies(weighted(self), all(W(self, k) == (W(old(self), k) if k in E(old(self)) else 0) + bsum(self, edge_list, edge_layer, weights, _j0, k) for k in E(self)))",
          "W0": "all(bsum(self, edge_list, edge_layer, weights, _j0, k) == 0 for k in Key if k not in E(self))",
          "layers": "all((l in LAYERS(self)) == (l in LAYERS(old(self)) or any(0 <= m and m < _j0 and edge_layer[m] == l for m in Int)) for l in Layer)",
          "NM_kept": "all(NM(self, n) == NM(old(self), n) for n in V(old(self)))",
          "weighted": "weighted(self) == weighted(old(self))", "HM": "HM(self) == HM(old(self))"}}),
    C("set_attr_to_node_metadata", params={"node": "Node", "field": "Field", "value": "Val"}, requires={"wf": "wf(self)"},
      raises={"ValueError": "node not in V(self)"}, modifies=["_node_metadata"],
      ensures={"wf": "wf(self)", "NM": "NM(self, node) == mset(NM(old(self), node), field, value)",
               "NM_others": "all(NM(self, n) == NM(old(self), n) for n in V(self) if n != node)"}),
    C("remove_attr_from_node_metadata", params={"node": "Node", "field": "Field"}, requires={"wf": "wf(self)"},
      raises={"ValueError": "node not in V(self)"},
      may_raise={"KeyError": "node in V(self) and not mhas(NM(self, node), field)"}, modifies=["_node_metadata"],
      ensures={"wf": "wf(self)", "NM": "NM(self, node) == mdel(NM(old(self), node), field)",
               "NM_others": "all(NM(self, n) == NM(old(self), n) for n in V(self) if n != node)"}),
    C("degree", params={"node": "Node", "order": "Opt[Int]", "size": "Opt[Int]"}, result="Int", pure=True,
      requires={"wf": "wf(self)"},
      raises={"ValueError": "(order is not None and size is not None) or node not in V(self)"},
      ensures={"result": "result == card({k for k in E(self) if node in fst(k) and sel(self, k, order, size, False)})"},
      properties=["C04", "C08"]),
    C("aggregated_hypergraph", params={}, result="Obj[Hypergraph]", pure=True,
      requires={"wf": "wf(self)"},
      ensures={"wf": "wf(result)", "weighted": "weighted(result) == weighted(self)",
               "V": "V(result) == V(self)",
               # exactly the distinct node sets of all layers ...
               "E": "all((t in E(result)) == any(k in E(self) and fst(k) == t for k in Key) for t in Tuple)",
               # ... each weighing the sum of its per-layer weights (1 if unweighted: wf(result))
               "W": "implies(weighted(self), all(wsum(self, t, listing(E(self))) == (W(result, t) if t in E(result) else 0) for t in Tuple))",
               "NM": "all(NM(result, n) == NM(self, n) for n in V(self))"},
      invariants={
          0: {"wf": "wf(h)", "weighted": "weighted(h) == weighted(self)",
              "V": "all((n in V(h)) == (count(_done0, n) >= 1) for n in Node)", "E": "all(t not in E(h) for t in Tuple)",
              "NM": "all(NM(h, n) == NM(self, n) for n in V(h))"},
          1: {"wf": "wf(h)", "weighted": "weighted(h) == weighted(self)", "V": "V(h) == V(self)",
              "E": "all((t in E(h)) == any(count(_done1, k) >= 1 and fst(k) == t for k in Key) for t in Tuple)",
              "W": "implies(weighted(self), all(wsum(self, t, _done1) == (W(h, t) if t in E(h) else 0) for t in Tuple))",
              "NM": "all(NM(h, n) == NM(self, n) for n in V(self))"}}),
    Contract("edge_overlap", "hypergraphx/measures/multiplex/overlap.py", ["edge_overlap"], properties=["C04"],
      params={"h": "Obj[MultiplexHypergraph]", "edge": "NodeSeq"}, result="Real", pure=True, locals={"overlap": "Real"},
      requires={"wf": "wf(h)", "distinct": "distinct(edge)"},
      # the overlap of a hyperedge is the sum of its weights over the layers in which it is present
      ensures={"result": "result == osum(h, canon(edge), LAYERS(h))"},
      invariants={0: {"sum": "overlap == osum(h, canon(old(edge)), _done0)"}}),
]


# ---- hypergraph-level metadata (a dict of the object): the setter installs the given dict, the attribute setter changes one entry, nothing else
# about the object changes (frame); the getter returns it
CONTRACTS += [
    C("get_hypergraph_metadata", params={}, result="Meta", pure=True, ensures={"result": "result == HM(self)"}, properties=['C04', 'C07']),
    C("set_hypergraph_metadata", params={"metadata": "Meta"}, modifies=["_hypergraph_metadata"],
      ensures={"HM": "HM(self) == metadata"}, properties=['C04', 'C07']),
    C("set_attr_to_hypergraph_metadata", params={"field": "Field", "value": "Val"}, modifies=["_hypergraph_metadata"],
      ensures={"HM": "HM(self) == mset(HM(old(self)), field, value)"}, properties=['C04', 'C07']),
]
