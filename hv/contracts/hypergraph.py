"""Contracts for hypergraphx/core/hypergraph.py (properties C01, C05, C07, C08, C19 rest on these).

Abstract view of a Hypergraph h (what the property statement calls "a plain set of nodes plus a map from
node sets to (weight, metadata)"):
    V(h)        set of nodes                       = dom(_adj)
    E(h)        set of hyperedges (canonical keys) = dom(_edge_list)
    W(h, k)     weight of k                        = _weights[_edge_list[k]]
    M(h, k)     metadata of k                      = _edge_metadata[_edge_list[k]]
    NM(h, n)    metadata of node n                 = _node_metadata[n]
    weighted(h)                                    = _weighted
    INC(h, n, k) how often k is listed as incident to n = _adj[n].count(_edge_list[k])
Top-level postconditions are taken from the statement of C01, never from the current behaviour.
"""
import z3
from ..pyvc import ty as T
from ..pyvc import theory as TH
from ..pyvc.engine import Layout, Contract
from ..pyvc.ty import fresh

FILE = "hypergraphx/core/hypergraph.py"
CLS = "Hypergraph"

FIELDS = {
    "_weighted": "Bool",
    "_adj": "Map[Int,Bag[Int]]",
    "_edge_list": "Map[Tup,Int]",
    "_reverse_edge_list": "Map[Int,Tup]",
    "_weights": "Map[Int,Real]",
    "_edge_metadata": "Map[Int,Meta]",
    "_node_metadata": "Map[Int,Meta]",
    "_hypergraph_metadata": "Meta",
    "_incidences_metadata": "Map[Pair[Tup,Int],Meta]",
    "_empty_edges": "Map[Str,Meta]",
    "_next_edge_id": "Int",
}


# number of members of a set of hyperedges that pass the order filter: a specification function defined by its fold axioms
CNT = z3.Function("count_sel", z3.ArraySort(T.TupS, T.B), T.I, T.B, T.I)
_cs, _cx, _co, _cu = z3.Const("_cs", z3.ArraySort(T.TupS, T.B)), z3.Const("_cx", T.TupS), z3.Int("_co"), z3.Bool("_cu")
TH.EXTRA.update({
    "count_sel_empty (definition)": z3.ForAll([_co, _cu], CNT(z3.K(T.TupS, z3.BoolVal(False)), _co, _cu) == 0,
                                              patterns=[CNT(z3.K(T.TupS, z3.BoolVal(False)), _co, _cu)]),
    "count_sel_step (definition)": z3.ForAll([_cs, _cx, _co, _cu], z3.Implies(z3.Not(_cs[_cx]),
        CNT(z3.Store(_cs, _cx, True), _co, _cu) == CNT(_cs, _co, _cu) +
        z3.If(z3.If(_cu, TH.tlen(_cx) - 1 <= _co, TH.tlen(_cx) - 1 == _co), 1, 0)), patterns=[CNT(z3.Store(_cs, _cx, True), _co, _cu)]),
})


def _f(h):
    F = h.fields
    return (F["_edge_list"], F["_reverse_edge_list"], F["_weights"], F["_edge_metadata"], F["_adj"],
            F["_node_metadata"], F["_next_edge_id"].t, F["_weighted"].t)


def live(h, i):
    el, rv = h.fields["_edge_list"], h.fields["_reverse_edge_list"]
    return z3.And(rv.dom[i], el.dom[rv.val[i]], el.val[rv.val[i]] == i)


def wf(eng, p, h):
    el, rv, w, em, adj, nm, nxt, wt = _f(h)
    k, i, n = fresh("k", T.TupS), fresh("i", T.I), fresh("n", T.I)
    FA, MP = z3.ForAll, z3.MultiPattern
    return {
        # index and reverse index agree; keys are canonical, non-empty; ids are below the counter  [observable]
        "el_rv": FA([k], z3.Implies(el.dom[k], z3.And(rv.dom[el.val[k]], rv.val[el.val[k]] == k, TH.strict(k),
                                                       TH.tlen(k) >= 1, 0 <= el.val[k], el.val[k] < nxt)),
                    patterns=[el.dom[k], el.val[k]]),
        # every stored hyperedge has a weight and a metadata entry  [observable]
        "el_tables": FA([k], z3.Implies(el.dom[k], z3.And(w.dom[el.val[k]], em.dom[el.val[k]])), patterns=[el.dom[k], el.val[k]]),
        "next": nxt >= 0,
        # incidence: every node of a stored hyperedge is a node ...
        "inc_dom": FA([i, n], z3.Implies(z3.And(live(h, i), TH.tmem(rv.val[i], n)), adj.dom[n]),
                      patterns=[MP(rv.dom[i], TH.tmem(rv.val[i], n))]),
        # ... and a hyperedge's id is listed exactly once for each of its nodes and for no other node
        "inc_once": FA([n, i], z3.Implies(adj.dom[n], adj.val[n][i] == z3.If(z3.And(live(h, i), TH.tmem(rv.val[i], n)), 1, 0)),
                       patterns=[adj.val[n][i]]),
        # the same by key (a consequence of inc_once and el_rv, stated for the benefit of E-matching)
        "inc_key": FA([n, k], z3.Implies(z3.And(adj.dom[n], el.dom[k]), adj.val[n][el.val[k]] == z3.If(TH.tmem(k, n), 1, 0)),
                      patterns=[MP(el.dom[k], TH.tmem(k, n), adj.dom[n]), adj.val[n][el.val[k]]]),
        "nm_dom": FA([n], z3.Implies(adj.dom[n], nm.dom[n]), patterns=[adj.dom[n]]),
        "unweighted_1": z3.Implies(z3.Not(wt), FA([k], z3.Implies(el.dom[k], w.val[el.val[k]] == 1), patterns=[el.val[k]])),
    }


def hygiene(eng, p, h):
    """Not needed for the view: stale entries under dead ids are invisible through the public API."""
    el, rv, w, em, adj, nm, nxt, wt = _f(h)
    i = fresh("i", T.I)
    return {
        "rv_live": z3.ForAll([i], z3.Implies(rv.dom[i], live(h, i)), patterns=[rv.dom[i]]),
        "w_live": z3.ForAll([i], z3.Implies(w.dom[i], live(h, i)), patterns=[w.dom[i]]),
        "em_live": z3.ForAll([i], z3.Implies(em.dom[i], live(h, i)), patterns=[em.dom[i]]),
    }


def view_eq(eng, p, a, b):
    """Observable state of b equals that of a."""
    k, n = fresh("k", T.TupS), fresh("n", T.I)
    ea, eb = a.fields["_edge_list"], b.fields["_edge_list"]
    return {
        "V": a.fields["_adj"].dom == b.fields["_adj"].dom,
        "E": ea.dom == eb.dom,
        "W": z3.ForAll([k], z3.Implies(ea.dom[k], W_(a, k) == W_(b, k))),
        "M": z3.ForAll([k], z3.Implies(ea.dom[k], M_(a, k) == M_(b, k))),
        "NM": z3.ForAll([n], z3.Implies(a.fields["_adj"].dom[n], a.fields["_node_metadata"].val[n] == b.fields["_node_metadata"].val[n])),
        "INC": z3.ForAll([n, k], z3.Implies(z3.And(a.fields["_adj"].dom[n], ea.dom[k]),
                                            a.fields["_adj"].val[n][ea.val[k]] == b.fields["_adj"].val[n][eb.val[k]])),
        "weighted": a.fields["_weighted"].t == b.fields["_weighted"].t,
        "HM": a.fields["_hypergraph_metadata"].t == b.fields["_hypergraph_metadata"].t,
    }


def W_(h, k):
    return h.fields["_weights"].val[h.fields["_edge_list"].val[k]]


def M_(h, k):
    return h.fields["_edge_metadata"].val[h.fields["_edge_list"].val[k]]


VIEWS = {
    "V": lambda eng, p, h: T.scalar(T.Set(T.INT), h.fields["_adj"].dom),
    "E": lambda eng, p, h: T.scalar(T.Set(T.TUP), h.fields["_edge_list"].dom),
    "W": lambda eng, p, h, k: T.sv_real(W_(h, k.t)),
    "M": lambda eng, p, h, k: T.scalar(T.META, M_(h, k.t)),
    "NM": lambda eng, p, h, n: T.scalar(T.META, h.fields["_node_metadata"].val[n.t]),
    "HM": lambda eng, p, h: h.fields["_hypergraph_metadata"],
    "weighted": lambda eng, p, h: h.fields["_weighted"],
    "INC": lambda eng, p, h, n, k: T.sv_int(h.fields["_adj"].val[n.t][h.fields["_edge_list"].val[k.t]]),
    "ID": lambda eng, p, h, k: T.sv_int(h.fields["_edge_list"].val[k.t]),
    # incidence metadata: keyed by the pair (hyperedge as it was listed by the caller, node)
    "IM": lambda eng, p, h, k, n: T.scalar(T.META, h.fields["_incidences_metadata"].val[T.Pair(T.TUP, T.INT).mk(k.t, eng.coerce(n, T.INT).t)]),
    "HASIM": lambda eng, p, h, k, n: T.sv_bool(h.fields["_incidences_metadata"].dom[T.Pair(T.TUP, T.INT).mk(k.t, eng.coerce(n, T.INT).t)]),
    "KLEN": lambda eng, p, h, k: T.sv_int(TH.tlen(k.t)),
    # count_sel(h, S, o, up_to): how many hyperedges of the set S have order == o (<= o when up_to)
    "count_sel": lambda eng, p, h, S, o, u: T.sv_int(CNT(S.t, eng.coerce(o, T.INT).t, eng.truth(u, p))),
}

LAYOUT = Layout(CLS, FIELDS, aliases={"Key": "Tup"}, views=VIEWS,
                multi={"wf": wf, "hygiene": hygiene, "view_eq": view_eq},
                tags={"rv_live": "hygiene", "w_live": "hygiene", "em_live": "hygiene"})


INJ = "all(implies(0 <= a and a < b and b < len(edge_list), canon(edge_list[a]) != canon(edge_list[b])) for a in Int for b in Int)"


# number of nodes of a set whose value under a node -> int table equals d (fold-defined specification function; histogram of degrees)
HIST = z3.Function("hist", z3.ArraySort(T.I, T.B), z3.ArraySort(T.I, T.I), T.I, T.I)
_hs, _hv, _hx, _hd = z3.Const("_hs", z3.ArraySort(T.I, T.B)), z3.Const("_hv", z3.ArraySort(T.I, T.I)), z3.Int("_hx"), z3.Int("_hd")
TH.EXTRA.update({
    "hist_empty (definition)": z3.ForAll([_hv, _hd], HIST(z3.K(T.I, z3.BoolVal(False)), _hv, _hd) == 0, patterns=[HIST(z3.K(T.I, z3.BoolVal(False)), _hv, _hd)]),
    "hist_step (definition)": z3.ForAll([_hs, _hv, _hx, _hd], z3.Implies(z3.Not(_hs[_hx]),
        HIST(z3.Store(_hs, _hx, True), _hv, _hd) == HIST(_hs, _hv, _hd) + z3.If(_hv[_hx] == _hd, 1, 0)), patterns=[HIST(z3.Store(_hs, _hx, True), _hv, _hd)]),
    "hist_nonneg (lemma: induction on the fold)": z3.ForAll([_hs, _hv, _hd], HIST(_hs, _hv, _hd) >= 0, patterns=[HIST(_hs, _hv, _hd)]),
})


def _hist_inv(eng, p, cx):
    done, seq, dist = p.env["_done0"].t, p.env["degree_seq"], p.env["degree_dist"]
    d = fresh("d", T.I)
    return {"dom": z3.ForAll([d], dist.dom[d] == (HIST(done, seq.val, d) >= 1), patterns=[dist.dom[d]]),
            "val": z3.ForAll([d], z3.Implies(dist.dom[d], dist.val[d] == HIST(done, seq.val, d)), patterns=[dist.val[d]])}


def _hist_post(which):
    def post(eng, p, cx):
        seq, res = cx.locals_env["degree_seq"], cx.result
        d = fresh("d", T.I)
        if which == "dom":       # a degree is listed iff some node has it
            return z3.ForAll([d], res.dom[d] == (HIST(seq.dom, seq.val, d) >= 1), patterns=[res.dom[d]])
        return z3.ForAll([d], z3.Implies(res.dom[d], res.val[d] == HIST(seq.dom, seq.val, d)), patterns=[res.val[d]])
    return post


def C(name, **kw):
    kw.setdefault("properties", ["C01"])
    return Contract(f"{CLS}.{name}", FILE, [CLS, name], self_cls=CLS, **kw)


# Frame clauses shared by the mutators: everything about the other nodes / hyperedges is unchanged.
OTHER_EDGES = {
    "W_others": "all(W(self, k) == W(old(self), k) for k in E(old(self)) if k != canon(edge))",
    "M_others": "all(M(self, k) == M(old(self), k) for k in E(old(self)) if k != canon(edge))",
}
NODE_MD_KEPT = {"NM_kept": "all(NM(self, n) == NM(old(self), n) for n in V(old(self)))"}
SAME_WEIGHTED = {"weighted": "weighted(self) == weighted(old(self))", "HM": "HM(self) == HM(old(self))"}


def _add_edge_inv():
    """Invariant of `for node in edge: self.add_node(node); self._adj[node].append(id)`: after j nodes, exactly the
    first j nodes of the key have been given the id once; every other adjacency entry is as before the loop."""
    def inv(eng, p, cx):
        cur, pre = p.env["self"], cx.pre_env["self"]
        seq, j = p.env["_it0"].t, p.env["_j0"].t
        adj, oadj = cur.fields["_adj"], pre.fields["_adj"]
        nm, onm = cur.fields["_node_metadata"], pre.fields["_node_metadata"]
        eid = cur.fields["_edge_list"].val[seq]
        n, i = fresh("n", T.I), fresh("i", T.I)
        return {
            "j_range": z3.And(0 <= j, j <= TH.tlen(seq)),
            "adj_dom": z3.ForAll([n], adj.dom[n] == z3.Or(oadj.dom[n], TH.pmem(seq, j, n)), patterns=[adj.dom[n]]),
            "adj_cnt": z3.ForAll([n, i], z3.Implies(adj.dom[n], adj.val[n][i] ==
                                 z3.If(oadj.dom[n], oadj.val[n][i], 0) + z3.If(z3.And(i == eid, TH.pmem(seq, j, n)), 1, 0)),
                                 patterns=[adj.val[n][i]]),
            "nm_dom": z3.ForAll([n], z3.Implies(adj.dom[n], nm.dom[n]), patterns=[adj.dom[n]]),
            "nm_old": z3.ForAll([n], z3.Implies(oadj.dom[n], nm.val[n] == onm.val[n]), patterns=[nm.val[n]]),
        }
    return inv


def _remove_edge_inv():
    def inv(eng, p, cx):
        cur, pre = p.env["self"], cx.pre_env["self"]
        seq, j = p.env["_it0"].t, p.env["_j0"].t
        adj, oadj = cur.fields["_adj"], pre.fields["_adj"]
        eid = cur.fields["_edge_list"].val[seq]
        n, i = fresh("n", T.I), fresh("i", T.I)
        return {
            "j_range": z3.And(0 <= j, j <= TH.tlen(seq)),
            "adj_dom": adj.dom == oadj.dom,
            "adj_cnt": z3.ForAll([n, i], z3.Implies(adj.dom[n], adj.val[n][i] ==
                                 oadj.val[n][i] - z3.If(z3.And(i == eid, TH.pmem(seq, j, n)), 1, 0)), patterns=[adj.val[n][i]]),
        }
    return inv


CONTRACTS = [
    # add_node is also called from inside add_edge's loop, where the incidence part of wf is temporarily broken:
    # its contract therefore requires only the conjunct it relies on and states an exact frame.
    C("add_node",
      params={"node": "Node", "metadata": "Opt[Meta]"},
      requires={"nm_dom": lambda eng, p, cx: wf(eng, p, p.env["self"])["nm_dom"]},
      modifies=["_adj", "_node_metadata"],
      ensures={
          "nm_dom": lambda eng, p, cx: wf(eng, p, p.env["self"])["nm_dom"],
          "V": "all((n in V(self)) == (n in V(old(self)) or n == node) for n in Node)",
          "adj_old": lambda eng, p, cx: _adj_kept(p.env["self"], cx.old_env["self"]),
          "adj_new": lambda eng, p, cx: _adj_new_empty(p.env["self"], cx.old_env["self"], p.env["node"].t),
          "NM_others": "all(NM(self, n) == NM(old(self), n) for n in V(old(self)) if n != node)",
          # statement of C01 is silent on which metadata wins on re-adding a node: only "a present node with
          # non-empty metadata keeps it" and "a new node gets the given metadata" are claimed
          "NM_kept": "implies(node in V(old(self)) and NM(old(self), node) != EMPTY, NM(self, node) == NM(old(self), node))",
          "NM_new": "implies(node not in V(old(self)), NM(self, node) == (EMPTY if metadata is None else metadata))",
          "NM_empty_none": "implies(node in V(old(self)) and metadata is None, NM(self, node) == NM(old(self), node))",
      }),
    C("add_edge",
      params={"edge": "NodeSeq", "weight": "Opt[Real]", "metadata": "Opt[Meta]"},
      requires={"wf": "wf(self)", "distinct": "distinct(edge)", "nonempty": "len(edge) >= 1"},
      raises={"ValueError": "not weighted(self) and weight is not None and weight != 1"},
      modifies=["_adj", "_node_metadata", "_edge_list", "_reverse_edge_list", "_weights", "_edge_metadata", "_next_edge_id"],
      ensures={
          "wf": "wf(self)",
          "V": "all((n in V(self)) == (n in V(old(self)) or n in edge) for n in Node)",
          "E": "all((k in E(self)) == (k in E(old(self)) or k == canon(edge)) for k in Tuple)",
          "W_new": "implies(canon(edge) not in E(old(self)), W(self, canon(edge)) == (real(1 if weight is None else weight) if weighted(self) else 1))",
          "W_again": "implies(canon(edge) in E(old(self)), W(self, canon(edge)) == (W(old(self), canon(edge)) + real(1 if weight is None else weight) if weighted(self) else W(old(self), canon(edge))))",
          **OTHER_EDGES,
          "M_given": "implies(metadata is not None, M(self, canon(edge)) == metadata)",
          # frame needed by remove_node(keep_edges=True), which iterates over ids: stored hyperedges keep their ids
          "ids": "all(ID(self, k) == ID(old(self), k) for k in E(old(self)))",
          **NODE_MD_KEPT, **SAME_WEIGHTED,
      },
      invariants={0: {"inv": _add_edge_inv()}}),
    C("remove_edge",
      params={"edge": "NodeSeq"},
      requires={"wf": "wf(self)"},
      raises={"KeyError": "canon(edge) not in E(self)"},
      modifies=["_adj", "_edge_list", "_reverse_edge_list", "_weights", "_edge_metadata"],
      ensures={
          "wf": "wf(self)",
          "V": "V(self) == V(old(self))",
          "E": "all((k in E(self)) == (k in E(old(self)) and k != canon(edge)) for k in Tuple)",
          **OTHER_EDGES, **NODE_MD_KEPT, **SAME_WEIGHTED,
      },
      invariants={0: {"inv": _remove_edge_inv()}}),

    # ------------------------------------------------------------------ construction (empty)
    C("__init__",
      params={"edge_list": "None", "weighted": "Bool", "weights": "None", "hypergraph_metadata": "Opt[Meta]",
              "node_metadata": "None", "edge_metadata": "None"},
      fixed={"edge_list": None, "weights": None, "node_metadata": None, "edge_metadata": None},
      modifies=list(FIELDS),
      ensures={"wf": "wf(self)", "V": "all(n not in V(self) for n in Node)", "E": "all(k not in E(self) for k in Tuple)",
               "weighted": "weighted(self) == weighted"},
      properties=["C01", "C05"]),
    # ------------------------------------------------------------------ membership, weights, metadata
    C("check_node", params={"node": "Node"}, result="Bool", pure=True,
      ensures={"result": "result == (node in V(self))"}),
    C("check_edge", params={"edge": "NodeSeq"}, result="Bool", pure=True,
      ensures={"result": "result == (canon(edge) in E(self))"}),
    C("get_weight", params={"edge": "NodeSeq"}, result="Real", pure=True,
      requires={"wf": "wf(self)"},
      raises={"ValueError": "canon(edge) not in E(self)"},
      ensures={"result": "result == W(self, canon(edge))"}, properties=["C01", "C05"]),
    C("set_weight", params={"edge": "NodeSeq", "weight": "Real"},
      requires={"wf": "wf(self)"},
      raises={"ValueError": "(not weighted(self) and weight != 1) or canon(edge) not in E(self)"},
      modifies=["_weights"],
      ensures={"wf": "wf(self)", "W": "W(self, canon(edge)) == weight", **OTHER_EDGES}),
    C("get_edge_metadata", params={"edge": "NodeSeq"}, result="Meta", pure=True,
      requires={"wf": "wf(self)"},
      raises={"ValueError": "canon(edge) not in E(self)"},
      ensures={"result": "result == M(self, canon(edge))"}, properties=["C01", "C05"]),
    C("set_edge_metadata", params={"edge": "NodeSeq", "metadata": "Meta"},
      requires={"wf": "wf(self)"},
      raises={"ValueError": "canon(edge) not in E(self)"},
      modifies=["_edge_metadata"],
      ensures={"wf": "wf(self)", "M": "M(self, canon(edge)) == metadata", **OTHER_EDGES}, properties=["C01", "C05"]),
    C("get_node_metadata", params={"node": "Node"}, result="Meta", pure=True,
      requires={"wf": "wf(self)"},
      raises={"ValueError": "node not in V(self)"},
      ensures={"result": "result == NM(self, node)"}, properties=["C01", "C05"]),
    C("set_node_metadata", params={"node": "Node", "metadata": "Meta"},
      requires={"wf": "wf(self)"},
      raises={"ValueError": "node not in V(self)"},
      modifies=["_node_metadata"],
      ensures={"wf": "wf(self)", "NM": "NM(self, node) == metadata",
               "NM_others": "all(NM(self, n) == NM(old(self), n) for n in V(self) if n != node)"}, properties=["C01", "C05"]),
    C("set_attr_to_node_metadata", params={"node": "Node", "field": "Field", "value": "Val"},
      requires={"wf": "wf(self)"},
      may_raise={"ValueError": "node not in V(self)"},
      modifies=["_node_metadata"],
      ensures={"wf": "wf(self)", "NM": "implies(node in V(self), NM(self, node) == mset(NM(old(self), node), field, value))",
               "NM_others": "all(NM(self, n) == NM(old(self), n) for n in V(self) if n != node)"}),
    C("set_attr_to_edge_metadata", params={"edge": "NodeSeq", "field": "Field", "value": "Val"},
      requires={"wf": "wf(self)"},
      raises={"ValueError": "canon(edge) not in E(self)"},
      modifies=["_edge_metadata"],
      ensures={"wf": "wf(self)", "M": "M(self, canon(edge)) == mset(M(old(self), canon(edge)), field, value)", **OTHER_EDGES}),
    C("remove_attr_from_node_metadata", params={"node": "Node", "field": "Field"},
      requires={"wf": "wf(self)"},
      may_raise={"ValueError": "node not in V(self)", "KeyError": "node not in V(self) or not mhas(NM(self, node), field)"},
      modifies=["_node_metadata"],
      ensures={"wf": "wf(self)", "NM": "implies(node in V(self), NM(self, node) == mdel(NM(old(self), node), field))",
               "NM_others": "all(NM(self, n) == NM(old(self), n) for n in V(self) if n != node)"}),
    C("remove_attr_from_edge_metadata", params={"edge": "NodeSeq", "field": "Field"},
      requires={"wf": "wf(self)"},
      raises={"ValueError": "canon(edge) not in E(self)"},
      may_raise={"KeyError": "canon(edge) in E(self) and not mhas(M(self, canon(edge)), field)"},
      modifies=["_edge_metadata"],
      ensures={"wf": "wf(self)", "M": "M(self, canon(edge)) == mdel(M(old(self), canon(edge)), field)", **OTHER_EDGES}),
    C("is_weighted", params={}, result="Bool", pure=True, ensures={"result": "result == weighted(self)"},
      properties=["C01", "C05"]),
    # ------------------------------------------------------------------ listings
    C("get_nodes", params={"metadata": "Bool"}, fixed={"metadata": False}, result="Bag[Int]", pure=True,
      ensures={"result": "all(count(result, n) == (1 if n in V(self) else 0) for n in Node)",
               "len": "len(result) == card(V(self))"}, properties=["C01", "C05"]),
    Contract(f"{CLS}.get_nodes@md", FILE, [CLS, "get_nodes"], self_cls=CLS, properties=["C01"],
      params={"metadata": "Bool"}, fixed={"metadata": True}, result="Map[Int,Meta]", pure=True,
      requires={"wf": "wf(self)"},
      ensures={"dom": "all((n in result) == (n in V(self)) for n in Node)",
               "val": "all(result[n] == NM(self, n) for n in V(self))"}),
    C("get_edges",
      params={"order": "Opt[Int]", "size": "Opt[Int]", "up_to": "Bool", "subhypergraph": "Bool",
              "keep_isolated_nodes": "Bool", "metadata": "Bool"},
      fixed={"subhypergraph": False, "keep_isolated_nodes": False, "metadata": False},
      result="Bag[Tup]", pure=True,
      requires={"wf": "wf(self)"},
      raises={"ValueError": "order is not None and size is not None"},
      ensures={"result": "all(count(result, k) == (1 if k in E(self) and sel(self, k, order, size, up_to) else 0) for k in Tuple)"},
      properties=["C01", "C05"]),
    Contract(f"{CLS}.get_edges@md", FILE, [CLS, "get_edges"], self_cls=CLS, properties=["C01"],
      params={"order": "Opt[Int]", "size": "Opt[Int]", "up_to": "Bool", "subhypergraph": "Bool",
              "keep_isolated_nodes": "Bool", "metadata": "Bool"},
      fixed={"subhypergraph": False, "keep_isolated_nodes": False, "metadata": True},
      result="Map[Tup,Meta]", pure=True,
      requires={"wf": "wf(self)"},
      raises={"ValueError": "order is not None and size is not None"},
      ensures={"dom": "all((k in result) == (k in E(self) and sel(self, k, order, size, up_to)) for k in Tuple)",
               "val": "all(implies(sel(self, k, order, size, up_to), result[k] == M(self, k)) for k in E(self))"}),
    # ------------------------------------------------------------------ get_edges(subhypergraph=True): extraction by one order / size (C05)
    # `edges` is the positional listing of the selected keys (each once, order not modelled); `edge_weights` is built element-wise from it,
    # so the pairing of hyperedges and weights handed to add_edges is part of the proof (add_edges: W_each)
    Contract(f"{CLS}.get_edges@sub_iso", FILE, [CLS, "get_edges"], self_cls=CLS, properties=["C05"], options={"listing_positional"},
      params={"order": "Opt[Int]", "size": "Opt[Int]", "up_to": "Bool", "subhypergraph": "Bool", "keep_isolated_nodes": "Bool", "metadata": "Bool"},
      fixed={"subhypergraph": True, "keep_isolated_nodes": True},
      result="Obj[Hypergraph]", pure=True, locals={"edges": "Seq[Tup]", "edge_weights": "Seq[Real]"},
      requires={"wf": "wf(self)"},
      raises={"ValueError": "order is not None and size is not None"},
      ensures={"wf": "wf(result)", "weighted": "weighted(result) == weighted(self)",
               "E": "all((k in E(result)) == (k in E(self) and sel(self, k, order, size, up_to)) for k in Tuple)",
               "W": "all(W(result, k) == W(self, k) for k in E(result))",
               "M": "all(M(result, k) == M(self, k) for k in E(result))",
               "V": "all((n in V(result)) == (n in V(self)) for n in Node)",
               "NM": "all(NM(result, n) == NM(self, n) for n in V(result))"},
      invariants={
          0: {"wf": "wf(h)", "weighted": "weighted(h) == weighted(self)", "V": "all((n in V(h)) == (n in V(self)) for n in Node)",
              "E": "all((k in E(h)) == (k in E(self) and sel(self, k, order, size, up_to)) for k in Tuple)",
              "W": "all(W(h, k) == W(self, k) for k in E(h))",
              "NM": "all(NM(h, n) == NM(self, n) for n in _done0)"},
          1: {"wf": "wf(h)", "weighted": "weighted(h) == weighted(self)", "V": "all((n in V(h)) == (n in V(self)) for n in Node)",
              "E": "all((k in E(h)) == (k in E(self) and sel(self, k, order, size, up_to)) for k in Tuple)",
              "W": "all(W(h, k) == W(self, k) for k in E(h))",
              "NM": "all(NM(h, n) == NM(self, n) for n in V(h))",
              "M": "all(M(h, edges[m]) == M(self, edges[m]) for m in Int if 0 <= m and m < _j1)"}}),
    Contract(f"{CLS}.get_edges@sub", FILE, [CLS, "get_edges"], self_cls=CLS, properties=["C05"], options={"listing_positional"},
      params={"order": "Opt[Int]", "size": "Opt[Int]", "up_to": "Bool", "subhypergraph": "Bool", "keep_isolated_nodes": "Bool", "metadata": "Bool"},
      fixed={"subhypergraph": True, "keep_isolated_nodes": False},
      result="Obj[Hypergraph]", pure=True, locals={"edges": "Seq[Tup]", "edge_weights": "Seq[Real]"},
      requires={"wf": "wf(self)"},
      raises={"ValueError": "order is not None and size is not None"},
      ensures={"wf": "wf(result)", "weighted": "weighted(result) == weighted(self)",
               "E": "all((k in E(result)) == (k in E(self) and sel(self, k, order, size, up_to)) for k in Tuple)",
               "W": "all(W(result, k) == W(self, k) for k in E(result))",
               "M": "all(M(result, k) == M(self, k) for k in E(result))",
               "V": "all((n in V(result)) == any(k in E(self) and sel(self, k, order, size, up_to) and n in k for k in Tuple) for n in Node)",
               "NM": "all(NM(result, n) == NM(self, n) for n in V(result))"},
      invariants={
          2: {"wf": "wf(h)", "weighted": "weighted(h) == weighted(self)", "V": "all((n in V(h)) == any(k in E(self) and sel(self, k, order, size, up_to) and n in k for k in Tuple) for n in Node)",
              "E": "all((k in E(h)) == (k in E(self) and sel(self, k, order, size, up_to)) for k in Tuple)",
              "W": "all(W(h, k) == W(self, k) for k in E(h))",
              "NM": "all(NM(h, n) == NM(self, n) for n in _done2)"},
          3: {"wf": "wf(h)", "weighted": "weighted(h) == weighted(self)", "V": "all((n in V(h)) == any(k in E(self) and sel(self, k, order, size, up_to) and n in k for k in Tuple) for n in Node)",
              "E": "all((k in E(h)) == (k in E(self) and sel(self, k, order, size, up_to)) for k in Tuple)",
              "W": "all(W(h, k) == W(self, k) for k in E(h))",
              "NM": "all(NM(h, n) == NM(self, n) for n in V(h))",
              "M": "all(M(h, edges[m]) == M(self, edges[m]) for m in Int if 0 <= m and m < _j3)"}}),
    C("get_incident_edges", params={"node": "Node", "order": "Opt[Int]", "size": "Opt[Int]"},
      result="Bag[Tup]", pure=True,
      requires={"wf": "wf(self)"},
      raises={"ValueError": "node not in V(self) or (order is not None and size is not None)"},
      ensures={"result": "all(count(result, k) == (1 if k in E(self) and node in k and sel(self, k, order, size, False) else 0) for k in Tuple)"},
      properties=["C01", "C08"]),
    C("get_sizes", params={}, result="Bag[Int]", pure=True, options={"image_counts"},
      ensures={"len": "len(result) == card(E(self))",
               "exact": "all(count(result, s) == card({k for k in E(self) if len(k) == s}) for s in Int if trig(card({k for k in E(self) if len(k) == s})))",
               "members": "all(implies(count(result, s) >= 1, any(len(k) == s for k in E(self))) for s in Int)",
               "covers": "all(count(result, len(k)) >= 1 for k in E(self))"}),
    C("get_orders", params={}, result="Bag[Int]", pure=True, options={"image_counts"},
      ensures={"len": "len(result) == card(E(self))",
               "exact": "all(count(result, s) == card({k for k in E(self) if len(k) - 1 == s}) for s in Int if trig(card({k for k in E(self) if len(k) - 1 == s})))",
               "members": "all(implies(count(result, s) >= 1, any(len(k) - 1 == s for k in E(self))) for s in Int)",
               "covers": "all(count(result, len(k) - 1) >= 1 for k in E(self))"}),
    # size statistics: the histogram of the sizes (C01 "size statistics")
    C("distribution_sizes", params={}, result="Map[Int,Int]", pure=True, requires={"wf": "wf(self)"},
      ensures={"dom": "all((s in result) == any(len(k) == s for k in E(self)) for s in Int)",
               "val": "all(result[s] == card({k for k in E(self) if len(k) == s}) for s in result)"}),
    # ------------------------------------------------------------------ batched forms
    # The list is modelled as a bag (any iteration order). Verified for lists of distinct stored canonical keys, which is
    # how remove_node uses it; arbitrary lists (unsorted node order, missing or repeated hyperedges -> KeyError after a
    # partial removal) are left to the bounded tier.
    C("remove_edges", params={"edge_list": "Bag[Tup]"},
      requires={"wf": "wf(self)",
                "stored": "all(strict(e) and e in E(self) and count(edge_list, e) == 1 for e in edge_list)"},
      modifies=["_adj", "_edge_list", "_reverse_edge_list", "_weights", "_edge_metadata"],
      ensures={"wf": "wf(self)", "V": "V(self) == V(old(self))",
               "E": "all((k in E(self)) == (k in E(old(self)) and count(edge_list, k) == 0) for k in Tuple)",
               "W_kept": "all(W(self, k) == W(old(self), k) for k in E(self))",
               "M_kept": "all(M(self, k) == M(old(self), k) for k in E(self))",
               **NODE_MD_KEPT, **SAME_WEIGHTED},
      invariants={0: {
          "wf": "wf(self)", "V": "V(self) == V(old(self))",
          "E": "all((k in E(self)) == (k in E(old(self)) and count(_done0, k) == 0) for k in Tuple)",
          "W_kept": "all(W(self, k) == W(old(self), k) for k in E(self))",
          "M_kept": "all(M(self, k) == M(old(self), k) for k in E(self))",
          "NM_kept": "all(NM(self, n) == NM(old(self), n) for n in V(old(self)))",
          "weighted": "weighted(self) == weighted(old(self))", "HM": "HM(self) == HM(old(self))"}}),
    # ------------------------------------------------------------------ node removal
    C("remove_node", params={"node": "Node", "keep_edges": "Bool"}, fixed={"keep_edges": False},
      requires={"wf": "wf(self)"},
      raises={"KeyError": "node not in V(self)"},
      modifies=["_adj", "_edge_list", "_reverse_edge_list", "_weights", "_edge_metadata"],
      ensures={"wf": "wf(self)",
               "V": "all((n in V(self)) == (n in V(old(self)) and n != node) for n in Node)",
               "E": "all((k in E(self)) == (k in E(old(self)) and node not in k) for k in Tuple)",
               "W_kept": "all(W(self, k) == W(old(self), k) for k in E(self))",
               "M_kept": "all(M(self, k) == M(old(self), k) for k in E(self))",
               "NM_kept": "all(NM(self, n) == NM(old(self), n) for n in V(self))",
               **SAME_WEIGHTED},
      properties=["C01", "C19"]),
    C("remove_nodes", params={"node_list": "Bag[Int]", "keep_edges": "Bool"}, fixed={"keep_edges": False},
      requires={"wf": "wf(self)", "present": "all(n in V(self) and count(node_list, n) == 1 for n in node_list)"},
      modifies=["_adj", "_edge_list", "_reverse_edge_list", "_weights", "_edge_metadata"],
      ensures={"wf": "wf(self)",
               "V": "all((n in V(self)) == (n in V(old(self)) and count(node_list, n) == 0) for n in Node)",
               "E": "all((k in E(self)) == (k in E(old(self)) and all(count(node_list, n) == 0 for n in k)) for k in Tuple)",
               "W_kept": "all(W(self, k) == W(old(self), k) for k in E(self))",
               "M_kept": "all(M(self, k) == M(old(self), k) for k in E(self))",
               "NM_kept": "all(NM(self, n) == NM(old(self), n) for n in V(self))", **SAME_WEIGHTED},
      invariants={0: {
          "wf": "wf(self)",
          "V": "all((n in V(self)) == (n in V(old(self)) and count(_done0, n) == 0) for n in Node)",
          "E": "all((k in E(self)) == (k in E(old(self)) and all(count(_done0, n) == 0 for n in k)) for k in Tuple)",
          "W_kept": "all(W(self, k) == W(old(self), k) for k in E(self))",
          "M_kept": "all(M(self, k) == M(old(self), k) for k in E(self))",
          "NM_kept": "all(NM(self, n) == NM(old(self), n) for n in V(self))",
          "weighted": "weighted(self) == weighted(old(self))", "HM": "HM(self) == HM(old(self))"}}),
    C("add_nodes", params={"node_list": "Bag[Int]", "metadata": "Opt[Map[Int,Meta]]"},
      requires={"wf": "wf(self)"},
      # with a metadata dictionary that misses a node the call raises after having added the earlier nodes
      may_raise={"ValueError": "metadata is not None and any(n not in metadata for n in node_list)"},
      on_raise={"wf": "wf(self)", "E": "E(self) == E(old(self))"},
      modifies=["_adj", "_node_metadata"],
      ensures={"wf": "wf(self)",
               "V": "all((n in V(self)) == (n in V(old(self)) or count(node_list, n) >= 1) for n in Node)",
               "NM_kept": "all(implies(metadata is None or NM(old(self), n) != EMPTY, NM(self, n) == NM(old(self), n)) for n in V(old(self)))",
               "NM_new": "all(implies(n not in V(old(self)) and count(node_list, n) == 1, NM(self, n) == (EMPTY if metadata is None else metadata[n])) for n in node_list)"},
      invariants={0: {
          "wf": "wf(self)",
          "V": "all((n in V(self)) == (n in V(old(self)) or count(_done0, n) >= 1) for n in Node)",
          "NM_kept": "all(implies(metadata is None or NM(old(self), n) != EMPTY, NM(self, n) == NM(old(self), n)) for n in V(old(self)))",
          "NM_new": "all(implies(n not in V(old(self)) and count(node_list, n) == 1, NM(self, n) == (EMPTY if metadata is None else metadata[n])) for n in _done0)",
          "meta_ok": "implies(metadata is not None, all(n in metadata for n in _done0))"}},
      properties=["C01", "C05"]),
    C("clear", params={},
      requires={"wf": "wf(self)"},
      modifies=list(FIELDS),
      ensures={"wf": "wf(self)", "V": "all(n not in V(self) for n in Node)", "E": "all(k not in E(self) for k in Tuple)",
               "weighted": "weighted(self) == weighted(old(self))"}),
    C("num_nodes", params={}, result="Int", pure=True, ensures={"result": "result == card(V(self))"}),
    C("__len__", params={}, result="Int", pure=True, ensures={"result": "result == card(E(self))"}, properties=["C10"]),
    C("num_edges", params={"order": "Opt[Int]", "size": "Opt[Int]", "up_to": "Bool"}, result="Int", pure=True, locals={"s": "Int"},
      requires={"wf": "wf(self)"},
      raises={"ValueError": "order is not None and size is not None"},
      ensures={"all": "implies(order is None and size is None, result == card(E(self)))",
               "by_order": "implies(order is not None, result == count_sel(self, E(self), order, up_to))",
               "by_size": "implies(size is not None, result == count_sel(self, E(self), size - 1, up_to))"},
      invariants={0: {"s": "s == count_sel(self, _done0, order, False)"},
                  1: {"s": "s == count_sel(self, _done1, order, True)"}}),
    C("is_uniform", params={}, result="Bool", pure=True, locals={"sz": "Opt[Int]", "uniform": "Bool"},
      requires={"wf": "wf(self)"},
      ensures={"result": "result == all(len(k1) == len(k2) for k1 in E(self) for k2 in E(self))"},
      invariants={0: {"uniform": "uniform",
                      "none": "(sz is None) == all(k not in _done0 for k in Tuple)",
                      "same": "implies(sz is not None, all(len(k) == sz for k in _done0))",
                      "witness": "implies(sz is not None, any(len(k) == sz for k in _done0))"}}),
    C("max_size", params={}, result="Int", pure=True,
      raises={"ValueError": "card(E(self)) == 0"},
      ensures={"bound": "all(len(k) <= result for k in E(self))", "attained": "any(len(k) == result for k in E(self))"}),
    C("max_order", params={}, result="Int", pure=True,
      raises={"ValueError": "card(E(self)) == 0"},
      ensures={"bound": "all(len(k) - 1 <= result for k in E(self))", "attained": "any(len(k) - 1 == result for k in E(self))"}),
    Contract(f"{CLS}.get_weights@dict", FILE, [CLS, "get_weights"], self_cls=CLS, properties=["C01"],
      params={"order": "Opt[Int]", "size": "Opt[Int]", "up_to": "Bool", "asdict": "Bool"}, fixed={"asdict": True},
      result="Map[Tup,Real]", pure=True,
      requires={"wf": "wf(self)"},
      raises={"ValueError": "order is not None and size is not None"},
      ensures={"dom": "all((k in result) == (k in E(self) and sel(self, k, order, size, up_to)) for k in Tuple)",
               "val": "all(implies(sel(self, k, order, size, up_to), result[k] == W(self, k)) for k in E(self))"}),
    Contract(f"{CLS}.get_weights@list", FILE, [CLS, "get_weights"], self_cls=CLS, properties=["C01"],
      params={"order": "Opt[Int]", "size": "Opt[Int]", "up_to": "Bool", "asdict": "Bool"}, fixed={"asdict": False},
      result="Bag[Real]", pure=True,
      requires={"wf": "wf(self)"},
      raises={"ValueError": "order is not None and size is not None"},
      # one entry per selected hyperedge, each the weight of a selected hyperedge (the order of the list is not modelled)
      ensures={"len": "len(result) == card({k for k in E(self) if sel(self, k, order, size, up_to)})",
               "members": "all(implies(count(result, x) >= 1, any(sel(self, k, order, size, up_to) and W(self, k) == x for k in E(self))) for x in Real)",
               "covers": "all(implies(sel(self, k, order, size, up_to), count(result, W(self, k)) >= 1) for k in E(self))"}),
    # ------------------------------------------------------------------ degree (hypergraphx/measures/degree.py)
    Contract("degree[Hypergraph]", "hypergraphx/measures/degree.py", ["degree"], properties=["C01", "C08"],
      params={"hg": "Obj[Hypergraph]", "node": "Node", "order": "Opt[Int]", "size": "Opt[Int]"}, result="Int", pure=True,
      requires={"wf": "wf(hg)"},
      raises={"ValueError": "(order is not None and size is not None) or node not in V(hg)"},
      # the degree is the number of distinct (filtered) hyperedges containing the node
      ensures={"result": "result == card({k for k in E(hg) if node in k and sel(hg, k, order, size, False)})"}),
    C("degree", params={"node": "Node", "order": "Opt[Int]", "size": "Opt[Int]"}, result="Int", pure=True,
      requires={"wf": "wf(self)"},
      raises={"ValueError": "(order is not None and size is not None) or node not in V(self)"},
      ensures={"result": "result == card({k for k in E(self) if node in k and sel(self, k, order, size, False)})"},
      properties=["C01", "C08"]),
    C("degree_sequence", params={"order": "Opt[Int]", "size": "Opt[Int]"}, result="Map[Int,Int]", pure=True,
      requires={"wf": "wf(self)"},
      raises={"ValueError": "order is not None and size is not None"},
      ensures={"dom": "all((n in result) == (n in V(self)) for n in Node)",
               "val": "all(result[n] == card({k for k in E(self) if n in k and sel(self, k, order, size, False)}) for n in V(self))"},
      properties=["C01", "C08"]),
    Contract("degree_sequence[Hypergraph]", "hypergraphx/measures/degree.py", ["degree_sequence"], properties=["C01", "C08"],
      params={"hg": "Obj[Hypergraph]", "order": "Opt[Int]", "size": "Opt[Int]"}, result="Map[Int,Int]", pure=True,
      requires={"wf": "wf(hg)"},
      raises={"ValueError": "order is not None and size is not None"},
      ensures={"dom": "all((n in result) == (n in V(hg)) for n in Node)",
               "val": "all(result[n] == card({k for k in E(hg) if n in k and sel(hg, k, order, size, False)}) for n in V(hg))"}),
    # histogram view: result[d] = number of nodes whose degree (the verified degree_sequence under the same filter) is d; `hist` is the
    # fold-defined count over the node set of the local table degree_seq, whose values the callee's contract fixes to the degrees
    Contract("degree_distribution[Hypergraph]", "hypergraphx/measures/degree.py", ["degree_distribution"], properties=["C01", "C08"],
      params={"hg": "Obj[Hypergraph]", "order": "Opt[Int]", "size": "Opt[Int]"}, result="Map[Int,Int]", pure=True,
      locals={"degree_dist": "Map[Int,Int]", "degree_seq": "Map[Int,Int]"},
      requires={"wf": "wf(hg)"},
      raises={"ValueError": "order is not None and size is not None"},
      ensures={"dom": _hist_post("dom"), "val": _hist_post("val"),
               # ... and that table is the degree sequence under the SAME filter
               "seq_dom": 'all((n in local("degree_seq")) == (n in V(hg)) for n in Node)',
               "seq_val": 'all(local("degree_seq")[n] == card({k for k in E(hg) if n in k and sel(hg, k, order, size, False)}) for n in V(hg))'},
      invariants={0: {"hist": _hist_inv}}),
    # ------------------------------------------------------------------ extraction (C05)
    C("subhypergraph", params={"nodes": "Bag[Int]"}, result="Obj[Hypergraph]", pure=True,
      requires={"wf": "wf(self)", "present": "all(n in V(self) for n in nodes)"},
      ensures={
          "wf": "wf(result)",
          "weighted": "weighted(result) == weighted(self)",
          "V": "all((n in V(result)) == (count(nodes, n) >= 1) for n in Node)",
          # exactly the hyperedges all of whose nodes are selected, with their original weights and metadata
          "E": "all((k in E(result)) == (k in E(self) and all(count(nodes, n) >= 1 for n in k)) for k in Tuple)",
          "W": "all(W(result, k) == W(self, k) for k in E(result))",
          "M": "all(M(result, k) == M(self, k) for k in E(result))",
          "NM": "all(NM(result, n) == NM(self, n) for n in V(result))",
      },
      invariants={
          0: {"wf": "wf(h)", "weighted": "weighted(h) == weighted(self)",
              "V": "all((n in V(h)) == (count(nodes, n) >= 1) for n in Node)",
              "E": "all(k not in E(h) for k in Tuple)",
              "NM": "all(NM(h, n) == NM(self, n) for n in _done0)"},
          1: {"wf": "wf(h)", "weighted": "weighted(h) == weighted(self)",
              "V": "all((n in V(h)) == (count(nodes, n) >= 1) for n in Node)",
              "E": "all((k in E(h)) == (k in _done1 and all(count(nodes, n) >= 1 for n in k)) for k in Tuple)",
              "W": "all(W(h, k) == W(self, k) for k in E(h))",
              "M": "all(M(h, k) == M(self, k) for k in E(h))",
              "NM": "all(NM(h, n) == NM(self, n) for n in V(h))"}},
      properties=["C05"]),
    C("subhypergraph_by_orders", params={"orders": "None", "sizes": "Bag[Int]", "keep_nodes": "Bool"}, fixed={"orders": None},
      result="Obj[Hypergraph]", pure=True, locals={"sizes": "Bag[Int]"},
      requires={"wf": "wf(self)"},      # a size may be listed more than once (repaired: fix commit in /repo)
      ensures={
          "wf": "wf(result)", "weighted": "weighted(result) == weighted(self)",
          "E": "all((k in E(result)) == (k in E(self) and count(sizes, len(k)) >= 1) for k in Tuple)",
          "W": "all(W(result, k) == W(self, k) for k in E(result))",
          "M": "all(M(result, k) == M(self, k) for k in E(result))",
          "V_keep": "implies(keep_nodes, all((n in V(result)) == (n in V(self)) for n in Node))",
          "V_drop": "implies(not keep_nodes, all((n in V(result)) == any(n in k for k in E(result)) for n in Node))",
          "NM": "all(NM(result, n) == NM(self, n) for n in V(result))",
      },
      invariants={
          0: {"wf": "wf(h)", "weighted": "weighted(h) == weighted(self)", "V": "V(h) == V(self)", "E": "all(k not in E(h) for k in Tuple)",
              "NM": "all(NM(h, n) == NM(self, n) for n in _done0)"},
          2: {"wf": "wf(h)", "weighted": "weighted(h) == weighted(self)",
              "E": "all((k in E(h)) == (k in E(self) and len(k) in _done2) for k in Tuple)",
              "W": "all(W(h, k) == W(self, k) for k in E(h))", "M": "all(M(h, k) == M(self, k) for k in E(h))",
              "V_keep": "implies(keep_nodes, V(h) == V(self))",
              "V_drop": "implies(not keep_nodes, all((n in V(h)) == any(n in k for k in E(h)) for n in Node))",
              "NM": "implies(keep_nodes, all(NM(h, n) == NM(self, n) for n in V(h)))"},
          3: {"wf": "wf(h)", "weighted": "weighted(h) == weighted(self)",
              "E": "all((k in E(h)) == (k in E(self) and (len(k) in _done2 or count(_done3, k) >= 1)) for k in Tuple)",
              "W": "all(W(h, k) == W(self, k) for k in E(h))", "M": "all(M(h, k) == M(self, k) for k in E(h))",
              "V_keep": "implies(keep_nodes, V(h) == V(self))",
              "V_drop": "implies(not keep_nodes, all((n in V(h)) == any(n in k for k in E(h)) for n in Node))",
              "NM": "implies(keep_nodes, all(NM(h, n) == NM(self, n) for n in V(h)))"},
          4: {"wf": "wf(h)", "weighted": "weighted(h) == weighted(self)",
              "E": "all((k in E(h)) == (k in E(self) and count(sizes, len(k)) >= 1) for k in Tuple)",
              "W": "all(W(h, k) == W(self, k) for k in E(h))", "M": "all(M(h, k) == M(self, k) for k in E(h))",
              "V_drop": "all((n in V(h)) == any(n in k for k in E(h)) for n in Node)",
              "NM": "all(NM(h, n) == NM(self, n) for n in _done4)"}},
      properties=["C05"]),
    # the same extraction selected by a list of orders (sizes are derived as order + 1 in a first loop)
    Contract(f"{CLS}.subhypergraph_by_orders@orders", FILE, [CLS, "subhypergraph_by_orders"], self_cls=CLS, properties=["C05"],
      params={"orders": "Bag[Int]", "sizes": "None", "keep_nodes": "Bool"}, fixed={"sizes": None},
      result="Obj[Hypergraph]", pure=True, locals={"sizes": "Bag[Int]"},
      requires={"wf": "wf(self)"},
      ensures={
          "wf": "wf(result)", "weighted": "weighted(result) == weighted(self)",
          "E": "all((k in E(result)) == (k in E(self) and count(orders, len(k) - 1) >= 1) for k in Tuple)",
          "W": "all(W(result, k) == W(self, k) for k in E(result))",
          "M": "all(M(result, k) == M(self, k) for k in E(result))",
          "V_keep": "implies(keep_nodes, all((n in V(result)) == (n in V(self)) for n in Node))",
          "V_drop": "implies(not keep_nodes, all((n in V(result)) == any(n in k for k in E(result)) for n in Node))",
          "NM": "all(NM(result, n) == NM(self, n) for n in V(result))",
      },
      invariants={
          0: {"wf": "wf(h)", "weighted": "weighted(h) == weighted(self)", "V": "V(h) == V(self)", "E": "all(k not in E(h) for k in Tuple)",
              "NM": "all(NM(h, n) == NM(self, n) for n in _done0)"},
          1: {"sizes": "all(count(sizes, s) == count(_done1, s - 1) for s in Int)"},
          2: {"wf": "wf(h)", "weighted": "weighted(h) == weighted(self)",
              "E": "all((k in E(h)) == (k in E(self) and len(k) in _done2) for k in Tuple)",
              "W": "all(W(h, k) == W(self, k) for k in E(h))", "M": "all(M(h, k) == M(self, k) for k in E(h))",
              "V_keep": "implies(keep_nodes, V(h) == V(self))",
              "V_drop": "implies(not keep_nodes, all((n in V(h)) == any(n in k for k in E(h)) for n in Node))",
              "NM": "implies(keep_nodes, all(NM(h, n) == NM(self, n) for n in V(h)))"},
          3: {"wf": "wf(h)", "weighted": "weighted(h) == weighted(self)",
              "E": "all((k in E(h)) == (k in E(self) and (len(k) in _done2 or count(_done3, k) >= 1)) for k in Tuple)",
              "W": "all(W(h, k) == W(self, k) for k in E(h))", "M": "all(M(h, k) == M(self, k) for k in E(h))",
              "V_keep": "implies(keep_nodes, V(h) == V(self))",
              "V_drop": "implies(not keep_nodes, all((n in V(h)) == any(n in k for k in E(h)) for n in Node))",
              "NM": "implies(keep_nodes, all(NM(h, n) == NM(self, n) for n in V(h)))"},
          4: {"wf": "wf(h)", "weighted": "weighted(h) == weighted(self)",
              "E": "all((k in E(h)) == (k in E(self) and count(orders, len(k) - 1) >= 1) for k in Tuple)",
              "W": "all(W(h, k) == W(self, k) for k in E(h))", "M": "all(M(h, k) == M(self, k) for k in E(h))",
              "V_drop": "all((n in V(h)) == any(n in k for k in E(h)) for n in Node)",
              "NM": "all(NM(h, n) == NM(self, n) for n in _done4)"}}),
    # copy(): deepcopy is an assumed library contract (equal value, no sharing); proved here: the copy has the same view.
    # Independence under later mutation is checked in the bounded tier.
    C("copy", params={}, result="Obj[Hypergraph]", pure=True, requires={"wf": "wf(self)"},
      ensures={"wf": "wf(result)", "V": "V(result) == V(self)", "E": "E(result) == E(self)",
               "W": "all(W(result, k) == W(self, k) for k in E(self))", "M": "all(M(result, k) == M(self, k) for k in E(self))",
               "NM": "all(NM(result, n) == NM(self, n) for n in V(self))", "weighted": "weighted(result) == weighted(self)",
               "HM": "HM(result) == HM(self)",
               # incidence metadata is an observable too (get_incidence_metadata): the copy answers as the source does
               "IM": "all(HASIM(result, k, n) == HASIM(self, k, n) and IM(result, k, n) == IM(self, k, n) for k in Tuple for n in Node)"},
      properties=["C05"]),
    # ------------------------------------------------------------------ neighbours (C01, C08)
    C("get_neighbors", params={"node": "Node", "order": "Opt[Int]", "size": "Opt[Int]"}, result="Set[Int]", pure=True,
      locals={"neigh": "Set[Int]"},
      requires={"wf": "wf(self)"},
      raises={"ValueError": "node not in V(self) or (order is not None and size is not None)"},
      ensures={"result": "all((m in result) == (m != node and any(k in E(self) and node in k and m in k and sel(self, k, order, size, False) for k in Tuple)) for m in Node)",
               # the same fact keyed by the hyperedge (a consequence of `result`, stated for E-matching in callers)
               "covers": "all(implies(k in E(self) and node in k and m in k and m != node and sel(self, k, order, size, False), m in result) for k in Tuple for m in Node)"},
      invariants={0: {"neigh": "all((m in neigh) == any(count(_done0, k) >= 1 and m in k for k in Tuple) for m in Node)"},
                  1: {"neigh": "all((m in neigh) == any(count(_done1, k) >= 1 and m in k for k in Tuple) for m in Node)"}},
      properties=["C01", "C08"]),
    # node removal that shrinks the incident hyperedges: k survives iff it does not contain the node and either was there or is the
    # remainder k0 - {node} of a stored hyperedge k0 (then k0 = with_node(k, node)); weights of coinciding hyperedges add up (weighted)
    Contract(f"{CLS}.remove_node@keep", FILE, [CLS, "remove_node"], self_cls=CLS, properties=["C01", "C19"],
      params={"node": "Node", "keep_edges": "Bool"}, fixed={"keep_edges": True},
      locals={"to_remove": "Bag[Tup]"},
      requires={"wf": "wf(self)"},
      raises={"KeyError": "node not in V(self)"},
      modifies=["_adj", "_node_metadata", "_edge_list", "_reverse_edge_list", "_weights", "_edge_metadata", "_next_edge_id"],
      ensures={"wf": "wf(self)",
               "V": "all((n in V(self)) == (n in V(old(self)) and n != node) for n in Node)",
               "E": "all((k in E(self)) == (node not in k and (k in E(old(self)) or (node not in k and strict(k) and len(k) >= 1 and with_node(k, node) in E(old(self))))) for k in Tuple)",
               "W": "implies(weighted(self), all(W(self, k) == (W(old(self), k) if k in E(old(self)) else 0) + (W(old(self), with_node(k, node)) if (node not in k and strict(k) and len(k) >= 1 and with_node(k, node) in E(old(self))) else 0) for k in E(self)))",
               "NM_kept": "all(NM(self, n) == NM(old(self), n) for n in V(self))",
               "weighted": "weighted(self) == weighted(old(self))"},
      invariants={0: {
          "wf": "wf(self)", "V": "V(self) == V(old(self))",
          "ids": "all(k in E(self) and ID(self, k) == ID(old(self), k) for k in E(old(self)))",
          "Enew": "all(implies(k not in E(old(self)), (k in E(self)) == (node not in k and strict(k) and len(k) >= 1 and with_node(k, node) in E(old(self)) and count(_done0, ID(old(self), with_node(k, node))) >= 1)) for k in Tuple)",
          "W": "implies(weighted(self), all(W(self, k) == (W(old(self), k) if k in E(old(self)) else 0) + (W(old(self), with_node(k, node)) if (node not in k and strict(k) and len(k) >= 1 and with_node(k, node) in E(old(self)) and count(_done0, ID(old(self), with_node(k, node))) >= 1) else 0) for k in E(self)))",
          "to_remove": "all(count(to_remove, k) == (1 if k in E(old(self)) and node in k and count(_done0, ID(old(self), k)) >= 1 else 0) for k in Tuple)",
          "NM_kept": "all(NM(self, n) == NM(old(self), n) for n in V(old(self)))",
          "weighted": "weighted(self) == weighted(old(self))"}}),
    # ------------------------------------------------------------------ batched insertion = fold of add_edge over the list
    C("add_edges", params={"edge_list": "Seq[Tup]", "weights": "Opt[Seq[Real]]", "metadata": "Opt[Seq[Meta]]"},
      requires={"wf": "wf(self)",
                "edges_ok": "all(distinct(edge_list[m]) and len(edge_list[m]) >= 1 for m in Int if 0 <= m and m < len(edge_list))",
                "metadata_len": "implies(metadata is not None, len(metadata) >= len(edge_list))"},
      # the only rejections (a hyperedge listed twice, or as many weights as hyperedges missing, in a weighted batch) happen before anything is modified
      raises={"ValueError": "weighted(self) and weights is not None and (len(weights) != len(edge_list) or "
                            "any(0 <= a and a < b and b < len(edge_list) and edge_list[a] == edge_list[b] for a in Int for b in Int))"},
      modifies=["_adj", "_node_metadata", "_edge_list", "_reverse_edge_list", "_weights", "_edge_metadata", "_next_edge_id"],
      ensures={"wf": "wf(self)",
               "V": "all((n in V(self)) == (n in V(old(self)) or any(0 <= m and m < len(edge_list) and n in edge_list[m] for m in Int)) for n in Node)",
               "E": "all((k in E(self)) == (k in E(old(self)) or any(0 <= m and m < len(edge_list) and canon(edge_list[m]) == k for m in Int)) for k in Tuple)",
               # weighted: every insertion adds its weight (1 without a weight list), also for hyperedges repeated in the list
               "W": "implies(weighted(self), all(W(self, k) == (W(old(self), k) if k in E(old(self)) else 0) + psum(edge_list, weights, len(edge_list), k) for k in E(self)))",
               # a stored hyperedge that does not occur in the list keeps its weight and metadata
               "untouched": "all(implies(all(implies(0 <= m and m < len(edge_list), canon(edge_list[m]) != k) for m in Int), "
                            "W(self, k) == W(old(self), k) and M(self, k) == M(old(self), k)) for k in E(old(self)))",
               # for a list without repeated hyperedges the fold collapses: position m adds exactly its own weight
               "W_each": f"implies(weighted(self) and {INJ}, all(W(self, canon(edge_list[m])) == (W(old(self), canon(edge_list[m])) if canon(edge_list[m]) in E(old(self)) else 0) "
                         "+ (weights[m] if weights is not None else 1) for m in Int if 0 <= m and m < len(edge_list)))",
               **NODE_MD_KEPT, **SAME_WEIGHTED},
      invariants={0: {
          "untouched": "all(implies(all(implies(0 <= m and m < _j0, canon(edge_list[m]) != k) for m in Int), "
                       "W(self, k) == W(old(self), k) and M(self, k) == M(old(self), k)) for k in E(old(self)))",
          "P0": "all(implies(all(implies(0 <= m and m < _j0, canon(edge_list[m]) != k) for m in Int), psum(edge_list, weights, _j0, k) == 0) for k in Tuple)",
          "P1": f"implies({INJ}, all(psum(edge_list, weights, _j0, canon(edge_list[m])) == (weights[m] if weights is not None else 1) for m in Int if 0 <= m and m < _j0))",
          "i": "i == _j0", "j": "0 <= _j0 and _j0 <= len(edge_list)", "wf": "wf(self)",
          "V": "all((n in V(self)) == (n in V(old(self)) or any(0 <= m and m < _j0 and n in edge_list[m] for m in Int)) for n in Node)",
          "E": "all((k in E(self)) == (k in E(old(self)) or any(0 <= m and m < _j0 and canon(edge_list[m]) == k for m in Int)) for k in Tuple)",
          "W": "implies(weighted(self), all(W(self, k) == (W(old(self), k) if k in E(old(self)) else 0) + psum(edge_list, weights, _j0, k) for k in E(self)))",
          "W0": "all(psum(edge_list, weights, _j0, k) == 0 for k in Tuple if k not in E(self))",
          "NM_kept": "all(NM(self, n) == NM(old(self), n) for n in V(old(self)))",
          "weighted": "weighted(self) == weighted(old(self))", "HM": "HM(self) == HM(old(self))"}}),
]


def _adj_kept(cur, old):
    n = fresh("n", T.I)
    return z3.ForAll([n], z3.Implies(old.fields["_adj"].dom[n], cur.fields["_adj"].val[n] == old.fields["_adj"].val[n]),
                     patterns=[cur.fields["_adj"].val[n]])


def _adj_new_empty(cur, old, node):
    return z3.Implies(z3.Not(old.fields["_adj"].dom[node]), cur.fields["_adj"].val[node] == z3.K(T.I, z3.IntVal(0)))


# ---- hypergraph-level metadata (a dict of the object): the setter installs the given dict, the attribute setter changes one entry, nothing else
# about the object changes (frame); the getter returns it
CONTRACTS += [
    C("get_hypergraph_metadata", params={}, result="Meta", pure=True, ensures={"result": "result == HM(self)"}, properties=['C01', 'C07']),
    C("set_hypergraph_metadata", params={"metadata": "Meta"}, modifies=["_hypergraph_metadata"],
      ensures={"HM": "HM(self) == metadata"}, properties=['C01', 'C07']),
    C("set_attr_to_hypergraph_metadata", params={"field": "Field", "value": "Val"}, modifies=["_hypergraph_metadata"],
      ensures={"HM": "HM(self) == mset(HM(old(self)), field, value)"}, properties=['C01', 'C07']),
    # incidence metadata (a `set_*_metadata` mutator of C01's alphabet): nothing but the incidence table changes (frame obligations), the hyperedge must be
    # stored (tested on its canonical form), the entry is filed under the hyperedge *as listed* and the node
    C("set_incidence_metadata", params={"edge": "Tup", "node": "Node", "metadata": "Meta"}, modifies=["_incidences_metadata"],
      raises={"ValueError": "canon(edge) not in E(self)"},
      ensures={"set": "HASIM(self, edge, node) and IM(self, edge, node) == metadata",
               "others": "all(implies(k != edge or n != node, HASIM(self, k, n) == HASIM(old(self), k, n) and IM(self, k, n) == IM(old(self), k, n)) for k in Tuple for n in Node)"}),
    C("get_incidence_metadata", params={"edge": "Tup", "node": "Node"}, result="Meta", pure=True,
      raises={"ValueError": "canon(edge) not in E(self)", "KeyError": "canon(edge) in E(self) and not HASIM(self, edge, node)"},
      ensures={"result": "result == IM(self, edge, node)"}),
    C("get_all_incidences_metadata", params={}, result="Map[Pair[Tup,Int],Meta]", pure=True,
      ensures={"dom": "all((pair(k, n) in result) == HASIM(self, k, n) for k in Tuple for n in Node)",
               "val": "all(implies(HASIM(self, k, n), result[pair(k, n)] == IM(self, k, n)) for k in Tuple for n in Node)"}),
    # the metadata tables as a whole
    C("get_all_nodes_metadata", params={}, result="Map[Int,Meta]", pure=True,
      ensures={"val": "all(implies(n in result, result[n] == NM(self, n)) for n in Node)", "same": "all(n in result for n in V(self))"},
      requires={"wf": "wf(self)"}),
    C("get_all_edges_metadata", params={}, result="Map[Int,Meta]", pure=True, requires={"wf": "wf(self)"},
      ensures={"by_id": "all(ID(self, k) in result and result[ID(self, k)] == M(self, k) for k in E(self))"}),
]
