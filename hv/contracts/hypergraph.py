"""Contracts for hypergraphx/core/hypergraph.py (properties C01, C05, C07, C08, C19 rest on these).

Abstract view of a Hypergraph h (what the property statement calls "a plain set of nodes plus a map from
node sets to (weight, metadata)"):
    V(h)        set of nodes                       = dom(_adj)
    E(h)        set of hyperedges (canonical keys) = dom(_edge_list)
    W(h, k)     weight of k                        = _weights[_edge_list[k]]
    M(h, k)     metadata of k                      = _edge_metadata[_edge_list[k]]
    NM(h, n)    metadata of node n                 = _node_metadata[n]
    weighted(h)                                    = _weighted
    INC(h, n, k) how often k is listed as incident to n = _adj[n].count(_edge_list[k])
Top-level postconditions are taken from the statement of C01, never from the current behaviour.
"""
import z3
from ..pyvc import ty as T
from ..pyvc import theory as TH
from ..pyvc.engine import Layout, Contract
from ..pyvc.ty import fresh

FILE = "hypergraphx/core/hypergraph.py"
CLS = "Hypergraph"

FIELDS = {
    "_weighted": "Bool",
    "_adj": "Map[Int,Bag[Int]]",
    "_edge_list": "Map[Tup,Int]",
    "_reverse_edge_list": "Map[Int,Tup]",
    "_weights": "Map[Int,Real]",
    "_edge_metadata": "Map[Int,Meta]",
    "_node_metadata": "Map[Int,Meta]",
    "_hypergraph_metadata": "Meta",
    "_incidences_metadata": "Map[Pair[Tup,Int],Meta]",
    "_empty_edges": "Map[Str,Meta]",
    "_next_edge_id": "Int",
}


def _f(h):
    F = h.fields
    return (F["_edge_list"], F["_reverse_edge_list"], F["_weights"], F["_edge_metadata"], F["_adj"],
            F["_node_metadata"], F["_next_edge_id"].t, F["_weighted"].t)


def live(h, i):
    el, rv = h.fields["_edge_list"], h.fields["_reverse_edge_list"]
    return z3.And(rv.dom[i], el.dom[rv.val[i]], el.val[rv.val[i]] == i)


def wf(eng, p, h):
    el, rv, w, em, adj, nm, nxt, wt = _f(h)
    k, i, n = fresh("k", T.TupS), fresh("i", T.I), fresh("n", T.I)
    FA, MP = z3.ForAll, z3.MultiPattern
    return {
        # index and reverse index agree; keys are canonical, non-empty; ids are below the counter  [observable]
        "el_rv": FA([k], z3.Implies(el.dom[k], z3.And(rv.dom[el.val[k]], rv.val[el.val[k]] == k, TH.strict(k),
                                                       TH.tlen(k) >= 1, 0 <= el.val[k], el.val[k] < nxt)),
                    patterns=[el.dom[k], el.val[k]]),
        # every stored hyperedge has a weight and a metadata entry  [observable]
        "el_tables": FA([k], z3.Implies(el.dom[k], z3.And(w.dom[el.val[k]], em.dom[el.val[k]])), patterns=[el.dom[k], el.val[k]]),
        "next": nxt >= 0,
        # incidence: every node of a stored hyperedge is a node ...
        "inc_dom": FA([i, n], z3.Implies(z3.And(live(h, i), TH.tmem(rv.val[i], n)), adj.dom[n]),
                      patterns=[MP(rv.dom[i], TH.tmem(rv.val[i], n))]),
        # ... and a hyperedge's id is listed exactly once for each of its nodes and for no other node
        "inc_once": FA([n, i], z3.Implies(adj.dom[n], adj.val[n][i] == z3.If(z3.And(live(h, i), TH.tmem(rv.val[i], n)), 1, 0)),
                       patterns=[adj.val[n][i]]),
        "nm_dom": FA([n], z3.Implies(adj.dom[n], nm.dom[n]), patterns=[adj.dom[n]]),
        "unweighted_1": z3.Implies(z3.Not(wt), FA([k], z3.Implies(el.dom[k], w.val[el.val[k]] == 1), patterns=[el.val[k]])),
    }


def hygiene(eng, p, h):
    """Not needed for the view: stale entries under dead ids are invisible through the public API."""
    el, rv, w, em, adj, nm, nxt, wt = _f(h)
    i = fresh("i", T.I)
    return {
        "rv_live": z3.ForAll([i], z3.Implies(rv.dom[i], live(h, i)), patterns=[rv.dom[i]]),
        "w_live": z3.ForAll([i], z3.Implies(w.dom[i], live(h, i)), patterns=[w.dom[i]]),
        "em_live": z3.ForAll([i], z3.Implies(em.dom[i], live(h, i)), patterns=[em.dom[i]]),
    }


def view_eq(eng, p, a, b):
    """Observable state of b equals that of a."""
    k, n = fresh("k", T.TupS), fresh("n", T.I)
    ea, eb = a.fields["_edge_list"], b.fields["_edge_list"]
    return {
        "V": a.fields["_adj"].dom == b.fields["_adj"].dom,
        "E": ea.dom == eb.dom,
        "W": z3.ForAll([k], z3.Implies(ea.dom[k], W_(a, k) == W_(b, k))),
        "M": z3.ForAll([k], z3.Implies(ea.dom[k], M_(a, k) == M_(b, k))),
        "NM": z3.ForAll([n], z3.Implies(a.fields["_adj"].dom[n], a.fields["_node_metadata"].val[n] == b.fields["_node_metadata"].val[n])),
        "INC": z3.ForAll([n, k], z3.Implies(z3.And(a.fields["_adj"].dom[n], ea.dom[k]),
                                            a.fields["_adj"].val[n][ea.val[k]] == b.fields["_adj"].val[n][eb.val[k]])),
        "weighted": a.fields["_weighted"].t == b.fields["_weighted"].t,
        "HM": a.fields["_hypergraph_metadata"].t == b.fields["_hypergraph_metadata"].t,
    }


def W_(h, k):
    return h.fields["_weights"].val[h.fields["_edge_list"].val[k]]


def M_(h, k):
    return h.fields["_edge_metadata"].val[h.fields["_edge_list"].val[k]]


VIEWS = {
    "V": lambda eng, p, h: T.scalar(T.Set(T.INT), h.fields["_adj"].dom),
    "E": lambda eng, p, h: T.scalar(T.Set(T.TUP), h.fields["_edge_list"].dom),
    "W": lambda eng, p, h, k: T.sv_real(W_(h, k.t)),
    "M": lambda eng, p, h, k: T.scalar(T.META, M_(h, k.t)),
    "NM": lambda eng, p, h, n: T.scalar(T.META, h.fields["_node_metadata"].val[n.t]),
    "HM": lambda eng, p, h: h.fields["_hypergraph_metadata"],
    "weighted": lambda eng, p, h: h.fields["_weighted"],
    "INC": lambda eng, p, h, n, k: T.sv_int(h.fields["_adj"].val[n.t][h.fields["_edge_list"].val[k.t]]),
    "ID": lambda eng, p, h, k: T.sv_int(h.fields["_edge_list"].val[k.t]),
}

LAYOUT = Layout(CLS, FIELDS, aliases={"Key": "Tup"}, views=VIEWS,
                multi={"wf": wf, "hygiene": hygiene, "view_eq": view_eq},
                tags={"rv_live": "hygiene", "w_live": "hygiene", "em_live": "hygiene"})


def C(name, **kw):
    kw.setdefault("properties", ["C01"])
    return Contract(f"{CLS}.{name}", FILE, [CLS, name], self_cls=CLS, **kw)


# Frame clauses shared by the mutators: everything about the other nodes / hyperedges is unchanged.
OTHER_EDGES = {
    "W_others": "all(W(self, k) == W(old(self), k) for k in E(old(self)) if k != canon(edge))",
    "M_others": "all(M(self, k) == M(old(self), k) for k in E(old(self)) if k != canon(edge))",
}
NODE_MD_KEPT = {"NM_kept": "all(NM(self, n) == NM(old(self), n) for n in V(old(self)))"}
SAME_WEIGHTED = {"weighted": "weighted(self) == weighted(old(self))", "HM": "HM(self) == HM(old(self))"}


def _add_edge_inv():
    """Invariant of `for node in edge: self.add_node(node); self._adj[node].append(id)`: after j nodes, exactly the
    first j nodes of the key have been given the id once; every other adjacency entry is as before the loop."""
    def inv(eng, p, cx):
        cur, pre = p.env["self"], cx.pre_env["self"]
        seq, j = p.env["_it0"].t, p.env["_j0"].t
        adj, oadj = cur.fields["_adj"], pre.fields["_adj"]
        nm, onm = cur.fields["_node_metadata"], pre.fields["_node_metadata"]
        eid = cur.fields["_edge_list"].val[seq]
        n, i = fresh("n", T.I), fresh("i", T.I)
        return {
            "j_range": z3.And(0 <= j, j <= TH.tlen(seq)),
            "adj_dom": z3.ForAll([n], adj.dom[n] == z3.Or(oadj.dom[n], TH.pmem(seq, j, n)), patterns=[adj.dom[n]]),
            "adj_cnt": z3.ForAll([n, i], z3.Implies(adj.dom[n], adj.val[n][i] ==
                                 z3.If(oadj.dom[n], oadj.val[n][i], 0) + z3.If(z3.And(i == eid, TH.pmem(seq, j, n)), 1, 0)),
                                 patterns=[adj.val[n][i]]),
            "nm_dom": z3.ForAll([n], z3.Implies(adj.dom[n], nm.dom[n]), patterns=[adj.dom[n]]),
            "nm_old": z3.ForAll([n], z3.Implies(oadj.dom[n], nm.val[n] == onm.val[n]), patterns=[nm.val[n]]),
        }
    return inv


def _remove_edge_inv():
    def inv(eng, p, cx):
        cur, pre = p.env["self"], cx.pre_env["self"]
        seq, j = p.env["_it0"].t, p.env["_j0"].t
        adj, oadj = cur.fields["_adj"], pre.fields["_adj"]
        eid = cur.fields["_edge_list"].val[seq]
        n, i = fresh("n", T.I), fresh("i", T.I)
        return {
            "j_range": z3.And(0 <= j, j <= TH.tlen(seq)),
            "adj_dom": adj.dom == oadj.dom,
            "adj_cnt": z3.ForAll([n, i], z3.Implies(adj.dom[n], adj.val[n][i] ==
                                 oadj.val[n][i] - z3.If(z3.And(i == eid, TH.pmem(seq, j, n)), 1, 0)), patterns=[adj.val[n][i]]),
        }
    return inv


CONTRACTS = [
    # add_node is also called from inside add_edge's loop, where the incidence part of wf is temporarily broken:
    # its contract therefore requires only the conjunct it relies on and states an exact frame.
    C("add_node",
      params={"node": "Node", "metadata": "Opt[Meta]"},
      requires={"nm_dom": lambda eng, p, cx: wf(eng, p, p.env["self"])["nm_dom"]},
      modifies=["_adj", "_node_metadata"],
      ensures={
          "nm_dom": lambda eng, p, cx: wf(eng, p, p.env["self"])["nm_dom"],
          "V": "all((n in V(self)) == (n in V(old(self)) or n == node) for n in Node)",
          "adj_old": lambda eng, p, cx: _adj_kept(p.env["self"], cx.old_env["self"]),
          "adj_new": lambda eng, p, cx: _adj_new_empty(p.env["self"], cx.old_env["self"], p.env["node"].t),
          "NM_others": "all(NM(self, n) == NM(old(self), n) for n in V(old(self)) if n != node)",
          # statement of C01 is silent on which metadata wins on re-adding a node: only "a present node with
          # non-empty metadata keeps it" and "a new node gets the given metadata" are claimed
          "NM_kept": "implies(node in V(old(self)) and NM(old(self), node) != EMPTY, NM(self, node) == NM(old(self), node))",
          "NM_new": "implies(node not in V(old(self)), NM(self, node) == (EMPTY if metadata is None else metadata))",
          "NM_empty_none": "implies(node in V(old(self)) and metadata is None, NM(self, node) == NM(old(self), node))",
      }),
    C("add_edge",
      params={"edge": "NodeSeq", "weight": "Opt[Real]", "metadata": "Opt[Meta]"},
      requires={"wf": "wf(self)", "distinct": "distinct(edge)", "nonempty": "len(edge) >= 1"},
      raises={"ValueError": "not weighted(self) and weight is not None and weight != 1"},
      modifies=["_adj", "_node_metadata", "_edge_list", "_reverse_edge_list", "_weights", "_edge_metadata", "_next_edge_id"],
      ensures={
          "wf": "wf(self)",
          "V": "all((n in V(self)) == (n in V(old(self)) or n in edge) for n in Node)",
          "E": "all((k in E(self)) == (k in E(old(self)) or k == canon(edge)) for k in Tuple)",
          "W_new": "implies(canon(edge) not in E(old(self)), W(self, canon(edge)) == (real(1 if weight is None else weight) if weighted(self) else 1))",
          "W_again": "implies(canon(edge) in E(old(self)), W(self, canon(edge)) == (W(old(self), canon(edge)) + real(1 if weight is None else weight) if weighted(self) else W(old(self), canon(edge))))",
          **OTHER_EDGES,
          "M_given": "implies(metadata is not None, M(self, canon(edge)) == metadata)",
          **NODE_MD_KEPT, **SAME_WEIGHTED,
      },
      invariants={0: {"inv": _add_edge_inv()}}),
    C("remove_edge",
      params={"edge": "NodeSeq"},
      requires={"wf": "wf(self)", "distinct": "distinct(edge)"},
      raises={"KeyError": "canon(edge) not in E(self)"},
      modifies=["_adj", "_edge_list", "_reverse_edge_list", "_weights", "_edge_metadata"],
      ensures={
          "wf": "wf(self)",
          "V": "V(self) == V(old(self))",
          "E": "all((k in E(self)) == (k in E(old(self)) and k != canon(edge)) for k in Tuple)",
          **OTHER_EDGES, **NODE_MD_KEPT, **SAME_WEIGHTED,
      },
      invariants={0: {"inv": _remove_edge_inv()}}),
]


def _adj_kept(cur, old):
    n = fresh("n", T.I)
    return z3.ForAll([n], z3.Implies(old.fields["_adj"].dom[n], cur.fields["_adj"].val[n] == old.fields["_adj"].val[n]),
                     patterns=[cur.fields["_adj"].val[n]])


def _adj_new_empty(cur, old, node):
    return z3.Implies(z3.Not(old.fields["_adj"].dom[node]), cur.fields["_adj"].val[node] == z3.K(T.I, z3.IntVal(0)))
