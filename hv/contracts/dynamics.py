"""Contracts for hypergraphx/dynamics/randwalk.py (C18) and the 2-D numpy array model they (and the hyperedge signature, C12) rest on.

numpy arrays are modelled by the ASSUMED contract of the library (hv/pyvc: `np.zeros((r, c))`, `a[i, j]`, `a[i, j] += x`, `a.flatten()`,
`np.matrix(a)` / `sparse.csr_matrix(a)` = the same table, `a.sum(axis=1)` = the column of row sums, `matrix / column` = row-wise division with
an uninterpreted quotient).  A table is (cells, number of rows, number of columns).
"""
import z3
from ..pyvc import ty as T
from ..pyvc import theory as TH
from ..pyvc.engine import Contract, Layout
from .projections import TIDX

FILE = "hypergraphx/dynamics/randwalk.py"
_PT = T.Pair(T.INT, T.INT)
_BT = T.Bag(T.TUP)
# wsum(B, i, j): sum over the hyperedges of the list B that contain both i and j (i != j) of (size - 1): fold-defined specification function
WSUM = z3.Function("pair_wsum", _BT.sort(), T.I, T.I, T.I)
WSMAT = z3.Function("wsmat", _BT.sort(), z3.ArraySort(_PT.sort(), T.R))      # the table whose cell (i, j) is wsum(B, i, j)
_b, _x, _i, _j = z3.Const("_wb", _BT.sort()), z3.Const("_wx", T.TupS), z3.Int("_wi"), z3.Int("_wj")
TH.EXTRA.update({
    "pair_wsum_empty (definition)": z3.ForAll([_i, _j], WSUM(z3.K(T.TupS, z3.IntVal(0)), _i, _j) == 0, patterns=[WSUM(z3.K(T.TupS, z3.IntVal(0)), _i, _j)]),
    "pair_wsum_step (definition)": z3.ForAll([_b, _x, _i, _j], WSUM(z3.Store(_b, _x, _b[_x] + 1), _i, _j) == WSUM(_b, _i, _j) +
                                        z3.If(z3.And(TH.tmem(_x, _i), TH.tmem(_x, _j), _i != _j), TH.tlen(_x) - 1, 0),
                                        patterns=[WSUM(z3.Store(_b, _x, _b[_x] + 1), _i, _j)]),
    "wsmat_def (definition)": z3.ForAll([_b, _i, _j], WSMAT(_b)[_PT.mk(_i, _j)] == z3.ToReal(WSUM(_b, _i, _j)), patterns=[WSMAT(_b)[_PT.mk(_i, _j)]]),
})
NPVIEWS = {
    "wsum": lambda eng, p, a, B, i, j: T.sv_int(WSUM(B.t, eng.coerce(i, T.INT).t, eng.coerce(j, T.INT).t)),
    "wsrow": lambda eng, p, a, B, i, c: T.sv_real(TH.ROWSUM(WSMAT(B.t), eng.coerce(i, T.INT).t, eng.coerce(c, T.INT).t)),
    "tindex": lambda eng, p, a, k, n: T.sv_int(TIDX(k.t, eng.coerce(n, T.INT).t)),
}
LAYOUTS = [Layout("NpArray2", {"_m": "Map[Pair[Int,Int],Real]", "_r": "Int", "_c": "Int"}, views=NPVIEWS)]

N = "card(V(HG))"
INR = f"0 <= a and a < {N} and 0 <= b and b < {N}"
TA, TB = "tindex(T, l, a)", "tindex(T, l, b)"
IN1 = f"(a in l and b in l and a != b and ({TA} < _j1 or {TB} < _j1))"
IN2 = f"(a in l and b in l and a != b and ({TA} < i or {TB} < i or ({TA} == i and {TB} < _j2) or ({TB} == i and {TA} < _j2)))"
SHAPE = {"shape": f"T._r == {N} and T._c == {N}",
         "dom": f"all((pair(a, b) in T._m) == ({INR}) for a in Int for b in Int)"}
CONTRACTS = [
    # entry (i, j) of the transition matrix is  wsum(i, j) / (row sum of the table of all wsum(i, .))  where wsum(i, j) adds (size - 1) over the
    # hyperedges containing both i and j: "proportional to the sum over hyperedges containing both of (size - 1)", normalised per row.
    # That the rows then sum to one needs the arithmetic of the quotient, which is uninterpreted here (bounded tier, exact rationals).
    Contract("transition_matrix", FILE, ["transition_matrix"], properties=["C18"],
             params={"HG": "Obj[Hypergraph]"}, result="Obj[NpArray2]", pure=True,
             requires={"wf": "wf(HG)", "labels": f"all(0 <= n and n < {N} for n in V(HG))"},
             raises={"AssertionError": "card(CLASSES(HG, None, None)) != 1"},
             ensures={"listing": 'all(count(local("_iterated0", "Bag[Tup]"), k) == (1 if k in E(HG) else 0) for k in Tuple)',
                      "shape": f"result._r == {N} and result._c == {N}",
                      "entries": f'all(implies({INR}, result._m[pair(a, b)] == real(wsum(result, local("_iterated0", "Bag[Tup]"), a, b)) / '
                                 f'wsrow(result, local("_iterated0", "Bag[Tup]"), a, {N})) for a in Int for b in Int)'},
             invariants={
                 0: {**SHAPE, "cells": f"all(implies({INR}, T._m[pair(a, b)] == real(wsum(T, _done0, a, b))) for a in Int for b in Int)"},
                 1: {**SHAPE, "edge": "strict(l) and l in E(HG)",
                     "cells": f"all(implies({INR}, T._m[pair(a, b)] == real(wsum(T, _done0, a, b)) + (len(l) - 1 if {IN1} else 0)) for a in Int for b in Int)"},
                 2: {**SHAPE, "edge": "strict(l) and l in E(HG)",
                     "cells": f"all(implies({INR}, T._m[pair(a, b)] == real(wsum(T, _done0, a, b)) + (len(l) - 1 if {IN2} else 0)) for a in Int for b in Int)"},
             }),
]
