"""Contracts for hypergraphx/utils/cc.py and hypergraphx/utils/visits.py (C08): connectivity against the reachability classes.

COMP(hg, n, filter) is DEFINED as the least set of nodes that contains n and is closed under "shares a (filtered) hyperedge with"
(axioms comp_refl, comp_step, comp_least; `closed` and `nodes_ok` are auxiliary predicates with their own definitions). Two consequences
of the definition that need induction, and therefore cannot be derived by E-matching, are stated as lemmas and proved in Lean from exactly
these three axioms (lean/Comp.lean): the classes of a symmetric relation are equal or disjoint (comp_class) and stay inside the node set
when every hyperedge does (comp_nodes).
`_bfs` is VERIFIED against this definition (while-loop invariant: visited and queued nodes are reachable; the start node and every
neighbour of a visited node is visited or queued), and everything in cc.py against `_bfs`'s contract - in particular that every function
forwards the *same* order/size filter.
"""
import z3
from ..pyvc import ty as T
from ..pyvc import theory as TH
from ..pyvc.engine import Contract
from ..pyvc.ty import fresh
from . import hypergraph as H

FILE = "hypergraphx/utils/cc.py"
LEAN_LEMMAS = ["lean/Comp.lean"]      # proofs of the axioms tagged (lemma, Lean); re-checked by ./check C08 / C05
SI = T.Set(T.INT)
SSI = T.Set(SI)
ES, VS = z3.ArraySort(T.TupS, T.B), z3.ArraySort(T.I, T.B)
COMPF = z3.Function("COMP", ES, VS, T.I, T.B, T.I, SI.sort())            # class of a node
CLASSESF = z3.Function("CLASSES", ES, VS, T.B, T.I, SSI.sort())         # the set of all classes
WITF = z3.Function("class_witness", ES, VS, T.B, T.I, SI.sort(), T.I)    # Skolem: a node whose class a given class is

CLOSEDF = z3.Function("closed", ES, T.B, T.I, VS, T.B)                   # S is closed under sharing a filtered hyperedge
CWA, CWB = z3.Function("closed_wa", ES, T.B, T.I, VS, T.I), z3.Function("closed_wb", ES, T.B, T.I, VS, T.I)
CWK = z3.Function("closed_wk", ES, T.B, T.I, VS, T.TupS)
NODESOKF = z3.Function("nodes_ok", ES, VS, T.B)                           # every node of every hyperedge is a node
NWK, NWA = z3.Function("nodes_ok_wk", ES, VS, T.TupS), z3.Function("nodes_ok_wa", ES, VS, T.I)

_E, _V, _S = z3.Const("_E", ES), z3.Const("_V", VS), z3.Const("_cS", VS)
_n, _m, _fo, _a, _b = z3.Int("_cn"), z3.Int("_cm"), z3.Int("_cfo"), z3.Int("_ca"), z3.Int("_cb")
_fn = z3.Bool("_cfn")
_k = z3.Const("_ck", T.TupS)
_c = z3.Const("_cc", SI.sort())
MP = z3.MultiPattern


def _selk(k, fn, fo):
    return z3.Or(fn, TH.tlen(k) - 1 == fo)


def _joined(E, fn, fo, k, a, b):
    return z3.And(E[k], _selk(k, fn, fo), TH.tmem(k, a), TH.tmem(k, b))


_C = COMPF(_E, _V, _n, _fn, _fo)
TH.EXTRA.update({
    # ---- definition of the reachability class: least set containing n and closed under sharing a filtered hyperedge
    "comp_refl (definition)": z3.ForAll([_E, _V, _n, _fn, _fo], _C[_n], patterns=[_C]),
    "comp_step (definition)": z3.ForAll([_E, _V, _n, _fn, _fo, _k, _a, _b], z3.Implies(z3.And(_C[_a], _joined(_E, _fn, _fo, _k, _a, _b)), _C[_b]),
                                        patterns=[MP(_C[_a], TH.tmem(_k, _a), TH.tmem(_k, _b))]),
    "comp_least (definition)": z3.ForAll([_E, _V, _n, _fn, _fo, _S, _m], z3.Implies(z3.And(_S[_n], CLOSEDF(_E, _fn, _fo, _S), _C[_m]), _S[_m]),
                                         # used where the closedness of S is spoken of: for every set S with a known member the axiom would
                                         # produce closed(S) and, through closed_intro, three fresh witnesses per set (a matching loop once the
                                         # query has many sets, e.g. the rows of an adjacency dict)
                                         patterns=[MP(CLOSEDF(_E, _fn, _fo, _S), _S[_n], _C[_m])]),
    "closed_elim (definition)": z3.ForAll([_E, _fn, _fo, _S, _k, _a, _b],
                                          z3.Implies(z3.And(CLOSEDF(_E, _fn, _fo, _S), _S[_a], _joined(_E, _fn, _fo, _k, _a, _b)), _S[_b]),
                                          patterns=[MP(CLOSEDF(_E, _fn, _fo, _S), _S[_a], TH.tmem(_k, _a), TH.tmem(_k, _b))]),
    "closed_intro (definition)": z3.ForAll([_E, _fn, _fo, _S], z3.Or(CLOSEDF(_E, _fn, _fo, _S),
                                           z3.And(_S[CWA(_E, _fn, _fo, _S)], z3.Not(_S[CWB(_E, _fn, _fo, _S)]),
                                                  _joined(_E, _fn, _fo, CWK(_E, _fn, _fo, _S), CWA(_E, _fn, _fo, _S), CWB(_E, _fn, _fo, _S)))),
                                           patterns=[CLOSEDF(_E, _fn, _fo, _S)]),
    "nodes_ok_elim (definition)": z3.ForAll([_E, _V, _k, _a], z3.Implies(z3.And(NODESOKF(_E, _V), _E[_k], TH.tmem(_k, _a)), _V[_a]),
                                            patterns=[MP(NODESOKF(_E, _V), _E[_k], TH.tmem(_k, _a))]),
    "nodes_ok_intro (definition)": z3.ForAll([_E, _V], z3.Or(NODESOKF(_E, _V), z3.And(_E[NWK(_E, _V)], TH.tmem(NWK(_E, _V), NWA(_E, _V)), z3.Not(_V[NWA(_E, _V)]))),
                                             patterns=[NODESOKF(_E, _V)]),
    # ---- lemmas: consequences of the definition that need induction (proved in lean/Comp.lean from comp_refl, comp_step, comp_least)
    "comp_nodes (lemma, Lean)": z3.ForAll([_E, _V, _n, _fn, _fo, _m], z3.Implies(z3.And(NODESOKF(_E, _V), _V[_n], _C[_m]), _V[_m]), patterns=[_C[_m]]),
    "comp_class (lemma, Lean)": z3.ForAll([_E, _V, _n, _fn, _fo, _m], z3.Implies(_C[_m], COMPF(_E, _V, _m, _fn, _fo) == _C), patterns=[_C[_m]]),
    "classes_intro (definition)": z3.ForAll([_E, _V, _n, _fn, _fo], z3.Implies(_V[_n], CLASSESF(_E, _V, _fn, _fo)[_C]), patterns=[_C]),
    "classes_elim (definition)": z3.ForAll([_E, _V, _fn, _fo, _c], z3.Implies(CLASSESF(_E, _V, _fn, _fo)[_c],
                                           z3.And(_V[WITF(_E, _V, _fn, _fo, _c)], _c == COMPF(_E, _V, WITF(_E, _V, _fn, _fo, _c), _fn, _fo))),
                                           patterns=[CLASSESF(_E, _V, _fn, _fo)[_c]]),
})


def _filter(eng, order, size):
    order, size = eng.coerce(order, T.Opt(T.INT)), eng.coerce(size, T.Opt(T.INT))
    # without a filter the order component is irrelevant: a canonical 0, so that two mentions of "no filter" are the same term
    none = z3.simplify(z3.And(order.is_none, size.is_none))
    return none, z3.simplify(z3.If(none, z3.IntVal(0), z3.If(size.is_none, order.val.t, size.val.t - 1)))


def comp_view(eng, p, h, n, order, size):
    fn, fo = _filter(eng, order, size)
    return T.scalar(SI, COMPF(h.fields["_edge_list"].dom, h.fields["_adj"].dom, n.t, fn, fo))


def classes_view(eng, p, h, order, size):
    fn, fo = _filter(eng, order, size)
    return T.scalar(SSI, CLASSESF(h.fields["_edge_list"].dom, h.fields["_adj"].dom, fn, fo))


def closed_view(eng, p, h, order, size, s):
    """CLOSED(hg, order, size, S): the node set S is closed under sharing a (filtered) hyperedge"""
    fn, fo = _filter(eng, order, size)
    return T.sv_bool(CLOSEDF(h.fields["_edge_list"].dom, fn, fo, eng.coerce(s, SI).t))


H.LAYOUT.views["COMP"] = comp_view
H.LAYOUT.views["CLOSED"] = closed_view
H.LAYOUT.views["CLASSES"] = classes_view

HG = {"hg": "Obj[Hypergraph]"}
OS = {"order": "Opt[Int]", "size": "Opt[Int]"}
BOTH = "order is not None and size is not None"


def F(name, **kw):
    kw.setdefault("properties", ["C08"])
    return Contract(name, FILE, [name], **kw)


def M(name, **kw):
    """Hypergraph method that delegates to the module function of the same name (note the argument order size, order)."""
    kw.setdefault("properties", ["C08"])
    return Contract(f"Hypergraph.{name}", H.FILE, ["Hypergraph", name], self_cls="Hypergraph", **kw)


CC_ENS = lambda h: {"partition": f"all(count(result, c) == (1 if c in CLASSES({h}, order, size) else 0) for c in NodeSet)"}
NUM_ENS = lambda h: {"result": f"result == card(CLASSES({h}, order, size))"}
LARGEST_ENS = lambda h: {"is_class": f"result in CLASSES({h}, order, size)",
                         "largest": f"all(card(c) <= card(result) for c in CLASSES({h}, order, size))"}
LSIZE_ENS = lambda h: {"bound": f"all(card(c) <= result for c in CLASSES({h}, order, size))",
                       "attained": f"any(card(c) == result for c in CLASSES({h}, order, size))"}

CONTRACTS = [
    Contract("_bfs", "hypergraphx/utils/visits.py", ["_bfs"], properties=["C08"],
             params={"hg": "Obj[Hypergraph]", "start": "Node", "max_depth": "None", "order": "Opt[Int]", "size": "Opt[Int]"},
             fixed={"max_depth": None}, result="Set[Int]", pure=True, options={"int_pairs"},
             locals={"visited": "Set[Int]", "queue": "Bag[Pair[Int,Int]]", "neighbors": "Set[Int]"},
             requires={"wf": "wf(hg)", "one_filter": "order is None or size is None"},
             raises={"ValueError": "start not in V(hg)"},
             ensures={"class": "result == COMP(hg, start, order, size)"},
             # the queue is a bag (which element popleft() takes is not modelled: the result does not depend on it); termination is not proved
             invariants={0: {
                 "vis_sound": "all(n in COMP(hg, start, order, size) for n in visited)",
                 "q_sound": "all(fst(q) in COMP(hg, start, order, size) for q in queue)",
                 "nodes": "all(n in V(hg) for n in visited) and all(fst(q) in V(hg) for q in queue)",
                 "start": "start in visited or any(count(queue, pair(start, d)) >= 1 for d in Int)",
                 "closed": "implies(len(queue) == 0, CLOSED(hg, order, size, visited))",
                 "frontier": "all(implies(n in visited and k in E(hg) and sel(hg, k, order, size, False) and n in k and m in k, m in visited or any(count(queue, pair(m, d)) >= 1 for d in Int)) "
                             "for n in Node for k in Tuple for m in Node)"}},
             note="breadth-first search returns the reachability class of its start node under the filtered hyperedges"),
    # the depth-first twin (a list used as a stack; which element pop() takes is not modelled and does not matter): the same invariant
    Contract("_dfs", "hypergraphx/utils/visits.py", ["_dfs"], properties=["C08"],
             params={"hg": "Obj[Hypergraph]", "start": "Node", "max_depth": "None", "order": "Opt[Int]", "size": "Opt[Int]"},
             fixed={"max_depth": None}, result="Set[Int]", pure=True, options={"int_pairs"},
             locals={"visited": "Set[Int]", "stack": "Bag[Pair[Int,Int]]", "neighbors": "Set[Int]"},
             requires={"wf": "wf(hg)", "one_filter": "order is None or size is None"},
             raises={"ValueError": "start not in V(hg)"},
             ensures={"class": "result == COMP(hg, start, order, size)"},
             invariants={0: {
                 "vis_sound": "all(n in COMP(hg, start, order, size) for n in visited)",
                 "q_sound": "all(fst(q) in COMP(hg, start, order, size) for q in stack)",
                 "nodes": "all(n in V(hg) for n in visited) and all(fst(q) in V(hg) for q in stack)",
                 "start": "start in visited or any(count(stack, pair(start, d)) >= 1 for d in Int)",
                 "closed": "implies(len(stack) == 0, CLOSED(hg, order, size, visited))",
                 "frontier": "all(implies(n in visited and k in E(hg) and sel(hg, k, order, size, False) and n in k and m in k, m in visited or any(count(stack, pair(m, d)) >= 1 for d in Int)) "
                             "for n in Node for k in Tuple for m in Node)"}},
             note="depth-first search returns the reachability class of its start node under the filtered hyperedges"),
    F("connected_components", params={**HG, **OS}, result="Bag[Set[Int]]", pure=True,
      locals={"visited": "Bag[Int]", "components": "Bag[Set[Int]]"},
      requires={"wf": "wf(hg)"}, raises={"ValueError": BOTH}, ensures=CC_ENS("hg"),
      invariants={0: {
          "done_visited": "all(count(visited, n) >= 1 for n in _done0)",
          "visited_nodes": "all(n in V(hg) for n in visited)",
          "closed": "all(all(count(visited, m) >= 1 for m in COMP(hg, n, order, size)) for n in visited)",
          "once": "all(count(components, c) <= 1 for c in NodeSet)",
          "classes": "all(c in CLASSES(hg, order, size) and all(count(visited, m) >= 1 for m in c) for c in components)",
          "listed": "all(count(components, COMP(hg, n, order, size)) >= 1 for n in visited)"}}),
    F("node_connected_component", params={**HG, "node": "Node", **OS}, result="Set[Int]", pure=True,
      requires={"wf": "wf(hg)"}, raises={"ValueError": f"({BOTH}) or node not in V(hg)"},
      ensures={"result": "result == COMP(hg, node, order, size)"}),
    F("num_connected_components", params={**HG, **OS}, result="Int", pure=True,
      requires={"wf": "wf(hg)"}, raises={"ValueError": BOTH}, ensures=NUM_ENS("hg")),
    F("largest_component", params={**HG, **OS}, result="Set[Int]", pure=True,
      requires={"wf": "wf(hg)"}, raises={"ValueError": f"({BOTH}) or card(CLASSES(hg, order, size)) == 0"}, ensures=LARGEST_ENS("hg")),
    F("largest_component_size", params={**HG, **OS}, result="Int", pure=True,
      requires={"wf": "wf(hg)"}, raises={"ValueError": f"({BOTH}) or card(CLASSES(hg, order, size)) == 0"}, ensures=LSIZE_ENS("hg")),
    F("is_connected", params={**HG, **OS}, result="Bool", pure=True,
      requires={"wf": "wf(hg)"}, raises={"ValueError": BOTH},
      ensures={"result": "result == (card(CLASSES(hg, order, size)) == 1)"}),
    # a node is isolated iff no (filtered) hyperedge joins it to another node
    Contract("is_isolated[Hypergraph]", FILE, ["is_isolated"], params={**HG, "node": "Node", **OS}, result="Bool", pure=True, properties=["C08"],
      requires={"wf": "wf(hg)"}, raises={"ValueError": f"({BOTH}) or node not in V(hg)"},
      ensures={"result": "result == all(not (m != node and any(k in E(hg) and node in k and m in k and sel(hg, k, order, size, False) for k in Tuple)) for m in Node)"}),
    Contract("isolated_nodes[Hypergraph]", FILE, ["isolated_nodes"], params={**HG, **OS}, result="Bag[Int]", pure=True, properties=["C08"],
      requires={"wf": "wf(hg)"}, raises={"ValueError": BOTH},
      ensures={"result": "all(count(result, node) == (1 if node in V(hg) and all(not (m != node and any(k in E(hg) and node in k and m in k and sel(hg, k, order, size, False) for k in Tuple)) for m in Node) else 0) for node in Node)"}),
    # the methods of Hypergraph (signature: size first, then order)
    M("connected_components", params={"size": "Opt[Int]", "order": "Opt[Int]"}, result="Bag[Set[Int]]", pure=True,
      requires={"wf": "wf(self)"}, raises={"ValueError": BOTH}, ensures=CC_ENS("self")),
    M("node_connected_component", params={"node": "Node", "size": "Opt[Int]", "order": "Opt[Int]"}, result="Set[Int]", pure=True,
      requires={"wf": "wf(self)"}, raises={"ValueError": f"({BOTH}) or node not in V(self)"},
      ensures={"result": "result == COMP(self, node, order, size)"}),
    M("num_connected_components", params={"size": "Opt[Int]", "order": "Opt[Int]"}, result="Int", pure=True,
      requires={"wf": "wf(self)"}, raises={"ValueError": BOTH}, ensures=NUM_ENS("self")),
    M("largest_component", params={"size": "Opt[Int]", "order": "Opt[Int]"}, result="Set[Int]", pure=True,
      requires={"wf": "wf(self)"}, raises={"ValueError": f"({BOTH}) or card(CLASSES(self, order, size)) == 0"}, ensures=LARGEST_ENS("self")),
    M("largest_component_size", params={"size": "Opt[Int]", "order": "Opt[Int]"}, result="Int", pure=True,
      requires={"wf": "wf(self)"}, raises={"ValueError": f"({BOTH}) or card(CLASSES(self, order, size)) == 0"}, ensures=LSIZE_ENS("self")),
    M("is_isolated", params={"node": "Node", "size": "Opt[Int]", "order": "Opt[Int]"}, result="Bool", pure=True,
      requires={"wf": "wf(self)"}, raises={"ValueError": f"({BOTH}) or node not in V(self)"},
      ensures={"result": "result == all(not (m != node and any(k in E(self) and node in k and m in k and sel(self, k, order, size, False) for k in Tuple)) for m in Node)"}),
    M("isolated_nodes", params={"size": "Opt[Int]", "order": "Opt[Int]"}, result="Bag[Int]", pure=True,
      requires={"wf": "wf(self)"}, raises={"ValueError": BOTH},
      ensures={"result": "all(count(result, node) == (1 if node in V(self) and all(not (m != node and any(k in E(self) and node in k and m in k and sel(self, k, order, size, False) for k in Tuple)) for m in Node) else 0) for node in Node)"}),
    # the sub-hypergraph induced by a largest reachability class under the filter (C05: extraction of the largest component)
    M("subhypergraph_largest_component", params={"size": "Opt[Int]", "order": "Opt[Int]"}, result="Obj[Hypergraph]", pure=True,
      requires={"wf": "wf(self)"}, raises={"ValueError": f"({BOTH}) or card(CLASSES(self, order, size)) == 0"},
      ensures={"wf": "wf(result)", "weighted": "weighted(result) == weighted(self)",
               "V_class": "V(result) in CLASSES(self, order, size)",
               "V_largest": "all(card(c) <= card(V(result)) for c in CLASSES(self, order, size))",
               "E": "all((k in E(result)) == (k in E(self) and all(n in V(result) for n in k)) for k in Tuple)",
               "W": "all(W(result, k) == W(self, k) for k in E(result))",
               "M": "all(M(result, k) == M(self, k) for k in E(result))",
               "NM": "all(NM(result, n) == NM(self, n) for n in V(result))"},
      properties=["C05", "C08"]),
    M("is_connected", params={"size": "Opt[Int]", "order": "Opt[Int]"}, result="Bool", pure=True,
      requires={"wf": "wf(self)"}, raises={"ValueError": BOTH},
      ensures={"result": "result == (card(CLASSES(self, order, size)) == 1)"}),
]


# ---- is_isolated / isolated_nodes applied to the directed and temporal containers (through their verified get_neighbors), and the methods that
# delegate to them: a node is isolated iff no (filtered) hyperedge joins it to another node, in either role / at any time
def _iso_variants(cls, mod, joined):
    hgp = {"hg": f"Obj[{cls}]"}
    iso = f"(card({{m for m in Node if m != node and any(k in E(H) and {joined} and sel(H, k, order, size, False) for k in Key)}}) == 0)"
    out = [
        Contract(f"is_isolated[{cls}]", FILE, ["is_isolated"], params={**hgp, "node": "Node", **OS}, result="Bool", pure=True, properties=["C08"],
                 requires={"wf": "wf(hg)"}, raises={"ValueError": f"({BOTH}) or node not in V(hg)"},
                 ensures={"result": "result == " + iso.replace("(H", "(hg")}),
        Contract(f"isolated_nodes[{cls}]", FILE, ["isolated_nodes"], params={**hgp, **OS}, result="Bag[Int]", pure=True, properties=["C08"],
                 requires={"wf": "wf(hg)"}, raises={"ValueError": BOTH},
                 ensures={"result": "all(count(result, node) == (1 if node in V(hg) and " + iso.replace("(H", "(hg") + " else 0) for node in Node)"}),
        Contract(f"{cls}.is_isolated", mod.FILE, [cls, "is_isolated"], self_cls=cls, properties=["C08"],
                 params={"node": "Node", "size": "Opt[Int]", "order": "Opt[Int]"}, result="Bool", pure=True,
                 requires={"wf": "wf(self)"}, raises={"ValueError": f"({BOTH}) or node not in V(self)"},
                 ensures={"result": "result == " + iso.replace("(H", "(self")}),
        Contract(f"{cls}.isolated_nodes", mod.FILE, [cls, "isolated_nodes"], self_cls=cls, properties=["C08"],
                 params={"size": "Opt[Int]", "order": "Opt[Int]"}, result="Bag[Int]", pure=True,
                 requires={"wf": "wf(self)"}, raises={"ValueError": BOTH},
                 ensures={"result": "all(count(result, node) == (1 if node in V(self) and " + iso.replace("(H", "(self") + " else 0) for node in Node)"}),
    ]
    return out


from . import directed as _D, temporal as _T      # noqa: E402
CONTRACTS += _iso_variants("DirectedHypergraph", _D, "(node in fst(k) or node in snd(k)) and (m in fst(k) or m in snd(k))")
CONTRACTS += _iso_variants("TemporalHypergraph", _T, "node in snd(k) and m in snd(k)")


# ---- degree_distribution applied to the directed and temporal containers (the histogram of the verified degree sequence under the same filter),
# and the methods of the three classes that delegate to it
from . import hypergraph as _H      # noqa: E402


def _dd_variants(cls, mod, member, props):
    seqval = f'all(local("degree_seq")[n] == card({{k for k in E(H) if {member} and sel(H, k, order, size, False)}}) for n in V(H))'
    return [
        Contract(f"degree_distribution[{cls}]", "hypergraphx/measures/degree.py", ["degree_distribution"], properties=props,
                 params={"hg": f"Obj[{cls}]", "order": "Opt[Int]", "size": "Opt[Int]"}, result="Map[Int,Int]", pure=True,
                 locals={"degree_dist": "Map[Int,Int]", "degree_seq": "Map[Int,Int]"},
                 requires={"wf": "wf(hg)"},
                 raises={"ValueError": "order is not None and size is not None"},
                 ensures={"dom": _H._hist_post("dom"), "val": _H._hist_post("val"),
                          "seq_dom": 'all((n in local("degree_seq")) == (n in V(hg)) for n in Node)',
                          "seq_val": seqval.replace("(H", "(hg")},
                 invariants={0: {"hist": _H._hist_inv}}),
    ]


CONTRACTS += _dd_variants("DirectedHypergraph", _D, "(n in fst(k) or n in snd(k))", ["C02", "C08"])
CONTRACTS += _dd_variants("TemporalHypergraph", _T, "n in snd(k)", ["C03", "C08"])
