"""Contracts for expose_attributes_for_hashing of the four containers (C07): the hash pre-image is a function of the abstract view alone.

Proved for every well-formed object: the returned record is
    {type, weighted, hypergraph_metadata, edges: [rec(k) for k in SORTED(E)], nodes: [nrec(n) for n in SORTED(V)]}
with rec(k) = {nodes: canonical key, weight: W(k), metadata: M(k)} and nrec(n) = {node: n, metadata: NM(n)}, where SORTED(S) is the
canonical listing of the set S (sorted() of a set of mutually comparable elements: a function of the set, every member once; the order
relation itself is not modelled).  Nothing in the record refers to ids, insertion order, adjacency lists or tables outside E / V, so two
objects with equal views have equal pre-images, whatever history produced them; that the tables hold no stale entries is what wf gives after
every mutator (the other C07 obligations).  hash_hypergraph (json.dumps(sort_keys=True) + SHA-256) is a function of this record: bounded tier.
"""
import z3
from ..pyvc import ty as T
from ..pyvc import theory as TH
from ..pyvc.engine import Contract
from ..pyvc.ty import fresh
from . import hypergraph as H, directed as D, temporal as TM, multiplex as MX


def _nodes_val(eng, cls, k):
    """The value stored under "nodes" for the stored key k, as the code builds it."""
    if cls == "Hypergraph":
        return eng.to_val(T.scalar(T.TUP, TH.canon(k)))
    if cls == "DirectedHypergraph":
        pt = D.DK
        return eng.to_val(T.scalar(pt, pt.mk(TH.canon(pt.fst(k)), TH.canon(pt.snd(k)))))
    if cls == "TemporalHypergraph":
        pt = TM.TK
        return eng.to_val(T.scalar(pt, pt.mk(pt.fst(k), TH.canon(pt.snd(k)))))
    pt = MX.MK
    return eng.to_val(T.scalar(pt, pt.mk(TH.canon(pt.fst(k)), pt.snd(k))))


def _mods(cls):
    return {"Hypergraph": H, "DirectedHypergraph": D, "TemporalHypergraph": TM, "MultiplexHypergraph": MX}[cls]


def _rec(eng, cls, h, k):
    m = _mods(cls)
    r = TH.EMPTY_META
    r = TH.mset(r, eng.field_const("nodes"), _nodes_val(eng, cls, k))
    r = TH.mset(r, eng.field_const("weight"), eng.to_val(T.sv_real(m.W_(h, k))))
    r = TH.mset(r, eng.field_const("metadata"), eng.to_val(T.scalar(T.META, m.M_(h, k))))
    return r


def _nrec(eng, h, n):
    r = TH.mset(TH.EMPTY_META, eng.field_const("node"), eng.to_val(T.sv_int(n)))
    return TH.mset(r, eng.field_const("metadata"), eng.to_val(T.scalar(T.META, h.fields["_node_metadata"].val[n])))


def _node_dom(cls, h):
    return h.fields["_adj"].dom if cls == "Hypergraph" else h.fields["_node_metadata"].dom


def _inv_edges(cls):
    def inv(eng, p, cx):
        h, seq, j, edges = p.env["self"], p.env["_it0"], p.env["_j0"].t, p.env["edges"]
        m = fresh("m", T.I)
        return {"len": edges.len == j,
                "at": z3.ForAll([m], z3.Implies(z3.And(0 <= m, m < j), edges.at[m] == _rec(eng, cls, h, seq.at[m])), patterns=[edges.at[m]])}
    return inv


def _inv_nodes(cls):
    def inv(eng, p, cx):
        h, seq, j, nodes = p.env["self"], p.env["_it1"], p.env["_j1"].t, p.env["nodes"]
        m = fresh("m", T.I)
        return {"len": nodes.len == j,
                "at": z3.ForAll([m], z3.Implies(z3.And(0 <= m, m < j), nodes.at[m] == _nrec(eng, h, seq.at[m])), patterns=[nodes.at[m]])}
    return inv


def _post(cls, which):
    def post(eng, p, cx):
        h, edges, nodes = p.env["self"], cx.locals_env["edges"], cx.locals_env["nodes"]
        ks = _mods(cls)
        el = h.fields["_edge_list"]
        kt = T.parse_ty(ks.LAYOUT.aliases.get("Key", "Tup"), ks.LAYOUT.aliases) if hasattr(ks.LAYOUT, "aliases") else T.TUP
        E_sorted = TH.sorted_fn(kt)(el.dom)
        V_sorted = TH.sorted_fn(T.INT)(_node_dom(cls, h))
        m = fresh("m", T.I)
        if which == "record":
            r = TH.EMPTY_META
            r = TH.mset(r, eng.field_const("type"), eng.to_val(eng.str_const(cls)))
            r = TH.mset(r, eng.field_const("weighted"), eng.to_val(h.fields["_weighted"]))
            r = TH.mset(r, eng.field_const("hypergraph_metadata"), eng.to_val(h.fields["_hypergraph_metadata"]))
            r = TH.mset(r, eng.field_const("edges"), eng.to_val(edges))
            r = TH.mset(r, eng.field_const("nodes"), eng.to_val(nodes))
            return cx.result.t == r
        if which == "edges_len":
            return edges.len == T.Set(kt).card()(el.dom)
        if which == "edges_at":
            return z3.ForAll([m], z3.Implies(z3.And(0 <= m, m < edges.len), edges.at[m] == _rec(eng, cls, h, E_sorted[m])), patterns=[edges.at[m]])
        if which == "nodes_len":
            return nodes.len == T.Set(T.INT).card()(_node_dom(cls, h))
        if which == "nodes_at":
            return z3.ForAll([m], z3.Implies(z3.And(0 <= m, m < nodes.len), nodes.at[m] == _nrec(eng, h, V_sorted[m])), patterns=[nodes.at[m]])
    return post


def _contract(cls):
    ks = _mods(cls)
    return Contract(f"{cls}.expose_attributes_for_hashing", ks.FILE, [cls, "expose_attributes_for_hashing"], self_cls=cls, properties=["C07"],
                    params={}, result="Meta", pure=True, options={"sorted_positional"},
                    locals={"edges": "Seq[Meta]", "nodes": "Seq[Meta]"},
                    requires={"wf": "wf(self)"},
                    ensures={w: _post(cls, w) for w in ("record", "edges_len", "edges_at", "nodes_len", "nodes_at")},
                    invariants={0: {"edges": _inv_edges(cls)}, 1: {"edges_kept": _keep_edges(cls), "nodes": _inv_nodes(cls)}})


def _keep_edges(cls):
    def inv(eng, p, cx):
        pre = cx.pre_env["edges"]
        cur = p.env["edges"]
        return {"same": z3.And(cur.len == pre.len, cur.at == pre.at)}
    return inv


CONTRACTS = [_contract(c) for c in ("Hypergraph", "DirectedHypergraph", "TemporalHypergraph", "MultiplexHypergraph")]
