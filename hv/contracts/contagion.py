"""Contract for hypergraphx/dynamics/contagion.py (C18): one synchronous step of the simplicial contagion and the trajectory of infected counts.

What is proved through the real nested loops, for every hypergraph, every 0/1 initial state over its nodes, every horizon T >= 1, all rates and
EVERY outcome of the random draws (`np.random.random()` is an arbitrary number in [0, 1)):
* each pass of the `for node in nodes` loop is a synchronous step: a susceptible node can only become infected through an infected pairwise
  neighbour (rate beta > 0) or a 3-node hyperedge whose two other members are infected (rate beta_D > 0), and does become infected when such a
  source exists and its rate is >= 1; an infected node can only recover when mu > 0 and does recover when mu >= 1; nothing else changes;
* the returned array is the array of infected counts divided by the number of nodes; its first entry counts the initially infected; the counts
  never decrease when mu <= 0 and never increase when beta <= 0 and beta_D <= 0; after the infection has died out the entries are 0.
`sum(d.values())` is the specification function vsum (monotonicity and sign laws proved in lean/Vsum.lean); the quotient is uninterpreted.
"""
from ..pyvc.engine import Contract

FILE = "hypergraphx/dynamics/contagion.py"
H = "hypergraph"


def PAIR(n):
    return f"any(m != {n} and I_old[m] == 1 and any(k in E({H}) and {n} in k and m in k and sel({H}, k, 1, None, False) for k in Tuple) for m in Node)"


def BOTH(k, n):
    return f"all(implies(m in {k} and m != {n}, I_old[m] == 1) for m in Node)"


def TRI(n):
    return f"any(k in E({H}) and {n} in k and sel({H}, k, 2, None, False) and {BOTH('k', n)} for k in Tuple)"


def STEP(n):
    return (f"(implies(I_old[{n}] == 0, (I_new[{n}] == 0 or I_new[{n}] == 1) "
            f"and implies(I_new[{n}] == 1, (beta > 0 and {PAIR(n)}) or (beta_D > 0 and {TRI(n)})) "
            f"and implies(beta >= 1 and {PAIR(n)}, I_new[{n}] == 1) and implies(beta_D >= 1 and {TRI(n)}, I_new[{n}] == 1)) "
            f"and implies(I_old[{n}] != 0, (I_new[{n}] == 0 or I_new[{n}] == I_old[{n}]) and implies(I_new[{n}] == 0, mu > 0) and implies(mu >= 1, I_new[{n}] == 0)))")


DOM = lambda d: f"all((n in {d}) == (n in V({H})) for n in Node)"       # noqa: E731
BITS = lambda d: f"all(implies(n in V({H}), {d}[n] == 0 or {d}[n] == 1) for n in Node)"      # noqa: E731
FRAME = "all((n in I_new) == (n in pre(I_new)) for n in Node) and all(implies(n != node, I_new[n] == pre(I_new)[n]) for n in Node)"
NUM = 'local("numberInf")'

CONTRACTS = [
    Contract("simplicial_contagion", FILE, ["simplicial_contagion"], properties=["C18"],
             params={"hypergraph": "Obj[Hypergraph]", "I_0": "Map[Int,Int]", "T": "Int", "beta": "Real", "beta_D": "Real", "mu": "Real"},
             result="Seq[Real]", pure=True, options=["staged_invariants"],
             locals={"I_old": "Map[Int,Int]", "I_new": "Map[Int,Int]", "numberInf": "Seq[Real]", "Infected": "Int", "t": "Int", "N": "Int",
                     "neighbors": "Set[Int]|Tup", "triplets": "Bag[Tup]", "nodes": "Bag[Int]", "neigh1": "Int", "neigh2": "Int"},
             requires={"wf": f"wf({H})", "states": f"{DOM('I_0')} and {BITS('I_0')}", "T": "T >= 1"},
             ensures={"len": "len(result) == T",
                      "fractions": f"all(implies(0 <= s and s < T, result[s] == {NUM}[s] / len(I_0)) for s in Int)",
                      "start": f"{NUM}[0] == vsum(I_0)",
                      "up": f"implies(mu <= 0, all(implies(0 <= s and s + 1 < T, {NUM}[s] <= {NUM}[s + 1]) for s in Int))",
                      "down": f"implies(beta <= 0 and beta_D <= 0, all(implies(0 <= s and s + 1 < T, {NUM}[s] >= {NUM}[s + 1]) for s in Int))"},
             invariants={
                 0: {"dom": DOM("I_old"), "bits": BITS("I_old"),
                     "t": "1 <= t and t <= T and len(numberInf) == T",
                     "count": "Infected == vsum(I_old) and numberInf[t - 1] == Infected",
                     "first": "numberInf[0] == vsum(I_0)",
                     "tail": "all(implies(t <= s and s < T, numberInf[s] == 0) for s in Int)",
                     "up": "implies(mu <= 0, all(implies(0 <= s and s + 1 < t, numberInf[s] <= numberInf[s + 1]) for s in Int))",
                     "down": "implies(beta <= 0 and beta_D <= 0, all(implies(0 <= s and s + 1 < t, numberInf[s] >= numberInf[s + 1]) for s in Int))"},
                 1: {"dom": DOM("I_new"),
                     "todo": f"all(implies(n in V({H}) and count(_done1, n) == 0, I_new[n] == I_old[n]) for n in Node)",
                     "done": f"all(implies(count(_done1, n) >= 1, {STEP('n')}) for n in Node)"},
                 2: {"frame": FRAME, "clean": "I_new[node] == 0",
                     "failed": "all(implies(m in _done2 and I_old[m] == 1, beta < 1) for m in Node)"},
                 3: {"frame": FRAME, "clean": "I_new[node] == 0",
                     "failed": f"all(implies(count(_done3, k) >= 1 and {BOTH('k', 'node')}, beta_D < 1) for k in Tuple)"},
             }),
]
