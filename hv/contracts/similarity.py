"""Contracts for hypergraphx/measures/edge_similarity.py (C10: the values the line graph thresholds against s and carries as weights).

The arguments are modelled as sets of node labels (line_graph passes set(edge)); `jaccard_similarity` re-wraps them with set(), which is the
identity on sets.  Real division is the solver's; the quotient is stated, not evaluated.
"""
from ..pyvc.engine import Contract

FILE = "hypergraphx/measures/edge_similarity.py"
INTER = "card({x for x in a if x in b})"
UNION = "(card(a) + card(b) - card({x for x in a if x in b}))"

CONTRACTS = [
    Contract("intersection", FILE, ["intersection"], properties=["C10"], params={"a": "Set[Int]", "b": "Set[Int]"}, result="Int", pure=True,
             ensures={"result": f"result == {INTER}", "range": "0 <= result and result <= card(a) and result <= card(b)"}),
    Contract("jaccard_similarity", FILE, ["jaccard_similarity"], properties=["C10"], params={"a": "Set[Int]", "b": "Set[Int]"}, result="Real", pure=True,
             raises={"ZeroDivisionError": "card(a) == 0 and card(b) == 0"},
             ensures={"result": f"result == real({INTER}) / real({UNION})"}),
    Contract("jaccard_distance", FILE, ["jaccard_distance"], properties=["C10"], params={"a": "Set[Int]", "b": "Set[Int]"}, result="Real", pure=True,
             raises={"ZeroDivisionError": "card(a) == 0 and card(b) == 0"},
             ensures={"result": f"result == 1 - real({INTER}) / real({UNION})"}),
]
