"""Contracts for hypergraphx/measures/edge_similarity.py (C10: the values the line graph thresholds against s and carries as weights).

The arguments are modelled as sets of node labels (line_graph passes set(edge)); `jaccard_similarity` re-wraps them with set(), which is the
identity on sets.  Real division is the solver's; the quotient is stated, not evaluated.
"""
import z3
from ..pyvc import ty as T
from ..pyvc import theory as TH
from ..pyvc.engine import Contract

# scommon(a, b) = |a & b| as one specification term (callers such as the line graph compare it with a threshold and carry it as a weight
# without reasoning about cardinalities); its definition, triggered only where the code itself forms len(a & b)
_SI = T.Set(T.INT)
_si = TH.set_ops(T.INT)[1]
_a, _b = z3.Const("_sca", _SI.sort()), z3.Const("_scb", _SI.sort())
TH.EXTRA["scommon_def (|a & b| is the number of members of the intersection)"] = z3.ForAll(
    [_a, _b], TH.scommon(_a, _b) == _SI.card()(_si(_a, _b)), patterns=[_SI.card()(_si(_a, _b))])

_su = TH.set_ops(T.INT)[0]
TH.EXTRA["sjaccard_def (J(a, b) is |a & b| / |a | b|)"] = z3.ForAll(
    [_a, _b], TH.sjaccard(_a, _b) == TH.RDIV(z3.ToReal(_SI.card()(_si(_a, _b))), z3.ToReal(_SI.card()(_su(_a, _b)))),
    patterns=[z3.MultiPattern(_SI.card()(_si(_a, _b)), _SI.card()(_su(_a, _b)))])
FILE = "hypergraphx/measures/edge_similarity.py"
INTER = "card({x for x in a if x in b})"
UNION = "(card(a) + card(b) - card({x for x in a if x in b}))"

CONTRACTS = [
    Contract("intersection", FILE, ["intersection"], properties=["C10"], params={"a": "Set[Int]", "b": "Set[Int]"}, result="Int", pure=True,
             ensures={"result": f"result == {INTER}", "range": "0 <= result and result <= card(a) and result <= card(b)",
                      "common": lambda eng, p, cx: cx.result.t == TH.scommon(p.env["a"].t, p.env["b"].t)}),
    Contract("jaccard_similarity", FILE, ["jaccard_similarity"], properties=["C10"], params={"a": "Set[Int]", "b": "Set[Int]"}, result="Real", pure=True,
             raises={"ZeroDivisionError": "card(a) == 0 and card(b) == 0"},
             ensures={"result": f"result == real({INTER}) / real({UNION})",
                      "jaccard": lambda eng, p, cx: cx.result.t == TH.sjaccard(p.env["a"].t, p.env["b"].t)}),
    Contract("jaccard_distance", FILE, ["jaccard_distance"], properties=["C10"], params={"a": "Set[Int]", "b": "Set[Int]"}, result="Real", pure=True,
             raises={"ZeroDivisionError": "card(a) == 0 and card(b) == 0"},
             ensures={"result": f"result == 1 - real({INTER}) / real({UNION})"}),
]
