"""Contracts for hypergraphx/core/directed_hypergraph.py (C02, C12; C05/C07 rest on them).

Abstract view of a DirectedHypergraph h: V(h) nodes; E(h) set of keys (source tuple, target tuple), both canonical;
W, M, NM, weighted as for Hypergraph; SINC(h,n,k) / TINC(h,n,k): how often k is listed for n in the source / target role.
"""
import z3
from ..pyvc import ty as T
from ..pyvc import theory as TH
from ..pyvc.engine import Layout, Contract
from ..pyvc.ty import fresh

FILE = "hypergraphx/core/directed_hypergraph.py"
CLS = "DirectedHypergraph"
DK = T.Pair(T.TUP, T.TUP)

FIELDS = {
    "_weighted": "Bool",
    "_adj_source": "Map[Int,Bag[Int]]",
    "_adj_target": "Map[Int,Bag[Int]]",
    "_edge_list": "Map[Pair[Tup,Tup],Int]",
    "_reverse_edge_list": "Map[Int,Pair[Tup,Tup]]",
    "_weights": "Map[Int,Real]",
    "_edge_metadata": "Map[Int,Meta]",
    "_node_metadata": "Map[Int,Meta]",
    "_hypergraph_metadata": "Meta",
    "_incidences_metadata": "Map[Pair[Pair[Tup,Tup],Int],Meta]",
    "_next_edge_id": "Int",
}


def src(k):
    return DK.fst(k)


def tgt(k):
    return DK.snd(k)


def live(h, i):
    el, rv = h.fields["_edge_list"], h.fields["_reverse_edge_list"]
    return z3.And(rv.dom[i], el.dom[rv.val[i]], el.val[rv.val[i]] == i)


def wf(eng, p, h):
    F = h.fields
    el, rv, w, em = F["_edge_list"], F["_reverse_edge_list"], F["_weights"], F["_edge_metadata"]
    ads, adt, nm, nxt, wt = F["_adj_source"], F["_adj_target"], F["_node_metadata"], F["_next_edge_id"].t, F["_weighted"].t
    k, i, n = fresh("k", DK.sort()), fresh("i", T.I), fresh("n", T.I)
    FA, MP = z3.ForAll, z3.MultiPattern
    out = {
        "el_rv": FA([k], z3.Implies(el.dom[k], z3.And(rv.dom[el.val[k]], rv.val[el.val[k]] == k, TH.strict(src(k)), TH.strict(tgt(k)),
                                                       TH.tlen(src(k)) >= 1, TH.tlen(tgt(k)) >= 1, 0 <= el.val[k], el.val[k] < nxt)),
                    patterns=[el.dom[k], el.val[k]]),
        "el_tables": FA([k], z3.Implies(el.dom[k], z3.And(w.dom[el.val[k]], em.dom[el.val[k]])), patterns=[el.dom[k], el.val[k]]),
        "next": nxt >= 0,
        # source and target sets of a stored hyperedge are disjoint (the inputs the property quantifies over)
        "disjoint": FA([k, n], z3.Implies(z3.And(el.dom[k], TH.tmem(src(k), n)), z3.Not(TH.tmem(tgt(k), n))),
                       patterns=[MP(el.dom[k], TH.tmem(src(k), n)), MP(el.dom[k], TH.tmem(tgt(k), n))]),
        "nodes_same": ads.dom == adt.dom,
        "nm_exact": nm.dom == ads.dom,
        "unweighted_1": z3.Implies(z3.Not(wt), FA([k], z3.Implies(el.dom[k], w.val[el.val[k]] == 1), patterns=[el.val[k]])),
    }
    for role, adj, part in (("s", ads, src), ("t", adt, tgt)):
        out[f"inc_{role}_dom"] = FA([i, n], z3.Implies(z3.And(live(h, i), TH.tmem(part(rv.val[i]), n)), adj.dom[n]),
                                    patterns=[MP(rv.dom[i], TH.tmem(part(rv.val[i]), n))])
        out[f"inc_{role}_once"] = FA([n, i], z3.Implies(adj.dom[n], adj.val[n][i] == z3.If(z3.And(live(h, i), TH.tmem(part(rv.val[i]), n)), 1, 0)),
                                     patterns=[adj.val[n][i]])
        out[f"inc_{role}_key"] = FA([n, k], z3.Implies(z3.And(adj.dom[n], el.dom[k]), adj.val[n][el.val[k]] == z3.If(TH.tmem(part(k), n), 1, 0)),
                                    patterns=[MP(el.dom[k], TH.tmem(part(k), n), adj.dom[n]), adj.val[n][el.val[k]]])
    return out


def W_(h, k):
    return h.fields["_weights"].val[h.fields["_edge_list"].val[k]]


def M_(h, k):
    return h.fields["_edge_metadata"].val[h.fields["_edge_list"].val[k]]


def view_eq(eng, p, a, b):
    k, n = fresh("k", DK.sort()), fresh("n", T.I)
    ea, eb = a.fields["_edge_list"], b.fields["_edge_list"]
    out = {
        "V": a.fields["_adj_source"].dom == b.fields["_adj_source"].dom,
        "E": ea.dom == eb.dom,
        "W": z3.ForAll([k], z3.Implies(ea.dom[k], W_(a, k) == W_(b, k))),
        "M": z3.ForAll([k], z3.Implies(ea.dom[k], M_(a, k) == M_(b, k))),
        "NM": z3.ForAll([n], z3.Implies(a.fields["_adj_source"].dom[n], a.fields["_node_metadata"].val[n] == b.fields["_node_metadata"].val[n])),
        "weighted": a.fields["_weighted"].t == b.fields["_weighted"].t,
        "HM": a.fields["_hypergraph_metadata"].t == b.fields["_hypergraph_metadata"].t,
    }
    for role, f in (("SINC", "_adj_source"), ("TINC", "_adj_target")):
        out[role] = z3.ForAll([n, k], z3.Implies(z3.And(a.fields[f].dom[n], ea.dom[k]), a.fields[f].val[n][ea.val[k]] == b.fields[f].val[n][eb.val[k]]))
    return out


VIEWS = {
    "V": lambda eng, p, h: T.scalar(T.Set(T.INT), h.fields["_adj_source"].dom),
    "E": lambda eng, p, h: T.scalar(T.Set(DK), h.fields["_edge_list"].dom),
    "W": lambda eng, p, h, k: T.sv_real(W_(h, k.t)),
    "M": lambda eng, p, h, k: T.scalar(T.META, M_(h, k.t)),
    "NM": lambda eng, p, h, n: T.scalar(T.META, h.fields["_node_metadata"].val[n.t]),
    "HM": lambda eng, p, h: h.fields["_hypergraph_metadata"],
    "weighted": lambda eng, p, h: h.fields["_weighted"],
    "KLEN": lambda eng, p, h, k: T.sv_int(TH.tlen(src(k.t)) + TH.tlen(tgt(k.t))),
}

LAYOUT = Layout(CLS, FIELDS, aliases={"Key": "Pair[Tup,Tup]"}, views=VIEWS, multi={"wf": wf, "view_eq": view_eq})


# weight handed to the key k by the first j positions of a batch (edge_list, weights): fold-defined
BSUM = z3.Function("bsum_d", z3.ArraySort(T.I, DK.sort()), T.B, z3.ArraySort(T.I, T.R), T.I, DK.sort(), T.R)
_be, _bh, _bw = z3.Const("_bed", z3.ArraySort(T.I, DK.sort())), z3.Bool("_bhd"), z3.Const("_bwd", z3.ArraySort(T.I, T.R))
_bj, _bk = z3.Int("_bjd"), z3.Const("_bkd", DK.sort())
TH.EXTRA.update({
    "bsum_d_0 (definition)": z3.ForAll([_be, _bh, _bw, _bk], BSUM(_be, _bh, _bw, 0, _bk) == 0, patterns=[BSUM(_be, _bh, _bw, 0, _bk)]),
    "bsum_d_step (definition)": z3.ForAll([_be, _bh, _bw, _bj, _bk], z3.Implies(_bj >= 0,
        BSUM(_be, _bh, _bw, _bj + 1, _bk) == BSUM(_be, _bh, _bw, _bj, _bk) +
        z3.If(DK.mk(TH.canon(DK.fst(_be[_bj])), TH.canon(DK.snd(_be[_bj]))) == _bk, z3.If(_bh, _bw[_bj], z3.RealVal(1)), z3.RealVal(0))),
        patterns=[BSUM(_be, _bh, _bw, _bj + 1, _bk)]),
})


def _bsum(eng, p, h, el, ws, j, k):
    # `weights[i] if weights else None`: an empty weight list counts as no weights
    if ws.ty == T.NONE:
        hw, aw = z3.BoolVal(False), z3.K(T.I, z3.RealVal(0))
    elif isinstance(ws.ty, T.Opt):
        hw, aw = z3.And(z3.Not(ws.is_none), ws.val.len > 0), ws.val.at
    else:
        hw, aw = ws.len > 0, ws.at
    return T.sv_real(BSUM(el.at, hw, aw, eng.coerce(j, T.INT).t, k.t))


VIEWS["bsum"] = _bsum
VIEWS.setdefault("ID", lambda eng, p, h, k: T.sv_int(h.fields["_edge_list"].val[k.t]))
_IMK = T.Pair(DK, T.INT)
VIEWS["IM"] = lambda eng, p, h, k, n: T.scalar(T.META, h.fields["_incidences_metadata"].val[_IMK.mk(k.t, eng.coerce(n, T.INT).t)])
VIEWS["HASIM"] = lambda eng, p, h, k, n: T.sv_bool(h.fields["_incidences_metadata"].dom[_IMK.mk(k.t, eng.coerce(n, T.INT).t)])


INJ = "all(implies(0 <= a and a < b and b < len(edge_list), canon(edge_list[a]) != canon(edge_list[b])) for a in Int for b in Int)"

# ---- fold-defined counts for the reciprocity measures (C12)
# cnt_size(B, s): entries of a list (bag) of hyperedges whose total size is s ; cnt_rev(S, R, s): members of the set S of size s whose reverse is in R
CNTSZ = z3.Function("cnt_size_d", z3.ArraySort(DK.sort(), T.I), T.I, T.I)
CNTRV = z3.Function("cnt_rev_d", z3.ArraySort(DK.sort(), T.B), z3.ArraySort(DK.sort(), T.B), T.I, T.I)
_qb, _qs, _qr = z3.Const("_qb", z3.ArraySort(DK.sort(), T.I)), z3.Const("_qs", z3.ArraySort(DK.sort(), T.B)), z3.Const("_qr", z3.ArraySort(DK.sort(), T.B))
_qx, _qn = z3.Const("_qx", DK.sort()), z3.Int("_qn")


def _ksize(k):
    return TH.tlen(DK.fst(k)) + TH.tlen(DK.snd(k))


TH.EXTRA.update({
    "cnt_size_d_empty (definition)": z3.ForAll([_qn], CNTSZ(z3.K(DK.sort(), z3.IntVal(0)), _qn) == 0, patterns=[CNTSZ(z3.K(DK.sort(), z3.IntVal(0)), _qn)]),
    "cnt_size_d_step (definition)": z3.ForAll([_qb, _qx, _qn], CNTSZ(z3.Store(_qb, _qx, _qb[_qx] + 1), _qn) == CNTSZ(_qb, _qn) + z3.If(_ksize(_qx) == _qn, 1, 0),
                                              patterns=[CNTSZ(z3.Store(_qb, _qx, _qb[_qx] + 1), _qn)]),
    "cnt_rev_d_empty (definition)": z3.ForAll([_qr, _qn], CNTRV(z3.K(DK.sort(), z3.BoolVal(False)), _qr, _qn) == 0,
                                              patterns=[CNTRV(z3.K(DK.sort(), z3.BoolVal(False)), _qr, _qn)]),
    "cnt_rev_d_step (definition)": z3.ForAll([_qs, _qr, _qx, _qn], z3.Implies(z3.Not(_qs[_qx]),
        CNTRV(z3.Store(_qs, _qx, True), _qr, _qn) == CNTRV(_qs, _qr, _qn) + z3.If(z3.And(_ksize(_qx) == _qn, _qr[DK.mk(DK.snd(_qx), DK.fst(_qx))]), 1, 0)),
        patterns=[CNTRV(z3.Store(_qs, _qx, True), _qr, _qn)]),
})
# cnt_in(S, P, s): members of the set S of size s that belong to the set P (P is given by a set comprehension over the keys)
CNTIN = z3.Function("cnt_in_d", z3.ArraySort(DK.sort(), T.B), z3.ArraySort(DK.sort(), T.B), T.I, T.I)
TH.EXTRA.update({
    "cnt_in_d_empty (definition)": z3.ForAll([_qr, _qn], CNTIN(z3.K(DK.sort(), z3.BoolVal(False)), _qr, _qn) == 0,
                                             patterns=[CNTIN(z3.K(DK.sort(), z3.BoolVal(False)), _qr, _qn)]),
    "cnt_in_d_step (definition)": z3.ForAll([_qs, _qr, _qx, _qn], z3.Implies(z3.Not(_qs[_qx]),
        CNTIN(z3.Store(_qs, _qx, True), _qr, _qn) == CNTIN(_qs, _qr, _qn) + z3.If(z3.And(_ksize(_qx) == _qn, _qr[_qx]), 1, 0)),
        patterns=[CNTIN(z3.Store(_qs, _qx, True), _qr, _qn)]),
})
# cnt_shape(B, s, t): entries of a list (bag) of hyperedges with exactly s sources and t targets (hyperedge signature, C12)
CNTSH = z3.Function("cnt_shape_d", z3.ArraySort(DK.sort(), T.I), T.I, T.I, T.I)
_qt = z3.Int("_qt")
TH.EXTRA.update({
    "cnt_shape_d_empty (definition)": z3.ForAll([_qn, _qt], CNTSH(z3.K(DK.sort(), z3.IntVal(0)), _qn, _qt) == 0,
                                                patterns=[CNTSH(z3.K(DK.sort(), z3.IntVal(0)), _qn, _qt)]),
    "cnt_shape_d_step (definition)": z3.ForAll([_qb, _qx, _qn, _qt], CNTSH(z3.Store(_qb, _qx, _qb[_qx] + 1), _qn, _qt) == CNTSH(_qb, _qn, _qt) +
                                               z3.If(z3.And(TH.tlen(DK.fst(_qx)) == _qn, TH.tlen(DK.snd(_qx)) == _qt), 1, 0),
                                               patterns=[CNTSH(z3.Store(_qb, _qx, _qb[_qx] + 1), _qn, _qt)]),
})
VIEWS["cnt_shape"] = lambda eng, p, h, B, s, t: T.sv_int(CNTSH(B.t, eng.coerce(s, T.INT).t, eng.coerce(t, T.INT).t))
VIEWS["flat"] = lambda eng, p, h, i, j, c: T.sv_int(TH.FLAT(eng.coerce(i, T.INT).t, eng.coerce(j, T.INT).t, eng.coerce(c, T.INT).t))
VIEWS["flatlen"] = lambda eng, p, h, r, c: T.sv_int(TH.FLATLEN(eng.coerce(r, T.INT).t, eng.coerce(c, T.INT).t))
VIEWS["cnt_in"] = lambda eng, p, h, S, P, s: T.sv_int(CNTIN((S.dom if isinstance(S.ty, T.Map) else S.t), P.t, eng.coerce(s, T.INT).t))
VIEWS["cnt_size"] = lambda eng, p, h, B, s: T.sv_int(CNTSZ(B.t, eng.coerce(s, T.INT).t))
VIEWS["cnt_rev"] = lambda eng, p, h, S, R, s: T.sv_int(CNTRV((S.dom if isinstance(S.ty, T.Map) else S.t), (R.dom if isinstance(R.ty, T.Map) else R.t), eng.coerce(s, T.INT).t))


def C(name, **kw):
    kw.setdefault("properties", ["C02"])
    return Contract(f"{CLS}.{name}", FILE, [CLS, name], self_cls=CLS, **kw)


OTHER_EDGES = {
    "W_others": "all(W(self, k) == W(old(self), k) for k in E(old(self)) if k != canon(edge))",
    "M_others": "all(M(self, k) == M(old(self), k) for k in E(old(self)) if k != canon(edge))",
}
NODE_MD_KEPT = {"NM_kept": "all(NM(self, n) == NM(old(self), n) for n in V(old(self)))"}
SAME_WEIGHTED = {"weighted": "weighted(self) == weighted(old(self))", "HM": "HM(self) == HM(old(self))"}
IN_KEY = "(n in fst(k) or n in snd(k))"


def _nm(h):
    n = fresh("n", T.I)
    return z3.ForAll([n], z3.Implies(h.fields["_adj_source"].dom[n], h.fields["_node_metadata"].dom[n]), patterns=[h.fields["_adj_source"].dom[n]])


def _adj_kept(cur, old, f):
    n = fresh("n", T.I)
    return z3.ForAll([n], z3.Implies(old.fields[f].dom[n], cur.fields[f].val[n] == old.fields[f].val[n]), patterns=[cur.fields[f].val[n]])


def _adj_new_empty(cur, old, node, f):
    return z3.Implies(z3.Not(old.fields[f].dom[node]), cur.fields[f].val[node] == z3.K(T.I, z3.IntVal(0)))


def _loop_inv(ordinal, role_field, other_field, part):
    """`for node in source: add_node(node); _adj_source[node].append(idx)` (and the same for the target role)."""
    def inv(eng, p, cx):
        cur, pre = p.env["self"], cx.pre_env["self"]
        seq, j = p.env[f"_it{ordinal}"].t, p.env[f"_j{ordinal}"].t
        adj, oadj = cur.fields[role_field], pre.fields[role_field]
        oth, ooth = cur.fields[other_field], pre.fields[other_field]
        nm, onm = cur.fields["_node_metadata"], pre.fields["_node_metadata"]
        eid = p.env["idx"].t
        n, i = fresh("n", T.I), fresh("i", T.I)
        return {
            "j_range": z3.And(0 <= j, j <= TH.tlen(seq)),
            "dom": z3.ForAll([n], adj.dom[n] == z3.Or(oadj.dom[n], TH.pmem(seq, j, n)), patterns=[adj.dom[n]]),
            "dom_other": oth.dom == adj.dom,
            "nm_dom": nm.dom == adj.dom,
            "cnt": z3.ForAll([n, i], z3.Implies(adj.dom[n], adj.val[n][i] ==
                             z3.If(oadj.dom[n], oadj.val[n][i], 0) + z3.If(z3.And(i == eid, TH.pmem(seq, j, n)), 1, 0)), patterns=[adj.val[n][i]]),
            "other": z3.ForAll([n, i], z3.Implies(oth.dom[n], oth.val[n][i] == z3.If(ooth.dom[n], ooth.val[n][i], 0)), patterns=[oth.val[n][i]]),
            "nm_old": z3.ForAll([n], z3.Implies(oadj.dom[n], nm.val[n] == onm.val[n]), patterns=[nm.val[n]]),
        }
    return inv


def _rm_inv(ordinal, role_field, part):
    def inv(eng, p, cx):
        cur, pre = p.env["self"], cx.pre_env["self"]
        seq, j = p.env[f"_it{ordinal}"].t, p.env[f"_j{ordinal}"].t
        adj, oadj = cur.fields[role_field], pre.fields[role_field]
        eid = p.env["e_idx"].t
        n, i = fresh("n", T.I), fresh("i", T.I)
        return {
            "j_range": z3.And(0 <= j, j <= TH.tlen(seq)),
            "dom": adj.dom == oadj.dom,
            "cnt": z3.ForAll([n, i], z3.Implies(adj.dom[n], adj.val[n][i] ==
                             oadj.val[n][i] - z3.If(z3.And(i == eid, TH.pmem(seq, j, n)), 1, 0)), patterns=[adj.val[n][i]]),
        }
    return inv


CONTRACTS = [
    Contract("_get_edge_size[directed]", FILE, ["_get_edge_size"], params={"edge": "Pair[Tup,Tup]"}, result="Int", pure=True,
             ensures={"result": "result == len(fst(edge)) + len(snd(edge))"}, properties=["C02", "C12"]),
    C("add_node",
      params={"node": "Node", "metadata": "Opt[Meta]"},
      requires={"nodes_same": lambda eng, p, cx: wf(eng, p, p.env["self"])["nodes_same"],
                "nm_exact": lambda eng, p, cx: wf(eng, p, p.env["self"])["nm_exact"]},
      modifies=["_adj_source", "_adj_target", "_node_metadata"],
      ensures={
          "nodes_same": lambda eng, p, cx: wf(eng, p, p.env["self"])["nodes_same"],
          "nm_exact": lambda eng, p, cx: wf(eng, p, p.env["self"])["nm_exact"],
          "V": "all((n in V(self)) == (n in V(old(self)) or n == node) for n in Node)",
          "adj_s_old": lambda eng, p, cx: _adj_kept(p.env["self"], cx.old_env["self"], "_adj_source"),
          "adj_t_old": lambda eng, p, cx: _adj_kept(p.env["self"], cx.old_env["self"], "_adj_target"),
          "adj_s_new": lambda eng, p, cx: _adj_new_empty(p.env["self"], cx.old_env["self"], p.env["node"].t, "_adj_source"),
          "adj_t_new": lambda eng, p, cx: _adj_new_empty(p.env["self"], cx.old_env["self"], p.env["node"].t, "_adj_target"),
          "NM_others": "all(NM(self, n) == NM(old(self), n) for n in V(old(self)) if n != node)",
          # "node metadata survives hyperedge insertions": add_node without metadata never changes an existing node
          "NM_none": "implies(node in V(old(self)) and metadata is None, NM(self, node) == NM(old(self), node))",
          "NM_kept": "implies(node in V(old(self)) and NM(old(self), node) != EMPTY, NM(self, node) == NM(old(self), node))",
          "NM_new": "implies(node not in V(old(self)), NM(self, node) == (EMPTY if metadata is None else metadata))",
      }),
    # called from add_edge while the new id has no metadata entry yet: requires nothing, exact frame
    C("set_edge_metadata", params={"edge": "Key", "metadata": "Meta"},
      raises={"ValueError": "canon(edge) not in E(self)"},
      modifies=["_edge_metadata"],
      ensures={"exact": lambda eng, p, cx: _em_exact(p, cx)},
      properties=["C02", "C05"]),
    C("add_edge",
      params={"edge": "Key", "weight": "Opt[Real]", "metadata": "Opt[Meta]"},
      requires={"wf": "wf(self)", "distinct": "distinct(fst(edge)) and distinct(snd(edge))",
                "nonempty": "len(fst(edge)) >= 1 and len(snd(edge)) >= 1",
                "disjoint": "all(n not in snd(edge) for n in fst(edge))"},
      raises={"ValueError": "not weighted(self) and weight is not None and weight != 1"},
      modifies=["_adj_source", "_adj_target", "_node_metadata", "_edge_list", "_reverse_edge_list", "_weights", "_edge_metadata", "_next_edge_id"],
      ensures={
          "wf": "wf(self)",
          "V": "all((n in V(self)) == (n in V(old(self)) or n in fst(edge) or n in snd(edge)) for n in Node)",
          # direction is part of the key: exactly the key (canon source, canon target) is added
          "E": "all((k in E(self)) == (k in E(old(self)) or k == canon(edge)) for k in Key)",
          "W_new": "implies(canon(edge) not in E(old(self)), W(self, canon(edge)) == (real(1 if weight is None else weight) if weighted(self) else 1))",
          "W_again": "implies(canon(edge) in E(old(self)), W(self, canon(edge)) == (W(old(self), canon(edge)) + real(1 if weight is None else weight) if weighted(self) else W(old(self), canon(edge))))",
          **OTHER_EDGES,
          "M_given": "implies(metadata is not None, M(self, canon(edge)) == metadata)",
          **NODE_MD_KEPT, **SAME_WEIGHTED,
      },
      invariants={0: {"inv": _loop_inv(0, "_adj_source", "_adj_target", src)},
                  1: {"inv": _loop_inv(1, "_adj_target", "_adj_source", tgt)}}),
    C("remove_edge", params={"edge": "Key"},
      requires={"wf": "wf(self)"},
      raises={"ValueError": "canon(edge) not in E(self)"},
      modifies=["_adj_source", "_adj_target", "_edge_list", "_reverse_edge_list", "_weights", "_edge_metadata"],
      ensures={"wf": "wf(self)", "V": "V(self) == V(old(self))",
               "E": "all((k in E(self)) == (k in E(old(self)) and k != canon(edge)) for k in Key)",
               **OTHER_EDGES, **NODE_MD_KEPT, **SAME_WEIGHTED},
      invariants={0: {"inv": _rm_inv(0, "_adj_source", src)}, 1: {"inv": _rm_inv(1, "_adj_target", tgt)}}),
    C("check_node", params={"node": "Node"}, result="Bool", pure=True, ensures={"result": "result == (node in V(self))"}),
    C("check_edge", params={"edge": "Key"}, result="Bool", pure=True, ensures={"result": "result == (canon(edge) in E(self))"}),
    C("get_weight", params={"edge": "Key"}, result="Real", pure=True, requires={"wf": "wf(self)"},
      raises={"ValueError": "canon(edge) not in E(self)"}, ensures={"result": "result == W(self, canon(edge))"},
      properties=["C02", "C05"]),
    C("set_weight", params={"edge": "Key", "weight": "Real"}, requires={"wf": "wf(self)"},
      raises={"ValueError": "(not weighted(self) and weight != 1) or canon(edge) not in E(self)"},
      modifies=["_weights"],
      ensures={"wf": "wf(self)", "W": "W(self, canon(edge)) == weight", **OTHER_EDGES}),
    C("get_edge_metadata", params={"edge": "Key"}, result="Meta", pure=True, requires={"wf": "wf(self)"},
      raises={"ValueError": "canon(edge) not in E(self)"}, ensures={"result": "result == M(self, canon(edge))"},
      properties=["C02", "C05"]),
    C("get_node_metadata", params={"node": "Node"}, result="Meta", pure=True, requires={"wf": "wf(self)"},
      raises={"ValueError": "node not in V(self)"}, ensures={"result": "result == NM(self, node)"}, properties=["C02", "C05"]),
    C("set_node_metadata", params={"node": "Node", "metadata": "Meta"}, requires={"wf": "wf(self)"},
      raises={"ValueError": "node not in V(self)"}, modifies=["_node_metadata"],
      ensures={"wf": "wf(self)", "NM": "NM(self, node) == metadata",
               "NM_others": "all(NM(self, n) == NM(old(self), n) for n in V(self) if n != node)"}, properties=["C02", "C05"]),
    C("set_attr_to_node_metadata", params={"node": "Node", "field": "Field", "value": "Val"}, requires={"wf": "wf(self)"},
      raises={"ValueError": "node not in V(self)"}, modifies=["_node_metadata"],
      ensures={"wf": "wf(self)", "NM": "NM(self, node) == mset(NM(old(self), node), field, value)",
               "NM_others": "all(NM(self, n) == NM(old(self), n) for n in V(self) if n != node)"}),
    C("set_attr_to_edge_metadata", params={"edge": "Key", "field": "Field", "value": "Val"}, requires={"wf": "wf(self)"},
      raises={"ValueError": "canon(edge) not in E(self)"}, modifies=["_edge_metadata"],
      ensures={"wf": "wf(self)", "M": "M(self, canon(edge)) == mset(M(old(self), canon(edge)), field, value)", **OTHER_EDGES}),
    C("remove_attr_from_edge_metadata", params={"edge": "Key", "field": "Field"}, requires={"wf": "wf(self)"},
      raises={"ValueError": "canon(edge) not in E(self)"},
      may_raise={"KeyError": "canon(edge) in E(self) and not mhas(M(self, canon(edge)), field)"}, modifies=["_edge_metadata"],
      ensures={"wf": "wf(self)", "M": "M(self, canon(edge)) == mdel(M(old(self), canon(edge)), field)", **OTHER_EDGES}),
    C("is_weighted", params={}, result="Bool", pure=True, ensures={"result": "result == weighted(self)"}),
    C("get_nodes", params={"metadata": "Bool"}, fixed={"metadata": False}, result="Bag[Int]", pure=True,
      ensures={"result": "all(count(result, n) == (1 if n in V(self) else 0) for n in Node)"}, properties=["C02", "C05"]),
    C("get_edges",
      params={"order": "Opt[Int]", "size": "Opt[Int]", "up_to": "Bool", "subhypergraph": "Bool", "keep_isolated_nodes": "Bool", "metadata": "Bool"},
      fixed={"subhypergraph": False, "keep_isolated_nodes": False, "metadata": False},
      result="Bag[Key]", pure=True, requires={"wf": "wf(self)"},
      raises={"ValueError": "order is not None and size is not None"},
      ensures={"result": "all(count(result, k) == (1 if k in E(self) and sel(self, k, order, size, up_to) else 0) for k in Key)",
               # without a filter the result is the listing of the key set (every stored hyperedge once), as one value
               "as_listing": "implies(order is None and size is None, result == listing(E(self)))"},
      properties=["C02", "C05", "C12"]),
    Contract(f"{CLS}.get_nodes@md", FILE, [CLS, "get_nodes"], self_cls=CLS, properties=["C02", "C19"],
      params={"metadata": "Bool"}, fixed={"metadata": True}, result="Map[Int,Meta]", pure=True,
      requires={"wf": "wf(self)"},
      ensures={"dom": "all((n in result) == (n in V(self)) for n in Node)",
               "val": "all(result[n] == NM(self, n) for n in V(self))"}),
    Contract(f"{CLS}.get_edges@md", FILE, [CLS, "get_edges"], self_cls=CLS, properties=["C02", "C19"],
      params={"order": "Opt[Int]", "size": "Opt[Int]", "up_to": "Bool", "subhypergraph": "Bool", "keep_isolated_nodes": "Bool", "metadata": "Bool"},
      fixed={"subhypergraph": False, "keep_isolated_nodes": False, "metadata": True},
      result="Map[Key,Meta]", pure=True, requires={"wf": "wf(self)"},
      raises={"ValueError": "order is not None and size is not None"},
      ensures={"dom": "all((k in result) == (k in E(self) and sel(self, k, order, size, up_to)) for k in Key)",
               "val": "all(implies(sel(self, k, order, size, up_to), result[k] == M(self, k)) for k in E(self))"}),
    # get_edges(subhypergraph=True): extraction by one order / size, with and without the isolated nodes (C05)
    Contract(f"{CLS}.get_edges@sub_iso", FILE, [CLS, "get_edges"], self_cls=CLS, properties=["C05"], options={"listing_positional"},
      params={"order": "Opt[Int]", "size": "Opt[Int]", "up_to": "Bool", "subhypergraph": "Bool", "keep_isolated_nodes": "Bool", "metadata": "Bool"},
      fixed={"subhypergraph": True, "keep_isolated_nodes": True},
      result="Obj[DirectedHypergraph]", pure=True, locals={"edges": "Seq[Key]", "edge_weights": "Seq[Real]"},
      requires={"wf": "wf(self)"},
      raises={"ValueError": "order is not None and size is not None"},
      ensures={"wf": "wf(result)", "weighted": "weighted(result) == weighted(self)",
               "E": "all((k in E(result)) == (k in E(self) and sel(self, k, order, size, up_to)) for k in Key)",
               "W": "all(W(result, k) == W(self, k) for k in E(result))",
               "M": "all(M(result, k) == M(self, k) for k in E(result))",
               "V": "all((n in V(result)) == (n in V(self)) for n in Node)",
               "NM": "all(NM(result, n) == NM(self, n) for n in V(result))"},
      invariants={
          0: {"wf": "wf(h)", "weighted": "weighted(h) == weighted(self)", "V": "all((n in V(h)) == (n in V(self)) for n in Node)",
              "E": "all((k in E(h)) == (k in E(self) and sel(self, k, order, size, up_to)) for k in Key)",
              "W": "all(W(h, k) == W(self, k) for k in E(h))",
              "NM": "all(NM(h, n) == NM(self, n) for n in _done0)"},
          1: {"wf": "wf(h)", "weighted": "weighted(h) == weighted(self)", "V": "all((n in V(h)) == (n in V(self)) for n in Node)",
              "E": "all((k in E(h)) == (k in E(self) and sel(self, k, order, size, up_to)) for k in Key)",
              "W": "all(W(h, k) == W(self, k) for k in E(h))",
              "NM": "all(NM(h, n) == NM(self, n) for n in V(h))",
              "M": "all(M(h, edges[m]) == M(self, edges[m]) for m in Int if 0 <= m and m < _j1)"}}),
    Contract(f"{CLS}.get_edges@sub", FILE, [CLS, "get_edges"], self_cls=CLS, properties=["C05"], options={"listing_positional"},
      params={"order": "Opt[Int]", "size": "Opt[Int]", "up_to": "Bool", "subhypergraph": "Bool", "keep_isolated_nodes": "Bool", "metadata": "Bool"},
      fixed={"subhypergraph": True, "keep_isolated_nodes": False},
      result="Obj[DirectedHypergraph]", pure=True, locals={"edges": "Seq[Key]", "edge_weights": "Seq[Real]"},
      requires={"wf": "wf(self)"},
      raises={"ValueError": "order is not None and size is not None"},
      ensures={"wf": "wf(result)", "weighted": "weighted(result) == weighted(self)",
               "E": "all((k in E(result)) == (k in E(self) and sel(self, k, order, size, up_to)) for k in Key)",
               "W": "all(W(result, k) == W(self, k) for k in E(result))",
               "M": "all(M(result, k) == M(self, k) for k in E(result))",
               "V": "all((n in V(result)) == any(k in E(self) and sel(self, k, order, size, up_to) and (n in fst(k) or n in snd(k)) for k in Key) for n in Node)",
               "NM": "all(NM(result, n) == NM(self, n) for n in V(result))"},
      invariants={
          2: {"wf": "wf(h)", "weighted": "weighted(h) == weighted(self)", "V": "all((n in V(h)) == any(k in E(self) and sel(self, k, order, size, up_to) and (n in fst(k) or n in snd(k)) for k in Key) for n in Node)",
              "E": "all((k in E(h)) == (k in E(self) and sel(self, k, order, size, up_to)) for k in Key)",
              "W": "all(W(h, k) == W(self, k) for k in E(h))",
              "NM": "all(NM(h, n) == NM(self, n) for n in _done2)"},
          3: {"wf": "wf(h)", "weighted": "weighted(h) == weighted(self)", "V": "all((n in V(h)) == any(k in E(self) and sel(self, k, order, size, up_to) and (n in fst(k) or n in snd(k)) for k in Key) for n in Node)",
              "E": "all((k in E(h)) == (k in E(self) and sel(self, k, order, size, up_to)) for k in Key)",
              "W": "all(W(h, k) == W(self, k) for k in E(h))",
              "NM": "all(NM(h, n) == NM(self, n) for n in V(h))",
              "M": "all(M(h, edges[m]) == M(self, edges[m]) for m in Int if 0 <= m and m < _j3)"}}),
    # role-specific listings: a hyperedge is listed exactly once per role it plays for the node
    C("get_source_edges", params={"node": "Node", "order": "Opt[Int]", "size": "Opt[Int]"}, result="Bag[Key]", pure=True,
      requires={"wf": "wf(self)"},
      raises={"ValueError": "node not in V(self) or (order is not None and size is not None)"},
      ensures={"result": "all(count(result, k) == (1 if k in E(self) and node in fst(k) and sel(self, k, order, size, False) else 0) for k in Key)"},
      properties=["C02", "C12"]),
    C("get_target_edges", params={"node": "Node", "order": "Opt[Int]", "size": "Opt[Int]"}, result="Bag[Key]", pure=True,
      requires={"wf": "wf(self)"},
      raises={"ValueError": "node not in V(self) or (order is not None and size is not None)"},
      ensures={"result": "all(count(result, k) == (1 if k in E(self) and node in snd(k) and sel(self, k, order, size, False) else 0) for k in Key)"},
      properties=["C02", "C12"]),
    C("remove_node", params={"node": "Node", "keep_edges": "Bool"}, fixed={"keep_edges": False},
      requires={"wf": "wf(self)"},
      raises={"KeyError": "node not in V(self)"},
      modifies=["_adj_source", "_adj_target", "_node_metadata", "_edge_list", "_reverse_edge_list", "_weights", "_edge_metadata"],
      ensures={"wf": "wf(self)",
               "V": "all((n in V(self)) == (n in V(old(self)) and n != node) for n in Node)",
               # a removed node is gone from every listing: no remaining hyperedge mentions it
               "E": "all((k in E(self)) == (k in E(old(self)) and node not in fst(k) and node not in snd(k)) for k in Key)",
               "W_kept": "all(W(self, k) == W(old(self), k) for k in E(self))",
               "M_kept": "all(M(self, k) == M(old(self), k) for k in E(self))",
               "NM_kept": "all(NM(self, n) == NM(old(self), n) for n in V(self))", **SAME_WEIGHTED},
      invariants={
          0: {"wf": "wf(self)", "V": "V(self) == V(old(self))",
              "E": "all((k in E(self)) == (k in E(old(self)) and count(_done0, k) == 0) for k in Key)",
              "W_kept": "all(W(self, k) == W(old(self), k) for k in E(self))", "M_kept": "all(M(self, k) == M(old(self), k) for k in E(self))",
              "NM_kept": "all(NM(self, n) == NM(old(self), n) for n in V(old(self)))",
              "weighted": "weighted(self) == weighted(old(self))", "HM": "HM(self) == HM(old(self))"},
          1: {"wf": "wf(self)", "V": "V(self) == V(old(self))",
              "E": "all((k in E(self)) == (k in E(old(self)) and count(source_edges, k) == 0 and count(_done1, k) == 0) for k in Key)",
              "W_kept": "all(W(self, k) == W(old(self), k) for k in E(self))", "M_kept": "all(M(self, k) == M(old(self), k) for k in E(self))",
              "NM_kept": "all(NM(self, n) == NM(old(self), n) for n in V(old(self)))",
              "weighted": "weighted(self) == weighted(old(self))", "HM": "HM(self) == HM(old(self))"}},
      properties=["C02", "C19"]),
    C("clear", params={}, requires={"wf": "wf(self)"}, modifies=list(FIELDS),
      ensures={"wf": "wf(self)", "V": "all(n not in V(self) for n in Node)", "E": "all(k not in E(self) for k in Key)",
               "weighted": "weighted(self) == weighted(old(self))"}),
    C("get_incident_edges", params={"node": "Node", "order": "Opt[Int]", "size": "Opt[Int]"}, result="Bag[Key]", pure=True,
      requires={"wf": "wf(self)"},
      raises={"ValueError": "node not in V(self) or (order is not None and size is not None)"},
      # listed once per role the hyperedge plays for the node
      ensures={"result": "all(count(result, k) == (1 if k in E(self) and node in fst(k) and sel(self, k, order, size, False) else 0) + "
                         "(1 if k in E(self) and node in snd(k) and sel(self, k, order, size, False) else 0) for k in Key)"},
      properties=["C02", "C08"]),
    # per-node view of the same numbers: every node exactly once (a dict), its value the degree under the same filter
    Contract("degree_sequence[DirectedHypergraph]", "hypergraphx/measures/degree.py", ["degree_sequence"], properties=["C02", "C08"],
      params={"hg": "Obj[DirectedHypergraph]", "order": "Opt[Int]", "size": "Opt[Int]"}, result="Map[Int,Int]", pure=True,
      requires={"wf": "wf(hg)"},
      raises={"ValueError": "order is not None and size is not None"},
      ensures={"dom": "all((n in result) == (n in V(hg)) for n in Node)",
               "val": "all(result[n] == card({k for k in E(hg) if (n in fst(k) or n in snd(k)) and sel(hg, k, order, size, False)}) for n in V(hg))"}),
    C("degree_sequence", params={"order": "Opt[Int]", "size": "Opt[Int]"}, result="Map[Int,Int]", pure=True,
      requires={"wf": "wf(self)"},
      raises={"ValueError": "order is not None and size is not None"},
      ensures={"dom": "all((n in result) == (n in V(self)) for n in Node)",
               "val": "all(result[n] == card({k for k in E(self) if (n in fst(k) or n in snd(k)) and sel(self, k, order, size, False)}) for n in V(self))"},
      properties=["C02", "C08"]),
    Contract("degree[DirectedHypergraph]", "hypergraphx/measures/degree.py", ["degree"], properties=["C02", "C08"],
      params={"hg": "Obj[DirectedHypergraph]", "node": "Node", "order": "Opt[Int]", "size": "Opt[Int]"}, result="Int", pure=True,
      requires={"wf": "wf(hg)"},
      raises={"ValueError": "(order is not None and size is not None) or node not in V(hg)"},
      # the number of distinct (filtered) hyperedges containing the node, in either role
      ensures={"result": "result == card({k for k in E(hg) if (node in fst(k) or node in snd(k)) and sel(hg, k, order, size, False)})"}),
    # ------------------------------------------------------------------ construction, batched forms, counting queries
    C("__init__",
      params={"edge_list": "None", "weighted": "Bool", "weights": "None", "hypergraph_metadata": "Opt[Meta]",
              "node_metadata": "None", "edge_metadata": "None"},
      fixed={"edge_list": None, "weights": None, "node_metadata": None, "edge_metadata": None},
      modifies=list(FIELDS),
      ensures={"wf": "wf(self)", "V": "all(n not in V(self) for n in Node)", "E": "all(k not in E(self) for k in Key)",
               "weighted": "weighted(self) == weighted"}),
    C("add_nodes", params={"node_list": "Bag[Int]"},
      requires={"wf": "wf(self)"},
      modifies=["_adj_source", "_adj_target", "_node_metadata"],
      ensures={"wf": "wf(self)",
               "V": "all((n in V(self)) == (n in V(old(self)) or count(node_list, n) >= 1) for n in Node)",
               "E": "E(self) == E(old(self))",
               "NM_kept": "all(NM(self, n) == NM(old(self), n) for n in V(old(self)))",
               "NM_new": "all(implies(n not in V(old(self)), NM(self, n) == EMPTY) for n in node_list)"},
      invariants={0: {
          "wf": "wf(self)",
          "V": "all((n in V(self)) == (n in V(old(self)) or count(_done0, n) >= 1) for n in Node)",
          "NM_kept": "all(NM(self, n) == NM(old(self), n) for n in V(old(self)))",
          "NM_new": "all(implies(n not in V(old(self)), NM(self, n) == EMPTY) for n in _done0)"}}),
    C("remove_edges", params={"edge_list": "Bag[Key]"},
      requires={"wf": "wf(self)",
                "stored": "all(strict(fst(e)) and strict(snd(e)) and e in E(self) and count(edge_list, e) == 1 for e in edge_list)"},
      modifies=["_adj_source", "_adj_target", "_edge_list", "_reverse_edge_list", "_weights", "_edge_metadata"],
      ensures={"wf": "wf(self)", "V": "V(self) == V(old(self))",
               "E": "all((k in E(self)) == (k in E(old(self)) and count(edge_list, k) == 0) for k in Key)",
               "W_kept": "all(W(self, k) == W(old(self), k) for k in E(self))",
               "M_kept": "all(M(self, k) == M(old(self), k) for k in E(self))",
               **NODE_MD_KEPT, **SAME_WEIGHTED},
      invariants={0: {
          "wf": "wf(self)", "V": "V(self) == V(old(self))",
          "E": "all((k in E(self)) == (k in E(old(self)) and count(_done0, k) == 0) for k in Key)",
          "W_kept": "all(W(self, k) == W(old(self), k) for k in E(self))",
          "M_kept": "all(M(self, k) == M(old(self), k) for k in E(self))",
          "NM_kept": "all(NM(self, n) == NM(old(self), n) for n in V(old(self)))",
          "weighted": "weighted(self) == weighted(old(self))", "HM": "HM(self) == HM(old(self))"}}),
    C("remove_nodes", params={"node_list": "Bag[Int]", "keep_edges": "Bool"}, fixed={"keep_edges": False},
      requires={"wf": "wf(self)", "present": "all(n in V(self) and count(node_list, n) == 1 for n in node_list)"},
      modifies=["_adj_source", "_adj_target", "_node_metadata", "_edge_list", "_reverse_edge_list", "_weights", "_edge_metadata"],
      ensures={"wf": "wf(self)",
               "V": "all((n in V(self)) == (n in V(old(self)) and count(node_list, n) == 0) for n in Node)",
               "E": "all((k in E(self)) == (k in E(old(self)) and all(count(node_list, n) == 0 for n in fst(k)) and all(count(node_list, n) == 0 for n in snd(k))) for k in Key)",
               "W_kept": "all(W(self, k) == W(old(self), k) for k in E(self))",
               "M_kept": "all(M(self, k) == M(old(self), k) for k in E(self))",
               "NM_kept": "all(NM(self, n) == NM(old(self), n) for n in V(self))", **SAME_WEIGHTED},
      invariants={0: {
          "wf": "wf(self)",
          "V": "all((n in V(self)) == (n in V(old(self)) and count(_done0, n) == 0) for n in Node)",
          "E": "all((k in E(self)) == (k in E(old(self)) and all(count(_done0, n) == 0 for n in fst(k)) and all(count(_done0, n) == 0 for n in snd(k))) for k in Key)",
          "W_kept": "all(W(self, k) == W(old(self), k) for k in E(self))",
          "M_kept": "all(M(self, k) == M(old(self), k) for k in E(self))",
          "NM_kept": "all(NM(self, n) == NM(old(self), n) for n in V(self))",
          "weighted": "weighted(self) == weighted(old(self))", "HM": "HM(self) == HM(old(self))"}}),
    C("num_nodes", params={}, result="Int", pure=True, ensures={"result": "result == card(V(self))"}),
    C("num_edges", params={}, result="Int", pure=True, ensures={"result": "result == card(E(self))"}),
    C("__len__", params={}, result="Int", pure=True, ensures={"result": "result == card(E(self))"}, properties=["C10"]),
    C("is_uniform", params={}, result="Bool", pure=True, locals={"sz": "Opt[Int]", "uniform": "Bool"},
      requires={"wf": "wf(self)"},
      ensures={"result": "result == all(len(fst(k1)) + len(snd(k1)) == len(fst(k2)) + len(snd(k2)) for k1 in E(self) for k2 in E(self))"},
      invariants={0: {"uniform": "uniform",
                      "none": "(sz is None) == all(k not in _done0 for k in Key)",
                      "same": "implies(sz is not None, all(len(fst(k)) + len(snd(k)) == sz for k in _done0))",
                      "witness": "implies(sz is not None, any(len(fst(k)) + len(snd(k)) == sz for k in _done0))"}}),
    C("get_sizes", params={}, result="Bag[Int]", pure=True, options={"image_counts"},
      ensures={"len": "len(result) == card(E(self))",
               "exact": "all(count(result, s) == card({k for k in E(self) if len(fst(k)) + len(snd(k)) == s}) for s in Int if trig(card({k for k in E(self) if len(fst(k)) + len(snd(k)) == s})))",
               "members": "all(implies(count(result, s) >= 1, any(len(fst(k)) + len(snd(k)) == s for k in E(self))) for s in Int)",
               "covers": "all(count(result, len(fst(k)) + len(snd(k))) >= 1 for k in E(self))"}),
    C("get_orders", params={}, result="Bag[Int]", pure=True, options={"image_counts"},
      ensures={"len": "len(result) == card(E(self))",
               "exact": "all(count(result, s) == card({k for k in E(self) if len(fst(k)) + len(snd(k)) - 1 == s}) for s in Int if trig(card({k for k in E(self) if len(fst(k)) + len(snd(k)) - 1 == s})))",
               "members": "all(implies(count(result, s) >= 1, any(len(fst(k)) + len(snd(k)) - 1 == s for k in E(self))) for s in Int)",
               "covers": "all(count(result, len(fst(k)) + len(snd(k)) - 1) >= 1 for k in E(self))"}),
    C("distribution_sizes", params={}, result="Map[Int,Int]", pure=True, requires={"wf": "wf(self)"},
      ensures={"dom": "all((s in result) == any(len(fst(k)) + len(snd(k)) == s for k in E(self)) for s in Int)",
               "val": "all(result[s] == card({k for k in E(self) if len(fst(k)) + len(snd(k)) == s}) for s in result)"}),
    C("max_size", params={}, result="Int", pure=True,
      raises={"ValueError": "card(E(self)) == 0"},
      ensures={"bound": "all(len(fst(k)) + len(snd(k)) <= result for k in E(self))",
               "attained": "any(len(fst(k)) + len(snd(k)) == result for k in E(self))"}),
    C("max_order", params={}, result="Int", pure=True,
      raises={"ValueError": "card(E(self)) == 0"},
      ensures={"bound": "all(len(fst(k)) + len(snd(k)) - 1 <= result for k in E(self))",
               "attained": "any(len(fst(k)) + len(snd(k)) - 1 == result for k in E(self))"}),
    # sources and targets: one entry per stored hyperedge, each the source (target) tuple of a stored hyperedge
    C("get_sources", params={}, result="Bag[Tup]", pure=True,
      ensures={"len": "len(result) == card(E(self))",
               "members": "all(implies(count(result, s) >= 1, any(fst(k) == s for k in E(self))) for s in Tuple)",
               "covers": "all(count(result, fst(k)) >= 1 for k in E(self))"}),
    C("get_targets", params={}, result="Bag[Tup]", pure=True,
      ensures={"len": "len(result) == card(E(self))",
               "members": "all(implies(count(result, s) >= 1, any(snd(k) == s for k in E(self))) for s in Tuple)",
               "covers": "all(count(result, snd(k)) >= 1 for k in E(self))"}),
    C("degree", params={"node": "Node", "order": "Opt[Int]", "size": "Opt[Int]"}, result="Int", pure=True,
      requires={"wf": "wf(self)"},
      raises={"ValueError": "(order is not None and size is not None) or node not in V(self)"},
      ensures={"result": "result == card({k for k in E(self) if (node in fst(k) or node in snd(k)) and sel(self, k, order, size, False)})"},
      properties=["C02", "C08"]),
    Contract(f"{CLS}.get_weights@list", FILE, [CLS, "get_weights"], self_cls=CLS, properties=["C02"],
      params={"order": "Opt[Int]", "size": "Opt[Int]", "up_to": "Bool", "asdict": "Bool"}, fixed={"asdict": False},
      result="Bag[Real]", pure=True,
      requires={"wf": "wf(self)"},
      raises={"ValueError": "order is not None and size is not None"},
      ensures={"len": "len(result) == card({k for k in E(self) if sel(self, k, order, size, up_to)})",
               "members": "all(implies(count(result, x) >= 1, any(sel(self, k, order, size, up_to) and W(self, k) == x for k in E(self))) for x in Real)",
               "covers": "all(implies(sel(self, k, order, size, up_to), count(result, W(self, k)) >= 1) for k in E(self))"}),
    Contract(f"{CLS}.get_weights@dict", FILE, [CLS, "get_weights"], self_cls=CLS, properties=["C02"],
      params={"order": "Opt[Int]", "size": "Opt[Int]", "up_to": "Bool", "asdict": "Bool"}, fixed={"asdict": True},
      result="Map[Key,Real]", pure=True,
      requires={"wf": "wf(self)"},
      raises={"ValueError": "order is not None and size is not None"},
      ensures={"dom": "all((k in result) == (k in E(self) and sel(self, k, order, size, up_to)) for k in Key)",
               "val": "all(implies(sel(self, k, order, size, up_to), result[k] == W(self, k)) for k in E(self))"}),
    C("copy", params={}, result="Obj[DirectedHypergraph]", pure=True, requires={"wf": "wf(self)"},
      ensures={"wf": "wf(result)", "V": "V(result) == V(self)", "E": "E(result) == E(self)",
               "W": "all(W(result, k) == W(self, k) for k in E(self))", "M": "all(M(result, k) == M(self, k) for k in E(self))",
               "NM": "all(NM(result, n) == NM(self, n) for n in V(self))", "weighted": "weighted(result) == weighted(self)",
               "HM": "HM(result) == HM(self)",
               # incidence metadata is an observable too (get_incidence_metadata): the copy answers as the source does
               "IM": "all(HASIM(result, k, n) == HASIM(self, k, n) and IM(result, k, n) == IM(self, k, n) for k in Key for n in Node)"},
      properties=["C02", "C05"]),
    C("remove_attr_from_node_metadata", params={"node": "Node", "field": "Field"}, requires={"wf": "wf(self)"},
      raises={"ValueError": "node not in V(self)"},
      may_raise={"KeyError": "node in V(self) and not mhas(NM(self, node), field)"}, modifies=["_node_metadata"],
      ensures={"wf": "wf(self)", "NM": "NM(self, node) == mdel(NM(old(self), node), field)",
               "NM_others": "all(NM(self, n) == NM(old(self), n) for n in V(self) if n != node)"}),
    # neighbours: every other node sharing a (filtered) hyperedge with the node, whatever the roles
    C("get_neighbors", params={"node": "Node", "order": "Opt[Int]", "size": "Opt[Int]"}, result="Set[Int]", pure=True,
      locals={"neigh": "Set[Int]"},
      requires={"wf": "wf(self)"},
      raises={"ValueError": "node not in V(self) or (order is not None and size is not None)"},
      ensures={"result": "all((m in result) == (m != node and any(k in E(self) and (node in fst(k) or node in snd(k)) and (m in fst(k) or m in snd(k)) and sel(self, k, order, size, False) for k in Key)) for m in Node)"},
      invariants={0: {"neigh": "all((m in neigh) == any(count(_done0, k) >= 1 and (m in fst(k) or m in snd(k)) for k in Key) for m in Node)"},
                  1: {"neigh": "all((m in neigh) == any(count(_done1, k) >= 1 and (m in fst(k) or m in snd(k)) for k in Key) for m in Node)"}},
      properties=["C02", "C08"]),
    # batched insertion = fold of add_edge over the list (positional pairing with weights and metadata)
    C("add_edges", params={"edge_list": "Seq[Key]", "weights": "Opt[Seq[Real]]", "metadata": "Opt[Seq[Meta]]"},
      requires={"wf": "wf(self)",
                "edges_ok": "all(distinct(fst(edge_list[m])) and distinct(snd(edge_list[m])) and len(fst(edge_list[m])) >= 1 and len(snd(edge_list[m])) >= 1 "
                            "and all(n not in snd(edge_list[m]) for n in fst(edge_list[m])) for m in Int if 0 <= m and m < len(edge_list))",
                "weights_ok": "implies(weights is not None, weighted(self))",
                "metadata_len": "implies(metadata is not None and len(metadata) > 0, len(metadata) >= len(edge_list))"},
      raises={"ValueError": "weights is not None and len(weights) != len(edge_list)"},
      modifies=["_adj_source", "_adj_target", "_node_metadata", "_edge_list", "_reverse_edge_list", "_weights", "_edge_metadata", "_next_edge_id"],
      ensures={"wf": "wf(self)",
               "V": "all((n in V(self)) == (n in V(old(self)) or any(0 <= m and m < len(edge_list) and (n in fst(edge_list[m]) or n in snd(edge_list[m])) for m in Int)) for n in Node)",
               "E": "all((k in E(self)) == (k in E(old(self)) or any(0 <= m and m < len(edge_list) and canon(edge_list[m]) == k for m in Int)) for k in Key)",
               "W": "implies(weighted(self), all(W(self, k) == (W(old(self), k) if k in E(old(self)) else 0) + bsum(self, edge_list, weights, len(edge_list), k) for k in E(self)))",
               # for a list without repeated hyperedges the fold collapses: position m adds exactly its own weight
               "W_each": f"implies(weighted(self) and {INJ}, all(W(self, canon(edge_list[m])) == (W(old(self), canon(edge_list[m])) if canon(edge_list[m]) in E(old(self)) else 0) "
                         "+ (weights[m] if weights is not None and len(weights) > 0 else 1) for m in Int if 0 <= m and m < len(edge_list)))",
               **NODE_MD_KEPT, **SAME_WEIGHTED},
      invariants={0: {
          "P0": "all(implies(all(implies(0 <= m and m < _j0, canon(edge_list[m]) != k) for m in Int), bsum(self, edge_list, weights, _j0, k) == 0) for k in Key)",
          "P1": f"implies({INJ}, all(bsum(self, edge_list, weights, _j0, canon(edge_list[m])) == (weights[m] if weights is not None and len(weights) > 0 else 1) for m in Int if 0 <= m and m < _j0))",
          "wf": "wf(self)",
          "V": "all((n in V(self)) == (n in V(old(self)) or any(0 <= m and m < _j0 and (n in fst(edge_list[m]) or n in snd(edge_list[m])) for m in Int)) for n in Node)",
          "E": "all((k in E(self)) == (k in E(old(self)) or any(0 <= m and m < _j0 and canon(edge_list[m]) == k for m in Int)) for k in Key)",
          "W": "implies(weighted(self), all(W(self, k) == (W(old(self), k) if k in E(old(self)) else 0) + bsum(self, edge_list, weights, _j0, k) for k in E(self)))",
          "W0": "all(bsum(self, edge_list, weights, _j0, k) == 0 for k in Key if k not in E(self))",
          "NM_kept": "all(NM(self, n) == NM(old(self), n) for n in V(old(self)))",
          "weighted": "weighted(self) == weighted(old(self))", "HM": "HM(self) == HM(old(self))"}}),
    # ------------------------------------------------------------------ hypergraphx/measures/directed/reciprocity.py (C12)
    # exact reciprocity: for every size s in 2..max, the number of stored hyperedges of size s whose reverse is stored, divided by the number
    # of stored hyperedges of size s (0 when there is none); counts are fold-defined over the listing of the hyperedges, `/` is uninterpreted
    Contract("exact_reciprocity", "hypergraphx/measures/directed/reciprocity.py", ["exact_reciprocity"], properties=["C12"],
      params={"hypergraph": "Obj[DirectedHypergraph]", "max_hyperedge_size": "Int"}, result="Map[Int,Real]", pure=True,
      locals={"rec": "Map[Int,Real]", "tot": "Map[Int,Int]", "edge_set": "Map[Pair[Tup,Tup],Int]", "edges": "Bag[Pair[Tup,Tup]]"},
      requires={"wf": "wf(hypergraph)"},
      ensures={
          "dom": "all((s in result) == (2 <= s and s <= max_hyperedge_size) for s in Int)",
          "val": 'all(implies(2 <= s and s <= max_hyperedge_size, result[s] == (real(cnt_rev(hypergraph, local("edge_set"), local("edge_set"), s)) / real(cnt_size(hypergraph, listing(E(hypergraph)), s)) '
                 'if cnt_size(hypergraph, listing(E(hypergraph)), s) != 0 else 0)) for s in Int)',
          # the auxiliary table holds exactly the stored hyperedges whose size is in range
          "edge_set": 'all((k in local("edge_set")) == (k in E(hypergraph) and 2 <= len(fst(k)) + len(snd(k)) and len(fst(k)) + len(snd(k)) <= max_hyperedge_size) for k in Key)'},
      invariants={
          0: {"rec": "all((s in rec) == (2 <= s and s <= max_hyperedge_size) for s in Int) and all(rec[s] == 0 for s in rec)",
              "tot_dom": "all((s in tot) == (2 <= s and s <= max_hyperedge_size) for s in Int)",
              "tot": "all(tot[s] == cnt_size(hypergraph, _done0, s) for s in tot)",
              "edge_set": "all((k in edge_set) == (count(_done0, k) >= 1 and 2 <= len(fst(k)) + len(snd(k)) and len(fst(k)) + len(snd(k)) <= max_hyperedge_size) for k in Key)"},
          1: {"rec_dom": "all((s in rec) == (2 <= s and s <= max_hyperedge_size) for s in Int)",
              "rec": "all(rec[s] == real(cnt_rev(hypergraph, _done1, edge_set, s)) for s in rec)"},
          2: {"rec_dom": "all((s in rec) == (2 <= s and s <= max_hyperedge_size) for s in Int)",
              "done": "all(implies(2 <= s and s < _j2, rec[s] == (real(cnt_rev(hypergraph, edge_set, edge_set, s)) / real(tot[s]) if tot[s] != 0 else 0)) for s in rec)",
              "todo": "all(implies(_j2 <= s, rec[s] == real(cnt_rev(hypergraph, edge_set, edge_set, s))) for s in rec)"}}),
    # strong reciprocity: a hyperedge counts when every one of its sources is a target of some in-range hyperedge that has one of its targets
    # as a source ("every source is reached from its targets"); counts and quotient as for exact_reciprocity
    Contract("strong_reciprocity", "hypergraphx/measures/directed/reciprocity.py", ["strong_reciprocity"], properties=["C12"],
      params={"hypergraph": "Obj[DirectedHypergraph]", "max_hyperedge_size": "Int"}, result="Map[Int,Real]", pure=True,
      locals={"rec": "Map[Int,Real]", "tot": "Map[Int,Int]", "edge_set": "Map[Pair[Tup,Tup],Int]", "edges": "Bag[Pair[Tup,Tup]]",
              "node_reach": "Map[Int,Set[Int]]", "covered": "Set[Int]"},
      requires={"wf": "wf(hypergraph)"},
      ensures={
          "dom": "all((s in result) == (2 <= s and s <= max_hyperedge_size) for s in Int)",
          "val": 'all(implies(2 <= s and s <= max_hyperedge_size, result[s] == (real(cnt_in(hypergraph, local("edge_set"), {k for k in Key if all(any(t in snd(k) and any(k2 in E(hypergraph) and (2 <= len(fst(k2)) + len(snd(k2)) and len(fst(k2)) + len(snd(k2)) <= max_hyperedge_size) and t in fst(k2) and n in snd(k2) for k2 in Key) for t in Node) for n in fst(k))}, s)) / real(cnt_size(hypergraph, listing(E(hypergraph)), s)) '
                 'if cnt_size(hypergraph, listing(E(hypergraph)), s) != 0 else 0)) for s in Int)',
          "edge_set": 'all((k in local("edge_set")) == (k in E(hypergraph) and (2 <= len(fst(k)) + len(snd(k)) and len(fst(k)) + len(snd(k)) <= max_hyperedge_size)) for k in Key)'},
      invariants={
          0: {"rec": "all((s in rec) == (2 <= s and s <= max_hyperedge_size) for s in Int) and all(rec[s] == 0 for s in rec)",
              "tot_dom": "all((s in tot) == (2 <= s and s <= max_hyperedge_size) for s in Int)",
              "tot": "all(tot[s] == cnt_size(hypergraph, _done0, s) for s in tot)",
              "edge_set": "all((k in edge_set) == (count(_done0, k) >= 1 and (2 <= len(fst(k)) + len(snd(k)) and len(fst(k)) + len(snd(k)) <= max_hyperedge_size)) for k in Key)",
              "nr_dom": "all((n in node_reach) == any((count(_done0, k) >= 1 and (2 <= len(fst(k)) + len(snd(k)) and len(fst(k)) + len(snd(k)) <= max_hyperedge_size)) and n in fst(k) for k in Key) for n in Node)",
              "nr_val": "all(implies(n in node_reach, (x in node_reach[n]) == any((count(_done0, k) >= 1 and (2 <= len(fst(k)) + len(snd(k)) and len(fst(k)) + len(snd(k)) <= max_hyperedge_size)) and n in fst(k) and x in snd(k) for k in Key)) for n in Node for x in Node)"},
          1: {"nr_dom": "all((n in node_reach) == (any((count(_done0, k) >= 1 and (2 <= len(fst(k)) + len(snd(k)) and len(fst(k)) + len(snd(k)) <= max_hyperedge_size)) and n in fst(k) for k in Key) or inprefix(n, _it1, _j1)) for n in Node)",
              "nr_val": "all(implies(n in node_reach, (x in node_reach[n]) == (any((count(_done0, k) >= 1 and (2 <= len(fst(k)) + len(snd(k)) and len(fst(k)) + len(snd(k)) <= max_hyperedge_size)) and n in fst(k) and x in snd(k) for k in Key) or (inprefix(n, _it1, _j1) and x in snd(edge)))) for n in Node for x in Node)"},
          2: {"rec_dom": "all((s in rec) == (2 <= s and s <= max_hyperedge_size) for s in Int)",
              "rec": "all(rec[s] == real(cnt_in(hypergraph, _done2, {k for k in Key if all(any(t in snd(k) and any(k2 in E(hypergraph) and (2 <= len(fst(k2)) + len(snd(k2)) and len(fst(k2)) + len(snd(k2)) <= max_hyperedge_size) and t in fst(k2) and n in snd(k2) for k2 in Key) for t in Node) for n in fst(k))}, s)) for s in rec)"},
          3: {"covered": "all((x in covered) == any(inprefix(t, _it3, _j3) and t in node_reach and x in node_reach[t] for t in Node) for x in Node)"},
          4: {"rec_dom": "all((s in rec) == (2 <= s and s <= max_hyperedge_size) for s in Int)",
              "done": "all(implies(2 <= s and s < _j4, rec[s] == (real(cnt_in(hypergraph, edge_set, {k for k in Key if all(any(t in snd(k) and any(k2 in E(hypergraph) and (2 <= len(fst(k2)) + len(snd(k2)) and len(fst(k2)) + len(snd(k2)) <= max_hyperedge_size) and t in fst(k2) and n in snd(k2) for k2 in Key) for t in Node) for n in fst(k))}, s)) / real(tot[s]) if tot[s] != 0 else 0)) for s in rec)",
              "todo": "all(implies(_j4 <= s, rec[s] == real(cnt_in(hypergraph, edge_set, {k for k in Key if all(any(t in snd(k) and any(k2 in E(hypergraph) and (2 <= len(fst(k2)) + len(snd(k2)) and len(fst(k2)) + len(snd(k2)) <= max_hyperedge_size) and t in fst(k2) and n in snd(k2) for k2 in Key) for t in Node) for n in fst(k))}, s))) for s in rec)"}}),
    # weak reciprocity: a hyperedge counts when for some source i and some target j of it, j is a source and i a target of one in-range hyperedge
    Contract("weak_reciprocity", "hypergraphx/measures/directed/reciprocity.py", ["weak_reciprocity"], properties=["C12"], options={"int_pairs"},
      params={"hypergraph": "Obj[DirectedHypergraph]", "max_hyperedge_size": "Int"}, result="Map[Int,Real]", pure=True,
      locals={"rec": "Map[Int,Real]", "tot": "Map[Int,Int]", "edge_set": "Map[Pair[Tup,Tup],Int]", "edges": "Bag[Pair[Tup,Tup]]",
              "bin_edges": "Map[Pair[Int,Int],Int]", "is_reciprocated": "Bool"},
      requires={"wf": "wf(hypergraph)"},
      ensures={
          "dom": "all((s in result) == (2 <= s and s <= max_hyperedge_size) for s in Int)",
          "val": 'all(implies(2 <= s and s <= max_hyperedge_size, result[s] == (real(cnt_in(hypergraph, local("edge_set"), {k for k in Key if any(i in fst(k) and any(j in snd(k) and any(k2 in E(hypergraph) and (2 <= len(fst(k2)) + len(snd(k2)) and len(fst(k2)) + len(snd(k2)) <= max_hyperedge_size) and j in fst(k2) and i in snd(k2) for k2 in Key) for j in Node) for i in Node)}, s)) / real(cnt_size(hypergraph, listing(E(hypergraph)), s)) '
                 'if cnt_size(hypergraph, listing(E(hypergraph)), s) != 0 else 0)) for s in Int)',
          "edge_set": 'all((k in local("edge_set")) == (k in E(hypergraph) and (2 <= len(fst(k)) + len(snd(k)) and len(fst(k)) + len(snd(k)) <= max_hyperedge_size)) for k in Key)'},
      invariants={
          0: {"rec": "all((s in rec) == (2 <= s and s <= max_hyperedge_size) for s in Int) and all(rec[s] == 0 for s in rec)",
              "tot_dom": "all((s in tot) == (2 <= s and s <= max_hyperedge_size) for s in Int)",
              "tot": "all(tot[s] == cnt_size(hypergraph, _done0, s) for s in tot)",
              "edge_set": "all((k in edge_set) == (count(_done0, k) >= 1 and (2 <= len(fst(k)) + len(snd(k)) and len(fst(k)) + len(snd(k)) <= max_hyperedge_size)) for k in Key)",
              "bin": "all((pair(a, b) in bin_edges) == (any((count(_done0, k) >= 1 and (2 <= len(fst(k)) + len(snd(k)) and len(fst(k)) + len(snd(k)) <= max_hyperedge_size)) and a in fst(k) and b in snd(k) for k in Key)) for a in Node for b in Node)"},
          1: {"bin": "all((pair(a, b) in bin_edges) == (any((count(_done0, k) >= 1 and (2 <= len(fst(k)) + len(snd(k)) and len(fst(k)) + len(snd(k)) <= max_hyperedge_size)) and a in fst(k) and b in snd(k) for k in Key) or (inprefix(a, _it1, _j1) and b in target)) for a in Node for b in Node)"},
          2: {"bin": "all((pair(a, b) in bin_edges) == (any((count(_done0, k) >= 1 and (2 <= len(fst(k)) + len(snd(k)) and len(fst(k)) + len(snd(k)) <= max_hyperedge_size)) and a in fst(k) and b in snd(k) for k in Key) or (inprefix(a, _it1, _j1) and b in target) or (a == i and inprefix(b, _it2, _j2))) for a in Node for b in Node)"},
          3: {"rec_dom": "all((s in rec) == (2 <= s and s <= max_hyperedge_size) for s in Int)",
              "rec": "all(rec[s] == real(cnt_in(hypergraph, _done3, {k for k in Key if any(i in fst(k) and any(j in snd(k) and any(k2 in E(hypergraph) and (2 <= len(fst(k2)) + len(snd(k2)) and len(fst(k2)) + len(snd(k2)) <= max_hyperedge_size) and j in fst(k2) and i in snd(k2) for k2 in Key) for j in Node) for i in Node)}, s)) for s in rec)"},
          4: {"flag": "not is_reciprocated", "norev": "all(implies(inprefix(a, _it4, _j4) and b in target and k2 in E(hypergraph) and (2 <= len(fst(k2)) + len(snd(k2)) and len(fst(k2)) + len(snd(k2)) <= max_hyperedge_size) and b in fst(k2), a not in snd(k2)) for a in Node for b in Node for k2 in Key)"},
          5: {"flag": "not is_reciprocated", "norev": "all(implies(inprefix(b, _it5, _j5) and k2 in E(hypergraph) and (2 <= len(fst(k2)) + len(snd(k2)) and len(fst(k2)) + len(snd(k2)) <= max_hyperedge_size) and b in fst(k2), i not in snd(k2)) for b in Node for k2 in Key)"},
          6: {"rec_dom": "all((s in rec) == (2 <= s and s <= max_hyperedge_size) for s in Int)",
              "done": "all(implies(2 <= s and s < _j6, rec[s] == (real(cnt_in(hypergraph, edge_set, {k for k in Key if any(i in fst(k) and any(j in snd(k) and any(k2 in E(hypergraph) and (2 <= len(fst(k2)) + len(snd(k2)) and len(fst(k2)) + len(snd(k2)) <= max_hyperedge_size) and j in fst(k2) and i in snd(k2) for k2 in Key) for j in Node) for i in Node)}, s)) / real(tot[s]) if tot[s] != 0 else 0)) for s in rec)",
              "todo": "all(implies(_j6 <= s, rec[s] == real(cnt_in(hypergraph, edge_set, {k for k in Key if any(i in fst(k) and any(j in snd(k) and any(k2 in E(hypergraph) and (2 <= len(fst(k2)) + len(snd(k2)) and len(fst(k2)) + len(snd(k2)) <= max_hyperedge_size) and j in fst(k2) and i in snd(k2) for k2 in Key) for j in Node) for i in Node)}, s))) for s in rec)"}}),
    # ------------------------------------------------------------------ hypergraphx/measures/directed/degree.py (C12)
    Contract("in_degree", "hypergraphx/measures/directed/degree.py", ["in_degree"], properties=["C12"],
      params={"hypergraph": "Obj[DirectedHypergraph]", "node": "Node", "order": "Opt[Int]", "size": "Opt[Int]"}, result="Int", pure=True,
      requires={"wf": "wf(hypergraph)"},
      raises={"ValueError": "node not in V(hypergraph) or (order is not None and size is not None)"},
      ensures={"result": "result == card({k for k in E(hypergraph) if node in fst(k) and sel(hypergraph, k, order, size, False)})"}),
    Contract("out_degree", "hypergraphx/measures/directed/degree.py", ["out_degree"], properties=["C12"],
      params={"hypergraph": "Obj[DirectedHypergraph]", "node": "Node", "order": "Opt[Int]", "size": "Opt[Int]"}, result="Int", pure=True,
      requires={"wf": "wf(hypergraph)"},
      raises={"ValueError": "node not in V(hypergraph) or (order is not None and size is not None)"},
      ensures={"result": "result == card({k for k in E(hypergraph) if node in snd(k) and sel(hypergraph, k, order, size, False)})"}),
    Contract("in_degree_sequence", "hypergraphx/measures/directed/degree.py", ["in_degree_sequence"], properties=["C12"],
      params={"hg": "Obj[DirectedHypergraph]", "order": "Opt[Int]", "size": "Opt[Int]"}, result="Map[Int,Int]", pure=True,
      requires={"wf": "wf(hg)", "one_filter": "order is None or size is None"},
      ensures={"dom": "all((n in result) == (n in V(hg)) for n in Node)",      # every node listed once (a dict keyed by node)
               "val": "all(result[n] == card({k for k in E(hg) if n in fst(k) and sel(hg, k, order, size, False)}) for n in V(hg))"}),
    Contract("out_degree_sequence", "hypergraphx/measures/directed/degree.py", ["out_degree_sequence"], properties=["C12"],
      params={"hg": "Obj[DirectedHypergraph]", "order": "Opt[Int]", "size": "Opt[Int]"}, result="Map[Int,Int]", pure=True,
      requires={"wf": "wf(hg)", "one_filter": "order is None or size is None"},
      ensures={"dom": "all((n in result) == (n in V(hg)) for n in Node)",
               "val": "all(result[n] == card({k for k in E(hg) if n in snd(k) and sel(hg, k, order, size, False)}) for n in V(hg))"}),
]


def _em_exact(p, cx):
    cur, old = p.env["self"], cx.old_env["self"]
    edge = p.env["edge"]
    k = DK.mk(TH.canon(DK.fst(edge.t)), TH.canon(DK.snd(edge.t)))
    i = old.fields["_edge_list"].val[k]
    return z3.And(cur.fields["_edge_metadata"].dom == z3.Store(old.fields["_edge_metadata"].dom, i, True),
                  cur.fields["_edge_metadata"].val == z3.Store(old.fields["_edge_metadata"].val, i, p.env["metadata"].t))


# ------------------------------------------------------------------ hypergraphx/measures/directed/hyperedge_signature.py (C12)
# cell (s, t) of the (m-1) x (m-1) table, flattened row-major, counts exactly the stored hyperedges with s sources and t targets among those
# of total size <= m (the listing handed out by get_edges(size=m, up_to=True): every such hyperedge once); numpy arrays by their assumed contract
CONTRACTS += [
    Contract("hyperedge_signature_vector@bound", "hypergraphx/measures/directed/hyperedge_signature.py", ["hyperedge_signature_vector"], properties=["C12"],
      params={"hypergraph": "Obj[DirectedHypergraph]", "max_hyperedge_size": "Int"}, result="Seq[Real]", pure=True,
      requires={"wf": "wf(hypergraph)"},
      raises={"ValueError": "max_hyperedge_size < 1"},
      ensures={
          "listing": 'all(count(local("_iterated0"), k) == (1 if k in E(hypergraph) and len(fst(k)) + len(snd(k)) <= max_hyperedge_size else 0) for k in Key)',
          "len": "len(result) == flatlen(hypergraph, max_hyperedge_size - 1, max_hyperedge_size - 1)",
          "cells": 'all(implies(1 <= s and s < max_hyperedge_size and 1 <= t and t < max_hyperedge_size, '
                   'result[flat(hypergraph, s - 1, t - 1, max_hyperedge_size - 1)] == real(cnt_shape(hypergraph, local("_iterated0"), s, t))) for s in Int for t in Int)'},
      invariants={0: {"shape": "signature._r == max_hyperedge_size - 1 and signature._c == max_hyperedge_size - 1",
                      "dom": "all((pair(i, j) in signature._m) == (0 <= i and i < max_hyperedge_size - 1 and 0 <= j and j < max_hyperedge_size - 1) for i in Int for j in Int)",
                      "cells": "all(implies(1 <= s and s < max_hyperedge_size and 1 <= t and t < max_hyperedge_size, "
                               "signature._m[pair(s - 1, t - 1)] == real(cnt_shape(hypergraph, _done0, s, t))) for s in Int for t in Int)"}}),
]

MLOC = 'local("max_hyperedge_size", "Int")'
CONTRACTS += [
    # without a bound the largest total size is used (every hyperedge is counted); no hyperedge at all: the empty vector
    Contract("hyperedge_signature_vector@default", "hypergraphx/measures/directed/hyperedge_signature.py", ["hyperedge_signature_vector"], properties=["C12"],
      params={"hypergraph": "Obj[DirectedHypergraph]", "max_hyperedge_size": "Opt[Int]"}, fixed={"max_hyperedge_size": None}, result="Seq[Real]", pure=True,
      requires={"wf": "wf(hypergraph)"},
      ensures={
          "empty": "implies(card(E(hypergraph)) == 0, len(result) == 0)",
          "bound": f"implies(card(E(hypergraph)) != 0, any(k in E(hypergraph) and len(fst(k)) + len(snd(k)) == {MLOC} for k in Key) and "
                   f"all(len(fst(k)) + len(snd(k)) <= {MLOC} for k in E(hypergraph)))",
          "listing": 'implies(card(E(hypergraph)) != 0, all(count(local("_iterated0", "Bag[Pair[Tup,Tup]]"), k) == (1 if k in E(hypergraph) else 0) for k in Key))',
          "len": f"implies(card(E(hypergraph)) != 0, len(result) == flatlen(hypergraph, {MLOC} - 1, {MLOC} - 1))",
          "cells": f'implies(card(E(hypergraph)) != 0, all(implies(1 <= s and s < {MLOC} and 1 <= t and t < {MLOC}, '
                   f'result[flat(hypergraph, s - 1, t - 1, {MLOC} - 1)] == real(cnt_shape(hypergraph, local("_iterated0", "Bag[Pair[Tup,Tup]]"), s, t))) for s in Int for t in Int))'},
      invariants={0: {"shape": "signature._r == max_hyperedge_size - 1 and signature._c == max_hyperedge_size - 1",
                      "dom": "all((pair(i, j) in signature._m) == (0 <= i and i < max_hyperedge_size - 1 and 0 <= j and j < max_hyperedge_size - 1) for i in Int for j in Int)",
                      "cells": "all(implies(1 <= s and s < max_hyperedge_size and 1 <= t and t < max_hyperedge_size, "
                               "signature._m[pair(s - 1, t - 1)] == real(cnt_shape(hypergraph, _done0, s, t))) for s in Int for t in Int)"}}),
]


# ---- hypergraph-level metadata (a dict of the object): the setter installs the given dict, the attribute setter changes one entry, nothing else
# about the object changes (frame); the getter returns it
CONTRACTS += [
    C("get_hypergraph_metadata", params={}, result="Meta", pure=True, ensures={"result": "result == HM(self)"}, properties=['C02', 'C07']),
    C("set_hypergraph_metadata", params={"metadata": "Meta"}, modifies=["_hypergraph_metadata"],
      ensures={"HM": "HM(self) == metadata"}, properties=['C02', 'C07']),
    C("set_attr_to_hypergraph_metadata", params={"field": "Field", "value": "Val"}, modifies=["_hypergraph_metadata"],
      ensures={"HM": "HM(self) == mset(HM(old(self)), field, value)"}, properties=['C02', 'C07']),
]


# ---- incidence metadata and the metadata tables as a whole (session 4): the entry is filed under the canonical hyperedge and the node
CONTRACTS += [
    C("set_incidence_metadata", params={"edge": "Key", "node": "Node", "metadata": "Meta"}, modifies=["_incidences_metadata"],
      raises={"ValueError": "canon(edge) not in E(self)"},
      ensures={"set": "HASIM(self, canon(edge), node) and IM(self, canon(edge), node) == metadata",
               "others": "all(implies(k != canon(edge) or n != node, HASIM(self, k, n) == HASIM(old(self), k, n) and IM(self, k, n) == IM(old(self), k, n)) for k in Key for n in Node)"}),
    C("get_incidence_metadata", params={"edge": "Key", "node": "Node"}, result="Meta", pure=True,
      raises={"ValueError": "canon(edge) not in E(self)", "KeyError": "canon(edge) in E(self) and not HASIM(self, canon(edge), node)"},
      ensures={"result": "result == IM(self, canon(edge), node)"}),
    C("get_all_incidences_metadata", params={}, result="Map[Pair[Pair[Tup,Tup],Int],Meta]", pure=True,
      ensures={"dom": "all((pair(k, n) in result) == HASIM(self, k, n) for k in Key for n in Node)",
               "val": "all(implies(HASIM(self, k, n), result[pair(k, n)] == IM(self, k, n)) for k in Key for n in Node)"}),
    # a list here (the other classes hand out the table): one entry per node, each the metadata of a node (the order of the list is not modelled)
    C("get_all_nodes_metadata", params={}, result="Bag[Meta]", pure=True, requires={"wf": "wf(self)"},
      ensures={"len": "len(result) == card(V(self))",
               "members": "all(implies(count(result, m) >= 1, any(n in V(self) and NM(self, n) == m for n in Node)) for m in MetaD)",
               "covers": "all(count(result, NM(self, n)) >= 1 for n in V(self))"}),
    C("get_all_edges_metadata", params={}, result="Map[Int,Meta]", pure=True, requires={"wf": "wf(self)"},
      ensures={"by_id": "all(ID(self, k) in result and result[ID(self, k)] == M(self, k) for k in E(self))"}),
]
