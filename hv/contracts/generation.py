"""Contracts for the reshuffling kernels of the configuration models (C13) and of the Hy-MMSBM sampler (C16).

The kernels are verified for EVERY outcome of the random draws: np.random.rand() / rng.choice are havoc with their documented range.
What the kernel postconditions give: one Metropolis step replaces two hyperedges f1, f2 by g1, g2 with |g1| = |f1|, |g2| = |f2|,
g1 and g2 duplicate-free, and every node occurring in g1, g2 together exactly as often as in f1, f2 together - so the step preserves
both sizes and every node's degree (at every size when f1, f2 have the same size: the `detailed` variant).
"""
from ..pyvc.engine import Contract, Layout

CM = "hypergraphx/generation/configuration_model.py"

SAMPLER = "hypergraphx/generation/hy_mmsbm_sampling.py"
# only the pure kernel of the sampler is verified: no field of the object is read except the random generator
LAYOUTS = [Layout("HyMMSBMSampler", {})]

CONTRACTS = [
    Contract("HyMMSBMSampler._pairwise_reshuffle", SAMPLER, ["HyMMSBMSampler", "_pairwise_reshuffle"], self_cls="HyMMSBMSampler",
             properties=["C16"], params={"hye1": "Set[Int]", "hye2": "Set[Int]"}, result="Pair[Set[Int],Set[Int]]", pure=True,
             ensures={
                 # for every outcome of rng.choice: both sizes, the union and the intersection are preserved, hence every node's degree
                 "size1": "card(fst(result)) == card(hye1)",
                 "size2": "card(snd(result)) == card(hye2)",
                 "union": "all((x in fst(result) or x in snd(result)) == (x in hye1 or x in hye2) for x in Node)",
                 "inter": "all((x in fst(result) and x in snd(result)) == (x in hye1 and x in hye2) for x in Node)",
             }),
    Contract("_cm_MCMC.__pairwise_reshuffle", CM, ["_cm_MCMC", "__pairwise_reshuffle"], properties=["C13"],
             params={"f1": "NodeSeq", "f2": "NodeSeq"}, result="Pair[Bag[Int],Bag[Int]]", pure=True,
             locals={"g1": "Bag[Int]", "g2": "Bag[Int]", "f": "Bag[Int]"},
             requires={"distinct": "distinct(f1) and distinct(f2)"},
             ensures={
                 "size1": "len(fst(result)) == len(f1)",
                 "size2": "len(snd(result)) == len(f2)",
                 "degrees": "all(count(fst(result), x) + count(snd(result), x) == (1 if x in f1 else 0) + (1 if x in f2 else 0) for x in Node)",
                 "no_dup1": "all(count(fst(result), x) <= 1 for x in Node)",
                 "no_dup2": "all(count(snd(result), x) <= 1 for x in Node)",
             },
             invariants={
                 0: {"f_cnt": "all(count(f, x) == (1 if x in f1 else 0) + (1 if x in f2 else 0) - 2 * count(_done0, x) for x in Node)",
                     "f_len": "len(f) == len(f1) + len(f2) - 2 * len(_done0)"},
                 1: {"sum": "all(count(g1, x) + count(g2, x) == (2 if (x in f1 and x in f2) else 0) + count(_done1, x) for x in Node)",
                     "lower1": "all(count(g1, x) >= (1 if (x in f1 and x in f2) else 0) for x in Node)",
                     "lower2": "all(count(g2, x) >= (1 if (x in f1 and x in f2) else 0) for x in Node)",
                     "len1": "len(g1) <= len(f1)", "len2": "len(g2) <= len(f2)",
                     "lens": "len(g1) + len(g2) == 2 * len(ix) + len(_done1)"}},
             ),
]


# ------------------------------------------------------------------ hypergraphx/generation/random.py (C14): add_random_edge(s)
# random.sample is havoc within its documented contract (k distinct members of the population), so what is proved holds for every draw.
RD = "hypergraphx/generation/random.py"
SZ = "(size if size is not None else order + 1)"
CONTRACTS += [
    Contract("add_random_edge@inplace", RD, ["add_random_edge"], properties=["C14"],
             params={"hg": "Obj[Hypergraph]", "order": "Opt[Int]", "size": "Opt[Int]", "inplace": "Bool", "seed": "Opt[Int]"}, fixed={"inplace": True},
             requires={"wf": "wf(hg)", "positive": f"implies((order is None) != (size is None), {SZ} >= 1)"},
             raises={"ValueError": f"(order is not None and size is not None) or (order is None and size is None) or {SZ} > card(V(hg))"},
             modifies_args={"hg": ["_adj", "_node_metadata", "_edge_list", "_reverse_edge_list", "_weights", "_edge_metadata", "_next_edge_id"]},
             ensures={"wf": "wf(hg)", "V": "V(hg) == V(old(hg))",
                      # exactly one hyperedge of the requested size over existing nodes is inserted (or re-inserted), nothing else changes
                      "E_old": "all(k in E(hg) for k in E(old(hg)))",
                      "E_new": f"any(strict(e) and len(e) == {SZ} and all(n in V(old(hg)) for n in e) and all((k in E(hg)) == (k in E(old(hg)) or k == e) for k in Tuple) "
                               "and all(W(hg, k) == W(old(hg), k) and M(hg, k) == M(old(hg), k) for k in E(old(hg)) if k != e) for e in Tuple)",
                      "NM": "all(NM(hg, n) == NM(old(hg), n) for n in V(hg))", "weighted": "weighted(hg) == weighted(old(hg))"}),
    Contract("add_random_edge@copy", RD, ["add_random_edge"], properties=["C14"],
             params={"hg": "Obj[Hypergraph]", "order": "Opt[Int]", "size": "Opt[Int]", "inplace": "Bool", "seed": "Opt[Int]"}, fixed={"inplace": False},
             result="Obj[Hypergraph]", pure=True,
             requires={"wf": "wf(hg)", "positive": f"implies((order is None) != (size is None), {SZ} >= 1)"},
             raises={"ValueError": f"(order is not None and size is not None) or (order is None and size is None) or {SZ} > card(V(hg))"},
             ensures={"wf": "wf(result)", "V": "V(result) == V(hg)",
                      "E_old": "all(k in E(result) for k in E(hg))",
                      "E_new": f"any(strict(e) and len(e) == {SZ} and all(n in V(hg) for n in e) and all((k in E(result)) == (k in E(hg) or k == e) for k in Tuple) "
                               "and all(W(result, k) == W(hg, k) and M(result, k) == M(hg, k) for k in E(hg) if k != e) for e in Tuple)",
                      "NM": "all(NM(result, n) == NM(hg, n) for n in V(hg))", "weighted": "weighted(result) == weighted(hg)"}),
]

NEW = f"(strict(k) and len(k) == {SZ} and all(n in V(old(hg)) for n in k))"
CONTRACTS += [
    # the drawn hyperedges are collected in a set until there are num_edges of them (termination is not proved: it needs enough distinct
    # node sets of that size), then inserted by one add_edges call; for a weighted hypergraph a drawn hyperedge that exists already gains 1
    Contract("add_random_edges@inplace", RD, ["add_random_edges"], properties=["C14"], options={"listing_positional"},
             params={"hg": "Obj[Hypergraph]", "num_edges": "Int", "order": "Opt[Int]", "size": "Opt[Int]", "inplace": "Bool", "seed": "Opt[Int]"},
             fixed={"inplace": True}, locals={"edges": "Set[Tup]"},
             requires={"wf": "wf(hg)", "positive": f"implies((order is None) != (size is None), {SZ} >= 1)"},
             raises={"ValueError": "(order is not None and size is not None) or (order is None and size is None)"},
             may_raise={"ValueError": f"{SZ} > card(V(hg)) and num_edges > 0"},
             modifies_args={"hg": ["_adj", "_node_metadata", "_edge_list", "_reverse_edge_list", "_weights", "_edge_metadata", "_next_edge_id"]},
             ensures={"wf": "wf(hg)", "V": "V(hg) == V(old(hg))",
                      "E_old": "all(k in E(hg) for k in E(old(hg)))",
                      "E_new": f"all(implies(k in E(hg) and k not in E(old(hg)), {NEW}) for k in Tuple)",
                      "others": f"all(implies(not {NEW}, W(hg, k) == W(old(hg), k)) for k in E(old(hg)))",
                      "M_old": "all(M(hg, k) == M(old(hg), k) for k in E(old(hg)))" if False else "all(implies(not " + NEW + ", M(hg, k) == M(old(hg), k)) for k in E(old(hg)))",
                      "NM": "all(NM(hg, n) == NM(old(hg), n) for n in V(hg))", "weighted": "weighted(hg) == weighted(old(hg))"},
             invariants={0: {"drawn": f"all({NEW} for k in edges)"}}),
]

NEWC = NEW.replace("old(hg)", "hg")
CONTRACTS += [
    Contract("add_random_edges@copy", RD, ["add_random_edges"], properties=["C14"], options={"listing_positional"},
             params={"hg": "Obj[Hypergraph]", "num_edges": "Int", "order": "Opt[Int]", "size": "Opt[Int]", "inplace": "Bool", "seed": "Opt[Int]"},
             fixed={"inplace": False}, locals={"edges": "Set[Tup]"}, result="Obj[Hypergraph]", pure=True,
             requires={"wf": "wf(hg)", "positive": f"implies((order is None) != (size is None), {SZ} >= 1)"},
             raises={"ValueError": "(order is not None and size is not None) or (order is None and size is None)"},
             may_raise={"ValueError": f"{SZ} > card(V(hg)) and num_edges > 0"},
             ensures={"wf": "wf(result)", "V": "V(result) == V(hg)",
                      "E_old": "all(k in E(result) for k in E(hg))",
                      "E_new": f"all(implies(k in E(result) and k not in E(hg), {NEWC}) for k in Tuple)",
                      "others": f"all(implies(not {NEWC}, W(result, k) == W(hg, k) and M(result, k) == M(hg, k)) for k in E(hg))",
                      "NM": "all(NM(result, n) == NM(hg, n) for n in V(hg))", "weighted": "weighted(result) == weighted(hg)"},
             invariants={0: {"drawn": f"all({NEWC} for k in edges)"}}),
]

# HyMMSBMSampler._deg_seq_to_dict (static): the degree sequence as {degree: set of nodes with that degree} - the table _match_sequences and
# _extract_hye draw nodes from, so that conditioned degrees are attributed to the right nodes (C16)
CONTRACTS += [
    Contract("HyMMSBMSampler._deg_seq_to_dict", SAMPLER, ["HyMMSBMSampler", "_deg_seq_to_dict"], properties=["C16"],
             params={"deg_seq": "Seq[Int]"}, result="Map[Int,Set[Int]]", pure=True, locals={"nodes_with_deg": "Map[Int,Set[Int]]"},
             ensures={"dom": "all((d in result) == any(0 <= m and m < len(deg_seq) and deg_seq[m] == d for m in Int) for d in Int)",
                      "val": "all(implies(d in result, (n in result[d]) == (0 <= n and n < len(deg_seq) and deg_seq[n] == d)) for d in Int for n in Int)"},
             invariants={0: {"dom": "all((d in nodes_with_deg) == any(0 <= m and m < _j0 and deg_seq[m] == d for m in Int) for d in Int)",
                             "val": "all(implies(d in nodes_with_deg, (n in nodes_with_deg[d]) == (0 <= n and n < _j0 and deg_seq[n] == d)) for d in Int for n in Int)"}}),
]

# random_hypergraph / random_uniform_hypergraph (C14): for every outcome of random.sample the result has exactly the nodes 0..n-1, is
# unweighted, contains only duplicate-free hyperedges of requested sizes over those nodes, and at most the requested number of each size.
# Termination of the drawing loop is not proved. The "same seed, same hypergraph" clause is outside a per-call contract (bounded tier).
REQ = "(strict(k) and len(k) in num_edges_by_size and all(0 <= n and n < num_nodes for n in k))"
CONTRACTS += [
    Contract("random_hypergraph", RD, ["random_hypergraph"], properties=["C14"], options={"listing_positional"},
             params={"num_nodes": "Int", "num_edges_by_size": "Map[Int,Int]", "seed": "Opt[Int]"}, result="Obj[Hypergraph]", pure=True,
             locals={"edges": "Seq[Tup]|Set[Tup]"},
             requires={"n": "num_nodes >= 0", "sizes": "all(s >= 1 for s in num_edges_by_size)"},
             may_raise={"ValueError": "any(s in num_edges_by_size and num_edges_by_size[s] > 0 and s > num_nodes for s in Int)"},
             ensures={"wf": "wf(result)",
                      "V": "all((n in V(result)) == (0 <= n and n < num_nodes) for n in Node)",
                      "E": f"all(implies(k in E(result), {REQ}) for k in Tuple)",
                      "at_least_one": "all(implies(s in num_edges_by_size and num_edges_by_size[s] >= 1, any(k in E(result) and len(k) == s for k in Tuple)) for s in Int)",
                      "at_most": "all(implies(s in num_edges_by_size, card({k for k in E(result) if len(k) == s}) <= (num_edges_by_size[s] if num_edges_by_size[s] >= 0 else 0)) for s in Int)",
                      "unweighted": "not weighted(result)"},
             invariants={0: {"wf": "wf(h)", "most": "all(implies(s in _done0, card({k for k in E(h) if len(k) == s}) <= (num_edges_by_size[s] if num_edges_by_size[s] >= 0 else 0)) for s in Int)",
                             "later": "all(implies(k in E(h), len(k) in _done0) for k in Tuple)", "one": "all(implies(s in _done0 and num_edges_by_size[s] >= 1, any(k in E(h) and len(k) == s for k in Tuple)) for s in Int)", "V": "all((n in V(h)) == (0 <= n and n < num_nodes) for n in Node)",
                             "E": f"all(implies(k in E(h), {REQ}) for k in Tuple)", "unweighted": "not weighted(h)"},
                         1: {"len": "len(edges) <= (num_edges_by_size[size] if num_edges_by_size[size] >= 0 else 0)",
                             "drawn": "all(implies(0 <= i and i < len(edges), " + REQ.replace("(k)", "(edges[i])").replace(" in k)", " in edges[i])") + " and len(edges[i]) == size) for i in Int)"}}),
]

RUQ = "(strict(k) and len(k) == size and all(0 <= n and n < num_nodes for n in k))"
CONTRACTS += [
    # the uniform variant is the general generator called with the one-entry table {size: num_edges}
    Contract("random_uniform_hypergraph", RD, ["random_uniform_hypergraph"], properties=["C14"],
             params={"num_nodes": "Int", "size": "Int", "num_edges": "Int", "seed": "Opt[Int]"}, result="Obj[Hypergraph]", pure=True,
             requires={"n": "num_nodes >= 0", "size": "size >= 1"},
             may_raise={"ValueError": "num_edges > 0 and size > num_nodes"},
             ensures={"wf": "wf(result)",
                      "V": "all((n in V(result)) == (0 <= n and n < num_nodes) for n in Node)",
                      "E": f"all(implies(k in E(result), {RUQ}) for k in Tuple)",
                      "at_least_one": "implies(num_edges >= 1, any(k in E(result) for k in Tuple))",
                      "at_most": "card(E(result)) <= (num_edges if num_edges >= 0 else 0)",
                      "unweighted": "not weighted(result)"}),
]

# ---- HyMMSBMSampler._mcmc_step (C16): one step of the chain, for every outcome of the draws and of the accept / reject decision: the list keeps its
# length, every position keeps its size, and every node occurs in as many hyperedges as before (so conditioned degrees and size counts, which are
# functions of these numbers, are carried from the initial configuration through the whole chain). The acceptance probability is numerics outside
# the subset: the calls that compute it are declared opaque (ASSUMED to leave hye_list and the sampler's counters alone; they receive tuples).
import z3 as _z3
from ..pyvc import ty as _T
from ..pyvc import theory as _TH
_SI = _T.Set(_T.INT)
_AT = _z3.ArraySort(_T.I, _SI.sort())
OCC = _z3.Function("occ", _AT, _T.I, _T.I, _T.I)      # occ(at, n, x): number of positions k < n with x in at[k]
_at, _n, _i, _x, _S = _z3.Const("_oat", _AT), _z3.Int("_on"), _z3.Int("_oi"), _z3.Int("_ox"), _z3.Const("_oS", _SI.sort())
_TH.EXTRA.update({
    "occ_0 (definition)": _z3.ForAll([_at, _x], OCC(_at, 0, _x) == 0, patterns=[OCC(_at, 0, _x)]),
    "occ_step (definition)": _z3.ForAll([_at, _n, _x], _z3.Implies(_n >= 0, OCC(_at, _n + 1, _x) == OCC(_at, _n, _x) + _z3.If(_at[_n][_x], 1, 0)),
                                        patterns=[OCC(_at, _n + 1, _x)]),
    # replacing one position changes the count by what that position contributed (lean/Occ.lean: occ_update, by induction on n)
    "occ_update (lemma, proved in Lean)": _z3.ForAll(
        [_at, _i, _S, _n, _x], _z3.Implies(_z3.And(0 <= _i, _i < _n),
                                           OCC(_z3.Store(_at, _i, _S), _n, _x) == OCC(_at, _n, _x) - _z3.If(_at[_i][_x], 1, 0) + _z3.If(_S[_x], 1, 0)),
        patterns=[OCC(_z3.Store(_at, _i, _S), _n, _x)]),
})
LEAN_LEMMAS_C16 = ["lean/Occ.lean"]
LAYOUTS = [Layout("HyMMSBMSampler", {"accept_count": "Int", "reject_count": "Int"},
                  views={"occ": lambda eng, p, self_, L, x: _T.sv_int(OCC(L.at, L.len, eng.coerce(x, _T.INT).t))})]
CONTRACTS += [
    Contract("HyMMSBMSampler._mcmc_step", SAMPLER, ["HyMMSBMSampler", "_mcmc_step"], self_cls="HyMMSBMSampler", properties=["C16"],
             options={"opaque:hye_list_to_binary_incidence", "opaque:poisson_params", "opaque:log_kappa", "opaque:_transition_prob"},
             params={"hye_list": "Seq[Set[Int]]"}, modifies=["accept_count", "reject_count"], modifies_args={"hye_list": []},
             ensures={"len": "len(hye_list) == len(old(hye_list))",
                      "sizes": "all(implies(0 <= k and k < len(hye_list), card(hye_list[k]) == card(old(hye_list)[k])) for k in Int)",
                      "degrees": "all(occ(self, hye_list, x) == occ(self, old(hye_list), x) for x in Node)"}),
]
