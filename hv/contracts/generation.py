"""Contracts for the reshuffling kernels of the configuration models (C13) and of the Hy-MMSBM sampler (C16).

The kernels are verified for EVERY outcome of the random draws: np.random.rand() / rng.choice are havoc with their documented range.
What the kernel postconditions give: one Metropolis step replaces two hyperedges f1, f2 by g1, g2 with |g1| = |f1|, |g2| = |f2|,
g1 and g2 duplicate-free, and every node occurring in g1, g2 together exactly as often as in f1, f2 together - so the step preserves
both sizes and every node's degree (at every size when f1, f2 have the same size: the `detailed` variant).
"""
from ..pyvc.engine import Contract, Layout

CM = "hypergraphx/generation/configuration_model.py"

SAMPLER = "hypergraphx/generation/hy_mmsbm_sampling.py"
# only the pure kernel of the sampler is verified: no field of the object is read except the random generator
LAYOUTS = [Layout("HyMMSBMSampler", {})]

CONTRACTS = [
    Contract("HyMMSBMSampler._pairwise_reshuffle", SAMPLER, ["HyMMSBMSampler", "_pairwise_reshuffle"], self_cls="HyMMSBMSampler",
             properties=["C16"], params={"hye1": "Set[Int]", "hye2": "Set[Int]"}, result="Pair[Set[Int],Set[Int]]", pure=True,
             ensures={
                 # for every outcome of rng.choice: both sizes, the union and the intersection are preserved, hence every node's degree
                 "size1": "card(fst(result)) == card(hye1)",
                 "size2": "card(snd(result)) == card(hye2)",
                 "union": "all((x in fst(result) or x in snd(result)) == (x in hye1 or x in hye2) for x in Node)",
                 "inter": "all((x in fst(result) and x in snd(result)) == (x in hye1 and x in hye2) for x in Node)",
             }),
    Contract("_cm_MCMC.__pairwise_reshuffle", CM, ["_cm_MCMC", "__pairwise_reshuffle"], properties=["C13"],
             params={"f1": "NodeSeq", "f2": "NodeSeq"}, result="Pair[Bag[Int],Bag[Int]]", pure=True,
             locals={"g1": "Bag[Int]", "g2": "Bag[Int]", "f": "Bag[Int]"},
             requires={"distinct": "distinct(f1) and distinct(f2)"},
             ensures={
                 "size1": "len(fst(result)) == len(f1)",
                 "size2": "len(snd(result)) == len(f2)",
                 "degrees": "all(count(fst(result), x) + count(snd(result), x) == (1 if x in f1 else 0) + (1 if x in f2 else 0) for x in Node)",
                 "no_dup1": "all(count(fst(result), x) <= 1 for x in Node)",
                 "no_dup2": "all(count(snd(result), x) <= 1 for x in Node)",
             },
             invariants={
                 0: {"f_cnt": "all(count(f, x) == (1 if x in f1 else 0) + (1 if x in f2 else 0) - 2 * count(_done0, x) for x in Node)",
                     "f_len": "len(f) == len(f1) + len(f2) - 2 * len(_done0)"},
                 1: {"sum": "all(count(g1, x) + count(g2, x) == (2 if (x in f1 and x in f2) else 0) + count(_done1, x) for x in Node)",
                     "lower1": "all(count(g1, x) >= (1 if (x in f1 and x in f2) else 0) for x in Node)",
                     "lower2": "all(count(g2, x) >= (1 if (x in f1 and x in f2) else 0) for x in Node)",
                     "len1": "len(g1) <= len(f1)", "len2": "len(g2) <= len(f2)",
                     "lens": "len(g1) + len(g2) == 2 * len(ix) + len(_done1)"}},
             ),
]
