"""Contracts for hypergraphx/core/temporal_hypergraph.py (C03; C07/C19 rest on them).

Abstract view: V(h) nodes; E(h) set of keys (time, canonical node tuple); W, M, NM, weighted as for Hypergraph.
"""
import z3
from ..pyvc import ty as T
from ..pyvc import theory as TH
from ..pyvc.engine import Layout, Contract
from ..pyvc.ty import fresh

FILE = "hypergraphx/core/temporal_hypergraph.py"
CLS = "TemporalHypergraph"
TK = T.Pair(T.INT, T.TUP)

FIELDS = {
    "_weighted": "Bool",
    "_weights": "Map[Int,Real]",
    "_adj": "Map[Int,Bag[Int]]",
    "_edge_list": "Map[Pair[Int,Tup],Int]",
    "_incidences_metadata": "Map[Pair[Pair[Int,Tup],Int],Meta]",
    "_node_metadata": "Map[Int,Meta]",
    "_edge_metadata": "Map[Int,Meta]",
    "_reverse_edge_list": "Map[Int,Pair[Int,Tup]]",
    "_hypergraph_metadata": "Meta",
    "_next_edge_id": "Int",
}


# number of records of a set whose hyperedge passes the order filter (fold-defined specification function)
CNT = z3.Function("count_sel_t", z3.ArraySort(TK.sort(), T.B), T.I, T.B, T.I)
_cs, _cx, _co, _cu = z3.Const("_cst", z3.ArraySort(TK.sort(), T.B)), z3.Const("_cxt", TK.sort()), z3.Int("_cot"), z3.Bool("_cut")
TH.EXTRA.update({
    "count_sel_t_empty (definition)": z3.ForAll([_co, _cu], CNT(z3.K(TK.sort(), z3.BoolVal(False)), _co, _cu) == 0,
                                                patterns=[CNT(z3.K(TK.sort(), z3.BoolVal(False)), _co, _cu)]),
    "count_sel_t_step (definition)": z3.ForAll([_cs, _cx, _co, _cu], z3.Implies(z3.Not(_cs[_cx]),
        CNT(z3.Store(_cs, _cx, True), _co, _cu) == CNT(_cs, _co, _cu) +
        z3.If(z3.If(_cu, TH.tlen(TK.snd(_cx)) - 1 <= _co, TH.tlen(TK.snd(_cx)) - 1 == _co), 1, 0)),
        patterns=[CNT(z3.Store(_cs, _cx, True), _co, _cu)]),
})


def tm(k):
    return TK.fst(k)


def nd(k):
    return TK.snd(k)


def live(h, i):
    el, rv = h.fields["_edge_list"], h.fields["_reverse_edge_list"]
    return z3.And(rv.dom[i], el.dom[rv.val[i]], el.val[rv.val[i]] == i)


def wf(eng, p, h):
    F = h.fields
    el, rv, w, em = F["_edge_list"], F["_reverse_edge_list"], F["_weights"], F["_edge_metadata"]
    adj, nm, nxt, wt = F["_adj"], F["_node_metadata"], F["_next_edge_id"].t, F["_weighted"].t
    k, i, n = fresh("k", TK.sort()), fresh("i", T.I), fresh("n", T.I)
    FA, MP = z3.ForAll, z3.MultiPattern
    return {
        # times are non-negative integers, node tuples canonical and non-empty
        "el_rv": FA([k], z3.Implies(el.dom[k], z3.And(rv.dom[el.val[k]], rv.val[el.val[k]] == k, TH.strict(nd(k)), TH.tlen(nd(k)) >= 1,
                                                       tm(k) >= 0, 0 <= el.val[k], el.val[k] < nxt)), patterns=[el.dom[k], el.val[k]]),
        "el_tables": FA([k], z3.Implies(el.dom[k], z3.And(w.dom[el.val[k]], em.dom[el.val[k]])), patterns=[el.dom[k], el.val[k]]),
        "next": nxt >= 0,
        "nm_exact": nm.dom == adj.dom,
        "inc_dom": FA([i, n], z3.Implies(z3.And(live(h, i), TH.tmem(nd(rv.val[i]), n)), adj.dom[n]),
                      patterns=[MP(rv.dom[i], TH.tmem(nd(rv.val[i]), n))]),
        "inc_once": FA([n, i], z3.Implies(adj.dom[n], adj.val[n][i] == z3.If(z3.And(live(h, i), TH.tmem(nd(rv.val[i]), n)), 1, 0)),
                       patterns=[adj.val[n][i]]),
        "inc_key": FA([n, k], z3.Implies(z3.And(adj.dom[n], el.dom[k]), adj.val[n][el.val[k]] == z3.If(TH.tmem(nd(k), n), 1, 0)),
                      patterns=[MP(el.dom[k], TH.tmem(nd(k), n), adj.dom[n]), adj.val[n][el.val[k]]]),
        "unweighted_1": z3.Implies(z3.Not(wt), FA([k], z3.Implies(el.dom[k], w.val[el.val[k]] == 1), patterns=[el.val[k]])),
    }


def W_(h, k):
    return h.fields["_weights"].val[h.fields["_edge_list"].val[k]]


def M_(h, k):
    return h.fields["_edge_metadata"].val[h.fields["_edge_list"].val[k]]


def view_eq(eng, p, a, b):
    k, n = fresh("k", TK.sort()), fresh("n", T.I)
    ea, eb = a.fields["_edge_list"], b.fields["_edge_list"]
    return {
        "V": a.fields["_adj"].dom == b.fields["_adj"].dom,
        "E": ea.dom == eb.dom,
        "W": z3.ForAll([k], z3.Implies(ea.dom[k], W_(a, k) == W_(b, k))),
        "M": z3.ForAll([k], z3.Implies(ea.dom[k], M_(a, k) == M_(b, k))),
        "NM": z3.ForAll([n], z3.Implies(a.fields["_adj"].dom[n], a.fields["_node_metadata"].val[n] == b.fields["_node_metadata"].val[n])),
        "INC": z3.ForAll([n, k], z3.Implies(z3.And(a.fields["_adj"].dom[n], ea.dom[k]),
                                            a.fields["_adj"].val[n][ea.val[k]] == b.fields["_adj"].val[n][eb.val[k]])),
        "weighted": a.fields["_weighted"].t == b.fields["_weighted"].t,
        "HM": a.fields["_hypergraph_metadata"].t == b.fields["_hypergraph_metadata"].t,
    }


_IMK = T.Pair(TK, T.INT)
VIEWS = {
    "IM": lambda eng, p, h, k, n: T.scalar(T.META, h.fields["_incidences_metadata"].val[_IMK.mk(k.t, eng.coerce(n, T.INT).t)]),
    "HASIM": lambda eng, p, h, k, n: T.sv_bool(h.fields["_incidences_metadata"].dom[_IMK.mk(k.t, eng.coerce(n, T.INT).t)]),
    "V": lambda eng, p, h: T.scalar(T.Set(T.INT), h.fields["_adj"].dom),
    "E": lambda eng, p, h: T.scalar(T.Set(TK), h.fields["_edge_list"].dom),
    "W": lambda eng, p, h, k: T.sv_real(W_(h, k.t)),
    "M": lambda eng, p, h, k: T.scalar(T.META, M_(h, k.t)),
    "NM": lambda eng, p, h, n: T.scalar(T.META, h.fields["_node_metadata"].val[n.t]),
    "HM": lambda eng, p, h: h.fields["_hypergraph_metadata"],
    "weighted": lambda eng, p, h: h.fields["_weighted"],
    "KLEN": lambda eng, p, h, k: T.sv_int(TH.tlen(nd(k.t))),
    "ID": lambda eng, p, h, k: T.sv_int(h.fields["_edge_list"].val[k.t]),
    "count_sel": lambda eng, p, h, S, o, u: T.sv_int(CNT(S.t, eng.coerce(o, T.INT).t, eng.truth(u, p))),
}

LAYOUT = Layout(CLS, FIELDS, aliases={"Key": "Pair[Int,Tup]"}, views=VIEWS, multi={"wf": wf, "view_eq": view_eq})


# weight handed to the record k by the first j positions of a batch (edge_list, time_list, weights): fold-defined
BSUM = z3.Function("bsum_t", z3.ArraySort(T.I, T.TupS), z3.ArraySort(T.I, T.I), T.B, z3.ArraySort(T.I, T.R), T.I, TK.sort(), T.R)
_be, _bt, _bh, _bw = z3.Const("_bet", z3.ArraySort(T.I, T.TupS)), z3.Const("_btt", z3.ArraySort(T.I, T.I)), z3.Bool("_bht"), z3.Const("_bwt", z3.ArraySort(T.I, T.R))
_bj, _bk = z3.Int("_bjt"), z3.Const("_bkt", TK.sort())
TH.EXTRA.update({
    "bsum_t_0 (definition)": z3.ForAll([_be, _bt, _bh, _bw, _bk], BSUM(_be, _bt, _bh, _bw, 0, _bk) == 0, patterns=[BSUM(_be, _bt, _bh, _bw, 0, _bk)]),
    "bsum_t_step (definition)": z3.ForAll([_be, _bt, _bh, _bw, _bj, _bk], z3.Implies(_bj >= 0,
        BSUM(_be, _bt, _bh, _bw, _bj + 1, _bk) == BSUM(_be, _bt, _bh, _bw, _bj, _bk) +
        z3.If(TK.mk(_bt[_bj], TH.canon(_be[_bj])) == _bk, z3.If(_bh, _bw[_bj], z3.RealVal(1)), z3.RealVal(0))),
        patterns=[BSUM(_be, _bt, _bh, _bw, _bj + 1, _bk)]),
})


def _bsum(eng, p, h, el, tl, ws, j, k):
    if ws.ty == T.NONE:
        hw, aw = z3.BoolVal(False), z3.K(T.I, z3.RealVal(0))
    elif isinstance(ws.ty, T.Opt):
        hw, aw = z3.Not(ws.is_none), ws.val.at
    else:
        hw, aw = z3.BoolVal(True), ws.at
    return T.sv_real(BSUM(el.at, tl.at, hw, aw, eng.coerce(j, T.INT).t, k.t))


VIEWS["bsum"] = _bsum


def C(name, **kw):
    kw.setdefault("properties", ["C03"])
    return Contract(f"{CLS}.{name}", FILE, [CLS, name], self_cls=CLS, **kw)


KEY = "pair(time, canon(edge))"
OTHER_EDGES = {
    "W_others": f"all(W(self, k) == W(old(self), k) for k in E(old(self)) if k != {KEY})",
    "M_others": f"all(M(self, k) == M(old(self), k) for k in E(old(self)) if k != {KEY})",
}
NODE_MD_KEPT = {"NM_kept": "all(NM(self, n) == NM(old(self), n) for n in V(old(self)))"}
SAME_WEIGHTED = {"weighted": "weighted(self) == weighted(old(self))", "HM": "HM(self) == HM(old(self))"}


def _adj_kept(cur, old):
    n = fresh("n", T.I)
    return z3.ForAll([n], z3.Implies(old.fields["_adj"].dom[n], cur.fields["_adj"].val[n] == old.fields["_adj"].val[n]),
                     patterns=[cur.fields["_adj"].val[n]])


def _adj_new_empty(cur, old, node):
    return z3.Implies(z3.Not(old.fields["_adj"].dom[node]), cur.fields["_adj"].val[node] == z3.K(T.I, z3.IntVal(0)))


def _add_nodes_inv(eng, p, cx):
    """first loop of add_edge: `for node in nodes: self.add_node(node)`"""
    cur, pre = p.env["self"], cx.pre_env["self"]
    seq, j = p.env["_it0"].t, p.env["_j0"].t
    adj, oadj = cur.fields["_adj"], pre.fields["_adj"]
    nm, onm = cur.fields["_node_metadata"], pre.fields["_node_metadata"]
    n, i = fresh("n", T.I), fresh("i", T.I)
    return {
        "j_range": z3.And(0 <= j, j <= TH.tlen(seq)),
        "dom": z3.ForAll([n], adj.dom[n] == z3.Or(oadj.dom[n], TH.pmem(seq, j, n)), patterns=[adj.dom[n]]),
        "nm_dom": nm.dom == adj.dom,
        "cnt": z3.ForAll([n, i], z3.Implies(adj.dom[n], adj.val[n][i] == z3.If(oadj.dom[n], oadj.val[n][i], 0)), patterns=[adj.val[n][i]]),
        "nm_old": z3.ForAll([n], z3.Implies(oadj.dom[n], nm.val[n] == onm.val[n]), patterns=[nm.val[n]]),
    }


def _append_inv(eng, p, cx):
    """second loop of add_edge: `for node in nodes: self._adj[node].append(e_id)`"""
    cur, pre = p.env["self"], cx.pre_env["self"]
    seq, j = p.env["_it1"].t, p.env["_j1"].t
    adj, oadj = cur.fields["_adj"], pre.fields["_adj"]
    eid = p.env["e_id"].t
    n, i = fresh("n", T.I), fresh("i", T.I)
    return {
        "j_range": z3.And(0 <= j, j <= TH.tlen(seq)),
        "dom": adj.dom == oadj.dom,
        "cnt": z3.ForAll([n, i], z3.Implies(adj.dom[n], adj.val[n][i] == oadj.val[n][i] + z3.If(z3.And(i == eid, TH.pmem(seq, j, n)), 1, 0)),
                         patterns=[adj.val[n][i]]),
    }


def _rm_inv(eng, p, cx):
    cur, pre = p.env["self"], cx.pre_env["self"]
    seq, j = p.env["_it0"].t, p.env["_j0"].t
    adj, oadj = cur.fields["_adj"], pre.fields["_adj"]
    eid = p.env["edge_id"].t
    n, i = fresh("n", T.I), fresh("i", T.I)
    return {
        "j_range": z3.And(0 <= j, j <= TH.tlen(seq)),
        "dom": adj.dom == oadj.dom,
        "cnt": z3.ForAll([n, i], z3.Implies(adj.dom[n], adj.val[n][i] == oadj.val[n][i] - z3.If(z3.And(i == eid, TH.pmem(seq, j, n)), 1, 0)),
                         patterns=[adj.val[n][i]]),
    }


CONTRACTS = [
    Contract("_canon_edge[temporal]", FILE, ["_canon_edge"], params={"edge": "NodeSeq"}, result="Tup", pure=True,
             ensures={"result": "result == canon(edge)"}, properties=["C03"]),
    Contract("_get_nodes[temporal]", FILE, ["_get_nodes"], params={"edge": "NodeSeq"}, result="Tup", pure=True,
             ensures={"result": "result == edge"}, properties=["C03"]),
    Contract("_get_size[temporal]", FILE, ["_get_size"], params={"edge": "NodeSeq"}, result="Int", pure=True,
             ensures={"result": "result == len(edge)"}, properties=["C03"]),
    Contract("_get_order[temporal]", FILE, ["_get_order"], params={"edge": "NodeSeq"}, result="Int", pure=True,
             ensures={"result": "result == len(edge) - 1"}, properties=["C03"]),
    C("add_node", params={"node": "Node", "metadata": "Opt[Meta]"},
      requires={"nm_exact": lambda eng, p, cx: wf(eng, p, p.env["self"])["nm_exact"]},
      modifies=["_adj", "_node_metadata"],
      ensures={
          "nm_exact": lambda eng, p, cx: wf(eng, p, p.env["self"])["nm_exact"],
          "V": "all((n in V(self)) == (n in V(old(self)) or n == node) for n in Node)",
          "adj_old": lambda eng, p, cx: _adj_kept(p.env["self"], cx.old_env["self"]),
          "adj_new": lambda eng, p, cx: _adj_new_empty(p.env["self"], cx.old_env["self"], p.env["node"].t),
          "NM_others": "all(NM(self, n) == NM(old(self), n) for n in V(old(self)) if n != node)",
          "NM_none": "implies(node in V(old(self)) and metadata is None, NM(self, node) == NM(old(self), node))",
          "NM_kept": "implies(node in V(old(self)) and NM(old(self), node) != EMPTY, NM(self, node) == NM(old(self), node))",
          "NM_new": "implies(node not in V(old(self)), NM(self, node) == (EMPTY if metadata is None else metadata))",
      }),
    C("add_edge", params={"edge": "NodeSeq", "time": "Int", "weight": "Opt[Real]", "metadata": "Opt[Meta]"},
      requires={"wf": "wf(self)", "distinct": "distinct(edge)", "nonempty": "len(edge) >= 1"},
      # negative times are rejected (non-integer times cannot be expressed with an integer-typed parameter: bounded tier)
      raises={"ValueError": "(not weighted(self) and weight is not None and weight != 1) or time < 0"},
      modifies=["_adj", "_node_metadata", "_edge_list", "_reverse_edge_list", "_weights", "_edge_metadata", "_next_edge_id"],
      ensures={
          "wf": "wf(self)",
          "V": "all((n in V(self)) == (n in V(old(self)) or n in edge) for n in Node)",
          "E": f"all((k in E(self)) == (k in E(old(self)) or k == {KEY}) for k in Key)",
          "W_new": f"implies({KEY} not in E(old(self)), W(self, {KEY}) == (real(1 if weight is None else weight) if weighted(self) else 1))",
          "W_again": f"implies({KEY} in E(old(self)), W(self, {KEY}) == (W(old(self), {KEY}) + real(1 if weight is None else weight) if weighted(self) else W(old(self), {KEY})))",
          **OTHER_EDGES,
          "M_given": f"implies(metadata is not None, M(self, {KEY}) == metadata)",
          "ids": "all(ID(self, k) == ID(old(self), k) for k in E(old(self)))",
          **NODE_MD_KEPT, **SAME_WEIGHTED,
      },
      invariants={0: {"inv": _add_nodes_inv}, 1: {"inv": _append_inv}}),
    C("remove_edge", params={"edge": "NodeSeq", "time": "Int"},
      requires={"wf": "wf(self)"},
      raises={"ValueError": f"{KEY} not in E(self)"},
      modifies=["_adj", "_edge_list", "_reverse_edge_list", "_weights", "_edge_metadata"],
      ensures={"wf": "wf(self)", "V": "V(self) == V(old(self))",
               "E": f"all((k in E(self)) == (k in E(old(self)) and k != {KEY}) for k in Key)",
               # frame needed by remove_node, which iterates over ids: the other records keep their ids
               "ids": "all(ID(self, k) == ID(old(self), k) for k in E(self))",
               **OTHER_EDGES, **NODE_MD_KEPT, **SAME_WEIGHTED},
      invariants={0: {"inv": _rm_inv}}),
    C("check_node", params={"node": "Node"}, result="Bool", pure=True, ensures={"result": "result == (node in V(self))"}),
    C("check_edge", params={"edge": "NodeSeq", "time": "Int"}, result="Bool", pure=True,
      ensures={"result": f"result == ({KEY} in E(self))"}),
    C("get_weight", params={"edge": "NodeSeq", "time": "Int"}, result="Real", pure=True, requires={"wf": "wf(self)"},
      raises={"ValueError": f"{KEY} not in E(self)"}, ensures={"result": f"result == W(self, {KEY})"}),
    C("set_weight", params={"edge": "NodeSeq", "time": "Int", "weight": "Real"}, requires={"wf": "wf(self)"},
      raises={"ValueError": f"(not weighted(self) and weight != 1) or {KEY} not in E(self)"},
      modifies=["_weights"], ensures={"wf": "wf(self)", "W": f"W(self, {KEY}) == weight", **OTHER_EDGES}),
    C("get_edge_metadata", params={"edge": "NodeSeq", "time": "Int"}, result="Meta", pure=True, requires={"wf": "wf(self)"},
      raises={"ValueError": f"{KEY} not in E(self)"}, ensures={"result": f"result == M(self, {KEY})"}),
    C("set_edge_metadata", params={"edge": "NodeSeq", "time": "Int", "metadata": "Meta"}, requires={"wf": "wf(self)"},
      raises={"ValueError": f"{KEY} not in E(self)"}, modifies=["_edge_metadata"],
      ensures={"wf": "wf(self)", "M": f"M(self, {KEY}) == metadata", **OTHER_EDGES}),
    C("set_attr_to_edge_metadata", params={"edge": "NodeSeq", "time": "Int", "field": "Field", "value": "Val"}, requires={"wf": "wf(self)"},
      raises={"ValueError": f"{KEY} not in E(self)"}, modifies=["_edge_metadata"],
      ensures={"wf": "wf(self)", "M": f"M(self, {KEY}) == mset(M(old(self), {KEY}), field, value)", **OTHER_EDGES}),
    C("remove_attr_from_edge_metadata", params={"edge": "NodeSeq", "time": "Int", "field": "Field"}, requires={"wf": "wf(self)"},
      raises={"ValueError": f"{KEY} not in E(self)"},
      may_raise={"KeyError": f"{KEY} in E(self) and not mhas(M(self, {KEY}), field)"}, modifies=["_edge_metadata"],
      ensures={"wf": "wf(self)", "M": f"M(self, {KEY}) == mdel(M(old(self), {KEY}), field)", **OTHER_EDGES}),
    C("get_node_metadata", params={"node": "Node"}, result="Meta", pure=True, requires={"wf": "wf(self)"},
      raises={"ValueError": "node not in V(self)"}, ensures={"result": "result == NM(self, node)"}),
    C("set_node_metadata", params={"node": "Node", "metadata": "Meta"}, requires={"wf": "wf(self)"},
      raises={"ValueError": "node not in V(self)"}, modifies=["_node_metadata"],
      ensures={"wf": "wf(self)", "NM": "NM(self, node) == metadata",
               "NM_others": "all(NM(self, n) == NM(old(self), n) for n in V(self) if n != node)"}),
    C("is_weighted", params={}, result="Bool", pure=True, ensures={"result": "result == weighted(self)"}),
    C("get_nodes", params={"metadata": "Bool"}, fixed={"metadata": False}, result="Bag[Int]", pure=True,
      requires={"wf": "wf(self)"},
      ensures={"result": "all(count(result, n) == (1 if n in V(self) else 0) for n in Node)"}),
    C("get_incident_edges", params={"node": "Node", "order": "Opt[Int]", "size": "Opt[Int]"}, result="Bag[Key]", pure=True,
      requires={"wf": "wf(self)"},
      raises={"ValueError": "node not in V(self) or (order is not None and size is not None)"},
      ensures={"result": "all(count(result, k) == (1 if k in E(self) and node in snd(k) and sel(self, k, order, size, False) else 0) for k in Key)"},
      properties=["C03", "C08"]),
    # half-open window: exactly the records with a <= t < b
    C("get_edges", params={"time_window": "Opt[Pair[Int,Int]]", "order": "Opt[Int]", "size": "Opt[Int]", "up_to": "Bool", "metadata": "Bool"},
      fixed={"metadata": False}, result="Bag[Key]", pure=True, locals={"edges": "Bag[Key]"},
      requires={"wf": "wf(self)"},
      raises={"ValueError": "order is not None and size is not None"},
      ensures={"result": "all(count(result, k) == (1 if k in E(self) and (time_window is None or (time_window[0] <= fst(k) and fst(k) < time_window[1])) "
                         "and sel(self, k, order, size, up_to) else 0) for k in Key)"},
      invariants={0: {"edges": "all(count(edges, k) == (1 if count(_done0, k) >= 1 and time_window[0] <= fst(k) and fst(k) < time_window[1] else 0) for k in Key)",
                      "done01": "all(count(_done0, k) <= 1 for k in Key)"}}),
    Contract(f"{CLS}.get_nodes@md", FILE, [CLS, "get_nodes"], self_cls=CLS, properties=["C03", "C19"],
      params={"metadata": "Bool"}, fixed={"metadata": True}, result="Map[Int,Meta]", pure=True,
      requires={"wf": "wf(self)"},
      ensures={"dom": "all((n in result) == (n in V(self)) for n in Node)",
               "val": "all(result[n] == NM(self, n) for n in V(self))"}),
    Contract(f"{CLS}.get_edges@md", FILE, [CLS, "get_edges"], self_cls=CLS, properties=["C03", "C19"],
      params={"time_window": "Opt[Pair[Int,Int]]", "order": "Opt[Int]", "size": "Opt[Int]", "up_to": "Bool", "metadata": "Bool"},
      fixed={"metadata": True}, result="Map[Key,Meta]", pure=True, locals={"edges": "Bag[Key]"},
      requires={"wf": "wf(self)"},
      raises={"ValueError": "order is not None and size is not None"},
      ensures={"dom": "all((k in result) == (k in E(self) and (time_window is None or (time_window[0] <= fst(k) and fst(k) < time_window[1])) "
                      "and sel(self, k, order, size, up_to)) for k in Key)",
               "val": "all(implies(k in result, result[k] == M(self, k)) for k in E(self))"},
      invariants={0: {"edges": "all(count(edges, k) == (1 if count(_done0, k) >= 1 and time_window[0] <= fst(k) and fst(k) < time_window[1] else 0) for k in Key)",
                      "done01": "all(count(_done0, k) <= 1 for k in Key)"}}),
    C("get_times_for_edge", params={"edge": "NodeSeq"}, result="Bag[Int]", pure=True, locals={"times": "Bag[Int]"},
      requires={"wf": "wf(self)"},
      ensures={"result": "all(count(result, t) == (1 if pair(t, canon(edge)) in E(self) else 0) for t in Int)"},
      invariants={0: {"times": "all(count(times, t) == (1 if pair(t, canon(old(edge))) in _done0 else 0) for t in Int)"}}),
    C("remove_node", params={"node": "Node", "keep_edges": "Bool"}, fixed={"keep_edges": False},
      requires={"wf": "wf(self)"},
      raises={"ValueError": "node not in V(self)"},
      modifies=["_adj", "_node_metadata", "_edge_list", "_reverse_edge_list", "_weights", "_edge_metadata"],
      ensures={"wf": "wf(self)",
               "V": "all((n in V(self)) == (n in V(old(self)) and n != node) for n in Node)",
               "E": "all((k in E(self)) == (k in E(old(self)) and node not in snd(k)) for k in Key)",
               "W_kept": "all(W(self, k) == W(old(self), k) for k in E(self))",
               "M_kept": "all(M(self, k) == M(old(self), k) for k in E(self))",
               "NM_kept": "all(NM(self, n) == NM(old(self), n) for n in V(self))", **SAME_WEIGHTED},
      invariants={1: {"wf": "wf(self)", "V": "V(self) == V(old(self))",
                      "E": "all((k in E(self)) == (k in E(old(self)) and count(_done1, ID(old(self), k)) == 0) for k in Key)",
                      "ids": "all(ID(self, k) == ID(old(self), k) for k in E(self))",
                      "W_kept": "all(W(self, k) == W(old(self), k) for k in E(self))",
                      "M_kept": "all(M(self, k) == M(old(self), k) for k in E(self))",
                      "NM_kept": "all(NM(self, n) == NM(old(self), n) for n in V(old(self)))",
                      "weighted": "weighted(self) == weighted(old(self))", "HM": "HM(self) == HM(old(self))"}},
      properties=["C03", "C19"]),
    # node removal that shrinks the incident records (same time, node set minus the node); coinciding records add their weights
    Contract(f"{CLS}.remove_node@keep", FILE, [CLS, "remove_node"], self_cls=CLS, properties=["C03", "C19"],
      params={"node": "Node", "keep_edges": "Bool"}, fixed={"keep_edges": True},
      requires={"wf": "wf(self)"},
      raises={"ValueError": "node not in V(self)"},
      modifies=["_adj", "_node_metadata", "_edge_list", "_reverse_edge_list", "_weights", "_edge_metadata", "_next_edge_id"],
      ensures={"wf": "wf(self)",
               "V": "all((n in V(self)) == (n in V(old(self)) and n != node) for n in Node)",
               "E": "all((k in E(self)) == (node not in snd(k) and (k in E(old(self)) or (node not in snd(k) and strict(snd(k)) and len(snd(k)) >= 1 and pair(fst(k), with_node(snd(k), node)) in E(old(self))))) for k in Key)",
               "W": "implies(weighted(self), all(W(self, k) == (W(old(self), k) if k in E(old(self)) else 0) + (W(old(self), pair(fst(k), with_node(snd(k), node))) if (node not in snd(k) and strict(snd(k)) and len(snd(k)) >= 1 and pair(fst(k), with_node(snd(k), node)) in E(old(self))) else 0) for k in E(self)))",
               "NM_kept": "all(NM(self, n) == NM(old(self), n) for n in V(self))",
               "weighted": "weighted(self) == weighted(old(self))"},
      invariants={0: {
          "wf": "wf(self)", "V": "V(self) == V(old(self))",
          "E": "all((k in E(self)) == ((k in E(old(self)) and not (node in snd(k) and count(_done0, ID(old(self), k)) >= 1)) or (node not in snd(k) and strict(snd(k)) and len(snd(k)) >= 1 and pair(fst(k), with_node(snd(k), node)) in E(old(self)) and count(_done0, ID(old(self), pair(fst(k), with_node(snd(k), node)))) >= 1)) for k in Key)",
          "ids": "all(implies(k in E(self), ID(self, k) == ID(old(self), k)) for k in E(old(self)))",
          "W": "implies(weighted(self), all(W(self, k) == (W(old(self), k) if (k in E(old(self)) and not (node in snd(k) and count(_done0, ID(old(self), k)) >= 1)) else 0) + (W(old(self), pair(fst(k), with_node(snd(k), node))) if (node not in snd(k) and strict(snd(k)) and len(snd(k)) >= 1 and pair(fst(k), with_node(snd(k), node)) in E(old(self)) and count(_done0, ID(old(self), pair(fst(k), with_node(snd(k), node)))) >= 1) else 0) for k in E(self)))",
          "NM_kept": "all(NM(self, n) == NM(old(self), n) for n in V(old(self)))",
          "weighted": "weighted(self) == weighted(old(self))"}}),
    # counts by the order of the hyperedge (not of the (time, hyperedge) pair, the defect of the pinned tree)
    C("num_edges", params={"order": "Opt[Int]", "size": "Opt[Int]", "up_to": "Bool"}, result="Int", pure=True, locals={"s": "Int"},
      requires={"wf": "wf(self)"},
      raises={"ValueError": "order is not None and size is not None"},
      ensures={"all": "implies(order is None and size is None, result == card(E(self)))",
               "by_order": "implies(order is not None, result == count_sel(self, E(self), order, up_to))",
               "by_size": "implies(size is not None, result == count_sel(self, E(self), size - 1, up_to))"},
      invariants={0: {"s": "s == count_sel(self, _done0, order, False)"},
                  1: {"s": "s == count_sel(self, _done1, order, True)"}}),
    C("is_uniform", params={}, result="Bool", pure=True, locals={"sz": "Opt[Int]", "uniform": "Bool"},
      requires={"wf": "wf(self)"},
      ensures={"result": "result == all(len(snd(k1)) == len(snd(k2)) for k1 in E(self) for k2 in E(self))"},
      invariants={0: {"uniform": "uniform",
                      "none": "(sz is None) == all(k not in _done0 for k in Key)",
                      "same": "implies(sz is not None, all(len(snd(k)) == sz for k in _done0))",
                      "witness": "implies(sz is not None, any(len(snd(k)) == sz for k in _done0))"}}),
    # ------------------------------------------------------------------ construction, batched forms, further queries
    C("__init__",
      params={"edge_list": "None", "time_list": "None", "weighted": "Bool", "weights": "None", "hypergraph_metadata": "Opt[Meta]",
              "node_metadata": "None", "edge_metadata": "None"},
      fixed={"edge_list": None, "time_list": None, "weights": None, "node_metadata": None, "edge_metadata": None},
      modifies=list(FIELDS),
      ensures={"wf": "wf(self)", "V": "all(n not in V(self) for n in Node)", "E": "all(k not in E(self) for k in Key)",
               "weighted": "weighted(self) == weighted"}),
    C("add_nodes", params={"node_list": "Bag[Int]", "metadata": "Opt[Map[Int,Meta]]"},
      requires={"wf": "wf(self)"},
      may_raise={"ValueError": "metadata is not None and any(n not in metadata for n in node_list)"},
      on_raise={"wf": "wf(self)", "E": "E(self) == E(old(self))"},
      modifies=["_adj", "_node_metadata"],
      ensures={"wf": "wf(self)",
               "V": "all((n in V(self)) == (n in V(old(self)) or count(node_list, n) >= 1) for n in Node)",
               "E": "E(self) == E(old(self))",
               "NM_kept": "all(implies(metadata is None or NM(old(self), n) != EMPTY, NM(self, n) == NM(old(self), n)) for n in V(old(self)))",
               "NM_new": "all(implies(n not in V(old(self)) and count(node_list, n) == 1, NM(self, n) == (EMPTY if metadata is None else metadata[n])) for n in node_list)"},
      invariants={0: {
          "wf": "wf(self)",
          "V": "all((n in V(self)) == (n in V(old(self)) or count(_done0, n) >= 1) for n in Node)",
          "NM_kept": "all(implies(metadata is None or NM(old(self), n) != EMPTY, NM(self, n) == NM(old(self), n)) for n in V(old(self)))",
          "NM_new": "all(implies(n not in V(old(self)) and count(node_list, n) == 1, NM(self, n) == (EMPTY if metadata is None else metadata[n])) for n in _done0)",
          "meta_ok": "implies(metadata is not None, all(n in metadata for n in _done0))"}}),
    C("remove_nodes", params={"node_list": "Bag[Int]", "keep_edges": "Bool"}, fixed={"keep_edges": False},
      requires={"wf": "wf(self)", "present": "all(n in V(self) and count(node_list, n) == 1 for n in node_list)"},
      modifies=["_adj", "_node_metadata", "_edge_list", "_reverse_edge_list", "_weights", "_edge_metadata"],
      ensures={"wf": "wf(self)",
               "V": "all((n in V(self)) == (n in V(old(self)) and count(node_list, n) == 0) for n in Node)",
               "E": "all((k in E(self)) == (k in E(old(self)) and all(count(node_list, n) == 0 for n in snd(k))) for k in Key)",
               "W_kept": "all(W(self, k) == W(old(self), k) for k in E(self))",
               "M_kept": "all(M(self, k) == M(old(self), k) for k in E(self))",
               "NM_kept": "all(NM(self, n) == NM(old(self), n) for n in V(self))", **SAME_WEIGHTED},
      invariants={0: {
          "wf": "wf(self)",
          "V": "all((n in V(self)) == (n in V(old(self)) and count(_done0, n) == 0) for n in Node)",
          "E": "all((k in E(self)) == (k in E(old(self)) and all(count(_done0, n) == 0 for n in snd(k))) for k in Key)",
          "W_kept": "all(W(self, k) == W(old(self), k) for k in E(self))",
          "M_kept": "all(M(self, k) == M(old(self), k) for k in E(self))",
          "NM_kept": "all(NM(self, n) == NM(old(self), n) for n in V(self))",
          "weighted": "weighted(self) == weighted(old(self))", "HM": "HM(self) == HM(old(self))"}}),
    C("clear", params={}, requires={"wf": "wf(self)"}, modifies=list(FIELDS),
      ensures={"wf": "wf(self)", "V": "all(n not in V(self) for n in Node)", "E": "all(k not in E(self) for k in Key)",
               "weighted": "weighted(self) == weighted(old(self))"}),
    C("num_nodes", params={}, result="Int", pure=True, requires={"wf": "wf(self)"}, ensures={"result": "result == card(V(self))"}),
    C("get_sizes", params={}, result="Bag[Int]", pure=True, options={"image_counts"},
      ensures={"len": "len(result) == card(E(self))",
               "exact": "all(count(result, s) == card({k for k in E(self) if len(snd(k)) == s}) for s in Int if trig(card({k for k in E(self) if len(snd(k)) == s})))",
               "members": "all(implies(count(result, s) >= 1, any(len(snd(k)) == s for k in E(self))) for s in Int)",
               "covers": "all(count(result, len(snd(k))) >= 1 for k in E(self))"}),
    C("get_orders", params={}, result="Bag[Int]", pure=True, options={"image_counts"},
      ensures={"len": "len(result) == card(E(self))",
               "exact": "all(count(result, s) == card({k for k in E(self) if len(snd(k)) - 1 == s}) for s in Int if trig(card({k for k in E(self) if len(snd(k)) - 1 == s})))",
               "members": "all(implies(count(result, s) >= 1, any(len(snd(k)) - 1 == s for k in E(self))) for s in Int)",
               "covers": "all(count(result, len(snd(k)) - 1) >= 1 for k in E(self))"}),
    C("distribution_sizes", params={}, result="Map[Int,Int]", pure=True, requires={"wf": "wf(self)"},
      ensures={"dom": "all((s in result) == any(len(snd(k)) == s for k in E(self)) for s in Int)",
               "val": "all(result[s] == card({k for k in E(self) if len(snd(k)) == s}) for s in result)"}),
    C("max_size", params={}, result="Int", pure=True,
      raises={"ValueError": "card(E(self)) == 0"},
      ensures={"bound": "all(len(snd(k)) <= result for k in E(self))", "attained": "any(len(snd(k)) == result for k in E(self))"}),
    C("max_order", params={}, result="Int", pure=True,
      raises={"ValueError": "card(E(self)) == 0"},
      ensures={"bound": "all(len(snd(k)) - 1 <= result for k in E(self))", "attained": "any(len(snd(k)) - 1 == result for k in E(self))"}),
    Contract(f"{CLS}.get_weights@list", FILE, [CLS, "get_weights"], self_cls=CLS, properties=["C03"],
      params={"order": "Opt[Int]", "size": "Opt[Int]", "up_to": "Bool", "asdict": "Bool"}, fixed={"asdict": False},
      result="Bag[Real]", pure=True,
      requires={"wf": "wf(self)"},
      raises={"ValueError": "order is not None and size is not None"},
      ensures={"len": "len(result) == card({k for k in E(self) if sel(self, k, order, size, up_to)})",
               "members": "all(implies(count(result, x) >= 1, any(sel(self, k, order, size, up_to) and W(self, k) == x for k in E(self))) for x in Real)",
               "covers": "all(implies(sel(self, k, order, size, up_to), count(result, W(self, k)) >= 1) for k in E(self))"}),
    Contract(f"{CLS}.get_weights@dict", FILE, [CLS, "get_weights"], self_cls=CLS, properties=["C03"],
      params={"order": "Opt[Int]", "size": "Opt[Int]", "up_to": "Bool", "asdict": "Bool"}, fixed={"asdict": True},
      result="Map[Key,Real]", pure=True,
      requires={"wf": "wf(self)"},
      raises={"ValueError": "order is not None and size is not None"},
      ensures={"dom": "all((k in result) == (k in E(self) and sel(self, k, order, size, up_to)) for k in Key)",
               "val": "all(implies(sel(self, k, order, size, up_to), result[k] == W(self, k)) for k in E(self))"}),
    # neighbours over all times: every other node sharing a (filtered) record with the node
    C("get_neighbors", params={"node": "Node", "order": "Opt[Int]", "size": "Opt[Int]"}, result="Set[Int]", pure=True,
      locals={"neigh": "Set[Int]"},
      requires={"wf": "wf(self)"},
      raises={"ValueError": "node not in V(self) or (order is not None and size is not None)"},
      ensures={"result": "all((m in result) == (m != node and any(k in E(self) and node in snd(k) and m in snd(k) and sel(self, k, order, size, False) for k in Key)) for m in Node)"},
      invariants={0: {"neigh": "all((m in neigh) == any(count(_done0, k) >= 1 and m in snd(k) for k in Key) for m in Node)"},
                  1: {"neigh": "all((m in neigh) == any(count(_done1, k) >= 1 and m in snd(k) for k in Key) for m in Node)"}},
      properties=["C03", "C08"]),
    C("copy", params={}, result="Obj[TemporalHypergraph]", pure=True, requires={"wf": "wf(self)"},
      ensures={"wf": "wf(result)", "V": "V(result) == V(self)", "E": "E(result) == E(self)",
               "W": "all(W(result, k) == W(self, k) for k in E(self))", "M": "all(M(result, k) == M(self, k) for k in E(self))",
               "NM": "all(NM(result, n) == NM(self, n) for n in V(self))", "weighted": "weighted(result) == weighted(self)",
               "HM": "HM(result) == HM(self)"},
      properties=["C03", "C05"]),
    C("set_attr_to_node_metadata", params={"node": "Node", "field": "Field", "value": "Val"}, requires={"wf": "wf(self)"},
      raises={"ValueError": "node not in V(self)"}, modifies=["_node_metadata"],
      ensures={"wf": "wf(self)", "NM": "NM(self, node) == mset(NM(old(self), node), field, value)",
               "NM_others": "all(NM(self, n) == NM(old(self), n) for n in V(self) if n != node)"}),
    C("remove_attr_from_node_metadata", params={"node": "Node", "field": "Field"}, requires={"wf": "wf(self)"},
      raises={"ValueError": "node not in V(self)"},
      may_raise={"KeyError": "node in V(self) and not mhas(NM(self, node), field)"}, modifies=["_node_metadata"],
      ensures={"wf": "wf(self)", "NM": "NM(self, node) == mdel(NM(old(self), node), field)",
               "NM_others": "all(NM(self, n) == NM(old(self), n) for n in V(self) if n != node)"}),
    C("degree", params={"node": "Node", "order": "Opt[Int]", "size": "Opt[Int]"}, result="Int", pure=True,
      requires={"wf": "wf(self)"},
      raises={"ValueError": "(order is not None and size is not None) or node not in V(self)"},
      ensures={"result": "result == card({k for k in E(self) if node in snd(k) and sel(self, k, order, size, False)})"},
      properties=["C03", "C08"]),
    # batched insertion = fold of add_edge over the parallel lists (hyperedge, time, weight, metadata)
    C("add_edges", params={"edge_list": "Seq[Tup]", "time_list": "Seq[Int]", "weights": "Opt[Seq[Real]]", "metadata": "Opt[Seq[Meta]]"},
      requires={"wf": "wf(self)",
                "edges_ok": "all(distinct(edge_list[m]) and len(edge_list[m]) >= 1 and time_list[m] >= 0 for m in Int if 0 <= m and m < len(edge_list))",
                "weights_ok": "implies(weights is not None, weighted(self))",
                "metadata_len": "implies(metadata is not None, len(metadata) >= len(edge_list))"},
      raises={"ValueError": "len(edge_list) != len(time_list) or (weights is not None and len(weights) != len(edge_list))"},
      may_raise={"ValueError": "weights is not None"},
      on_raise={"wf": "wf(self)", "V": "V(self) == V(old(self))", "E": "E(self) == E(old(self))",
                "W": "all(W(self, k) == W(old(self), k) for k in E(self))"},
      modifies=["_adj", "_node_metadata", "_edge_list", "_reverse_edge_list", "_weights", "_edge_metadata", "_next_edge_id"],
      ensures={"wf": "wf(self)",
               "V": "all((n in V(self)) == (n in V(old(self)) or any(0 <= m and m < len(edge_list) and n in edge_list[m] for m in Int)) for n in Node)",
               "E": "all((k in E(self)) == (k in E(old(self)) or any(0 <= m and m < len(edge_list) and pair(time_list[m], canon(edge_list[m])) == k for m in Int)) for k in Key)",
               "W": "implies(weighted(self), all(W(self, k) == (W(old(self), k) if k in E(old(self)) else 0) + bsum(self, edge_list, time_list, weights, len(edge_list), k) for k in E(self)))",
               **NODE_MD_KEPT, **SAME_WEIGHTED},
      invariants={0: {
          "i": "i == _j0", "j": "0 <= _j0 and _j0 <= len(edge_list)", "wf": "wf(self)",
          "V": "all((n in V(self)) == (n in V(old(self)) or any(0 <= m and m < _j0 and n in edge_list[m] for m in Int)) for n in Node)",
          "E": "all((k in E(self)) == (k in E(old(self)) or any(0 <= m and m < _j0 and pair(time_list[m], canon(edge_list[m])) == k for m in Int)) for k in Key)",
          "W": "implies(weighted(self), all(W(self, k) == (W(old(self), k) if k in E(old(self)) else 0) + bsum(self, edge_list, time_list, weights, _j0, k) for k in E(self)))",
          "W0": "all(bsum(self, edge_list, time_list, weights, _j0, k) == 0 for k in Key if k not in E(self))",
          "NM_kept": "all(NM(self, n) == NM(old(self), n) for n in V(old(self)))",
          "weighted": "weighted(self) == weighted(old(self))", "HM": "HM(self) == HM(old(self))"}}),
    # earliest / latest time over all records; math.inf / -math.inf when there is none (modelled as an extended integer)
    C("min_time", params={}, result="XInt", pure=True, locals={"min": "XInt"},
      requires={"wf": "wf(self)"},
      ensures={"empty": "is_pinf(result) == all(k not in E(self) for k in Key)",
               "bound": "all(result <= fst(k) for k in E(self))",
               "attained": "implies(not is_pinf(result), any(result == fst(k) for k in E(self)))"},
      invariants={0: {"empty": "is_pinf(min) == all(k not in _done0 for k in Key)",
                      "bound": "all(min <= fst(k) for k in _done0)",
                      "attained": "implies(not is_pinf(min), any(min == fst(k) for k in _done0))"}}),
    C("max_time", params={}, result="XInt", pure=True, locals={"max": "XInt"},
      requires={"wf": "wf(self)"},
      ensures={"empty": "is_ninf(result) == all(k not in E(self) for k in Key)",
               "bound": "all(result >= fst(k) for k in E(self))",
               "attained": "implies(not is_ninf(result), any(result == fst(k) for k in E(self)))"},
      invariants={0: {"empty": "is_ninf(max) == all(k not in _done0 for k in Key)",
                      "bound": "all(max >= fst(k) for k in _done0)",
                      "attained": "implies(not is_ninf(max), any(max == fst(k) for k in _done0))"}}),
    # per-time snapshots: one Hypergraph per time occurring in the (half-open) window, holding exactly the hyperedges of that time with their
    # weights; with add_all_nodes every snapshot has all nodes.  The result is a dict of objects (every field of Hypergraph lifted over the key).
    C("subhypergraph", params={"time_window": "Opt[Pair[Int,Int]]", "add_all_nodes": "Bool"}, result="Map[Int,Obj[Hypergraph]]", pure=True,
      locals={"res": "Map[Int,Obj[Hypergraph]]", "edges": "Bag[Key]"},
      requires={"wf": "wf(self)"},
      ensures={
          "dom": "all((t in result) == any(k in E(self) and fst(k) == t and (old(time_window) is None or (old(time_window)[0] <= fst(k) and fst(k) < old(time_window)[1])) for k in Key) for t in Int)",
          "wf": "all(implies(t in result, wf(result[t])) for t in Int)",
          "weighted": "all(implies(t in result, weighted(result[t]) == weighted(self)) for t in Int)",
          "E": "all(implies(t in result, (e in E(result[t])) == (pair(t, e) in E(self))) for t in Int for e in Tuple)",
          "W": "all(implies(t in result and pair(t, e) in E(self), W(result[t], e) == W(self, pair(t, e))) for t in Int for e in Tuple)",
          "V_all": "implies(add_all_nodes, all(implies(t in result, (n in V(result[t])) == (n in V(self))) for t in Int for n in Node))",
          "V_own": "implies(not add_all_nodes, all(implies(t in result, (n in V(result[t])) == any(pair(t, e) in E(self) and n in e for e in Tuple)) for t in Int for n in Node))",
      },
      invariants={
          0: {"done01": "all(count(_done0, k) <= 1 for k in Key)",
              "dom": "all((t in res) == any(count(_done0, k) >= 1 and fst(k) == t and (old(time_window) is None or (old(time_window)[0] <= fst(k) and fst(k) < old(time_window)[1])) for k in Key) for t in Int)",
              "wf": "all(implies(t in res, wf(res[t])) for t in Int)",
              "weighted": "all(implies(t in res, weighted(res[t]) == weighted(self)) for t in Int)",
              "E": "all(implies(t in res, (e in E(res[t])) == (count(_done0, pair(t, e)) >= 1)) for t in Int for e in Tuple)",
              "W": "all(implies(t in res and count(_done0, pair(t, e)) >= 1, W(res[t], e) == W(self, pair(t, e))) for t in Int for e in Tuple)",
              "V": "all(implies(t in res, (n in V(res[t])) == any(count(_done0, pair(t, e)) >= 1 and n in e for e in Tuple)) for t in Int for n in Node)"},
          1: {"dom": "all((t in res) == (t in pre(res)) for t in Int)",
              "wf": "all(implies(t in res, wf(res[t])) for t in Int)",
              "weighted": "all(implies(t in res, weighted(res[t]) == weighted(self)) for t in Int)",
              "E": "all(implies(t in res, (e in E(res[t])) == (pair(t, e) in E(self))) for t in Int for e in Tuple)",
              "W": "all(implies(t in res and pair(t, e) in E(self), W(res[t], e) == W(self, pair(t, e))) for t in Int for e in Tuple)",
              "V": "all(implies(t in res, (n in V(res[t])) == (any(pair(t, e) in E(self) and n in e for e in Tuple) or count(_done1, n) >= 1)) for t in Int for n in Node)"},
          2: {"dom": "all((t in res) == (t in pre(res)) for t in Int)",
              "wf": "all(implies(t in res, wf(res[t])) for t in Int)",
              "weighted": "all(implies(t in res, weighted(res[t]) == weighted(self)) for t in Int)",
              "E": "all(implies(t in res, (e in E(res[t])) == (pair(t, e) in E(self))) for t in Int for e in Tuple)",
              "W": "all(implies(t in res and pair(t, e) in E(self), W(res[t], e) == W(self, pair(t, e))) for t in Int for e in Tuple)",
              "V": "all(implies(t in res, (n in V(res[t])) == (any(pair(t, e) in E(self) and n in e for e in Tuple) or count(_done1, n) >= 1 or (n == node and t in _done2))) for t in Int for n in Node)"}}),
    # per-node view of the same numbers: every node exactly once (a dict), its value the degree under the same filter
    Contract("degree_sequence[TemporalHypergraph]", "hypergraphx/measures/degree.py", ["degree_sequence"], properties=["C03", "C08"],
      params={"hg": "Obj[TemporalHypergraph]", "order": "Opt[Int]", "size": "Opt[Int]"}, result="Map[Int,Int]", pure=True,
      requires={"wf": "wf(hg)"},
      raises={"ValueError": "order is not None and size is not None"},
      ensures={"dom": "all((n in result) == (n in V(hg)) for n in Node)",
               "val": "all(result[n] == card({k for k in E(hg) if n in snd(k) and sel(hg, k, order, size, False)}) for n in V(hg))"}),
    C("degree_sequence", params={"order": "Opt[Int]", "size": "Opt[Int]"}, result="Map[Int,Int]", pure=True,
      requires={"wf": "wf(self)"},
      raises={"ValueError": "order is not None and size is not None"},
      ensures={"dom": "all((n in result) == (n in V(self)) for n in Node)",
               "val": "all(result[n] == card({k for k in E(self) if n in snd(k) and sel(self, k, order, size, False)}) for n in V(self))"},
      properties=["C03", "C08"]),
    Contract("degree[TemporalHypergraph]", "hypergraphx/measures/degree.py", ["degree"], properties=["C03", "C08"],
      params={"hg": "Obj[TemporalHypergraph]", "node": "Node", "order": "Opt[Int]", "size": "Opt[Int]"}, result="Int", pure=True,
      requires={"wf": "wf(hg)"},
      raises={"ValueError": "(order is not None and size is not None) or node not in V(hg)"},
      ensures={"result": "result == card({k for k in E(hg) if node in snd(k) and sel(hg, k, order, size, False)})"}),
]


# ------------------------------------------------------------------ aggregate(time_window)  (C03)
# tsum(B, e): sum over the records (t, e) of the list B of their weights in self (fold over the list); wstart(w, T) = start of window w = w * T,
# defined by wstart(0) = 0, wstart(w + 1) = wstart(w) + T (no multiplication is handed to the solver)
_BK = T.Bag(TK)
TSUM = z3.Function("tsum_t", z3.ArraySort(TK.sort(), T.I), z3.ArraySort(T.I, T.R), _BK.sort(), T.TupS, T.R)
TSDIFF = z3.Function("tsum_t_diff", _BK.sort(), _BK.sort(), TK.sort())
WSTART = z3.Function("wstart", T.I, T.I, T.I)
_te, _tw, _tb, _tb2, _tx, _tk = (z3.Const("_tse", z3.ArraySort(TK.sort(), T.I)), z3.Const("_tsw", z3.ArraySort(T.I, T.R)), z3.Const("_tsb", _BK.sort()),
                                 z3.Const("_tsb2", _BK.sort()), z3.Const("_tsx", TK.sort()), z3.Const("_tsk", T.TupS))
_ww, _wt = z3.Int("_wsw"), z3.Int("_wst")
TH.EXTRA.update({
    "tsum_t_empty (definition)": z3.ForAll([_te, _tw, _tk], TSUM(_te, _tw, z3.K(TK.sort(), z3.IntVal(0)), _tk) == 0,
                                           patterns=[TSUM(_te, _tw, z3.K(TK.sort(), z3.IntVal(0)), _tk)]),
    "tsum_t_step (definition)": z3.ForAll([_te, _tw, _tb, _tx, _tk], TSUM(_te, _tw, z3.Store(_tb, _tx, _tb[_tx] + 1), _tk) == TSUM(_te, _tw, _tb, _tk) +
                                          z3.If(TK.snd(_tx) == _tk, _tw[_te[_tx]], z3.RealVal(0)),
                                          patterns=[TSUM(_te, _tw, z3.Store(_tb, _tx, _tb[_tx] + 1), _tk)]),
    # two lists with the same records have the same sum (extensionality of the list-as-bag, made available to E-matching)
    "tsum_t_ext": z3.ForAll([_te, _tw, _tb, _tb2, _tk], z3.Or(TSUM(_te, _tw, _tb, _tk) == TSUM(_te, _tw, _tb2, _tk), _tb[TSDIFF(_tb, _tb2)] != _tb2[TSDIFF(_tb, _tb2)]),
                            patterns=[z3.MultiPattern(TSUM(_te, _tw, _tb, _tk), TSUM(_te, _tw, _tb2, _tk))]),
    "wstart_0 (definition)": z3.ForAll([_wt], WSTART(0, _wt) == 0, patterns=[WSTART(0, _wt)]),
    "wstart_step (definition)": z3.ForAll([_ww, _wt], z3.Implies(_ww >= 0, WSTART(_ww + 1, _wt) == WSTART(_ww, _wt) + _wt), patterns=[WSTART(_ww + 1, _wt)]),
})
VIEWS["tsum"] = lambda eng, p, h, B, e: T.sv_real(TSUM(h.fields["_edge_list"].val, h.fields["_weights"].val, B.t, e.t))
VIEWS["wstart"] = lambda eng, p, h, w, t: T.sv_int(WSTART(eng.coerce(w, T.INT).t, eng.coerce(t, T.INT).t))

INW = "(wstart(self, w, time_window) <= fst(r) and fst(r) < wstart(self, w, time_window) + time_window)"


def _windows(m, cond):
    """clauses about every stored window w of the dict m (cond: which w are meant)"""
    return {
        "wf": f"all(implies({cond}, wf({m}[w])) for w in Int)",
        "weighted": f"all(implies({cond}, weighted({m}[w]) == weighted(self)) for w in Int)",
        "V": f"all(implies({cond}, (n in V({m}[w])) == (n in V(self))) for w in Int for n in Node)",
        "E": f"all(implies({cond}, (e in E({m}[w])) == any(pair(t, e) in E(self) and wstart(self, w, time_window) <= t and t < wstart(self, w, time_window) + time_window for t in Int)) "
             "for w in Int for e in Tuple)",
        "W": f"implies(weighted(self), all(implies({cond} and e in E({m}[w]), W({m}[w], e) == tsum(self, listing({{r for r in E(self) if {INW}}}), e)) for w in Int for e in Tuple))",
    }


MT = 'local("max_time", "Int")'
SL = 'local("sorted_edges", "Seq[Pair[Int,Tup]]")'
CONTRACTS += [
    C("aggregate", params={"time_window": "Int"}, result="Map[Int,Obj[Hypergraph]]", pure=True, options={"sorted_records"},
      locals={"aggregated": "Map[Int,Obj[Hypergraph]]", "edges_in_window": "Bag[Pair[Int,Tup]]", "sorted_edges": "Seq[Pair[Int,Tup]]"},
      requires={"wf": "wf(self)"},
      raises={"TypeError": "time_window <= 0"},
      ensures={"empty": "implies(card(E(self)) == 0, all(w not in result for w in Int))",
               # the sorted listing L of the records (every record at exactly one position) and the largest time in it
               "listing": f"implies(card(E(self)) != 0, all(implies(0 <= m and m < len({SL}), {SL}[m] in E(self)) for m in Int) and "
                          f"all(implies(r in E(self), 0 <= seqpos({SL}, r) and seqpos({SL}, r) < len({SL}) and {SL}[seqpos({SL}, r)] == r) for r in Key))",
               "max_time": f"implies(card(E(self)) != 0, any(0 <= m and m < len({SL}) and fst({SL}[m]) == {MT} for m in Int) and "
                           f"all(implies(0 <= m and m < len({SL}), fst({SL}[m]) <= {MT}) for m in Int))",
               # windows 0 .. K-1, the last one being the one that contains the largest time
               "keys": f"implies(card(E(self)) != 0, any(K >= 1 and all((w in result) == (0 <= w and w < K) for w in Int) and wstart(self, K - 1, time_window) <= {MT} "
                       f"and {MT} < wstart(self, K, time_window) for K in Int))",
               **_windows("result", "w in result")},
      invariants={
          0: {"mt_bound": "all(implies(0 <= m and m < len(sorted_edges), fst(sorted_edges[m]) <= max_time) for m in Int)",
              "mt_witness": "any(0 <= m and m < len(sorted_edges) and fst(sorted_edges[m]) == max_time for m in Int)",
              "nwc": "num_windows_created >= 0 and t_start == wstart(self, num_windows_created, time_window) and t_end == t_start + time_window",
              "prev": "implies(num_windows_created >= 1, wstart(self, num_windows_created - 1, time_window) <= max_time)",
              "win_empty": "all(count(edges_in_window, r) == 0 for r in Key)",
              "ei": "0 <= edge_index and edge_index <= len(sorted_edges)",
              "before": "all(implies(0 <= m and m < edge_index, fst(sorted_edges[m]) < t_start) for m in Int)",
              "after": "all(implies(edge_index <= m and m < len(sorted_edges), fst(sorted_edges[m]) >= t_start) for m in Int)",
              "keys": "all((w in aggregated) == (0 <= w and w < num_windows_created) for w in Int)",
              **_windows("aggregated", "w in aggregated")},
          1: {"ei": "pre(edge_index) <= edge_index and edge_index <= len(sorted_edges)",
              "win": "all(count(edges_in_window, r) == (1 if r in E(self) and pre(edge_index) <= seqpos(sorted_edges, r) and seqpos(sorted_edges, r) < edge_index else 0) for r in Key)",
              "in_window": "all(implies(pre(edge_index) <= m and m < edge_index, t_start <= fst(sorted_edges[m]) and fst(sorted_edges[m]) < t_end) for m in Int)"},
          2: {"wf": "wf(Hypergraph_t)", "weighted": "weighted(Hypergraph_t) == weighted(self)",
              "E": "all((e in E(Hypergraph_t)) == any(count(_done2, pair(t, e)) >= 1 for t in Int) for e in Tuple)",
              "W": "implies(weighted(self), all(W(Hypergraph_t, e) == tsum(self, _done2, e) for e in E(Hypergraph_t)))",
              "W0": "all(tsum(self, _done2, e) == 0 for e in Tuple if e not in E(Hypergraph_t))",
              "V": "all((n in V(Hypergraph_t)) == any(count(_done2, pair(t, e)) >= 1 and n in e for t in Int for e in Tuple) for n in Node)"},
          3: {"wf": "wf(Hypergraph_t)", "weighted": "weighted(Hypergraph_t) == weighted(self)",
              "E": "all((e in E(Hypergraph_t)) == any(count(edges_in_window, pair(t, e)) >= 1 for t in Int) for e in Tuple)",
              "W": "implies(weighted(self), all(W(Hypergraph_t, e) == tsum(self, edges_in_window, e) for e in E(Hypergraph_t)))",
              "V": "all((n in V(Hypergraph_t)) == (any(count(edges_in_window, pair(t, e)) >= 1 and n in e for t in Int for e in Tuple) or count(_done3, n) >= 1) for n in Node)"},
      },
      properties=["C03"]),
]


# ---- hypergraph-level metadata (a dict of the object): the setter installs the given dict, the attribute setter changes one entry, nothing else
# about the object changes (frame); the getter returns it
CONTRACTS += [
    C("get_hypergraph_metadata", params={}, result="Meta", pure=True, ensures={"result": "result == HM(self)"}, properties=['C03', 'C07']),
    C("set_hypergraph_metadata", params={"metadata": "Meta"}, modifies=["_hypergraph_metadata"],
      ensures={"HM": "HM(self) == metadata"}, properties=['C03', 'C07']),
    C("set_attr_to_hypergraph_metadata", params={"field": "Field", "value": "Val"}, modifies=["_hypergraph_metadata"],
      ensures={"HM": "HM(self) == mset(HM(old(self)), field, value)"}, properties=['C03', 'C07']),
]


# ---- incidence metadata and the metadata tables as a whole (session 4): the entry is filed under (time, canonical hyperedge) and the node
CONTRACTS += [
    C("set_incidence_metadata", params={"edge": "NodeSeq", "time": "Int", "node": "Node", "metadata": "Meta"}, modifies=["_incidences_metadata"],
      raises={"ValueError": f"{KEY} not in E(self)"},
      ensures={"set": f"HASIM(self, {KEY}, node) and IM(self, {KEY}, node) == metadata",
               "others": f"all(implies(k != {KEY} or n != node, HASIM(self, k, n) == HASIM(old(self), k, n) and IM(self, k, n) == IM(old(self), k, n)) for k in Key for n in Node)"}),
    C("get_incidence_metadata", params={"edge": "NodeSeq", "time": "Int", "node": "Node"}, result="Meta", pure=True,
      raises={"ValueError": f"{KEY} not in E(self)", "KeyError": f"{KEY} in E(self) and not HASIM(self, {KEY}, node)"},
      ensures={"result": f"result == IM(self, {KEY}, node)"}),
    C("get_all_incidences_metadata", params={}, result="Map[Pair[Pair[Int,Tup],Int],Meta]", pure=True,
      ensures={"dom": "all((pair(k, n) in result) == HASIM(self, k, n) for k in Key for n in Node)",
               "val": "all(implies(HASIM(self, k, n), result[pair(k, n)] == IM(self, k, n)) for k in Key for n in Node)"}),
    C("__len__", params={}, result="Int", pure=True, ensures={"result": "result == card(E(self))"}),
    C("get_all_nodes_metadata", params={}, result="Map[Int,Meta]", pure=True, requires={"wf": "wf(self)"},
      ensures={"val": "all(implies(n in result, result[n] == NM(self, n)) for n in Node)", "same": "all((n in result) == (n in V(self)) for n in Node)"}),
    C("get_all_edges_metadata", params={}, result="Map[Int,Meta]", pure=True, requires={"wf": "wf(self)"},
      ensures={"by_id": "all(ID(self, k) in result and result[ID(self, k)] == M(self, k) for k in E(self))"}),
]
