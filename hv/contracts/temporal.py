"""Contracts for hypergraphx/core/temporal_hypergraph.py (C03; C07/C19 rest on them).

Abstract view: V(h) nodes; E(h) set of keys (time, canonical node tuple); W, M, NM, weighted as for Hypergraph.
"""
import z3
from ..pyvc import ty as T
from ..pyvc import theory as TH
from ..pyvc.engine import Layout, Contract
from ..pyvc.ty import fresh

FILE = "hypergraphx/core/temporal_hypergraph.py"
CLS = "TemporalHypergraph"
TK = T.Pair(T.INT, T.TUP)

FIELDS = {
    "_weighted": "Bool",
    "_weights": "Map[Int,Real]",
    "_adj": "Map[Int,Bag[Int]]",
    "_edge_list": "Map[Pair[Int,Tup],Int]",
    "_incidences_metadata": "Map[Pair[Pair[Int,Tup],Int],Meta]",
    "_node_metadata": "Map[Int,Meta]",
    "_edge_metadata": "Map[Int,Meta]",
    "_reverse_edge_list": "Map[Int,Pair[Int,Tup]]",
    "_hypergraph_metadata": "Meta",
    "_next_edge_id": "Int",
}


# number of records of a set whose hyperedge passes the order filter (fold-defined specification function)
CNT = z3.Function("count_sel_t", z3.ArraySort(TK.sort(), T.B), T.I, T.B, T.I)
_cs, _cx, _co, _cu = z3.Const("_cst", z3.ArraySort(TK.sort(), T.B)), z3.Const("_cxt", TK.sort()), z3.Int("_cot"), z3.Bool("_cut")
TH.EXTRA.update({
    "count_sel_t_empty (definition)": z3.ForAll([_co, _cu], CNT(z3.K(TK.sort(), z3.BoolVal(False)), _co, _cu) == 0,
                                                patterns=[CNT(z3.K(TK.sort(), z3.BoolVal(False)), _co, _cu)]),
    "count_sel_t_step (definition)": z3.ForAll([_cs, _cx, _co, _cu], z3.Implies(z3.Not(_cs[_cx]),
        CNT(z3.Store(_cs, _cx, True), _co, _cu) == CNT(_cs, _co, _cu) +
        z3.If(z3.If(_cu, TH.tlen(TK.snd(_cx)) - 1 <= _co, TH.tlen(TK.snd(_cx)) - 1 == _co), 1, 0)),
        patterns=[CNT(z3.Store(_cs, _cx, True), _co, _cu)]),
})


def tm(k):
    return TK.fst(k)


def nd(k):
    return TK.snd(k)


def live(h, i):
    el, rv = h.fields["_edge_list"], h.fields["_reverse_edge_list"]
    return z3.And(rv.dom[i], el.dom[rv.val[i]], el.val[rv.val[i]] == i)


def wf(eng, p, h):
    F = h.fields
    el, rv, w, em = F["_edge_list"], F["_reverse_edge_list"], F["_weights"], F["_edge_metadata"]
    adj, nm, nxt, wt = F["_adj"], F["_node_metadata"], F["_next_edge_id"].t, F["_weighted"].t
    k, i, n = fresh("k", TK.sort()), fresh("i", T.I), fresh("n", T.I)
    FA, MP = z3.ForAll, z3.MultiPattern
    return {
        # times are non-negative integers, node tuples canonical and non-empty
        "el_rv": FA([k], z3.Implies(el.dom[k], z3.And(rv.dom[el.val[k]], rv.val[el.val[k]] == k, TH.strict(nd(k)), TH.tlen(nd(k)) >= 1,
                                                       tm(k) >= 0, 0 <= el.val[k], el.val[k] < nxt)), patterns=[el.dom[k], el.val[k]]),
        "el_tables": FA([k], z3.Implies(el.dom[k], z3.And(w.dom[el.val[k]], em.dom[el.val[k]])), patterns=[el.dom[k], el.val[k]]),
        "next": nxt >= 0,
        "nm_exact": nm.dom == adj.dom,
        "inc_dom": FA([i, n], z3.Implies(z3.And(live(h, i), TH.tmem(nd(rv.val[i]), n)), adj.dom[n]),
                      patterns=[MP(rv.dom[i], TH.tmem(nd(rv.val[i]), n))]),
        "inc_once": FA([n, i], z3.Implies(adj.dom[n], adj.val[n][i] == z3.If(z3.And(live(h, i), TH.tmem(nd(rv.val[i]), n)), 1, 0)),
                       patterns=[adj.val[n][i]]),
        "inc_key": FA([n, k], z3.Implies(z3.And(adj.dom[n], el.dom[k]), adj.val[n][el.val[k]] == z3.If(TH.tmem(nd(k), n), 1, 0)),
                      patterns=[MP(el.dom[k], TH.tmem(nd(k), n), adj.dom[n]), adj.val[n][el.val[k]]]),
        "unweighted_1": z3.Implies(z3.Not(wt), FA([k], z3.Implies(el.dom[k], w.val[el.val[k]] == 1), patterns=[el.val[k]])),
    }


def W_(h, k):
    return h.fields["_weights"].val[h.fields["_edge_list"].val[k]]


def M_(h, k):
    return h.fields["_edge_metadata"].val[h.fields["_edge_list"].val[k]]


def view_eq(eng, p, a, b):
    k, n = fresh("k", TK.sort()), fresh("n", T.I)
    ea, eb = a.fields["_edge_list"], b.fields["_edge_list"]
    return {
        "V": a.fields["_adj"].dom == b.fields["_adj"].dom,
        "E": ea.dom == eb.dom,
        "W": z3.ForAll([k], z3.Implies(ea.dom[k], W_(a, k) == W_(b, k))),
        "M": z3.ForAll([k], z3.Implies(ea.dom[k], M_(a, k) == M_(b, k))),
        "NM": z3.ForAll([n], z3.Implies(a.fields["_adj"].dom[n], a.fields["_node_metadata"].val[n] == b.fields["_node_metadata"].val[n])),
        "INC": z3.ForAll([n, k], z3.Implies(z3.And(a.fields["_adj"].dom[n], ea.dom[k]),
                                            a.fields["_adj"].val[n][ea.val[k]] == b.fields["_adj"].val[n][eb.val[k]])),
        "weighted": a.fields["_weighted"].t == b.fields["_weighted"].t,
        "HM": a.fields["_hypergraph_metadata"].t == b.fields["_hypergraph_metadata"].t,
    }


VIEWS = {
    "V": lambda eng, p, h: T.scalar(T.Set(T.INT), h.fields["_adj"].dom),
    "E": lambda eng, p, h: T.scalar(T.Set(TK), h.fields["_edge_list"].dom),
    "W": lambda eng, p, h, k: T.sv_real(W_(h, k.t)),
    "M": lambda eng, p, h, k: T.scalar(T.META, M_(h, k.t)),
    "NM": lambda eng, p, h, n: T.scalar(T.META, h.fields["_node_metadata"].val[n.t]),
    "HM": lambda eng, p, h: h.fields["_hypergraph_metadata"],
    "weighted": lambda eng, p, h: h.fields["_weighted"],
    "KLEN": lambda eng, p, h, k: T.sv_int(TH.tlen(nd(k.t))),
    "ID": lambda eng, p, h, k: T.sv_int(h.fields["_edge_list"].val[k.t]),
    "count_sel": lambda eng, p, h, S, o, u: T.sv_int(CNT(S.t, eng.coerce(o, T.INT).t, eng.truth(u, p))),
}

LAYOUT = Layout(CLS, FIELDS, aliases={"Key": "Pair[Int,Tup]"}, views=VIEWS, multi={"wf": wf, "view_eq": view_eq})


def C(name, **kw):
    kw.setdefault("properties", ["C03"])
    return Contract(f"{CLS}.{name}", FILE, [CLS, name], self_cls=CLS, **kw)


KEY = "pair(time, canon(edge))"
OTHER_EDGES = {
    "W_others": f"all(W(self, k) == W(old(self), k) for k in E(old(self)) if k != {KEY})",
    "M_others": f"all(M(self, k) == M(old(self), k) for k in E(old(self)) if k != {KEY})",
}
NODE_MD_KEPT = {"NM_kept": "all(NM(self, n) == NM(old(self), n) for n in V(old(self)))"}
SAME_WEIGHTED = {"weighted": "weighted(self) == weighted(old(self))", "HM": "HM(self) == HM(old(self))"}


def _adj_kept(cur, old):
    n = fresh("n", T.I)
    return z3.ForAll([n], z3.Implies(old.fields["_adj"].dom[n], cur.fields["_adj"].val[n] == old.fields["_adj"].val[n]),
                     patterns=[cur.fields["_adj"].val[n]])


def _adj_new_empty(cur, old, node):
    return z3.Implies(z3.Not(old.fields["_adj"].dom[node]), cur.fields["_adj"].val[node] == z3.K(T.I, z3.IntVal(0)))


def _add_nodes_inv(eng, p, cx):
    """first loop of add_edge: `for node in nodes: self.add_node(node)`"""
    cur, pre = p.env["self"], cx.pre_env["self"]
    seq, j = p.env["_it0"].t, p.env["_j0"].t
    adj, oadj = cur.fields["_adj"], pre.fields["_adj"]
    nm, onm = cur.fields["_node_metadata"], pre.fields["_node_metadata"]
    n, i = fresh("n", T.I), fresh("i", T.I)
    return {
        "j_range": z3.And(0 <= j, j <= TH.tlen(seq)),
        "dom": z3.ForAll([n], adj.dom[n] == z3.Or(oadj.dom[n], TH.pmem(seq, j, n)), patterns=[adj.dom[n]]),
        "nm_dom": nm.dom == adj.dom,
        "cnt": z3.ForAll([n, i], z3.Implies(adj.dom[n], adj.val[n][i] == z3.If(oadj.dom[n], oadj.val[n][i], 0)), patterns=[adj.val[n][i]]),
        "nm_old": z3.ForAll([n], z3.Implies(oadj.dom[n], nm.val[n] == onm.val[n]), patterns=[nm.val[n]]),
    }


def _append_inv(eng, p, cx):
    """second loop of add_edge: `for node in nodes: self._adj[node].append(e_id)`"""
    cur, pre = p.env["self"], cx.pre_env["self"]
    seq, j = p.env["_it1"].t, p.env["_j1"].t
    adj, oadj = cur.fields["_adj"], pre.fields["_adj"]
    eid = p.env["e_id"].t
    n, i = fresh("n", T.I), fresh("i", T.I)
    return {
        "j_range": z3.And(0 <= j, j <= TH.tlen(seq)),
        "dom": adj.dom == oadj.dom,
        "cnt": z3.ForAll([n, i], z3.Implies(adj.dom[n], adj.val[n][i] == oadj.val[n][i] + z3.If(z3.And(i == eid, TH.pmem(seq, j, n)), 1, 0)),
                         patterns=[adj.val[n][i]]),
    }


def _rm_inv(eng, p, cx):
    cur, pre = p.env["self"], cx.pre_env["self"]
    seq, j = p.env["_it0"].t, p.env["_j0"].t
    adj, oadj = cur.fields["_adj"], pre.fields["_adj"]
    eid = p.env["edge_id"].t
    n, i = fresh("n", T.I), fresh("i", T.I)
    return {
        "j_range": z3.And(0 <= j, j <= TH.tlen(seq)),
        "dom": adj.dom == oadj.dom,
        "cnt": z3.ForAll([n, i], z3.Implies(adj.dom[n], adj.val[n][i] == oadj.val[n][i] - z3.If(z3.And(i == eid, TH.pmem(seq, j, n)), 1, 0)),
                         patterns=[adj.val[n][i]]),
    }


CONTRACTS = [
    Contract("_canon_edge[temporal]", FILE, ["_canon_edge"], params={"edge": "NodeSeq"}, result="Tup", pure=True,
             ensures={"result": "result == canon(edge)"}, properties=["C03"]),
    Contract("_get_nodes[temporal]", FILE, ["_get_nodes"], params={"edge": "NodeSeq"}, result="Tup", pure=True,
             ensures={"result": "result == edge"}, properties=["C03"]),
    Contract("_get_size[temporal]", FILE, ["_get_size"], params={"edge": "NodeSeq"}, result="Int", pure=True,
             ensures={"result": "result == len(edge)"}, properties=["C03"]),
    Contract("_get_order[temporal]", FILE, ["_get_order"], params={"edge": "NodeSeq"}, result="Int", pure=True,
             ensures={"result": "result == len(edge) - 1"}, properties=["C03"]),
    C("add_node", params={"node": "Node", "metadata": "Opt[Meta]"},
      requires={"nm_exact": lambda eng, p, cx: wf(eng, p, p.env["self"])["nm_exact"]},
      modifies=["_adj", "_node_metadata"],
      ensures={
          "nm_exact": lambda eng, p, cx: wf(eng, p, p.env["self"])["nm_exact"],
          "V": "all((n in V(self)) == (n in V(old(self)) or n == node) for n in Node)",
          "adj_old": lambda eng, p, cx: _adj_kept(p.env["self"], cx.old_env["self"]),
          "adj_new": lambda eng, p, cx: _adj_new_empty(p.env["self"], cx.old_env["self"], p.env["node"].t),
          "NM_others": "all(NM(self, n) == NM(old(self), n) for n in V(old(self)) if n != node)",
          "NM_none": "implies(node in V(old(self)) and metadata is None, NM(self, node) == NM(old(self), node))",
          "NM_kept": "implies(node in V(old(self)) and NM(old(self), node) != EMPTY, NM(self, node) == NM(old(self), node))",
          "NM_new": "implies(node not in V(old(self)), NM(self, node) == (EMPTY if metadata is None else metadata))",
      }),
    C("add_edge", params={"edge": "NodeSeq", "time": "Int", "weight": "Opt[Real]", "metadata": "Opt[Meta]"},
      requires={"wf": "wf(self)", "distinct": "distinct(edge)", "nonempty": "len(edge) >= 1"},
      # negative times are rejected (non-integer times cannot be expressed with an integer-typed parameter: bounded tier)
      raises={"ValueError": "(not weighted(self) and weight is not None and weight != 1) or time < 0"},
      modifies=["_adj", "_node_metadata", "_edge_list", "_reverse_edge_list", "_weights", "_edge_metadata", "_next_edge_id"],
      ensures={
          "wf": "wf(self)",
          "V": "all((n in V(self)) == (n in V(old(self)) or n in edge) for n in Node)",
          "E": f"all((k in E(self)) == (k in E(old(self)) or k == {KEY}) for k in Key)",
          "W_new": f"implies({KEY} not in E(old(self)), W(self, {KEY}) == (real(1 if weight is None else weight) if weighted(self) else 1))",
          "W_again": f"implies({KEY} in E(old(self)), W(self, {KEY}) == (W(old(self), {KEY}) + real(1 if weight is None else weight) if weighted(self) else W(old(self), {KEY})))",
          **OTHER_EDGES,
          "M_given": f"implies(metadata is not None, M(self, {KEY}) == metadata)",
          "ids": "all(ID(self, k) == ID(old(self), k) for k in E(old(self)))",
          **NODE_MD_KEPT, **SAME_WEIGHTED,
      },
      invariants={0: {"inv": _add_nodes_inv}, 1: {"inv": _append_inv}}),
    C("remove_edge", params={"edge": "NodeSeq", "time": "Int"},
      requires={"wf": "wf(self)"},
      raises={"ValueError": f"{KEY} not in E(self)"},
      modifies=["_adj", "_edge_list", "_reverse_edge_list", "_weights", "_edge_metadata"],
      ensures={"wf": "wf(self)", "V": "V(self) == V(old(self))",
               "E": f"all((k in E(self)) == (k in E(old(self)) and k != {KEY}) for k in Key)",
               # frame needed by remove_node, which iterates over ids: the other records keep their ids
               "ids": "all(ID(self, k) == ID(old(self), k) for k in E(self))",
               **OTHER_EDGES, **NODE_MD_KEPT, **SAME_WEIGHTED},
      invariants={0: {"inv": _rm_inv}}),
    C("check_node", params={"node": "Node"}, result="Bool", pure=True, ensures={"result": "result == (node in V(self))"}),
    C("check_edge", params={"edge": "NodeSeq", "time": "Int"}, result="Bool", pure=True,
      ensures={"result": f"result == ({KEY} in E(self))"}),
    C("get_weight", params={"edge": "NodeSeq", "time": "Int"}, result="Real", pure=True, requires={"wf": "wf(self)"},
      raises={"ValueError": f"{KEY} not in E(self)"}, ensures={"result": f"result == W(self, {KEY})"}),
    C("set_weight", params={"edge": "NodeSeq", "time": "Int", "weight": "Real"}, requires={"wf": "wf(self)"},
      raises={"ValueError": f"(not weighted(self) and weight != 1) or {KEY} not in E(self)"},
      modifies=["_weights"], ensures={"wf": "wf(self)", "W": f"W(self, {KEY}) == weight", **OTHER_EDGES}),
    C("get_edge_metadata", params={"edge": "NodeSeq", "time": "Int"}, result="Meta", pure=True, requires={"wf": "wf(self)"},
      raises={"ValueError": f"{KEY} not in E(self)"}, ensures={"result": f"result == M(self, {KEY})"}),
    C("set_edge_metadata", params={"edge": "NodeSeq", "time": "Int", "metadata": "Meta"}, requires={"wf": "wf(self)"},
      raises={"ValueError": f"{KEY} not in E(self)"}, modifies=["_edge_metadata"],
      ensures={"wf": "wf(self)", "M": f"M(self, {KEY}) == metadata", **OTHER_EDGES}),
    C("set_attr_to_edge_metadata", params={"edge": "NodeSeq", "time": "Int", "field": "Field", "value": "Val"}, requires={"wf": "wf(self)"},
      raises={"ValueError": f"{KEY} not in E(self)"}, modifies=["_edge_metadata"],
      ensures={"wf": "wf(self)", "M": f"M(self, {KEY}) == mset(M(old(self), {KEY}), field, value)", **OTHER_EDGES}),
    C("remove_attr_from_edge_metadata", params={"edge": "NodeSeq", "time": "Int", "field": "Field"}, requires={"wf": "wf(self)"},
      raises={"ValueError": f"{KEY} not in E(self)"},
      may_raise={"KeyError": f"{KEY} in E(self) and not mhas(M(self, {KEY}), field)"}, modifies=["_edge_metadata"],
      ensures={"wf": "wf(self)", "M": f"M(self, {KEY}) == mdel(M(old(self), {KEY}), field)", **OTHER_EDGES}),
    C("get_node_metadata", params={"node": "Node"}, result="Meta", pure=True, requires={"wf": "wf(self)"},
      raises={"ValueError": "node not in V(self)"}, ensures={"result": "result == NM(self, node)"}),
    C("set_node_metadata", params={"node": "Node", "metadata": "Meta"}, requires={"wf": "wf(self)"},
      raises={"ValueError": "node not in V(self)"}, modifies=["_node_metadata"],
      ensures={"wf": "wf(self)", "NM": "NM(self, node) == metadata",
               "NM_others": "all(NM(self, n) == NM(old(self), n) for n in V(self) if n != node)"}),
    C("is_weighted", params={}, result="Bool", pure=True, ensures={"result": "result == weighted(self)"}),
    C("get_nodes", params={"metadata": "Bool"}, fixed={"metadata": False}, result="Bag[Int]", pure=True,
      requires={"wf": "wf(self)"},
      ensures={"result": "all(count(result, n) == (1 if n in V(self) else 0) for n in Node)"}),
    C("get_incident_edges", params={"node": "Node", "order": "Opt[Int]", "size": "Opt[Int]"}, result="Bag[Key]", pure=True,
      requires={"wf": "wf(self)"},
      raises={"ValueError": "node not in V(self) or (order is not None and size is not None)"},
      ensures={"result": "all(count(result, k) == (1 if k in E(self) and node in snd(k) and sel(self, k, order, size, False) else 0) for k in Key)"},
      properties=["C03", "C08"]),
    # half-open window: exactly the records with a <= t < b
    C("get_edges", params={"time_window": "Opt[Pair[Int,Int]]", "order": "Opt[Int]", "size": "Opt[Int]", "up_to": "Bool", "metadata": "Bool"},
      fixed={"metadata": False}, result="Bag[Key]", pure=True, locals={"edges": "Bag[Key]"},
      requires={"wf": "wf(self)"},
      raises={"ValueError": "order is not None and size is not None"},
      ensures={"result": "all(count(result, k) == (1 if k in E(self) and (time_window is None or (time_window[0] <= fst(k) and fst(k) < time_window[1])) "
                         "and sel(self, k, order, size, up_to) else 0) for k in Key)"},
      invariants={0: {"edges": "all(count(edges, k) == (1 if count(_done0, k) >= 1 and time_window[0] <= fst(k) and fst(k) < time_window[1] else 0) for k in Key)",
                      "done01": "all(count(_done0, k) <= 1 for k in Key)"}}),
    C("get_times_for_edge", params={"edge": "NodeSeq"}, result="Bag[Int]", pure=True, locals={"times": "Bag[Int]"},
      requires={"wf": "wf(self)"},
      ensures={"result": "all(count(result, t) == (1 if pair(t, canon(edge)) in E(self) else 0) for t in Int)"},
      invariants={0: {"times": "all(count(times, t) == (1 if pair(t, canon(old(edge))) in _done0 else 0) for t in Int)"}}),
    C("remove_node", params={"node": "Node", "keep_edges": "Bool"}, fixed={"keep_edges": False},
      requires={"wf": "wf(self)"},
      raises={"ValueError": "node not in V(self)"},
      modifies=["_adj", "_node_metadata", "_edge_list", "_reverse_edge_list", "_weights", "_edge_metadata"],
      ensures={"wf": "wf(self)",
               "V": "all((n in V(self)) == (n in V(old(self)) and n != node) for n in Node)",
               "E": "all((k in E(self)) == (k in E(old(self)) and node not in snd(k)) for k in Key)",
               "W_kept": "all(W(self, k) == W(old(self), k) for k in E(self))",
               "M_kept": "all(M(self, k) == M(old(self), k) for k in E(self))",
               "NM_kept": "all(NM(self, n) == NM(old(self), n) for n in V(self))", **SAME_WEIGHTED},
      invariants={1: {"wf": "wf(self)", "V": "V(self) == V(old(self))",
                      "E": "all((k in E(self)) == (k in E(old(self)) and count(_done1, ID(old(self), k)) == 0) for k in Key)",
                      "ids": "all(ID(self, k) == ID(old(self), k) for k in E(self))",
                      "W_kept": "all(W(self, k) == W(old(self), k) for k in E(self))",
                      "M_kept": "all(M(self, k) == M(old(self), k) for k in E(self))",
                      "NM_kept": "all(NM(self, n) == NM(old(self), n) for n in V(old(self)))",
                      "weighted": "weighted(self) == weighted(old(self))", "HM": "HM(self) == HM(old(self))"}},
      properties=["C03", "C19"]),
    # node removal that shrinks the incident records (same time, node set minus the node); coinciding records add their weights
    Contract(f"{CLS}.remove_node@keep", FILE, [CLS, "remove_node"], self_cls=CLS, properties=["C03", "C19"],
      params={"node": "Node", "keep_edges": "Bool"}, fixed={"keep_edges": True},
      requires={"wf": "wf(self)"},
      raises={"ValueError": "node not in V(self)"},
      modifies=["_adj", "_node_metadata", "_edge_list", "_reverse_edge_list", "_weights", "_edge_metadata", "_next_edge_id"],
      ensures={"wf": "wf(self)",
               "V": "all((n in V(self)) == (n in V(old(self)) and n != node) for n in Node)",
               "E": "all((k in E(self)) == (node not in snd(k) and (k in E(old(self)) or (node not in snd(k) and strict(snd(k)) and len(snd(k)) >= 1 and pair(fst(k), with_node(snd(k), node)) in E(old(self))))) for k in Key)",
               "W": "implies(weighted(self), all(W(self, k) == (W(old(self), k) if k in E(old(self)) else 0) + (W(old(self), pair(fst(k), with_node(snd(k), node))) if (node not in snd(k) and strict(snd(k)) and len(snd(k)) >= 1 and pair(fst(k), with_node(snd(k), node)) in E(old(self))) else 0) for k in E(self)))",
               "NM_kept": "all(NM(self, n) == NM(old(self), n) for n in V(self))",
               "weighted": "weighted(self) == weighted(old(self))"},
      invariants={0: {
          "wf": "wf(self)", "V": "V(self) == V(old(self))",
          "E": "all((k in E(self)) == ((k in E(old(self)) and not (node in snd(k) and count(_done0, ID(old(self), k)) >= 1)) or (node not in snd(k) and strict(snd(k)) and len(snd(k)) >= 1 and pair(fst(k), with_node(snd(k), node)) in E(old(self)) and count(_done0, ID(old(self), pair(fst(k), with_node(snd(k), node)))) >= 1)) for k in Key)",
          "ids": "all(implies(k in E(self), ID(self, k) == ID(old(self), k)) for k in E(old(self)))",
          "W": "implies(weighted(self), all(W(self, k) == (W(old(self), k) if (k in E(old(self)) and not (node in snd(k) and count(_done0, ID(old(self), k)) >= 1)) else 0) + (W(old(self), pair(fst(k), with_node(snd(k), node))) if (node not in snd(k) and strict(snd(k)) and len(snd(k)) >= 1 and pair(fst(k), with_node(snd(k), node)) in E(old(self)) and count(_done0, ID(old(self), pair(fst(k), with_node(snd(k), node)))) >= 1) else 0) for k in E(self)))",
          "NM_kept": "all(NM(self, n) == NM(old(self), n) for n in V(old(self)))",
          "weighted": "weighted(self) == weighted(old(self))"}}),
    # counts by the order of the hyperedge (not of the (time, hyperedge) pair, the defect of the pinned tree)
    C("num_edges", params={"order": "Opt[Int]", "size": "Opt[Int]", "up_to": "Bool"}, result="Int", pure=True, locals={"s": "Int"},
      requires={"wf": "wf(self)"},
      raises={"ValueError": "order is not None and size is not None"},
      ensures={"all": "implies(order is None and size is None, result == card(E(self)))",
               "by_order": "implies(order is not None, result == count_sel(self, E(self), order, up_to))",
               "by_size": "implies(size is not None, result == count_sel(self, E(self), size - 1, up_to))"},
      invariants={0: {"s": "s == count_sel(self, _done0, order, False)"},
                  1: {"s": "s == count_sel(self, _done1, order, True)"}}),
    C("is_uniform", params={}, result="Bool", pure=True, locals={"sz": "Opt[Int]", "uniform": "Bool"},
      requires={"wf": "wf(self)"},
      ensures={"result": "result == all(len(snd(k1)) == len(snd(k2)) for k1 in E(self) for k2 in E(self))"},
      invariants={0: {"uniform": "uniform",
                      "none": "(sz is None) == all(k not in _done0 for k in Key)",
                      "same": "implies(sz is not None, all(len(snd(k)) == sz for k in _done0))",
                      "witness": "implies(sz is not None, any(len(snd(k)) == sz for k in _done0))"}}),
    Contract("degree[TemporalHypergraph]", "hypergraphx/measures/degree.py", ["degree"], properties=["C03", "C08"],
      params={"hg": "Obj[TemporalHypergraph]", "node": "Node", "order": "Opt[Int]", "size": "Opt[Int]"}, result="Int", pure=True,
      requires={"wf": "wf(hg)"},
      raises={"ValueError": "(order is not None and size is not None) or node not in V(hg)"},
      ensures={"result": "result == card({k for k in E(hg) if node in snd(k) and sel(hg, k, order, size, False)})"}),
]
