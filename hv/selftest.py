"""Self-test of the deductive engine (DESIGN.md §6.4): seeded one-line faults must turn a named obligation from discharged to
failed, behaviour-preserving rewrites must keep everything discharged.  Runs on a scratch copy of /repo/hypergraphx outside /repo
and /verif (removed afterwards).  python -m hv.selftest  -> exit 0 when every expectation is met; writes evidence/selftest.json.
"""
import json
import os
import shutil
import sys
import tempfile
import time

from .common import VERIF

HG = "hypergraphx/core/hypergraph.py"
DH = "hypergraphx/core/directed_hypergraph.py"
TH = "hypergraphx/core/temporal_hypergraph.py"
MH = "hypergraphx/core/multiplex_hypergraph.py"
CC = "hypergraphx/utils/cc.py"
CM = "hypergraphx/generation/configuration_model.py"
SA = "hypergraphx/generation/hy_mmsbm_sampling.py"
FI = "hypergraphx/filters/metadata_filters.py"

# (name, file, old, new, occurrence index, contracts to verify, expected substring of a failing obligation or None for "all discharged")
CASES = [
    # ---- property-breaking faults
    ("add_edge appends on re-insert", HG, "            for node in edge:\n                self.add_node(node)\n                self._adj[node].append(self._edge_list[edge])\n        elif edge in self._edge_list and self._weighted:\n            self._weights[self._edge_list[edge]] += weight\n",
     "        elif edge in self._edge_list and self._weighted:\n            self._weights[self._edge_list[edge]] += weight\n        for node in edge:\n            self.add_node(node)\n            self._adj[node].append(self._edge_list[edge])\n", 0,
     ["Hypergraph.add_edge"], "wf.inc_once"),
    ("weight overwritten instead of added", HG, "] += weight", "] = weight", 0, ["Hypergraph.add_edge"], "W_again"),
    ("remove_edge without canonical key", HG, "        edge = tuple(sorted(edge))\n        if edge not in self._edge_list:\n            raise KeyError",
     "        edge = tuple(edge)\n        if edge not in self._edge_list:\n            raise KeyError", 0, ["Hypergraph.remove_edge"], "raises:KeyError"),
    ("add_node tests the metadata table", HG, "        if node not in self._adj:\n            self._adj[node] = []", "        if node not in self._node_metadata:\n            self._adj[node] = []", 0,
     ["Hypergraph.add_node"], "ensures:V"),
    ("remove_node keeps the node", HG, "        del self._adj[node]\n", "        pass\n", 0, ["Hypergraph.remove_node"], "ensures:V"),
    ("get_edges filter off by one", HG, "                    if len(edge) - 1 == order\n                ]\n            else:", "                    if len(edge) == order\n                ]\n            else:", 0,
     ["Hypergraph.get_edges"], "ensures:result"),
    ("subhypergraph uses the id as weight", HG, "                        weight=self.get_weight(edge),\n                        metadata=self.get_edge_metadata(edge),\n                    )\n                else:\n                    h.add_edge(edge, metadata",
     "                        weight=self._edge_list[edge],\n                        metadata=self.get_edge_metadata(edge),\n                    )\n                else:\n                    h.add_edge(edge, metadata", 0,
     ["Hypergraph.subhypergraph"], ":W"),
    ("directed: source/target adjacency swapped", DH, "                self._adj_source[node].append(idx)", "                self._adj_target[node].append(idx)", 0,
     ["DirectedHypergraph.add_edge"], "inv"),
    ("directed: in_degree counts targets", "hypergraphx/measures/directed/degree.py", "return len(list(hypergraph.get_source_edges(node, order=order, size=size)))",
     "return len(list(hypergraph.get_target_edges(node, order=order, size=size)))", 0, ["in_degree"], "ensures:result"),
    ("temporal: closed time window", TH, "if time_window[0] <= _t < time_window[1]:\n                    edges.append", "if time_window[0] <= _t <= time_window[1]:\n                    edges.append", 0,
     ["TemporalHypergraph.get_edges"], "edges"),
    ("temporal: negative times accepted", TH, "        if t < 0:\n            raise ValueError(\"Time must be a positive integer\")", "        if t < -1:\n            raise ValueError(\"Time must be a positive integer\")", 0,
     ["TemporalHypergraph.add_edge"], "ValueError"),
    ("multiplex: layer dropped from the key on removal", MH, "        edge = (_canon_edge(edge[0]), edge[1])\n        if edge not in self._edge_list:", "        edge = (tuple(edge[0]), edge[1])\n        if edge not in self._edge_list:", 0,
     ["MultiplexHypergraph.remove_edge"], "raises:ValueError"),
    ("cc: order/size swapped", CC, "component = _bfs(hg, node, size=size, order=order)", "component = _bfs(hg, node, size=order, order=size)", 0, ["connected_components"], "loop0"),
    ("cc: filter dropped", CC, "return len(hg.connected_components(size=size, order=order))", "return len(hg.connected_components(size=None, order=None))", 0,
     ["num_connected_components"], "ensures:result"),
    ("reshuffle forgets the intersection", CM, "        g2 = ix.copy()", "        g2 = []", 0, ["_cm_MCMC.__pairwise_reshuffle"], "loop1:entry"),
    ("sampler kernel takes the wrong size", SA, "size=len(hye1) - len(intersection)", "size=len(hye2) - len(intersection)", 0, ["HyMMSBMSampler._pairwise_reshuffle"], "AssertionError"),
    ("filter: keep and remove exchanged", FI, "if (mode == \"keep\" and not matches) or (mode == \"remove\" and matches):\n                edges_to_process.append(edge)",
     "if (mode == \"keep\" and matches) or (mode == \"remove\" and not matches):\n                edges_to_process.append(edge)", 0, ["filter_hypergraph[Hypergraph]"], "loop2"),
    ("multiplex batch: every record put into the first layer", MH, "                    edge_layer[i],", "                    edge_layer[0],", 0, ["MultiplexHypergraph.add_edges"], "loop0:preserved"),
    ("directed batch: direction swapped", DH, "        for i, edge in enumerate(edge_list):\n            self.add_edge(\n                edge,",
     "        for i, edge in enumerate(edge_list):\n            self.add_edge(\n                (edge[1], edge[0]),", 0, ["DirectedHypergraph.add_edges"], "loop0:preserved:E"),
    ("temporal batch: all records at the first time", TH, "                    time_list[i],", "                    time_list[0],", 0, ["TemporalHypergraph.add_edges"], "loop0:preserved:E"),
    ("temporal: min_time keeps the largest", TH, "            if min > edge[0]:", "            if min < edge[0]:", 0, ["TemporalHypergraph.min_time"], "loop0:preserved:bound"),
    ("temporal: max_time starts from 0", TH, "        max = -math.inf", "        max = 0", 0, ["TemporalHypergraph.max_time"], "loop0:entry"),
    ("hash pre-image ignores the weight", HG, '"weight": self._weights.get(edge_id, 1),', '"weight": 1,', 0, ["Hypergraph.expose_attributes_for_hashing"], "loop0:preserved"),
    ("hash pre-image lists nodes of the metadata table", HG, "        for node in sorted(self._adj.keys()):\n            nodes.append", "        for node in sorted(self._node_metadata.keys()):\n            nodes.append", 0,
     ["Hypergraph.expose_attributes_for_hashing"], "ensures:nodes_len"),
    ("directed: get_sources lists the targets", DH, "return [edge[0] for edge in self._edge_list.keys()]", "return [edge[1] for edge in self._edge_list.keys()]", 0, ["DirectedHypergraph.get_sources"], "ensures:members"),
    ("directed: is_uniform measures the source only", DH, "edge = set(edge[0]).union(set(edge[1]))", "edge = set(edge[0])", 0, ["DirectedHypergraph.is_uniform"], "loop0:preserved"),
    ("jaccard over the intersection twice", "hypergraphx/measures/edge_similarity.py", "return len(a.intersection(b)) / len(a.union(b))", "return len(a.intersection(b)) / len(a.intersection(b))", 0, ["jaccard_similarity"], "ensures:result"),
    ("extraction by order pairs hyperedges with their ids instead of their weights", HG,
     "                edge_weights = [self.get_weight(edge) for edge in edges]\n                h.add_edges(edges, edge_weights)\n            else:\n                h.add_edges(edges)\n\n            for node in h.get_nodes():",
     "                edge_weights = [self._edge_list[edge] for edge in edges]\n                h.add_edges(edges, edge_weights)\n            else:\n                h.add_edges(edges)\n\n            for node in h.get_nodes():", 0,
     ["Hypergraph.get_edges@sub_iso"], "loop0:entry:W"),
    ("multiplex: metadata table listed from the weights table", MH, "                for k in self._edge_metadata.keys()", "                for k in self._weights.keys()", 0,
     ["MultiplexHypergraph.get_edges@md"], "raises:KeyError:undeclared"),
    ("multiplex: remove_edge leaves the metadata entry", MH, "        if edge_id in self._edge_metadata:\n            del self._edge_metadata[edge_id]\n\n        nodes, layer = edge", "        nodes, layer = edge", 0,
     ["MultiplexHypergraph.remove_edge"], "wf.em_live"),
    ("exact reciprocity looks the hyperedge itself up instead of its reverse", "hypergraphx/measures/directed/reciprocity.py",
     "        reciprocated_edge = (edge[1], edge[0])\n        if reciprocated_edge in edge_set:\n            size = len(edge[0]) + len(edge[1])\n            rec[size] += 1\n\n    # Calculate reciprocity ratios\n    for size in range(2, max_hyperedge_size + 1):\n        if tot[size] != 0:\n            rec[size] = rec[size] / tot[size]\n        else:\n            rec[size] = 0\n\n    return rec\n\n\ndef strong",
     "        reciprocated_edge = (edge[0], edge[1])\n        if reciprocated_edge in edge_set:\n            size = len(edge[0]) + len(edge[1])\n            rec[size] += 1\n\n    # Calculate reciprocity ratios\n    for size in range(2, max_hyperedge_size + 1):\n        if tot[size] != 0:\n            rec[size] = rec[size] / tot[size]\n        else:\n            rec[size] = 0\n\n    return rec\n\n\ndef strong", 0,
     ["exact_reciprocity"], "loop1:preserved:rec"),
    ("add_random_edges draws one node too few", "hypergraphx/generation/random.py", "        edges.add(tuple(sorted(random.sample(nodes, size))))",
     "        edges.add(tuple(sorted(random.sample(nodes, size - 1))))", 0, ["add_random_edges@inplace"], "loop0:preserved:drawn"),
    # ---- functions verified in the fourth session
    ("clique projection skips the neighbour pair", "hypergraphx/representations/projections.py", "            for j in range(i + 1, len(edge)):", "            for j in range(i + 2, len(edge)):", 0,
     ["clique_projection"], "loop3:entry"),
    ("line graph uses a strict threshold", "hypergraphx/representations/projections.py", "                    w = _distance(e_i, e_j)\n                    if w >= s:",
     "                    w = _distance(e_i, e_j)\n                    if w > s:", 0, ["line_graph@intersection"], "loop4:preserved"),
    ("directed line graph reads the source of the first hyperedge", "hypergraphx/representations/projections.py", "                source = set(edge1[1])", "                source = set(edge1[0])", 0,
     ["directed_line_graph@intersection"], "loop2:preserved"),
    ("s_betweenness drops the threshold", "hypergraphx/measures/s_centralities.py", "    lg, id_to_edge = line_graph(H, s=s)\n    b = nx.betweenness_centrality(lg)\n    return",
     "    lg, id_to_edge = line_graph(H)\n    b = nx.betweenness_centrality(lg)\n    return", 0, ["s_betweenness"], "ensures:links"),
    ("signature vector indexed (target, source)", "hypergraphx/measures/directed/hyperedge_signature.py", "signature[source_size - 1, target_size - 1] += 1", "signature[target_size - 1, source_size - 1] += 1", 0,
     ["hyperedge_signature_vector@bound"], "loop0:preserved:cells"),
    ("transition matrix adds the size instead of size - 1 one way", "hypergraphx/dynamics/randwalk.py", "                T[l[j], l[i]] += len(l) - 1", "                T[l[j], l[i]] += len(l)", 0,
     ["transition_matrix"], "loop2:preserved:cells"),
    ("chain step writes the first new hyperedge twice", SA, "            hye_list[idx2] = set(new_hye2)", "            hye_list[idx2] = set(new_hye1)", 0, ["HyMMSBMSampler._mcmc_step"], "ensures:degrees"),
    ("random_hypergraph draws from one node too many", "hypergraphx/generation/random.py", "    nodes = list(range(num_nodes))\n    h.add_nodes(nodes)", "    nodes = list(range(num_nodes + 1))\n    h.add_nodes(nodes)", 0,
     ["random_hypergraph"], "loop0:entry:V"),
    ("temporal aggregate: closed window", TH, "                and t_start <= sorted_edges[edge_index][0] < t_end", "                and t_start <= sorted_edges[edge_index][0] <= t_end", 0,
     ["TemporalHypergraph.aggregate"], "loop1:preserved:in_window"),
    ("temporal aggregate: windows never reset", TH, "            edges_in_window = []  # Reset for the next window", "            pass", 0, ["TemporalHypergraph.aggregate"], "loop0:preserved:win_empty"),
    ("bipartite projection links the node to itself", "hypergraphx/representations/projections.py", "            g.add_edge(obj_to_id[edge], obj_to_id[node])", "            g.add_edge(obj_to_id[node], obj_to_id[node])", 0,
     ["bipartite_projection"], "loop2:preserved:links"),
    ("motif connectivity test: adjacency stored in one direction only", "hypergraphx/motifs/utils.py", "                graph[edge[j]].add(edge[i])\n", "                pass\n", 0,
     ["_is_connected"], "loop2:preserved:rows"),
    ("motif connectivity test: isolated label accepted", "hypergraphx/motifs/utils.py",
     "    if any(len(neighbors) == 0 for neighbors in graph.values()):\n        return False", "    if any(len(neighbors) == 0 for neighbors in graph.values()):\n        return True", 0,
     ["_is_connected"], "ensures:result"),
    ("incidence kernel: repeated nodes of a tuple counted in the column list", "hypergraphx/linalg/linalg.py", "columns.extend([j] * len(set_hye))", "columns.extend([j] * len(hye))", 0,
     ["hye_list_to_binary_incidence"], "loop0:preserved:len"),
    ("incidence kernel: a coordinate pair added twice", "hypergraphx/linalg/linalg.py", "        columns.extend([j] * len(set_hye))\n",
     "        columns.extend([j] * len(set_hye))\n        columns.extend([j] * len(set_hye))\n        rows.extend(list(set_hye))\n", 0,
     ["hye_list_to_binary_incidence"], "loop0:preserved:chosen"),
    ("binary incidence: tuples not encoded (labels used as indices)", "hypergraphx/linalg/linalg.py", "[tuple(encoder.transform(hye)) for hye in hypergraph.get_edges()]",
     "[tuple(hye) for hye in hypergraph.get_edges()]", 0, ["binary_incidence_matrix@mapping"], "ensures:entries"),
    ("inverse mapping: forward table returned", "hypergraphx/utils/labeling.py", "dict(zip(mapping.transform(mapping.classes_), mapping.classes_))",
     "dict(zip(mapping.classes_, mapping.transform(mapping.classes_)))", 0, ["get_inverse_mapping"], "ensures:dom"),
    ("contagion: the neighbour's NEW state is read (asynchronous update)", "hypergraphx/dynamics/contagion.py", "if I_old[neigh] == 1 and np.random.random() < beta:",
     "if I_new[neigh] == 1 and np.random.random() < beta:", 0, ["simplicial_contagion"], "loop1:preserved:done"),
    ("contagion: the count is written one entry too early", "hypergraphx/dynamics/contagion.py", "        numberInf[t] = Infected", "        numberInf[t - 1] = Infected", 0,
     ["simplicial_contagion"], "loop0:preserved:count"),
    # ---- hygiene-only and behaviour-preserving changes: nothing may fail
    ("binary incidence: an extra unused query", "hypergraphx/linalg/linalg.py", "    encoder = hypergraph.get_mapping()\n    hye_list", "    encoder = hypergraph.get_mapping()\n    shape0 = hypergraph.num_nodes()\n    hye_list", 0,
     ["binary_incidence_matrix@mapping", "binary_incidence_matrix"], None),
    ("motif connectivity test: neighbours queued again for a visited label (same answer)", "hypergraphx/motifs/utils.py",
     "        if node not in visited:\n            visited.add(node)\n            queue.extend(graph[node] - visited)", "        if node not in visited:\n            visited.add(node)\n        if True:\n            queue.extend(graph[node] - visited)", 0,
     ["_is_connected"], None),
    ("bfs: depth counter dropped from the queue records' use (same search)", "hypergraphx/utils/visits.py",
     "                queue.extend((n, depth + 1) for n in neighbors if n not in visited)", "                queue.extend((n, depth + 2) for n in neighbors if n not in visited)", 0, ["_bfs"], None),
    ("hash pre-image: renamed local", HG, "            edge_id = self._edge_list[edge]\n            edges.append(\n                {\n                    \"nodes\": sorted_edge,\n                    \"weight\": self._weights.get(edge_id, 1),\n                    \"metadata\": self._edge_metadata.get(edge_id, {}),",
     "            eid = self._edge_list[edge]\n            edges.append(\n                {\n                    \"nodes\": sorted_edge,\n                    \"weight\": self._weights[eid],\n                    \"metadata\": self._edge_metadata[eid],", 0,
     ["Hypergraph.expose_attributes_for_hashing"], None),
    ("remove_edge forgets del _weights (unobservable)", HG, "        del self._weights[self._edge_list[edge]]\n", "", 0, ["Hypergraph.remove_edge"], None),
    ("remove_edge forgets del _reverse_edge_list (unobservable)", HG, "        del self._reverse_edge_list[self._edge_list[edge]]\n", "", 0, ["Hypergraph.remove_edge"], None),
    ("add_edge: new local for the id, statements reordered", HG,
     "            self._edge_list[edge] = self._next_edge_id\n            self._reverse_edge_list[self._next_edge_id] = edge\n            self._weights[self._next_edge_id] = 1 if not self._weighted else weight\n            self._next_edge_id += 1\n",
     "            new_id = self._next_edge_id\n            self._next_edge_id = new_id + 1\n            self._weights[new_id] = weight if self._weighted else 1\n            self._reverse_edge_list[new_id] = edge\n            self._edge_list[edge] = new_id\n", 0,
     ["Hypergraph.add_edge"], None),
    ("add_edge: ids advance by two", HG, "            self._next_edge_id += 1\n            for node in edge:", "            self._next_edge_id += 2\n            for node in edge:", 0, ["Hypergraph.add_edge"], None),
    ("get_weight: renamed local, inverted test", HG, "        edge = tuple(sorted(edge))\n        if edge in self._edge_list:\n            edge_id = self._edge_list[edge]\n            return self._weights[edge_id]\n        else:\n            raise ValueError(\"Edge {} not in hypergraph.\".format(edge))",
     "        key = tuple(sorted(edge))\n        if key not in self._edge_list:\n            raise ValueError(\"Edge {} not in hypergraph.\".format(key))\n        return self._weights[self._edge_list[key]]", 0, ["Hypergraph.get_weight"], None),
]


def run():
    from .pyvc import axiom_check
    if axiom_check.run() != 0:        # the theory axioms evaluated in the intended model (evidence/axioms.json)
        return 1
    t0 = time.time()
    tmp = tempfile.mkdtemp(prefix="hvselftest.")
    ok_all = True
    src = os.path.join(os.environ.get("VERIF_REPO", "/repo"), "hypergraphx")
    from .pyvc.run import verify_guarded
    from .pyvc.engine import Engine                    # noqa: F401  (imported before the worker threads fork)
    from .contracts.registry import build
    build()

    def one(item):
        k, (name, f, old, new, occ, quals, expect) = item
        scratch = os.path.join(tmp, f"repo{k}")
        shutil.copytree(src, os.path.join(scratch, "hypergraphx"))
        try:
            path = os.path.join(scratch, f)
            s = open(path).read()
            if s.count(old) < occ + 1:
                return dict(case=name, verdict="STALE", note="pattern not found in the current source"), "BAD  " + name + ": stale pattern"
            idx = -1
            for _ in range(occ + 1):
                idx = s.index(old, idx + 1)
            open(path, "w").write(s[:idx] + new + s[idx + len(old):])
            failed, undecided = [], []
            for q in quals:
                r = verify_guarded((q, scratch, 20000))
                if r["status"] != "ok":
                    undecided.append(f"{q}: {r['status']} {r['reason'][:120]}")
                for o in r["obligations"]:
                    if o["kind"] != "canary" and o["status"] != "discharged" and o["tag"] != "hygiene":
                        failed.append(o["name"])
            good = (not failed and not undecided) if expect is None else any(expect in n for n in failed)
            res = dict(case=name, expected=("a failing obligation containing '%s'" % expect) if expect else "all obligations discharged",
                       failed=sorted(set(failed))[:6], undecided=undecided, verdict="OK" if good else "UNEXPECTED")
            return res, ("ok   " if good else "BAD  ") + name + (": " + ", ".join(sorted(set(failed))[:3]) if failed else "")
        finally:
            shutil.rmtree(scratch, ignore_errors=True)
    try:
        from concurrent.futures import ThreadPoolExecutor
        with ThreadPoolExecutor(max_workers=int(os.environ.get("VERIF_SELFTEST_JOBS", "8"))) as ex:
            outs = list(ex.map(one, enumerate(CASES)))
        results = [r for r, _ in outs]
        for _, line in outs:
            print(line)
        ok_all = all(r["verdict"] == "OK" for r in results)
    finally:
        shutil.rmtree(tmp, ignore_errors=True)
    ev = dict(cases=len(CASES), as_expected=sum(r["verdict"] == "OK" for r in results), results=results, wall_s=round(time.time() - t0, 1))
    os.makedirs(os.path.join(VERIF, "evidence"), exist_ok=True)
    json.dump(ev, open(os.path.join(VERIF, "evidence", "selftest.json"), "w"), indent=1)
    print(f"selftest: {ev['as_expected']}/{ev['cases']} as expected")
    return 0 if ok_all else 1


if __name__ == "__main__":
    sys.exit(run())
