"""./check <property> [--tier quick|thorough] [--replay FILE] [--update-baseline]

Decides one property: (D) deductive obligations generated from the real source of /repo's working tree and
discharged by z3, compared with the committed baseline of obligations; (B) the bounded stand-in (run-time
contracts on the real functions against a ghost model over a stated finite scope).
Exit 0 held / 1 violation / 2 undecided only / 3 checker problem.  See DESIGN.md §6.
"""
import argparse
import importlib
import json
import os
import sys
import time
import traceback

from . import common
from .common import VERIF, REPO

LOCK = os.path.join(VERIF, "obligations.lock.json")


def load_lock():
    if os.path.exists(LOCK):
        return json.load(open(LOCK))
    return {}


def run_D(prop, tier):
    """Returns dict with per-function results for the contracts serving this property."""
    from .contracts.registry import build
    from .pyvc.run import verify_many
    reg = build()
    quals = [q for q, c in reg.contracts.items() if prop in c.properties and not c.assumed]
    assumed = [q for q, c in reg.contracts.items() if prop in c.properties and c.assumed]
    if not quals:
        return None
    timeout = 20000 if tier == "quick" else 120000
    t0 = time.time()
    res = verify_many(quals, REPO, timeout_ms=timeout)
    # lemma axioms used by these contracts that are proved outside z3 (Lean): re-checked on every run
    lemmas = []
    files = []
    from .contracts import cc as _cc
    if any(reg.contracts[q].file.endswith(("utils/cc.py", "utils/visits.py", "motifs/utils.py")) or q.endswith("subhypergraph_largest_component") for q in quals):
        files = list(_cc.LEAN_LEMMAS)
    # the history-level induction (per-operation refinement => every history refines) for the four container properties and the
    # double-counting identity behind "degrees sum to the total size" (C08)
    if prop in ("C01", "C02", "C03", "C04", "C08"):
        files.append("lean/Refine.lean")
    if prop == "C18":
        files.append("lean/Vsum.lean")     # monotonicity and sign laws of sum(d.values()) used by the contagion contract
    if prop == "C16":
        files.append("lean/Occ.lean")      # occ_update: the count of a node over the chain state after one position is replaced
    for f in files:
        lemmas.append(check_lean(f))
    return dict(results=res, wall=time.time() - t0, assumed=assumed, lemmas=lemmas,
                assumed_notes={q: reg.contracts[q].note for q in assumed})


def check_lean(rel):
    import shutil
    import subprocess
    path = os.path.join(VERIF, rel)
    exe = shutil.which("lean")
    if exe is None:
        return dict(file=rel, checker="lean", status="not-run", detail="lean is not on PATH")
    t0 = time.time()
    try:
        r = subprocess.run([exe, path], capture_output=True, text=True, timeout=900, cwd=os.path.dirname(path))
        out = (r.stdout + r.stderr).strip()
        ok = r.returncode == 0 and "error" not in out.lower() and "sorry" not in out.lower()
        ver = subprocess.run([exe, "--version"], capture_output=True, text=True).stdout.strip()[:60]
        return dict(file=rel, checker=ver, status="accepted" if ok else "rejected", detail=out[:600], time_s=round(time.time() - t0, 1),
                    theorems=[ln.split()[1] for ln in open(path) if ln.startswith("theorem ")])
    except Exception as ex:  # noqa: BLE001
        return dict(file=rel, checker="lean", status="not-run", detail=f"{type(ex).__name__}: {ex}")


def summarize_D(prop, d, lock):
    base = set(lock.get(prop, []))
    out = dict(functions=[], obligations=0, discharged=0, failed=[], undecided=[], warnings=[], vacuous=[],
               new_undischarged=[], crashed=[], solver_time_s=0.0, by_name={})
    for r in d["results"]:
        fn = dict(qual=r["qual"], status=r["status"], paths=r["paths"], source=r["info"], reason=r["reason"][:400])
        out["functions"].append(fn)
        if r["status"] == "undecided":
            out["undecided"].append(dict(function=r["qual"], reason=r["reason"]))
            continue
        if r["status"] in ("crash", "contract-error"):
            out["crashed"].append(dict(function=r["qual"], reason=r["reason"]))
            continue
        per = {}
        for o in r["obligations"]:
            out["solver_time_s"] += o["time"]
            if o["kind"] == "canary":
                if o["status"] == "vacuous":
                    out["vacuous"].append(dict(function=r["qual"], trace=o["trace"]))
                continue
            per.setdefault(o["name"], []).append(o)
        for name, os_ in per.items():
            out["obligations"] += len(os_)
            bad = [o for o in os_ if o["status"] != "discharged"]
            out["discharged"] += len(os_) - len(bad)
            out["by_name"][name] = "discharged" if not bad else bad[0]["status"]
            if not bad:
                continue
            if all(o["status"] == "timeout" for o in bad):
                out["undecided"].append(dict(function=r["qual"], obligation=name, reason="solver timeout"))
            elif bad[0]["tag"] == "hygiene":
                out["warnings"].append(dict(obligation=name, note="latent: representation hygiene only (not observable)"))
            elif name in base or (name.endswith(":undeclared") and any(b.startswith(r["qual"] + ":") for b in base)):
                # (an exception the contract does not declare became possible on a path that is infeasible on the reference tree)
                out["failed"].append(dict(obligation=name, function=r["qual"], paths=[o["trace"] for o in bad][:4],
                                          solver=[o["reason"] for o in bad][:4]))
            else:
                out["new_undischarged"].append(dict(obligation=name, status=bad[0]["status"], trace=bad[0]["trace"]))
    # baseline obligations that were not generated at all (function moved / refactored beyond recognition)
    gen_funcs_ok = {r["qual"] for r in d["results"] if r["status"] == "ok"}
    for name in sorted(base):
        fn = name.split(":")[0]
        if name not in out["by_name"] and fn in gen_funcs_ok:
            out["undecided"].append(dict(function=fn, obligation=name, reason="baseline obligation was not generated on this tree"))
    return out


def run_B(prop, tier, seed):
    try:
        mod = importlib.import_module(f"hv.rt.{prop.lower()}")
    except ModuleNotFoundError as ex:
        if f"hv.rt.{prop.lower()}" in str(ex):
            return None
        raise
    common.use_repo()
    import warnings
    warnings.simplefilter("ignore")
    ctx = common.Ctx(prop, tier, seed)
    mod.run(ctx)
    return ctx


def main(argv=None):
    ap = argparse.ArgumentParser()
    ap.add_argument("prop")
    ap.add_argument("--tier", default=os.environ.get("VERIF_TIER", "quick"))
    ap.add_argument("--replay")
    ap.add_argument("--update-baseline", action="store_true")
    ap.add_argument("--no-b", action="store_true")
    ap.add_argument("--no-d", action="store_true")
    a = ap.parse_args(argv)
    prop, tier = a.prop, a.tier
    if tier not in ("quick", "thorough"):
        tier = "quick"
    seed = int(os.environ.get("VERIF_SEED", "0") or 0)
    t0 = time.time()

    if a.replay:
        return replay(prop, a.replay)

    from .props import PROPS
    meta = PROPS.get(prop, dict(level="exploration"))
    lock = load_lock()
    d = dsum = None
    checker_errors = []      # a crash of the machinery never hides a violation found by the other tier: reported, exit 3 only when nothing else was found
    if not a.no_d:
        try:
            d = run_D(prop, tier)
        except Exception:
            traceback.print_exc()
            checker_errors.append(f"CHECKER-ERROR property={prop} deductive tier crashed")
            if a.update_baseline or a.no_b:
                print(checker_errors[-1])
                return 3
    if a.update_baseline and d is None:
        return 0
    if d is None and a.no_b:
        print(f"CHECKER-ERROR property={prop}: nothing to run")
        return 3
    if d is not None:
        bad = [l for l in d.get("lemmas", []) if l["status"] == "rejected"]
        if bad:
            print(f"CHECKER-ERROR property={prop}: Lean rejected {bad[0]['file']}: {bad[0]['detail'][:300]}")
            return 3
        dsum = summarize_D(prop, d, lock)
        if a.update_baseline:
            new = sorted(n for n, st in dsum["by_name"].items() if st == "discharged")
            # re-recording must never hide a regression: a name that was discharged on the reference tree and is now generated but not
            # discharged stays in the lock (and therefore fails) unless the maintainer of the checks drops it on purpose
            lost = sorted(n for n in lock.get(prop, []) if n in dsum["by_name"] and dsum["by_name"][n] != "discharged")
            if lost and not os.environ.get("VERIF_BASELINE_DROP"):
                print(f"BASELINE-REFUSED property={prop}: {len(lost)} previously discharged obligation(s) are no longer discharged, e.g. {lost[:3]}; "
                      f"fix the regression or set VERIF_BASELINE_DROP=1")
                return 3
            lock[prop] = new
            json.dump(lock, open(LOCK, "w"), indent=0, sort_keys=True)
            print(f"baseline for {prop}: {len(lock[prop])} obligation names")
            return 0
    ctx = None
    if not a.no_b:
        try:
            ctx = run_B(prop, tier, seed)
        except Exception:
            traceback.print_exc()
            checker_errors.append(f"CHECKER-ERROR property={prop} bounded tier crashed")
            if dsum is None:
                print(checker_errors[-1])
                return 3

    lines, violations = [], 0
    # ---- bounded tier violations: each is a replayed failing input
    if ctx is not None:
        for key, kh in sorted(ctx.known_hits.items()):
            lines.append(f"KNOWN-FINDING: property={prop} {kh['what']}")
        seen = set()
        for v in ctx.violations:
            if v.key in seen:
                continue
            seen.add(v.key)
            path = common.write_replay(prop, v.key, dict(property=prop, kind="bounded-contract-failure", key=v.key, function=v.function,
                                       clause=v.clause, input=v.input, expected=v.expected, observed=v.observed,
                                       replay=v.replay, rerun=f"cd /verif && ./check {prop} --replay <this file>"))
            lines.append(f"VIOLATION property={prop} replay={path}")
            violations += 1
    # ---- deductive tier
    if dsum is not None:
        for c in dsum["crashed"]:
            checker_errors.append(f"CHECKER-ERROR {c['function']}: {c['reason'][-1500:]}")
        if dsum["vacuous"] and not dsum["failed"] and not dsum["crashed"]:
            # contradictory hypotheses with nothing failing: the contracts themselves are at fault. (With failing obligations a
            # contradictory path is a consequence of the failure - e.g. an invariant that does not hold at loop entry - and the
            # failures are reported instead.)
            print(f"CHECKER-ERROR vacuous hypotheses in {dsum['vacuous'][:3]}")
            return 3
        for f in dsum["failed"]:
            witness = None
            if ctx is not None:
                short = f["function"].split(".")[-1].split("[")[0]
                for v in ctx.violations:
                    hist = v.input.get("history") if isinstance(v.input, dict) else None
                    ops = [op[0] for op in hist if isinstance(op, (list, tuple)) and op] if isinstance(hist, list) else []
                    if short in v.function or short in ops:
                        witness = v
                        break
            payload = dict(property=prop, kind="deductive-obligation-failed", obligation=f["obligation"],
                           function=f["function"], failing_paths=f["paths"], solver_output=f["solver"],
                           note="this obligation is discharged on the reference tree (obligations.lock.json) and is not provable from "
                                "the current source with the same contracts",
                           witness=(dict(function=witness.function, clause=witness.clause, input=witness.input,
                                         expected=witness.expected, observed=witness.observed) if witness else None))
            path = common.write_replay(prop, "D-" + f["obligation"], payload)
            if witness:
                lines.append(f"VIOLATION property={prop} replay={path}")
            else:
                lines.append(f"VIOLATION property={prop} replay={path} no-failing-input-found")
            violations += 1
        if dsum["obligations"] == 0 and not dsum["undecided"]:
            checker_errors.append(f"CHECKER-ERROR property={prop}: zero obligations generated")

    # ---- evidence
    ev = build_evidence(prop, tier, seed, meta, d, dsum, ctx, violations, time.time() - t0)
    if a.no_b or a.no_d:
        # a development run of one tier only: the evidence file describes complete runs of the registered command and is left alone
        print(f"NOTE partial run (--no-b / --no-d): evidence/{prop}.json not rewritten")
    else:
        common.write_evidence(prop, ev)
    for ln in lines:
        print(ln)
    nd = f"D {dsum['discharged']}/{dsum['obligations']} obligations discharged, {len(dsum['undecided'])} undecided; " if dsum else ""
    nb = f"B {ctx.evaluations} evaluations, {len(ctx._distinct)} distinct non-trivial" if ctx else ""
    print(f"{prop} [{tier}] {nd}{nb} violations={violations} wall={time.time() - t0:.1f}s")
    if dsum is not None and dsum["undecided"]:
        print(f"NOTE property={prop}: {len(dsum['undecided'])} contracted function(s) outside the verifier's subset on this tree (undecided, bounded tier decides alone): "
              + "; ".join(f"{u['function']}: {u['reason'][:80]}" for u in dsum["undecided"][:4]))
    for ce in checker_errors:
        print(ce)
    if violations:
        return 1
    if checker_errors:
        return 3
    if ctx is None and dsum is not None and dsum["discharged"] == 0:
        return 2
    return 0


def build_evidence(prop, tier, seed, meta, d, dsum, ctx, violations, wall):
    from .pyvc.theory import THEORY, EXTRA
    cov = {}
    assumptions = list(meta.get("assumptions", []))
    if ctx is not None:
        cov.update(evaluations=ctx.evaluations, distinct_nontrivial=len(ctx._distinct),
                   rule=" | ".join(ctx.rules) or meta.get("rule", ""), samples=ctx.samples[:12],
                   counters=ctx.counters, contract_clause_evaluations=ctx.contract_evals,
                   exhaustive=bool(ctx.exhaustive_parts), exhaustive_parts=ctx.exhaustive_parts,
                   known_findings_hit=sorted(ctx.known_hits))
        assumptions += ctx.assumptions
    if dsum is not None:
        cov.update(obligations=dsum["obligations"], discharged=dsum["discharged"],
                   checker_cmd=f"cd /verif && ./check {prop} --tier {tier}",
                   backend="z3 %s (E-matching only, mbqi off), one query per (function, clause, path)" % _z3v(),
                   solver_time_s=round(dsum["solver_time_s"], 3),
                   functions_under_contract=dsum["functions"],
                   undecided=dsum["undecided"], hygiene_warnings=dsum["warnings"],
                   undischarged_not_in_baseline=dsum["new_undischarged"], failed=dsum["failed"],
                   assumed_contracts=d["assumed_notes"], lemmas_checked_outside_z3=d.get("lemmas", []),
                   trusted_base=["pyvc encoding of the PyV subset (hv/pyvc, unverified; DESIGN.md §3.2/3.3)",
                                 "node labels modelled as integers (only = and < are used); weights as mathematical reals",
                                 "lists whose order is irrelevant are modelled as bags; dict order not modelled",
                                 "metadata dicts are opaque values without aliasing", "z3", "CPython ast",
                                 "termination is not proved"] + [f"theory axiom {n}" for n in THEORY] +
                                [f"contract-module axiom {n}" for n in sorted(EXTRA)] +
                                [f"assumed contract {q}: {n}" for q, n in d["assumed_notes"].items()])
        if ctx is None:
            names = sorted(dsum["by_name"])
            cov.setdefault("evaluations", dsum["obligations"])
            cov.setdefault("distinct_nontrivial", len(names))
            cov.setdefault("rule", "one obligation per (function, clause, path); distinct = distinct obligation names")
            cov.setdefault("samples", names[:8])
    return dict(property_id=prop, tier=tier, seed=seed, level=meta["level"], coverage=cov,
                assumptions=assumptions, wall_s=round(wall, 2), violations=violations)


def _z3v():
    try:
        import z3
        return z3.get_version_string()
    except Exception:
        return "?"


def replay(prop, path):
    common.use_repo()
    data = json.load(open(path))
    if data.get("kind") == "bounded-contract-failure" and data.get("replay"):
        mod = importlib.import_module(f"hv.rt.{prop.lower()}")
        ok, msg = mod.replay(data["replay"])
        print(("REPLAY-HOLDS " if ok else "REPLAY-FAILS ") + msg)
        return 0 if ok else 1
    print(json.dumps(data, indent=1)[:4000])
    print("no executable replay recorded for this violation (deductive obligation without a failing input)")
    return 0


if __name__ == "__main__":
    sys.exit(main())
