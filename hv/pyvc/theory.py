"""Built-in theory: the *assumed* contracts of Python built-ins on the sorts of ty.py (DESIGN.md §3.4).

Every axiom has a name; the whole dict is listed in each evidence file under trusted_base.
Guards (hv/pyvc/theory_check.py): each axiom is instantiated on all concrete tuples over {0,1,2} of
length <= 3 with the functions interpreted by CPython (a wrong axiom about Python shows up as unsat),
and the axiom set alone must not prove False.
"""
import z3
from .ty import I, B, R, TupS, MetaS, FieldS, ValS

tlen = z3.Function("tlen", TupS, I)              # len(k)
tat = z3.Function("tat", TupS, I, I)             # k[j]
tmem = z3.Function("tmem", TupS, I, B)           # n in k
pmem = z3.Function("pmem", TupS, I, I, B)        # n in k[:j]
strict = z3.Function("strict", TupS, B)          # k strictly increasing (canonical form of a hyperedge)
distinct_t = z3.Function("distinct_t", TupS, B)  # no repeated element
canon = z3.Function("canon", TupS, TupS)         # tuple(sorted(k))
tfilter_ne = z3.Function("tfilter_ne", TupS, I, TupS)  # tuple(n for n in k if n != x)
tdiff = z3.Function("tdiff", TupS, TupS, I)      # Skolem witness: an element on which two strict tuples differ
tsingle = z3.Function("tsingle", I, TupS)        # (x,)
twith = z3.Function("twith", TupS, I, TupS)      # the canonical tuple with the members of k and x (specification only)
EMPTY_TUP = z3.Const("EMPTY_TUP", TupS)          # ()

# prefix sum over parallel lists (edges, weights): sum of the weights (1 when no weight list) of the first j hyperedges whose
# canonical form is k -- a specification function defined by its fold axioms
RDIV = z3.Function("rdiv", R, R, R)     # x / y, uninterpreted
PSUM = z3.Function("psum", z3.ArraySort(I, TupS), B, z3.ArraySort(I, R), I, TupS, R)

EMPTY_META = z3.Const("EMPTY_META", MetaS)
mhas = z3.Function("mhas", MetaS, FieldS, B)
mget = z3.Function("mget", MetaS, FieldS, ValS)
mset = z3.Function("mset", MetaS, FieldS, ValS, MetaS)
mdel = z3.Function("mdel", MetaS, FieldS, MetaS)

_k, _k2 = z3.Const("_k", TupS), z3.Const("_k2", TupS)
_n, _j, _x = z3.Int("_n"), z3.Int("_j"), z3.Int("_x")
_ae, _aw, _hw = z3.Const("_ae", z3.ArraySort(I, TupS)), z3.Const("_aw", z3.ArraySort(I, R)), z3.Bool("_hw")
_m = z3.Const("_m", MetaS)
_f, _g = z3.Const("_f", FieldS), z3.Const("_g", FieldS)
_v = z3.Const("_v", ValS)


def FA(vs, body, *pats):
    return z3.ForAll(vs, body, patterns=list(pats)) if pats else z3.ForAll(vs, body)


MP = z3.MultiPattern

THEORY = {
    # ---- tuples of node labels
    "tlen_nonneg": FA([_k], tlen(_k) >= 0, tlen(_k)),
    "pmem_0": FA([_k, _n], z3.Not(pmem(_k, 0, _n)), pmem(_k, 0, _n)),
    "pmem_step": FA([_k, _j, _n], z3.Implies(z3.And(0 <= _j, _j < tlen(_k)),
                    pmem(_k, _j + 1, _n) == z3.Or(pmem(_k, _j, _n), tat(_k, _j) == _n)), pmem(_k, _j + 1, _n)),
    "pmem_full": FA([_k, _n], pmem(_k, tlen(_k), _n) == tmem(_k, _n), tmem(_k, _n), pmem(_k, tlen(_k), _n)),
    "pmem_mono": FA([_k, _j, _n], z3.Implies(z3.And(0 <= _j, _j <= tlen(_k), pmem(_k, _j, _n)), tmem(_k, _n)),
                    pmem(_k, _j, _n)),
    "tat_mem": FA([_k, _j], z3.Implies(z3.And(0 <= _j, _j < tlen(_k)), tmem(_k, tat(_k, _j))), tat(_k, _j)),
    "distinct_prefix": FA([_k, _j], z3.Implies(z3.And(distinct_t(_k), 0 <= _j, _j < tlen(_k)),
                          z3.Not(pmem(_k, _j, tat(_k, _j)))), pmem(_k, _j, tat(_k, _j)), MP(distinct_t(_k), tat(_k, _j))),
    "strict_distinct": FA([_k], z3.Implies(strict(_k), distinct_t(_k)), strict(_k)),
    "mem_len": FA([_k, _n], z3.Implies(tmem(_k, _n), tlen(_k) >= 1), tmem(_k, _n)),
    "empty_tup": z3.And(tlen(EMPTY_TUP) == 0, strict(EMPTY_TUP)),
    "len0_nomem": FA([_k, _n], z3.Implies(tlen(_k) == 0, z3.Not(tmem(_k, _n))), tmem(_k, _n)),
    # ---- canonical form: tuple(sorted(k))
    "canon_strict": FA([_k], z3.Implies(distinct_t(_k), strict(canon(_k))), canon(_k)),
    "canon_mem": FA([_k, _n], tmem(canon(_k), _n) == tmem(_k, _n), tmem(canon(_k), _n), MP(tmem(_k, _n), canon(_k))),
    "canon_len": FA([_k], tlen(canon(_k)) == tlen(_k), canon(_k)),
    "canon_idem": FA([_k], z3.Implies(strict(_k), canon(_k) == _k), canon(_k)),
    # two strict tuples with the same members are the same tuple (Skolemised extensionality)
    "strict_ext": FA([_k, _k2], z3.Implies(z3.And(strict(_k), strict(_k2), _k != _k2),
                     tmem(_k, tdiff(_k, _k2)) != tmem(_k2, tdiff(_k, _k2))), tdiff(_k, _k2)),
    # ---- tuple(n for n in k if n != x)
    "tfilter_mem": FA([_k, _x, _n], tmem(tfilter_ne(_k, _x), _n) == z3.And(tmem(_k, _n), _n != _x),
                      tmem(tfilter_ne(_k, _x), _n), MP(tmem(_k, _n), tfilter_ne(_k, _x))),
    "tfilter_distinct": FA([_k, _x], z3.Implies(distinct_t(_k), distinct_t(tfilter_ne(_k, _x))), tfilter_ne(_k, _x)),
    "tfilter_strict": FA([_k, _x], z3.Implies(strict(_k), strict(tfilter_ne(_k, _x))), tfilter_ne(_k, _x)),
    "tfilter_len": FA([_k, _x], z3.Implies(distinct_t(_k),
                      tlen(tfilter_ne(_k, _x)) == tlen(_k) - z3.If(tmem(_k, _x), 1, 0)), tfilter_ne(_k, _x)),
    # ---- prefix sums over parallel lists
    "psum_0": FA([_ae, _hw, _aw, _k], PSUM(_ae, _hw, _aw, 0, _k) == 0, PSUM(_ae, _hw, _aw, 0, _k)),
    "psum_step": FA([_ae, _hw, _aw, _j, _k], z3.Implies(_j >= 0, PSUM(_ae, _hw, _aw, _j + 1, _k) == PSUM(_ae, _hw, _aw, _j, _k) +
                    z3.If(canon(_ae[_j]) == _k, z3.If(_hw, _aw[_j], z3.RealVal(1)), z3.RealVal(0))), PSUM(_ae, _hw, _aw, _j + 1, _k)),
    # ---- canonical tuple k + {x} (inverse of tfilter_ne on canonical tuples)
    "twith_def": FA([_k, _x], z3.Implies(z3.And(strict(_k), z3.Not(tmem(_k, _x))),
                    z3.And(strict(twith(_k, _x)), tlen(twith(_k, _x)) == tlen(_k) + 1, tfilter_ne(twith(_k, _x), _x) == _k)), twith(_k, _x)),
    "twith_mem": FA([_k, _x, _n], z3.Implies(z3.And(strict(_k), z3.Not(tmem(_k, _x))), tmem(twith(_k, _x), _n) == z3.Or(tmem(_k, _n), _n == _x)),
                    tmem(twith(_k, _x), _n)),
    "twith_inv": FA([_k, _x], z3.Implies(z3.And(strict(_k), tmem(_k, _x)), twith(tfilter_ne(_k, _x), _x) == _k), tfilter_ne(_k, _x)),
    # ---- (x,)
    "tsingle": FA([_x], z3.And(tlen(tsingle(_x)) == 1, strict(tsingle(_x)), tat(tsingle(_x), 0) == _x), tsingle(_x)),
    "tsingle_mem": FA([_x, _n], tmem(tsingle(_x), _n) == (_n == _x), tmem(tsingle(_x), _n)),
    # ---- metadata dicts
    "meta_empty": FA([_f], z3.Not(mhas(EMPTY_META, _f)), mhas(EMPTY_META, _f)),
    "mset_has": FA([_m, _f, _v, _g], mhas(mset(_m, _f, _v), _g) == z3.Or(_f == _g, mhas(_m, _g)), mhas(mset(_m, _f, _v), _g)),
    "mset_get": FA([_m, _f, _v, _g], mget(mset(_m, _f, _v), _g) == z3.If(_f == _g, _v, mget(_m, _g)), mget(mset(_m, _f, _v), _g)),
    "mdel_has": FA([_m, _f, _g], mhas(mdel(_m, _f), _g) == z3.And(_f != _g, mhas(_m, _g)), mhas(mdel(_m, _f), _g)),
    "mdel_get": FA([_m, _f, _g], z3.Implies(_f != _g, mget(mdel(_m, _f), _g) == mget(_m, _g)), mget(mdel(_m, _f), _g)),
}

TRUSTED_THEORY_NOTE = [f"theory axiom {name}" for name in THEORY]


def set_ops(e):
    from . import ty as T
    st = T.Set(e)
    n = T._sname(e)
    return (z3.Function(f"set_union_{n}", st.sort(), st.sort(), st.sort()),
            z3.Function(f"set_inter_{n}", st.sort(), st.sort(), st.sort()),
            z3.Function(f"set_diff_{n}", st.sort(), st.sort(), st.sort()))


def some_fn(e):
    """some_<E>(s): a member of the set s if it has one (Skolem function of the emptiness test, axiom some_def)."""
    from . import ty as T
    return z3.Function(f"some_{T._sname(e)}", T.Set(e).sort(), e.sort())


def _some_axiom(sort, esort, some):
    from . import ty as T
    so, eo, f = sort.sexpr(), esort.sexpr(), some.name()
    txt = f"(assert (forall ((s {so}) (x {eo})) (! (=> (select s x) (select s ({f} s))) :pattern ((select s x) ({f} s)))))"
    sorts = {x.name(): x for x in (T.TupS, T.MetaS, T.LayerS, T.StrS, T.FieldS, T.ValS, T.VNameS, T.VObjS)}
    sorts.update({x.name(): x for x in T._pairs.values()})
    return z3.parse_smt2_string(txt, sorts=sorts, decls={f: some})[0]


def bagof_fn(e):
    """list(s) for a set / dict keys s: every member once (order not modelled)."""
    from . import ty as T
    return z3.Function(f"bagof_{T._sname(e)}", T.Set(e).sort(), T.Bag(e).sort())


def supp_fn(e):
    from . import ty as T
    return z3.Function(f"supp_{T._sname(e)}", T.Bag(e).sort(), T.Set(e).sort())


def _ext_axiom(sort, diff, size):
    so = sort.sexpr()
    d, f = diff.name(), size.name()
    txt = (f"(assert (forall ((s {so}) (t {so})) (! (or (= s t) (not (= (select s ({d} s t)) (select t ({d} s t))))) "
           f":pattern (({f} s) ({f} t)))))")
    from . import ty as T
    sorts = {x.name(): x for x in (T.TupS, T.MetaS, T.LayerS, T.StrS, T.FieldS, T.ValS, T.VNameS, T.VObjS)}
    sorts.update({x.name(): x for x in T._pairs.values()})
    return z3.parse_smt2_string(txt, sorts=sorts, decls={d: diff, f: size})[0]


def _pos_axiom(sort, esort, size, is_bag):
    """A collection with a member has positive length (multi-pattern {member test, length})."""
    from . import ty as T
    so, eo, f = sort.sexpr(), esort.sexpr(), size.name()
    mem = "(>= (select s x) 1)" if is_bag else "(select s x)"
    txt = f"(assert (forall ((s {so}) (x {eo})) (! (=> {mem} (>= ({f} s) 1)) :pattern ((select s x) ({f} s)))))"
    sorts = {x.name(): x for x in (T.TupS, T.MetaS, T.LayerS, T.StrS, T.FieldS, T.ValS, T.VNameS, T.VObjS)}
    sorts.update({x.name(): x for x in T._pairs.values()})
    return z3.parse_smt2_string(txt, sorts=sorts, decls={f: size})[0]


def _mono_axiom(sort, esort, size, n):
    """A subset is no larger: either the Skolem witness shows a is not a subset of b, or card(a) <= card(b)."""
    from . import ty as T
    so, f = sort.sexpr(), size.name()
    w = z3.Function(f"subset_witness_{n}", sort, sort, esort)
    txt = (f"(assert (forall ((a {so}) (b {so})) (! (or (and (select a ({w.name()} a b)) (not (select b ({w.name()} a b)))) (<= ({f} a) ({f} b))) "
           f":pattern (({f} a) ({f} b)))))")
    sorts = {x.name(): x for x in (T.TupS, T.MetaS, T.LayerS, T.StrS, T.FieldS, T.ValS, T.VNameS, T.VObjS)}
    sorts.update({x.name(): x for x in T._pairs.values()})
    return z3.parse_smt2_string(txt, sorts=sorts, decls={f: size, w.name(): w})[0]


_coll_cache = {}


def collection_axioms(e):
    if e.name not in _coll_cache:
        _coll_cache[e.name] = _collection_axioms(e)
    return _coll_cache[e.name]


def _collection_axioms(e):
    """Axioms about len() of bags and sets over element type e (finite collections)."""
    from . import ty as T
    bt, st = T.Bag(e), T.Set(e)
    blen, card = bt.blen(), st.card()
    n = T._sname(e)
    supp = z3.Function(f"supp_{n}", bt.sort(), st.sort())          # set(list)
    w01 = z3.Function(f"w01_{n}", bt.sort(), e.sort())             # Skolem: an element with multiplicity > 1 if any
    sd = z3.Function(f"sdiff_{n}", st.sort(), st.sort(), e.sort()) # Skolem: an element on which two sets differ
    bd = z3.Function(f"bdiff_{n}", bt.sort(), bt.sort(), e.sort())
    b, b2 = z3.Const("_b", bt.sort()), z3.Const("_b2", bt.sort())
    s, s2 = z3.Const("_s", st.sort()), z3.Const("_s2", st.sort())
    x = z3.Const("_e", e.sort())
    su, si, sdf = set_ops(e)
    bagof = bagof_fn(e)
    return {
        f"bagof_def[{n}]": FA([s, x], bagof(s)[x] == z3.If(s[x], 1, 0), bagof(s)[x]),
        f"bagof_len[{n}]": FA([s], blen(bagof(s)) == card(s), bagof(s)),
        # set algebra (a | b, a & b, a - b) with the cardinality laws of finite sets
        f"union_def[{n}]": FA([s, s2, x], su(s, s2)[x] == z3.Or(s[x], s2[x]), su(s, s2)[x]),
        f"inter_def[{n}]": FA([s, s2, x], si(s, s2)[x] == z3.And(s[x], s2[x]), si(s, s2)[x]),
        f"diff_def[{n}]": FA([s, s2, x], sdf(s, s2)[x] == z3.And(s[x], z3.Not(s2[x])), sdf(s, s2)[x]),
        f"card_union[{n}]": FA([s, s2], card(su(s, s2)) + card(si(s, s2)) == card(s) + card(s2), card(su(s, s2))),
        f"card_inter[{n}]": FA([s, s2], z3.And(card(si(s, s2)) <= card(s), card(si(s, s2)) <= card(s2)), card(si(s, s2))),
        f"card_diff[{n}]": FA([s, s2], card(sdf(s, s2)) == card(s) - card(si(s, s2)), card(sdf(s, s2))),
        f"supp_def[{n}]": FA([b, x], supp(b)[x] == (b[x] >= 1), supp(b)[x]),
        # a duplicate-free list is as long as its set of elements
        f"bag01_len[{n}]": FA([b], z3.Implies(z3.And(0 <= b[w01(b)], b[w01(b)] <= 1), blen(b) == card(supp(b))), blen(b)),
        # extensionality, tried for every pair of collections whose length is mentioned (multi-pattern; built from
        # SMT-LIB text because z3's Python MultiPattern is unreliable on array-sorted arguments)
        f"card_pos[{n}]": _pos_axiom(st.sort(), e.sort(), card, False),
        f"blen_pos[{n}]": _pos_axiom(bt.sort(), e.sort(), blen, True),
        f"card_mono[{n}]": _mono_axiom(st.sort(), e.sort(), card, n),
        f"card_ext[{n}]": _ext_axiom(st.sort(), sd, card),
        f"blen_ext[{n}]": _ext_axiom(bt.sort(), bd, blen),
        # the emptiness test of option "empty_tests": a set with a member contains some(s); instantiated only where some(s) is mentioned
        f"some_def[{n}]": _some_axiom(st.sort(), e.sort(), some_fn(e)),
        f"card_nonneg[{n}]": FA([s], card(s) >= 0, card(s)),
        f"blen_nonneg[{n}]": FA([b], blen(b) >= 0, blen(b)),
        f"card_empty[{n}]": card(z3.K(e.sort(), z3.BoolVal(False))) == 0,
        f"blen_empty[{n}]": blen(z3.K(e.sort(), z3.IntVal(0))) == 0,
        f"card_add[{n}]": FA([s, x], card(z3.Store(s, x, True)) == card(s) + z3.If(s[x], 0, 1), card(z3.Store(s, x, True))),
        f"card_del[{n}]": FA([s, x], card(z3.Store(s, x, False)) == card(s) - z3.If(s[x], 1, 0), card(z3.Store(s, x, False))),
    }


SEQ_TOREAL = z3.Function("seq_toreal", z3.ArraySort(I, I), z3.ArraySort(I, R))     # a list of ints read as a list of floats
_sa, _sj = z3.Const("_sa", z3.ArraySort(I, I)), z3.Int("_sj")
THEORY["seq_toreal_def"] = z3.ForAll([_sa, _sj], SEQ_TOREAL(_sa)[_sj] == z3.ToReal(_sa[_sj]), patterns=[SEQ_TOREAL(_sa)[_sj]])

# row-major position of a[i, j] in a.flatten() for an array with c columns, and the length of the flattened array: specification functions
# (their arithmetic definitions i * c + j and r * c are nonlinear and not needed by any proof; they are stated in DESIGN.md, not to the solver)
FLAT = z3.Function("flat_index", I, I, I, I)
FLATLEN = z3.Function("flat_len", I, I, I)

tpair = z3.Function("tpair", I, I, TupS)          # the literal 2-tuple (a, b) (used for literals only under the contract option "pair_literals")

# set(k) for a node tuple k as a function of k (used under the contract option "tuple_sets": two mentions of set(k) are one term),
# and |a & b| as a binary specification function on node sets (scommon_def ties it to the cardinality of the intersection)
_SetI = z3.ArraySort(I, B)
tset = z3.Function("tset", TupS, _SetI)
scommon = z3.Function("scommon", _SetI, _SetI, I)
sjaccard = z3.Function("sjaccard", _SetI, _SetI, R)       # |a & b| / |a | b| as one specification term (sjaccard_def in hv/contracts/similarity.py)

def _pair_ii():
    from . import ty as T
    return T.Pair(T.INT, T.INT)


ROWSUM = z3.Function("rowsum", z3.ArraySort(_pair_ii().sort(), R), I, I, R)      # sum of the c cells of row i of a table of numbers
RSDIFF = z3.Function("rowsum_diff", z3.ArraySort(_pair_ii().sort(), R), z3.ArraySort(_pair_ii().sort(), R), I, I, I)


def nx_centrality(kind, cls, vt=None):
    """networkx centrality of a graph: vertex -> value, an uninterpreted function of the graph's components."""
    from . import ty as T
    vt = vt or T.INT
    pt = T.Pair(vt, vt)
    return z3.Function(f"nx_{kind}_{cls}", z3.ArraySort(vt.sort(), B), z3.ArraySort(pt.sort(), B), z3.ArraySort(pt.sort(), B), z3.ArraySort(pt.sort(), R),
                       z3.ArraySort(vt.sort(), R))


# members(B): the set of all node labels occurring in the tuples of the list B  (set(itertools.chain(*B)))
_BagT = z3.ArraySort(TupS, I)
members = z3.Function("members", _BagT, _SetI)
members_wit = z3.Function("members_wit", _BagT, I, TupS)

EXTRA = {}    # name -> axiom, registered by contract modules (assumed properties of uncontracted code; listed as trusted)


_m1, _m2 = z3.Const("_rm1", z3.ArraySort(_pair_ii().sort(), R)), z3.Const("_rm2", z3.ArraySort(_pair_ii().sort(), R))
_ri, _rc = z3.Int("_ri"), z3.Int("_rc")
EXTRA["rowsum_ext (a row sum depends only on the cells of that row)"] = z3.ForAll(
    [_m1, _m2, _ri, _rc], z3.Or(ROWSUM(_m1, _ri, _rc) == ROWSUM(_m2, _ri, _rc),
                                z3.And(0 <= RSDIFF(_m1, _m2, _ri, _rc), RSDIFF(_m1, _m2, _ri, _rc) < _rc,
                                       _m1[_pair_ii().mk(_ri, RSDIFF(_m1, _m2, _ri, _rc))] != _m2[_pair_ii().mk(_ri, RSDIFF(_m1, _m2, _ri, _rc))])),
    patterns=[MP(ROWSUM(_m1, _ri, _rc), ROWSUM(_m2, _ri, _rc))])
_mb = z3.Const("_mb", _BagT)
EXTRA["members_intro (a label of a listed tuple is a member)"] = z3.ForAll(
    [_mb, _k, _n], z3.Implies(z3.And(_mb[_k] >= 1, tmem(_k, _n)), members(_mb)[_n]), patterns=[MP(members(_mb), _mb[_k], tmem(_k, _n))])
EXTRA["members_elim (a member is a label of some listed tuple)"] = z3.ForAll(
    [_mb, _n], z3.Implies(members(_mb)[_n], z3.And(_mb[members_wit(_mb, _n)] >= 1, tmem(members_wit(_mb, _n), _n))), patterns=[members(_mb)[_n]])
# a subset that is at least as large is the whole set (finite sets of labels); Skolem witness of non-inclusion
_subw = z3.Function("subset_eq_wit", _SetI, _SetI, I)
_cardI = z3.Function("card_Int", _SetI, I)
# instantiated only for a set of members(...) as the larger set, so that it does not multiply with every pair of cardinalities in a query
EXTRA["card_subset_eq (a subset of members(B) that is at least as large is all of it; finite sets)"] = z3.ForAll(
    [_ts1a := z3.Const("_ts1a", _SetI), _mb2 := z3.Const("_mb2", _BagT)],
    z3.Or(z3.And(_ts1a[_subw(_ts1a, members(_mb2))], z3.Not(members(_mb2)[_subw(_ts1a, members(_mb2))])), _cardI(_ts1a) < _cardI(members(_mb2)), _ts1a == members(_mb2)),
    patterns=[MP(_cardI(_ts1a), _cardI(members(_mb2)))])
_pa, _pb = z3.Int("_pa"), z3.Int("_pb")
_ts1, _ts2 = z3.Const("_ts1", _SetI), z3.Const("_ts2", _SetI)
EXTRA.update({
    "tset_def (members of set(k))": z3.ForAll([_k, _n], tset(_k)[_n] == tmem(_k, _n), patterns=[tset(_k)[_n], MP(tmem(_k, _n), tset(_k))]),
    "scommon_sym (|a & b| = |b & a|)": z3.ForAll([_ts1, _ts2], scommon(_ts1, _ts2) == scommon(_ts2, _ts1), patterns=[scommon(_ts1, _ts2)]),
    "sjaccard_sym (J(a, b) = J(b, a))": z3.ForAll([_ts1, _ts2], sjaccard(_ts1, _ts2) == sjaccard(_ts2, _ts1), patterns=[sjaccard(_ts1, _ts2)]),
    "scommon_nonneg": z3.ForAll([_ts1, _ts2], scommon(_ts1, _ts2) >= 0, patterns=[scommon(_ts1, _ts2)]),
    "tpair_def ((a, b) has length 2, holds a then b, and nothing else)": z3.ForAll(
        [_pa, _pb], z3.And(tlen(tpair(_pa, _pb)) == 2, tat(tpair(_pa, _pb), 0) == _pa, tat(tpair(_pa, _pb), 1) == _pb,
                           tmem(tpair(_pa, _pb), _pa), tmem(tpair(_pa, _pb), _pb), distinct_t(tpair(_pa, _pb)) == (_pa != _pb)),
        patterns=[tpair(_pa, _pb)]),
    "tpair_mem": z3.ForAll([_pa, _pb, _n], tmem(tpair(_pa, _pb), _n) == z3.Or(_n == _pa, _n == _pb), patterns=[tmem(tpair(_pa, _pb), _n)]),
    "tpair_sorted_sym (sorting (a, b) and (b, a) gives the same tuple)": z3.ForAll(
        [_pa, _pb], canon(tpair(_pa, _pb)) == canon(tpair(_pb, _pa)), patterns=[canon(tpair(_pa, _pb))]),
})


def decl_names(exprs, _cache={}):
    """Names of the uninterpreted function symbols occurring in the given z3 expressions."""
    out, seen, todo = set(), set(), list(exprs)
    while todo:
        t = todo.pop()
        i = t.get_id()
        if i in seen:
            continue
        seen.add(i)
        if z3.is_quantifier(t):
            todo.append(t.body())
            for k in range(t.num_patterns()):
                todo.append(t.pattern(k))
        elif z3.is_app(t):
            if t.decl().kind() == z3.Z3_OP_UNINTERPRETED and t.num_args() > 0:
                out.add(t.decl().name())
            todo.extend(t.children())
    return out


_extra_syms = {}


def extra_for(exprs):
    """The contract-module axioms (EXTRA) relevant to a query: those that share one of *their own* symbols (symbols no core axiom mentions,
    e.g. COMP, closed, bsum_d, hist) with the query, closed under that relation.  An axiom about symbols that do not occur in the query cannot
    contribute to its proof (the EXTRA axioms are definitions of, or lemmas about, exactly those symbols), and leaving it out keeps the
    instantiation space - and with it the verdict on an unprovable goal - independent of what other contract modules register."""
    core = _extra_syms.get("__core__")
    if core is None:
        core = _extra_syms["__core__"] = decl_names(THEORY.values())
    for n, a in EXTRA.items():
        if n not in _extra_syms:
            _extra_syms[n] = decl_names([a]) - core
    have = decl_names(exprs)
    chosen, changed = {}, True
    while changed:
        changed = False
        for n, a in EXTRA.items():
            if n not in chosen and _extra_syms[n] & have:
                chosen[n] = a
                have |= _extra_syms[n]
                changed = True
    return chosen


# vsum(dom, val): the sum of val over the finite key set dom (sum(d.values()) of a dict of ints). Laws of a finite sum, proved in lean/Vsum.lean:
_vd, _vv, _vw = z3.Const("_vd", z3.ArraySort(I, B)), z3.Const("_vv", z3.ArraySort(I, I)), z3.Const("_vw", z3.ArraySort(I, I))
VSUM = z3.Function("vsum", z3.ArraySort(I, B), z3.ArraySort(I, I), I)
VSW = z3.Function("vsum_wit", z3.ArraySort(I, B), z3.ArraySort(I, I), z3.ArraySort(I, I), I)      # Skolem: a key where the premise of a law fails
VSZ = z3.Function("vsum_pos", z3.ArraySort(I, B), z3.ArraySort(I, I), I)                            # Skolem: a key with a non-zero value / a negative value
_w = VSW(_vd, _vv, _vw)
_z = VSZ(_vd, _vv)
EXTRA.update({
    # pointwise <= on the keys gives <= of the sums (or the witness key violates the premise)
    "vsum_mono (lemma, Lean)": z3.ForAll([_vd, _vv, _vw], z3.Or(z3.And(_vd[_w], _vv[_w] > _vw[_w]), VSUM(_vd, _vv) <= VSUM(_vd, _vw)),
                                         patterns=[z3.MultiPattern(VSUM(_vd, _vv), VSUM(_vd, _vw))]),
    # a sum of non-negative values is non-negative, and zero only if every value is zero
    "vsum_nonneg (lemma, Lean)": z3.ForAll([_vd, _vv], z3.Or(z3.And(_vd[_z], _vv[_z] < 0), VSUM(_vd, _vv) >= 0), patterns=[VSUM(_vd, _vv)]),
    "vsum_zero (lemma, Lean)": z3.ForAll([_vd, _vv, z3.Int("_vx")], z3.Or(z3.And(_vd[_z], _vv[_z] < 0), VSUM(_vd, _vv) > 0,
                                                                        z3.Not(_vd[z3.Int("_vx")]), _vv[z3.Int("_vx")] == 0),
                                         patterns=[z3.MultiPattern(VSUM(_vd, _vv), _vv[z3.Int("_vx")])]),
})

# coo_pos(rows, columns, len, i, j): some position of the two coordinate lists that addresses (i, j), if there is one (choice function)
_AII = z3.ArraySort(I, I)
coo_pos = z3.Function("coo_pos", _AII, _AII, I, I, I, I)
EXTRA["coo_pos_def (choice function: if some position addresses (i, j), coo_pos is such a position)"] = z3.parse_smt2_string(
    "(assert (forall ((r (Array Int Int)) (c (Array Int Int)) (n Int) (i Int) (j Int) (p Int)) "
    "(! (=> (and (<= 0 p) (< p n) (= (select r p) i) (= (select c p) j)) "
    "(and (<= 0 (coo_pos r c n i j)) (< (coo_pos r c n i j) n) (= (select r (coo_pos r c n i j)) i) (= (select c (coo_pos r c n i j)) j))) "
    ":pattern ((select r p) (coo_pos r c n i j)))))", decls={"coo_pos": coo_pos})[0]


def all_axioms(scope=None):
    from . import ty as T
    out = dict(THEORY)
    out.update(EXTRA if scope is None else extra_for(scope))
    for e in list(T.ELEM_TYPES.values()):
        out.update(collection_axioms(e))
    return out


_sorted_fns = {}


def sorted_fn(e):
    """SORTED_<K>: set -> position -> element, the canonical (sorted) listing of a finite set; uninterpreted."""
    key = e.name
    if key not in _sorted_fns:
        nm = "".join(ch if ch.isalnum() else "_" for ch in e.name)
        _sorted_fns[key] = (z3.Function("sorted_" + nm, z3.ArraySort(e.sort(), B), z3.ArraySort(I, e.sort())),
                            z3.Function("sortedidx_" + nm, z3.ArraySort(e.sort(), B), e.sort(), I))
    return _sorted_fns[key][0]


def sorted_idx_fn(e):
    sorted_fn(e)
    return _sorted_fns[e.name][1]
