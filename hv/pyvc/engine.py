"""The verifier proper: contracts, registry, specification expressions, modular calls, VC generation."""
import ast
import hashlib
import os
import z3
from . import ty as T
from .ty import SV, fresh
from . import theory as TH
from .core import Unsupported, ContractError, Path, Obligation, quick_unsat
from .expr import ExprMixin
from .calls import CallMixin
from .stmt import StmtMixin

UNIVERSES = {"NodeSet": T.Set(T.INT), "Node": T.INT, "Id": T.INT, "Int": T.INT, "Tuple": T.TUP, "Layer": T.LAYER, "Field": T.FIELD,
             "Real": T.REAL, "MetaD": T.META, "VName": T.VNAME, "VObj": T.VOBJ}


class Layout:
    """Representation of one container class: field types, abstract view, representation invariant."""

    def __init__(self, name, fields, aliases=None, views=None, wf=None, multi=None, tags=None):
        self.name = name
        self.aliases = dict(aliases or {})
        self.fields = {f: T.parse_ty(t, self.aliases) for f, t in fields.items()}
        self.views = views or {}      # name -> fn(engine, path, obj, *args) -> SV
        self.multi = multi or {}      # name -> fn(engine, path, *args) -> {conjunct name: BoolRef}
        self.tags = tags or {}        # conjunct name -> 'hygiene'

    def fresh_obj(self, hint):
        return T.sv_obj(self.name, {f: T.fresh_value(t, f"{hint}{f}") for f, t in self.fields.items()})


class Contract:
    def __init__(self, qual, file, path, self_cls=None, params=None, requires=None, ensures=None, raises=None,
                 on_raise=None, modifies=None, modifies_args=None, result=None, invariants=None, locals=None,
                 aliases=None, tags=None, properties=None, assumed=False, pure=False, note="", may_raise=None, fixed=None, options=None):
        self.qual, self.file, self.path, self.self_cls = qual, file, path, self_cls
        self.options = set(options or ())    # "sorted_positional": sorted(<set / dict>) is the positional canonical listing of the set
        self.params = dict(params or {})
        self.param_names = list(self.params)
        self.requires = dict(requires or {})
        self.ensures = dict(ensures or {})
        self.raises = dict(raises or {})
        self.may_raise = dict(may_raise or {})
        self.fixed = dict(fixed or {})
        self.on_raise = on_raise            # None -> state unchanged
        self.modifies = list(modifies or [])
        self.modifies_args = dict(modifies_args or {})
        self.result = result
        self.invariants = dict(invariants or {})
        self.locals = dict(locals or {})
        self.aliases = dict(aliases or {})
        self.tags = dict(tags or {})
        self.properties = list(properties or [])
        self.assumed = assumed
        self.pure = pure
        self.note = note


class Registry:
    def __init__(self):
        self.layouts = {}
        self.contracts = {}

    def add_layout(self, lay):
        self.layouts[lay.name] = lay

    def add(self, c):
        assert c.qual not in self.contracts, c.qual
        self.contracts[c.qual] = c

    def method_contract(self, cls, meth):
        """Contract used for frame information (union of the `modifies` of all variants)."""
        vs = self.method_variants(cls, meth)
        if not vs:
            return None
        if len(vs) == 1:
            return vs[0]
        import copy
        c = copy.copy(vs[0])
        c.modifies = sorted({f for v in vs for f in v.modifies})
        return c

    def method_variants(self, cls, meth):
        return [c for c in self.contracts.values() if c.self_cls == cls and c.path[-1] == meth]

    def resolve_function(self, name, module=None):
        cands = self.function_candidates(name, module)
        return cands[0].qual if cands else None

    def function_candidates(self, name, module=None):
        """Contracts of the module-level function `name`: those defined in the calling module shadow the others."""
        cs = [c for c in self.contracts.values() if c.self_cls is None and c.path[-1] == name]
        local = [c for c in cs if c.file == module]
        return local or cs


class Cx:
    def __init__(self, old_env=None, result=None, pre_env=None, locals_env=None):
        self.old_env, self.result, self.pre_env = old_env, result, pre_env
        self.locals_env = locals_env      # the function's local variables at a normal exit (for callable postconditions only)


class Engine(ExprMixin, CallMixin, StmtMixin):
    def __init__(self, reg, repo, prune_ms=1500, max_paths=400):
        self.reg, self.repo = reg, repo
        self.prune_ms, self.max_paths = prune_ms, max_paths
        self.strs = {}
        self.guards = []
        self.pending = []
        self.spec_mode = False
        self.bound_vars = []
        self.cx = None
        self.cur = None
        self.cur_module = None
        self.local_imports = {}
        self.local_defs = {}
        self.obls = []
        self.loop_pre = {}
        self.path_counter = 0
        self._ast_cache = {}

    # ------------------------------------------------------------------ loading the real source
    def load(self, c):
        fn = os.path.join(self.repo, c.file)
        if fn not in self._ast_cache:
            src = open(fn).read()
            self._ast_cache[fn] = (src, ast.parse(src))
        src, mod = self._ast_cache[fn]
        node = mod
        for name in c.path:
            found = None
            for ch in ast.iter_child_nodes(node):
                if isinstance(ch, (ast.FunctionDef, ast.ClassDef)) and ch.name == name:
                    found = ch
                    break
            if found is None:
                # nested def inside a function body (possibly under if/for): search deeper
                for ch in ast.walk(node):
                    if isinstance(ch, (ast.FunctionDef, ast.ClassDef)) and ch.name == name and ch is not node:
                        found = ch
                        break
            if found is None:
                raise Unsupported(f"cannot locate {'.'.join(c.path)} in {c.file}")
            node = found
        seg = ast.get_source_segment(src, node) or ""
        info = dict(file=c.file, first_line=node.lineno, last_line=node.end_lineno,
                    sha256=hashlib.sha256(seg.encode()).hexdigest())
        return node, info

    def parse_ty(self, s):
        al = dict(self.cur.aliases) if self.cur else {}
        if self.cur and self.cur.self_cls:
            al = {**self.reg.layouts[self.cur.self_cls].aliases, **al}
        return T.parse_ty(s, al)

    def parse_ty_for(self, c, s):
        al = dict(c.aliases)
        if c.self_cls:
            al = {**self.reg.layouts[c.self_cls].aliases, **al}
        return T.parse_ty(s, al)

    def fresh_of(self, ty, hint):
        if isinstance(ty, T.Multi):
            return T.sv_multi([self.fresh_of(t, f"{hint}_{i}") for i, t in enumerate(ty.ts)])
        if isinstance(ty, T.ObjMap):
            return self.om_fresh(ty, hint)
        if isinstance(ty, T.Obj):
            return self.reg.layouts[ty.cls].fresh_obj(hint)
        if isinstance(ty, T.Opt) and isinstance(ty.t, T.Obj):
            raise Unsupported("optional object parameter")
        return T.fresh_value(ty, hint)

    # ------------------------------------------------------------------ obligations
    def oblige(self, kind, clause, p, goal, tag="observable"):
        goals = self.split(goal)
        for i, g in enumerate(goals):
            name = clause if len(goals) == 1 else f"{clause}.{i}"
            self.obls.append(Obligation(self.cur.qual, kind, name, p.trace and id(p) or 0, list(p.hyps), g, list(p.trace), tag))

    @staticmethod
    def split(goal):
        g = goal
        if z3.is_and(g):
            out = []
            for ch in g.children():
                out += Engine.split(ch)
            return out
        return [g]

    # ------------------------------------------------------------------ specification expressions
    def spec_eval(self, clause, env, p, cx):
        """Evaluate one clause -> {suffix: BoolRef}. env: name -> SV for this evaluation; hypotheses produced
        by auxiliary definitions go to p."""
        if callable(clause):
            r = clause(self, Path(env, p.hyps, p.trace), cx)
            return r if isinstance(r, dict) else {"": r}
        tree = ast.parse(clause.strip(), mode="eval").body
        sp = Path(dict(env), p.hyps, p.trace)
        old = (self.spec_mode, self.cx, self.guards)
        self.spec_mode, self.cx, self.guards = True, cx, []
        try:
            if isinstance(tree, ast.Call) and isinstance(tree.func, ast.Name):
                fn = tree.func.id
                args = None
                for lay in self.reg.layouts.values():
                    if fn in lay.multi:
                        args = [self.ev(a, sp) for a in tree.args]
                        if isinstance(args[0].ty, T.Obj) and args[0].ty.cls == lay.name:
                            return {("." + k): v for k, v in lay.multi[fn](self, sp, *args).items()}
                if fn == "unchanged":
                    a = self.ev(tree.args[0], sp)
                    o = self.in_env(cx.old_env, sp, lambda q: self.ev(tree.args[0], q))
                    lay = self.reg.layouts[a.ty.cls]
                    return {("." + k): v for k, v in lay.multi["view_eq"](self, sp, o, a).items()}
            v = self.ev(tree, sp)
            return {"": self.truth(v, sp)}
        finally:
            self.spec_mode, self.cx, self.guards = old

    def in_env(self, env, sp, fn):
        if env is None:
            raise ContractError("old()/pre() used where no such state exists")
        q = Path(dict(env), sp.hyps, sp.trace)
        # bound variables of enclosing quantifiers stay visible
        for k, v in sp.env.items():
            if k.startswith("__bv_"):
                q.env[k[5:]] = v
                q.env[k] = v
        return fn(q)

    def spec_name(self, name, p):
        if name == "result":
            if self.cx.result is None:
                raise ContractError("`result` used in a clause without a result")
            return self.cx.result
        if name in ("True", "False"):
            return T.sv_bool(name == "True")
        if name == "EMPTY":
            return T.scalar(T.META, TH.EMPTY_META)
        raise ContractError(f"unknown name `{name}` in specification")

    def spec_call(self, fn, e, p):
        if fn == "old":
            return self.in_env(self.cx.old_env, p, lambda q: self.ev(e.args[0], q))
        if fn == "pre":
            return self.in_env(self.cx.pre_env, p, lambda q: self.ev(e.args[0], q))
        if fn in ("all", "any") and len(e.args) == 1 and isinstance(e.args[0], ast.GeneratorExp):
            return self.quantifier(fn == "all", e.args[0], p)
        if fn == "implies":
            a = self.truth(self.ev(e.args[0], p), p)
            self.guards.append(a)
            try:
                b = self.truth(self.ev(e.args[1], p), p)
            finally:
                self.guards.pop()
            return T.sv_bool(z3.Implies(a, b))
        if fn == "ite":
            c = self.truth(self.ev(e.args[0], p), p)
            return self.merge(c, self.ev(e.args[1], p), self.ev(e.args[2], p))
        if fn in ("vN", "vE") and len(e.args) == 1:             # vertex names "N" + str(i) / "E" + str(i)
            i = self.coerce(self.ev(e.args[0], p), T.INT).t
            return T.scalar(T.VNAME, T.VNameS.vN(i) if fn == "vN" else T.VNameS.vE(i))
        if fn in ("is_vN", "is_vE", "vidx") and len(e.args) == 1:
            x = self.coerce(self.ev(e.args[0], p), T.VNAME).t
            if fn == "vidx":
                return T.sv_int(z3.If(T.VNameS.is_vN(x), T.VNameS.vn_idx(x), T.VNameS.ve_idx(x)))
            return T.sv_bool(T.VNameS.is_vN(x) if fn == "is_vN" else T.VNameS.is_vE(x))
        if fn in ("onode", "oedge") and len(e.args) == 1:      # the object a vertex name stands for
            v = self.ev(e.args[0], p)
            return self.coerce(self.coerce(v, T.INT if fn == "onode" else T.TUP), T.VOBJ)
        if fn in ("is_onode", "is_oedge", "nodeof", "edgeof") and len(e.args) == 1:
            o = self.coerce(self.ev(e.args[0], p), T.VOBJ).t
            if fn == "nodeof":
                return T.sv_int(T.VObjS.o_node(o))
            if fn == "edgeof":
                return T.scalar(T.TUP, T.VObjS.o_edge(o))
            return T.sv_bool(T.VObjS.is_oNode(o) if fn == "is_onode" else T.VObjS.is_oEdge(o))
        if fn == "finite_subset_law" and not e.args:
            # brings the scoped axiom card_subset_eq into the queries of the function whose contract mentions it (a trivially true formula
            # over the axiom's own Skolem symbol; axioms are loaded per query by symbol, DESIGN §3.5)
            s0 = z3.K(T.I, z3.BoolVal(False))
            w = TH._subw(s0, s0)
            return T.sv_bool(w == w)
        if fn == "comp_of" and len(e.args) == 2:       # comp_of(B, n): reachability class of n under the hyperedges listed in B (no filter)
            from ..contracts import cc as _cc
            b, n = self.ev(e.args[0], p), self.ev(e.args[1], p)
            return T.scalar(T.Set(T.INT), _cc.COMPF(TH.supp_fn(T.TUP)(b.t), TH.members(b.t), self.coerce(n, T.INT).t, z3.BoolVal(True), z3.IntVal(0)))
        if fn == "vsum" and len(e.args) == 1:          # vsum(d): the sum of the values of a dict of ints (sum(d.values()))
            m = self.ev(e.args[0], p)
            if not (isinstance(m.ty, T.Map) and m.ty.k == T.INT and m.ty.v == T.INT):
                raise ContractError("vsum() of something that is not a dict of ints")
            return T.sv_int(TH.VSUM(m.dom, m.val))
        if fn == "cpos" and len(e.args) == 4:          # cpos(rows, columns, i, j): coo_pos of the two coordinate lists (theory coo_pos_def)
            r, c = self.ev(e.args[0], p), self.ev(e.args[1], p)
            if r.ty == T.EMPTYLIST:
                r = self.coerce(r, T.Seq(T.INT))
            if c.ty == T.EMPTYLIST:
                c = self.coerce(c, T.Seq(T.INT))
            if not (isinstance(r.ty, T.Seq) and isinstance(c.ty, T.Seq)):
                raise ContractError("cpos() of lists that are not positional")
            i, j = (self.coerce(self.ev(x, p), T.INT).t for x in e.args[2:])
            return T.sv_int(TH.coo_pos(r.at, c.at, r.len, i, j))
        if fn == "closed_under" and len(e.args) == 2:  # closed_under(B, S): the node set S is closed under sharing a hyperedge listed in B
            from ..contracts import cc as _cc
            b, st = self.ev(e.args[0], p), self.ev(e.args[1], p)
            return T.sv_bool(_cc.CLOSEDF(TH.supp_fn(T.TUP)(b.t), z3.BoolVal(True), z3.IntVal(0), self.coerce(st, T.Set(T.INT)).t))
        if fn == "tpos" and len(e.args) == 2:          # tpos(k, n): position of the member n in the tuple k (k.index(n))
            from ..contracts import projections as _pr
            k, n = self.ev(e.args[0], p), self.ev(e.args[1], p)
            return T.sv_int(_pr.TIDX(k.t, self.coerce(n, T.INT).t))
        if fn == "members" and len(e.args) == 1:       # members(B): all labels occurring in the tuples of the list B
            b = self.ev(e.args[0], p)
            return T.scalar(T.Set(T.INT), TH.members(b.t))
        if fn == "seqpos" and len(e.args) == 2:        # seqpos(l, x): the position of x in the duplicate-free positional list l
            l, x = self.ev(e.args[0], p), self.ev(e.args[1], p)
            if getattr(l, "uidx", None) is None:
                raise ContractError("seqpos() of a list that is not known to be duplicate-free")
            return T.sv_int(l.uidx(self.coerce(x, l.ty.e).t))
        if fn == "canon":
            v = self.ev(e.args[0], p)
            if isinstance(v.ty, T.Pair):      # canonical key of a composite record: canonicalise every node-tuple component
                a = TH.canon(v.ty.fst(v.t)) if v.ty.a == T.TUP else v.ty.fst(v.t)
                b = TH.canon(v.ty.snd(v.t)) if v.ty.b == T.TUP else v.ty.snd(v.t)
                return T.scalar(v.ty, v.ty.mk(a, b))
            return T.scalar(T.TUP, TH.canon(self.coerce(v, T.TUP).t))
        if fn == "distinct":
            return T.sv_bool(TH.distinct_t(self.ev(e.args[0], p).t))
        if fn == "strict":
            return T.sv_bool(TH.strict(self.ev(e.args[0], p).t))
        if fn == "psum":         # psum(edge_list, weights_or_None, j, k)
            el, ws, j, k = (self.ev(a, p) for a in e.args)
            if not isinstance(el.ty, T.Seq):
                raise ContractError("psum over a non-positional list")
            if ws.ty == T.NONE:
                hw, aw = z3.BoolVal(False), z3.K(T.I, z3.RealVal(0))
            elif isinstance(ws.ty, T.Opt):
                hw, aw = z3.Not(ws.is_none), ws.val.at
            else:
                hw, aw = z3.BoolVal(True), ws.at
            return T.sv_real(TH.PSUM(el.at, hw, aw, self.coerce(j, T.INT).t, k.t))
        if fn == "listing":      # list(S): every member of the set once
            v = self.ev(e.args[0], p)
            if isinstance(v.ty, T.Map):
                v = T.scalar(T.Set(v.ty.k), v.dom)
            return T.scalar(T.Bag(v.ty.e), TH.bagof_fn(v.ty.e)(v.t))
        if fn == "with_node":
            return T.scalar(T.TUP, TH.twith(self.ev(e.args[0], p).t, self.ev(e.args[1], p).t))
        if fn == "without":
            return T.scalar(T.TUP, TH.tfilter_ne(self.ev(e.args[0], p).t, self.ev(e.args[1], p).t))
        if fn == "count":
            b = self.ev(e.args[0], p)
            x = self.ev(e.args[1], p)
            if isinstance(b.ty, T.Bag):
                return T.sv_int(b.t[self.coerce(x, b.ty.e).t])
            if b.ty == T.EMPTYLIST:
                return T.sv_int(0)
            raise ContractError(f"count() on {b.ty}")
        if fn == "card":
            return T.sv_int(self.length(self.ev(e.args[0], p), p))
        if fn == "inprefix":     # inprefix(n, seq, j): n in seq[:j]
            n, s, j = (self.ev(a, p) for a in e.args)
            return T.sv_bool(TH.pmem(s.t, j.t, n.t))
        if fn == "real":
            return T.sv_real(T.to_real(self.unopt(self.ev(e.args[0], p), p, "spec")))
        if fn == "local":        # local("x"): the function's local variable x at the normal exit (postconditions only)
            nm = e.args[0].value if e.args and isinstance(e.args[0], ast.Constant) else None
            if self.cx.locals_env is not None and (nm not in self.cx.locals_env or self.cx.locals_env[nm].ty == T.NONE) and len(e.args) == 2 \
                    and isinstance(e.args[1], ast.Constant):
                # local("x", "Type"): on an exit path that never bound x the clause talks about an arbitrary value of that type
                # (write the clause so that it is guarded by the condition under which x exists)
                return self.fresh_of(self.parse_ty(e.args[1].value), "unbound_" + nm)
            if self.cx.locals_env is None or nm not in self.cx.locals_env:
                raise ContractError(f"local({nm!r}) is not available here")
            return self.cx.locals_env[nm]
        if fn in ("is_pinf", "is_ninf"):     # is_pinf(x): the extended integer x is +infinity (math.inf)
            v = self.coerce(self.ev(e.args[0], p), T.XINT)
            return T.sv_bool(T.XIntS.is_pinf(v.t) if fn == "is_pinf" else T.XIntS.is_ninf(v.t))
        if fn == "mset":
            m, f, v = (self.ev(a, p) for a in e.args)
            return T.scalar(T.META, TH.mset(m.t, f.t, v.t))
        if fn == "mdel":
            m, f = (self.ev(a, p) for a in e.args)
            return T.scalar(T.META, TH.mdel(m.t, f.t))
        if fn == "mhas":
            m, f = (self.ev(a, p) for a in e.args)
            return T.sv_bool(TH.mhas(m.t, f.t))
        if fn == "pair":
            a, b = (self.ev(x, p) for x in e.args)
            pt = T.Pair(a.ty, b.ty)
            return T.scalar(pt, pt.mk(a.t, b.t))
        if fn in ("fst", "snd"):
            a = self.ev(e.args[0], p)
            if isinstance(a.ty, T.Opt):        # specification expressions are total: the payload (unspecified for None)
                a = a.val
            return T.scalar(a.ty.a, a.ty.fst(a.t)) if fn == "fst" else T.scalar(a.ty.b, a.ty.snd(a.t))
        if fn == "helper":       # helper("name", args...): the uninterpreted function that stands for the nested pure helper `name`
            name = e.args[0].value
            args = []
            for a in e.args[1:]:
                v = self.ev(a, p)
                if isinstance(v.ty, T.Opt):
                    v = v.val
                args.append(v.t)
            return T.sv_bool(self.local_fn(name, [a.sort() for a in args])(*args))
        if fn == "sel":          # sel(h, k, order, size, up_to): does key k pass the order/size filter
            h, k, order, size, up_to = (self.ev(a, p) for a in e.args)
            lay = self.reg.layouts[h.ty.cls]
            L = lay.views["KLEN"](self, p, h, k).t
            order, size = self.coerce(order, T.Opt(T.INT)), self.coerce(size, T.Opt(T.INT))
            o = z3.If(size.is_none, order.val.t, size.val.t - 1)
            ut = self.truth(up_to, p)
            return T.sv_bool(z3.Implies(z3.Not(z3.And(order.is_none, size.is_none)), z3.If(ut, L - 1 <= o, L - 1 == o)))
        # class-specific view functions, dispatched on the class of the first argument
        if e.args:
            saved = list(p.hyps)
            first = self.ev(e.args[0], p)
            if isinstance(first.ty, T.Obj):
                lay = self.reg.layouts[first.ty.cls]
                if fn in lay.views:
                    rest = [self.ev(a, p) for a in e.args[1:]]
                    return lay.views[fn](self, p, first, *rest)
                if fn in lay.multi:
                    rest = [self.ev(a, p) for a in e.args[1:]]
                    d = lay.multi[fn](self, p, first, *rest)
                    return T.sv_bool(z3.And(list(d.values())))
        return None

    def quantifier(self, is_all, g, p):
        vars_, guards, trig_exprs = [], [], []
        saved_env = dict(p.env)
        n_bound = len(self.bound_vars)
        try:
            for gen in g.generators:
                if not isinstance(gen.target, ast.Name):
                    raise ContractError("quantifier target must be a name")
                name = gen.target.id
                if isinstance(gen.iter, ast.Name) and gen.iter.id in UNIVERSES or \
                        (isinstance(gen.iter, ast.Name) and gen.iter.id == "Key"):
                    ty = UNIVERSES.get(gen.iter.id) or self.key_type(p)
                    x = fresh("q_" + name, ty.sort())
                    xv = T.scalar(ty, x)
                else:
                    dom = self.ev(gen.iter, p)
                    if isinstance(dom.ty, T.Map):
                        ety = dom.ty.k
                    elif isinstance(dom.ty, (T.Set, T.Bag)):
                        ety = dom.ty.e
                    elif dom.ty == T.TUP:
                        ety = T.INT
                    elif dom.ty in (T.EMPTYLIST, T.EMPTYSET, T.EMPTYDICT):
                        return T.sv_bool(is_all)
                    else:
                        raise ContractError(f"quantifier over {dom.ty}")
                    x = fresh("q_" + name, ety.sort())
                    xv = T.scalar(ety, x)
                    guards.append(self.member(xv, dom, p))
                vars_.append(x)
                self.bound_vars.append(x)
                p.env[name] = xv
                p.env["__bv_" + name] = xv
                for cond in gen.ifs:
                    if isinstance(cond, ast.Call) and isinstance(cond.func, ast.Name) and cond.func.id == "trig":
                        trig_exprs.append(cond.args)      # instantiation hint, not a condition: evaluated once all variables are bound
                        continue
                    guards.append(self.truth(self.ev(cond, p), p))
            pats = []
            for args in trig_exprs:
                terms = []
                for a in args:
                    v = self.ev(a, p)
                    terms.append(v.t if hasattr(v, "t") and v.t is not None else None)
                if any(t is None for t in terms):
                    raise ContractError("trig() of a composite value")
                pats.append(terms[0] if len(terms) == 1 else z3.MultiPattern(*terms))
            gd = z3.And(guards) if guards else z3.BoolVal(True)
            self.guards.append(gd)
            try:
                body = self.truth(self.ev(g.elt, p), p)
            finally:
                self.guards.pop()
        finally:
            p.env.clear()
            p.env.update(saved_env)
            del self.bound_vars[n_bound:]
        qid = "spec:" + "".join(ch if ch.isalnum() or ch in "_[]().,<>=! " else "_" for ch in ast.unparse(g)[:70])     # shows up in solver profiles
        if is_all:
            return T.sv_bool(z3.ForAll(vars_, z3.Implies(gd, body), qid=qid, patterns=pats))
        return T.sv_bool(z3.Exists(vars_, z3.And(gd, body), qid=qid, patterns=pats))

    def key_type(self, p):
        """The key sort of the container class the clause talks about (its `self`, else the first object in scope)."""
        objs = [v for n, v in p.env.items() if isinstance(v.ty, T.Obj)]
        if "self" in p.env and isinstance(p.env["self"].ty, T.Obj):
            objs.insert(0, p.env["self"])
        for o in objs:
            lay = self.reg.layouts[o.ty.cls]
            if "Key" in lay.aliases:
                return T.parse_ty("Key", lay.aliases)
        return self.parse_ty("Key")

    def eval_clauses(self, clauses, env, p, cx):
        out = {}
        for name, cl in clauses.items():
            for suffix, g in self.spec_eval(cl, env, p, cx).items():
                out[name + suffix] = g
        return out

    def check_clauses(self, tag, phase, invs, p, pre_env):
        cx = Cx(old_env=self.entry_env, pre_env=pre_env)
        kind = f"loop{tag.rsplit('loop', 1)[1]}:{phase}"
        for name, g in self.eval_clauses(invs, p.env, p, cx).items():
            self.oblige(kind, name, p, g, self.cur.tags.get(name, "observable"))
            if "staged_invariants" in self.cur.options:
                # each clause has its own obligation; the later clauses of the same state may use the earlier ones (the conjunction follows
                # when all of them are discharged), which lets a clause be derived from the new state's other clauses instead of from scratch
                p.assume(g)

    def assume_clauses(self, invs, p, pre_env):
        cx = Cx(old_env=self.entry_env, pre_env=pre_env)
        for name, g in self.eval_clauses(invs, p.env, p, cx).items():
            p.assume(g)

    # ------------------------------------------------------------------ modular calls
    def bind_raw(self, fdef, e, p, skip_self, qual):
        a = fdef.args
        names = [x.arg for x in a.args][(1 if skip_self else 0):]
        bound = {}
        pos = [self.ev(x, p) for x in e.args]
        if len(pos) > len(names):
            raise Unsupported(f"too many positional arguments for {qual}")
        for n, v in zip(names, pos):
            bound[n] = v
        for kw in e.keywords:
            if kw.arg not in names:
                raise Unsupported(f"unknown keyword {kw.arg} for {qual}")
            bound[kw.arg] = self.ev(kw.value, p)
        defaults = dict(zip(reversed(names), reversed(a.defaults)))
        for n in names:
            if n not in bound:
                if n not in defaults:
                    raise Unsupported(f"missing argument {n} for {qual}")
                d = defaults[n]
                if not isinstance(d, ast.Constant):
                    raise Unsupported("non-constant default")
                bound[n] = self.ev_Constant(d, p)
        return bound

    def literal_eq(self, v, const):
        if const is None:
            return v.ty == T.NONE
        if v.ty == T.NONE:
            return False
        if isinstance(const, str):
            return v.ty == T.STR and const in self.strs and v.t.eq(self.strs[const])
        if isinstance(const, bool):
            return v.ty == T.BOOL and (z3.is_true(v.t) if const else z3.is_false(v.t))
        if isinstance(const, int):
            return v.ty == T.INT and z3.is_int_value(v.t) and v.t.as_long() == const
        return False

    def choose(self, cands, raw, what):
        for c in cands:
            if all(self.literal_eq(raw[n], val) for n, val in c.fixed.items()):
                return c
        raise Unsupported(f"no contract variant of {what} matches the literal arguments")

    def coerce_bound(self, c, raw, p):
        bound = {}
        for n in c.param_names:
            if n not in raw:
                raise Unsupported(f"parameter {n} of {c.qual} not bound")
            bound[n] = self.coerce_arg(raw[n], self.parse_ty_for(c, c.params[n]), p)
        return bound

    def coerce_arg(self, v, ty, p):
        if isinstance(ty, T.Obj):
            if not (isinstance(v.ty, T.Obj) and v.ty.cls == ty.cls):
                raise Unsupported(f"argument of type {v.ty} where {ty} is expected")
            return v
        return self.coerce(v, ty)

    def call_method(self, recv, f, e, p):
        cands = self.reg.method_variants(recv.ty.cls, f.attr)
        if not cands:
            raise Unsupported(f"no contract for {recv.ty.cls}.{f.attr} (line {e.lineno})")
        fdef, _ = self.load(cands[0])
        raw = self.bind_raw(fdef, e, p, True, cands[0].qual)
        c = self.choose(cands, raw, f"{recv.ty.cls}.{f.attr}")
        bound = self.coerce_bound(c, raw, p)
        rname = f.value.id if isinstance(f.value, ast.Name) else None
        return self.apply_contract(c, recv, rname, bound, e, p)

    def call_function(self, q, e, p):
        name = self.reg.contracts[q].path[-1]
        cands = self.reg.function_candidates(name, self.cur_module)
        first = self.ev(e.args[0], p) if e.args else None
        ok = []
        for c in cands:
            t0 = self.parse_ty_for(c, c.params[c.param_names[0]]) if c.param_names else None
            if isinstance(t0, T.Obj):
                if first is not None and isinstance(first.ty, T.Obj) and first.ty.cls == t0.cls:
                    ok.append(c)
            else:
                ok.append(c)
        if not ok:
            raise Unsupported(f"no contract instance of {name} for {first.ty if first is not None else None}")
        fdef, _ = self.load(ok[0])
        raw = self.bind_raw(fdef, e, p, False, ok[0].qual)
        chosen = self.choose(ok, raw, name)
        bound = self.coerce_bound(chosen, raw, p)
        return self.apply_contract(chosen, None, None, bound, e, p, arg_exprs=e.args)

    def construct(self, cls, e, p):
        c = self.reg.method_contract(cls, "__init__")
        if c is None:
            raise Unsupported(f"no contract for {cls}.__init__")
        fdef, _ = self.load(c)
        bound = self.coerce_bound(c, self.bind_raw(fdef, e, p, True, c.qual), p)
        obj = self.reg.layouts[cls].fresh_obj("new" + cls)
        env = {**bound, "self": obj}
        cx = Cx(old_env=dict(bound), result=None)
        for name, g in self.eval_clauses(c.requires, dict(bound), p, cx).items():
            self.oblige(f"call:{c.qual}#{self.call_ord.get(id(e), 0)}:requires", name, p, g)
        for name, g in self.eval_clauses(c.ensures, env, p, cx).items():
            self._assume(p, g)
        return obj

    def apply_contract(self, c, recv, rname, bound, e, p, arg_exprs=None):
        k = self.call_ord.get(id(e), 0)
        pre_env = dict(bound)
        if recv is not None:
            pre_env["self"] = recv
        cx0 = Cx(old_env=pre_env)
        if self.guards:
            raise Unsupported("call of a contracted function inside a conditional expression")
        for name, g in self.eval_clauses(c.requires, pre_env, p, cx0).items():
            self.oblige(f"call:{c.qual}#{k}:requires", name, p, g)
            p.assume(g)
        # exceptional exits
        for exc, cl in c.raises.items():
            cond = z3.And(list(self.spec_eval(cl, pre_env, p, cx0).values()))
            q = p.fork(f"line {e.lineno}: {c.qual} raises {exc}")
            q.assume(cond)
            if not quick_unsat(q.hyps, self.prune_ms):
                if c.on_raise is not None:
                    pr = self.havoc_call(c, q, recv, rname, bound, arg_exprs, "exc")
                    env2 = dict(bound)
                    if recv is not None:
                        env2["self"] = pr
                    for name, g in self.eval_clauses(c.on_raise, env2, q, cx0).items():
                        q.assume(g)
                self.pending.append((q, exc))
            p.assume(z3.Not(cond))
        for exc, cl in c.may_raise.items():
            cond = z3.And(list(self.spec_eval(cl, pre_env, p, cx0).values()))
            q = p.fork(f"line {e.lineno}: {c.qual} may raise {exc}")
            q.assume(cond)
            if not quick_unsat(q.hyps, self.prune_ms):
                self.pending.append((q, exc))
        # normal exit
        post_recv = self.havoc_call(c, p, recv, rname, bound, arg_exprs, "post")
        result = None
        if c.result is not None:
            result = self.fresh_of(self.parse_ty_for(c, c.result), f"{c.path[-1]}_res")
        env = dict(bound)
        if arg_exprs is not None:
            for pname, ex in zip(c.param_names, arg_exprs):
                if pname in c.modifies_args and isinstance(ex, ast.Name):
                    env[pname] = p.env[ex.id]
        if recv is not None:
            env["self"] = post_recv
        cx = Cx(old_env=pre_env, result=result)
        # clauses that speak about the callee's locals are facts about its inside: a caller does not get them (fewer assumptions)
        visible = {k: v for k, v in c.ensures.items() if not (isinstance(v, str) and "local(" in v)}
        for name, g in self.eval_clauses(visible, env, p, cx).items():
            p.assume(g)
        return result if result is not None else T.sv_none()

    def havoc_call(self, c, p, recv, rname, bound, arg_exprs, hint):
        post_recv = recv
        if recv is not None and c.modifies:
            ref = getattr(recv, "ref", None)
            if rname is None and ref is None:
                raise Unsupported("mutating call on a receiver that is not a plain name")
            lay = self.reg.layouts[recv.ty.cls]
            nf = dict(recv.fields)
            for f in c.modifies:
                nf[f] = T.fresh_value(lay.fields[f], f"{hint}_{f}")
            post_recv = T.sv_obj(recv.ty.cls, nf)
            if ref is not None:
                post_recv.ref = ref
            if rname is not None:
                p.env[rname] = post_recv
            if ref is not None:
                self.om_writeback(post_recv, p)
        if c.modifies_args:
            if arg_exprs is None:
                raise Unsupported("modifies_args on a method call")
            for pname, ex in zip(c.param_names, arg_exprs):
                if pname in c.modifies_args:
                    if not isinstance(ex, ast.Name):
                        raise Unsupported("mutated argument is not a plain name")
                    o = p.env[ex.id]
                    lay = self.reg.layouts[o.ty.cls]
                    nf = dict(o.fields)
                    for f in c.modifies_args[pname]:
                        nf[f] = T.fresh_value(lay.fields[f], f"{hint}_{f}")
                    p.env[ex.id] = T.sv_obj(o.ty.cls, nf)
        return post_recv

    # ------------------------------------------------------------------ top level
    def verify(self, qual):
        c = self.reg.contracts[qual]
        self.cur, self.obls, self.strs, self.loop_pre = c, [], {}, {}
        self._setcomp_cache = {}
        self.cur_module = c.file
        self.local_imports = {}
        self.local_defs = {}
        fdef, info = self.load(c)
        self.cur_fdef = fdef
        loops = [n for n in ast.walk(fdef) if isinstance(n, (ast.For, ast.While))]
        loops.sort(key=lambda n: (n.lineno, n.col_offset))
        self.loop_ord = {id(n): i for i, n in enumerate(loops)}
        self.call_ord = {}
        seen = {}
        calls = [n for n in ast.walk(fdef) if isinstance(n, ast.Call)]
        calls.sort(key=lambda n: (n.lineno, n.col_offset))
        for n in calls:
            key = n.func.attr if isinstance(n.func, ast.Attribute) else getattr(n.func, "id", "?")
            self.call_ord[id(n)] = seen.get(key, 0)
            seen[key] = seen.get(key, 0) + 1
        env = {}
        is_method = c.self_cls is not None
        if is_method:
            env["self"] = self.reg.layouts[c.self_cls].fresh_obj("s0")
        a = fdef.args
        real_params = [x.arg for x in a.args][(1 if is_method else 0):] + [x.arg for x in a.kwonlyargs]
        if a.vararg or a.kwarg:
            raise Unsupported("*args/**kwargs")
        for n in real_params:
            if n not in c.params:
                raise Unsupported(f"parameter `{n}` of {qual} has no declared type in the contract")
            if n in c.fixed:
                env[n] = self.ev_Constant(ast.Constant(value=c.fixed[n]), None)
            else:
                env[n] = self.fresh_of(self.parse_ty(c.params[n]), "arg_" + n)
        self.entry_env = dict(env)
        p = Path(env, [], [])
        for v in env.values():
            for f in T.type_facts(v):
                p.assume(f)
        cx0 = Cx(old_env=self.entry_env)
        for name, g in self.eval_clauses(c.requires, env, p, cx0).items():
            p.assume(g)
        if quick_unsat(p.hyps, 5000):
            raise ContractError(f"{qual}: the precondition is contradictory")
        outcomes = self.block(fdef.body, p)
        n_paths = 0
        for q, out in outcomes:
            n_paths += 1
            q.trace.append(f"path {n_paths}: {out if isinstance(out, str) else out[0] + ' ' + (out[1] if isinstance(out[1], str) else '')}")
            if out == "next" or (isinstance(out, tuple) and out[0] == "return"):
                res = T.sv_none() if out == "next" else out[1]
                self.exit_normal(c, q, res)
            elif isinstance(out, tuple) and out[0] == "raise":
                self.exit_raise(c, q, out[1])
            else:
                raise Unsupported(f"{out} outside a loop")
            # vacuity canary: this path's hypotheses must not be contradictory
            self.obls.append(Obligation(c.qual, "canary", f"path-feasible", 0, list(q.hyps), z3.BoolVal(False), list(q.trace), "canary"))
        if len(self.strs) > 1:
            d = z3.Distinct(list(self.strs.values()))
            for o in self.obls:
                o.hyps.append(d)
        for i, o in enumerate(self.obls):
            o.path_id = i
        return self.obls, info, n_paths

    def exit_env(self, q):
        env = dict(self.entry_env)
        for n, v in q.env.items():
            if isinstance(v.ty, T.Obj) and n in env:
                env[n] = v
        for n in (self.cur.modifies_args if self.cur is not None else ()):
            if n in q.env and n in env:
                env[n] = q.env[n]          # a list / dict argument the contract declares as modified in place: its final content
        return env

    def exit_normal(self, c, q, res):
        env = self.exit_env(q)
        cx0 = Cx(old_env=self.entry_env)
        for exc, cl in c.raises.items():
            cond = z3.And(list(self.spec_eval(cl, self.entry_env, q, cx0).values()))
            self.oblige(f"raises:{exc}", "must-raise", q, z3.Not(cond))
        if c.result is not None:
            rty = self.parse_ty(c.result)
            try:
                res = self.coerce(res, rty)
            except Unsupported:
                if not (isinstance(rty, T.Obj) and isinstance(res.ty, T.Obj) and res.ty.cls == rty.cls):
                    raise Unsupported(f"{c.qual} returns {res.ty}, contract declares {rty}")
        cx = Cx(old_env=self.entry_env, result=res if c.result is not None else None, locals_env=dict(q.env))
        for name, g in self.eval_clauses(c.ensures, env, q, cx).items():
            base = name.split(".")[0] if name not in c.tags else name
            tag = c.tags.get(name) or c.tags.get(base) or self.layout_tag(c, name)
            self.oblige("ensures", name, q, g, tag)
            if "staged_ensures" in c.options:
                q.assume(g)       # later postconditions of this exit may use the earlier ones (each has its own obligation)
        self.frame(c, q, "frame")

    def layout_tag(self, c, name):
        if c.self_cls:
            lay = self.reg.layouts[c.self_cls]
            for k, t in lay.tags.items():
                if name.endswith("." + k) or name == k:
                    return t
        return "observable"

    def frame(self, c, q, kind):
        """Everything outside `modifies` keeps its value."""
        for n, v0 in self.entry_env.items():
            if not isinstance(v0.ty, T.Obj):
                continue
            v1 = q.env.get(n)
            if v1 is None:
                continue
            allowed = set(c.modifies) if n == "self" else set(c.modifies_args.get(n, []))
            for f, t0 in v0.fields.items():
                if f in allowed:
                    continue
                t1 = v1.fields[f]
                if t1 is t0:
                    continue
                self.oblige(kind, f"{n}.{f}", q, self.same_value(t0, t1))

    @staticmethod
    def same_value(a, b):
        if a.ty.scalar:
            return a.t == b.t
        if isinstance(a.ty, T.Map):
            k = fresh("fk", a.ty.k.sort())
            return z3.And(a.dom == b.dom, z3.ForAll([k], z3.Implies(a.dom[k], a.val[k] == b.val[k]), patterns=[b.val[k]]))
        if isinstance(a.ty, T.Opt):
            return z3.And(a.is_none == b.is_none, z3.Implies(z3.Not(a.is_none), Engine.same_value(a.val, b.val)))
        if isinstance(a.ty, T.Seq):
            return z3.And(a.len == b.len, a.at == b.at)
        raise Unsupported(f"frame over {a.ty}")

    def exit_raise(self, c, q, exc):
        cx0 = Cx(old_env=self.entry_env)
        if exc not in c.raises and exc not in c.may_raise:
            self.oblige(f"raises:{exc}", "undeclared", q, z3.BoolVal(False))
            return
        # `raises` (must raise, iff on the normal exit) and `may_raise` (allowed) of the same exception: either licenses the raise
        conds = [z3.And(list(self.spec_eval(d[exc], self.entry_env, q, cx0).values())) for d in (c.raises, c.may_raise) if exc in d]
        cond = z3.Or(conds) if len(conds) > 1 else conds[0]
        self.oblige(f"raises:{exc}", "only-when", q, cond)
        env = self.exit_env(q)
        if c.on_raise is None:
            if c.self_cls and "view_eq" in self.reg.layouts[c.self_cls].multi:
                d = self.reg.layouts[c.self_cls].multi["view_eq"](self, q, self.entry_env["self"], env["self"])
                for name, g in d.items():
                    self.oblige(f"on_raise:{exc}", f"unchanged.{name}", q, g)
            for n, v0 in self.entry_env.items():
                if isinstance(v0.ty, T.Obj) and n != "self":
                    lay = self.reg.layouts[v0.ty.cls]
                    if "view_eq" in lay.multi:
                        for name, g in lay.multi["view_eq"](self, q, v0, env[n]).items():
                            self.oblige(f"on_raise:{exc}", f"unchanged.{n}.{name}", q, g)
        else:
            for name, g in self.eval_clauses(c.on_raise, env, q, cx0).items():
                self.oblige(f"on_raise:{exc}", name, q, g)
