"""Statement execution: paths, branching, loops cut by invariants, try/except, implicit exceptions."""
import ast
import z3
from . import ty as T
from .ty import SV, fresh
from . import theory as TH
from .core import Unsupported, quick_unsat, exc_matches
from .calls import NX_MODIFIES

MUTATORS = {"append", "remove", "extend", "add", "update", "discard", "clear", "pop", "popleft", "insert", "sort"}


class StmtMixin:
    # ------------------------------------------------------------------ blocks
    def block(self, stmts, p):
        """Returns [(path, outcome)], outcome in 'next' | 'break' | 'continue' | ('return', SV) | ('raise', exc)."""
        live = [(p, "next")]
        for s in stmts:
            nxt = []
            for q, out in live:
                if out != "next":
                    nxt.append((q, out))
                else:
                    nxt += self.stmt(s, q)
            live = nxt
            if len(live) > self.max_paths:
                raise Unsupported(f"more than {self.max_paths} paths")
        return live

    def stmt(self, s, p):
        m = getattr(self, "st_" + type(s).__name__, None)
        if m is None:
            raise Unsupported(f"statement {type(s).__name__} at line {s.lineno}")
        saved, self.pending = self.pending, []
        try:
            outs = m(s, p)
            exc = [(q, ("raise", e)) for q, e in self.pending]
        finally:
            self.pending = saved
        return outs + exc

    def feasible(self, p):
        return not quick_unsat(p.hyps, self.prune_ms)

    # ------------------------------------------------------------------ simple statements
    def st_Expr(self, s, p):
        if isinstance(s.value, ast.Constant):
            return [(p, "next")]
        return self.after_call(s.value, p, lambda q, v: [(q, "next")])

    def st_Pass(self, s, p):
        return [(p, "next")]

    def st_Import(self, s, p):
        return [(p, "next")]

    def st_ImportFrom(self, s, p):
        for a in s.names:
            self.local_imports[a.asname or a.name] = (s.module, a.name)
        return [(p, "next")]

    def st_Return(self, s, p):
        if s.value is None:
            return [(p, ("return", T.sv_none()))]
        return self.after_call(s.value, p, lambda q, v: [(q, ("return", v))])

    def st_Raise(self, s, p):
        if s.exc is None:
            raise Unsupported("bare raise")
        if isinstance(s.exc, ast.Call) and isinstance(s.exc.func, ast.Name):
            name = s.exc.func.id
        elif isinstance(s.exc, ast.Name):
            name = s.exc.id
        elif isinstance(s.exc, ast.Constant) or (isinstance(s.exc, ast.Call) and isinstance(s.exc.func, ast.Attribute)):
            name = "TypeError"   # `raise ("text")`: raising a non-exception is a TypeError in Python
        else:
            raise Unsupported("raise of a computed exception")
        return [(p, ("raise", name))]

    def st_Assert(self, s, p):
        c = self.truth(self.ev(s.test, p), p)
        q = p.fork("assert fails")
        q.assume(z3.Not(c))
        outs = []
        if self.feasible(q):
            outs.append((q, ("raise", "AssertionError")))
        p.assume(c)
        return outs + [(p, "next")]

    def st_Assign(self, s, p):
        if len(s.targets) != 1:
            raise Unsupported("chained assignment")
        def fin(q, v):
            self.store(s.targets[0], v, q)
            return [(q, "next")]
        return self.after_call(s.value, p, fin)

    def st_AnnAssign(self, s, p):
        if s.value is None:
            return [(p, "next")]
        def fin(q, v):
            self.store(s.target, v, q)
            return [(q, "next")]
        return self.after_call(s.value, p, fin)

    def st_AugAssign(self, s, p):
        cur = self.ev(s.target, p)
        def fin(q, rhs):
            if isinstance(s.op, ast.Add) and (isinstance(cur.ty, T.Bag) or cur.ty == T.EMPTYLIST):
                # list += iterable: multiset union with the elements of the right-hand side
                c2 = cur
                if cur.ty == T.EMPTYLIST:
                    hint = self.cur.locals.get(s.target.id) if isinstance(s.target, ast.Name) else None
                    if hint is None:
                        raise Unsupported("`[] += ...` on a list of unknown element type")
                    c2 = self.coerce(cur, self.parse_ty(hint))
                bt = c2.ty
                x = fresh("x", bt.e.sort())
                nb = fresh("extended", bt.sort())
                if isinstance(rhs.ty, T.Set) and rhs.ty.e == bt.e:
                    q.assume(z3.ForAll([x], nb[x] == c2.t[x] + z3.If(rhs.t[x], 1, 0), patterns=[nb[x]]))
                    q.assume(bt.blen()(nb) == bt.blen()(c2.t) + rhs.ty.card()(rhs.t))
                elif isinstance(rhs.ty, T.Bag) and rhs.ty.e == bt.e:
                    q.assume(z3.ForAll([x], nb[x] == c2.t[x] + rhs.t[x], patterns=[nb[x]]))
                    q.assume(bt.blen()(nb) == bt.blen()(c2.t) + bt.blen()(rhs.t))
                else:
                    raise Unsupported(f"list += {rhs.ty}")
                self.store(s.target, T.scalar(bt, nb), q)
                return [(q, "next")]
            v = self.binop(s.op, cur, rhs, q, f"line {s.lineno}")
            if cur.ty == T.REAL and v.ty == T.INT:
                v = self.coerce(v, T.REAL)
            self.store(s.target, v, q)
            return [(q, "next")]
        return self.after_call(s.value, p, fin)

    def st_Delete(self, s, p):
        for t in s.targets:
            self.delete(t, p)
        return [(p, "next")]

    def after_call(self, e, p, k):
        """Evaluate expression e on p. Calls of contracted functions may fork (exceptional exits); k continues
        each normally-returning path with the value."""
        v = self.ev(e, p)
        return k(p, v)

    # ------------------------------------------------------------------ control flow
    def st_If(self, s, p):
        c = z3.simplify(self.truth(self.ev(s.test, p), p))
        outs = []
        a = p.fork(f"line {s.lineno}: if -> then")
        a.assume(c)
        b = p.fork(f"line {s.lineno}: if -> else")
        b.assume(z3.Not(c))
        if not z3.is_false(c) and self.feasible(a):
            outs += self.block(s.body, a)
        if not z3.is_true(c) and self.feasible(b):
            outs += self.block(s.orelse, b)
        return outs

    def st_Break(self, s, p):
        return [(p, "break")]

    def st_Continue(self, s, p):
        return [(p, "continue")]

    def st_Try(self, s, p):
        if s.finalbody:
            raise Unsupported("try/finally")
        outs = []
        for q, out in self.block(s.body, p):
            if isinstance(out, tuple) and out[0] == "raise":
                handled = False
                for h in s.handlers:
                    if h.type is None:
                        names = ["BaseException"]
                    elif isinstance(h.type, ast.Name):
                        names = [h.type.id]
                    elif isinstance(h.type, ast.Tuple):
                        names = [x.id for x in h.type.elts]
                    else:
                        raise Unsupported("except clause")
                    if exc_matches(out[1], names):
                        if h.name:
                            q.env[h.name] = T.scalar(T.STR, fresh("exc", T.StrS))
                        q.trace.append(f"line {h.lineno}: except {names[0]} catches {out[1]}")
                        outs += self.block(h.body, q)
                        handled = True
                        break
                if not handled:
                    outs.append((q, out))
            elif out == "next" and s.orelse:
                outs += self.block(s.orelse, q)
            else:
                outs.append((q, out))
        return outs

    def st_FunctionDef(self, s, p):
        """A nested helper. It is not inlined: calls to it are applications of an uninterpreted function of its arguments
        (assumed: pure, total, deterministic). Helpers that assign to enclosing variables are rejected."""
        for n in ast.walk(s):
            if isinstance(n, (ast.Nonlocal, ast.Global, ast.Yield, ast.YieldFrom)):
                raise Unsupported(f"nested function {s.name} is not pure")
        self.local_defs[s.name] = s
        return [(p, "next")]

    def st_With(self, s, p):
        raise Unsupported("with statement")

    # ------------------------------------------------------------------ loops
    def modified_in(self, body, p, loop=None):
        """Syntactic over-approximation of what a loop body assigns: local names and (object, field) pairs."""
        names, fields = set(), set()
        # value variables of `for k, v in d.items()` over a dict of objects are references into d
        alias = {}
        for n in ([loop] if loop is not None else []) + list(ast.walk(ast.Module(body=body, type_ignores=[]))):
            if isinstance(n, ast.For) and isinstance(n.iter, ast.Call) and isinstance(n.iter.func, ast.Attribute) and n.iter.func.attr == "items" \
                    and isinstance(n.iter.func.value, ast.Name) and isinstance(p.env.get(n.iter.func.value.id, SV(T.NONE)).ty, T.ObjMap) \
                    and isinstance(n.target, (ast.Tuple, ast.List)) and len(n.target.elts) == 2 and isinstance(n.target.elts[1], ast.Name):
                alias[n.target.elts[1].id] = (n.iter.func.value.id, p.env[n.iter.func.value.id].ty.cls)

        def root(t):
            # returns ('name', id) or ('field', obj, field)
            cur = t
            while True:
                if isinstance(cur, ast.Name):
                    v0 = p.env.get(cur.id)
                    if v0 is not None and isinstance(v0.ty, T.Obj) and v0.ty.cls == "NpArray2" and cur is not t:
                        return ("field", cur.id, "_m")      # a[i, j] = x on a numpy array changes its cells only
                    return ("name", cur.id)
                if isinstance(cur, ast.Attribute) and isinstance(cur.value, ast.Name) and isinstance(p.env.get(cur.value.id, SV(T.NONE)).ty, T.Obj):
                    return ("field", cur.value.id, cur.attr)
                if isinstance(cur, (ast.Subscript, ast.Attribute)):
                    cur = cur.value
                    continue
                return None

        def note(t):
            r = root(t)
            if r is None:
                raise Unsupported("assignment target in loop")
            if r[0] == "name":
                names.add(r[1])
            else:
                fields.add((r[1], r[2]))

        for n in ast.walk(ast.Module(body=body, type_ignores=[])):
            if isinstance(n, ast.Assign):
                for t in n.targets:
                    for tt in (t.elts if isinstance(t, (ast.Tuple, ast.List)) else [t]):
                        note(tt)
            elif isinstance(n, (ast.AugAssign, ast.AnnAssign)):
                note(n.target)
            elif isinstance(n, ast.Delete):
                for t in n.targets:
                    note(t)
            elif isinstance(n, ast.For):
                for tt in (n.target.elts if isinstance(n.target, (ast.Tuple, ast.List)) else [n.target]):
                    note(tt)
            elif isinstance(n, ast.ExceptHandler) and n.name:
                names.add(n.name)
            elif isinstance(n, ast.Call) and isinstance(n.func, ast.Attribute):
                recv = n.func.value
                om = None
                if isinstance(recv, ast.Name) and recv.id in alias:
                    om = alias[recv.id]
                elif isinstance(recv, ast.Subscript) and isinstance(recv.value, ast.Name) and isinstance(p.env.get(recv.value.id, SV(T.NONE)).ty, T.ObjMap):
                    om = (recv.value.id, p.env[recv.value.id].ty.cls)
                if om is not None:
                    c = self.frame_contract(om[1], n, p)
                    if c is None:
                        raise Unsupported(f"call of uncontracted method {om[1]}.{n.func.attr}")
                    if c.modifies:
                        names.add(om[0])
                    continue
                if isinstance(recv, ast.Name) and isinstance(p.env.get(recv.id, SV(T.NONE)).ty, T.Obj):
                    obj = p.env[recv.id]
                    if obj.ty.cls in NX_MODIFIES:
                        for f in NX_MODIFIES[obj.ty.cls].get(n.func.attr, ["_gv", "_ge", "_gw"]):
                            fields.add((recv.id, f))
                        continue
                    c = self.frame_contract(obj.ty.cls, n, p)
                    if c is None:
                        raise Unsupported(f"call of uncontracted method {obj.ty.cls}.{n.func.attr}")
                    for f in c.modifies:
                        fields.add((recv.id, f))
                elif n.func.attr in MUTATORS:
                    r = root(recv)
                    if r is None:
                        continue
                    if r[0] == "name":
                        if r[1] in p.env or True:
                            names.add(r[1])
                    else:
                        fields.add((r[1], r[2]))
            elif isinstance(n, ast.Call) and isinstance(n.func, ast.Name) and p.env.get(n.func.id, SV(T.NONE)).ty == T.BOUND:
                bm = p.env[n.func.id]
                tgt = p.env.get(bm.obj)
                if tgt is not None and isinstance(tgt.ty, T.Obj):
                    c = self.reg.method_contract(tgt.ty.cls, bm.attr)
                    if c is None:
                        raise Unsupported(f"call of uncontracted method {tgt.ty.cls}.{bm.attr}")
                    for f in c.modifies:
                        fields.add((bm.obj, f))
                elif bm.attr in MUTATORS:
                    names.add(bm.obj)
            elif isinstance(n, ast.Call) and isinstance(n.func, ast.Name):
                q = self.reg.resolve_function(n.func.id, self.cur_module)
                if q is not None:
                    c = self.reg.contracts[q]
                    for i, pname in enumerate(c.param_names):
                        if pname in c.modifies_args and i < len(n.args) and isinstance(n.args[i], ast.Name):
                            for f in c.modifies_args[pname]:
                                fields.add((n.args[i].id, f))
        return names, fields

    def frame_contract(self, cls, call, p):
        """The contract whose `modifies` describes this call: the variant selected by the literal arguments when they determine
        it, otherwise the union over all variants."""
        cands = self.reg.method_variants(cls, call.func.attr)
        if len(cands) > 1:
            try:
                fdef, _ = self.load(cands[0])
                names = [x.arg for x in fdef.args.args][1:]
                given = dict(zip(names, call.args))
                given.update({k.arg: k.value for k in call.keywords if k.arg})
                defaults = dict(zip(reversed(names), reversed(fdef.args.defaults)))

                def lit(name):
                    node = given.get(name, defaults.get(name))
                    if isinstance(node, ast.Constant):
                        return True, node.value
                    if isinstance(node, ast.Name) and node.id in p.env:
                        v = p.env[node.id]
                        if v.ty == T.BOOL and (z3.is_true(v.t) or z3.is_false(v.t)):
                            return True, z3.is_true(v.t)
                        if v.ty == T.NONE:
                            return True, None
                    return False, None
                ok = []
                for c in cands:
                    decided = [lit(nm) for nm in c.fixed]
                    if all(d[0] for d in decided) and all(d[1] == c.fixed[nm] or (d[1] is c.fixed[nm]) for d, nm in zip(decided, c.fixed)):
                        ok.append(c)
                if len(ok) == 1:
                    return ok[0]
            except Unsupported:
                pass
        return self.reg.method_contract(cls, call.func.attr)

    def havoc(self, p, names, fields, tag):
        for n in names:
            if n in p.env:
                v = p.env[n]
                if isinstance(v.ty, T.Obj):
                    continue
                if v.ty in (T.EMPTYLIST, T.EMPTYDICT, T.EMPTYSET, T.NONE):
                    hint = self.cur.locals.get(n)
                    if hint is None:
                        raise Unsupported(f"loop modifies `{n}` whose type is not known (declare it in locals=)")
                    p.env[n] = self.fresh_of(self.parse_ty(hint.split("|")[0]), f"{tag}_{n}")
                else:
                    p.env[n] = self.fresh_of(v.ty, f"{tag}_{n}")
            else:
                hint = self.cur.locals.get(n)
                if hint is not None:
                    p.env[n] = self.fresh_of(self.parse_ty(hint.split("|")[0]), f"{tag}_{n}")
        byobj = {}
        for o, f in fields:
            byobj.setdefault(o, []).append(f)
        for o, fs in byobj.items():
            obj = p.env[o]
            lay = self.reg.layouts[obj.ty.cls]
            nf = dict(obj.fields)
            for f in fs:
                nf[f] = T.fresh_value(lay.fields[f], f"{tag}_{o}{f}")
            p.env[o] = T.sv_obj(obj.ty.cls, nf)
        for n in names:
            if n in p.env:
                for f in T.type_facts(p.env[n]):
                    p.assume(f)

    def st_For(self, s, p):
        if s.orelse:
            raise Unsupported("for/else")
        ordinal = self.loop_ord[id(s)]
        invs = self.cur.invariants.get(ordinal)
        if invs is None:
            raise Unsupported(f"loop {ordinal} at line {s.lineno} has no invariant")
        it = self.iter_value(s.iter, p)
        kind = it["kind"]
        names, fields = self.modified_in(s.body, p, loop=s)
        tnames = [t.id for t in (s.target.elts if isinstance(s.target, (ast.Tuple, ast.List)) else [s.target]) if isinstance(t, ast.Name)]
        names -= set(tnames)
        pre_env = dict(p.env)
        L = f"L{ordinal}"
        self.loop_pre[ordinal] = pre_env
        tag = f"{self.cur.qual}:loop{ordinal}"

        def ghosts(q, pos):
            # pos: index term (positional) or done-collection term (bag / set)
            q.env[f"_it{ordinal}"] = it["value"]
            q.env[f"_j{ordinal}" if kind == "pos" else f"_done{ordinal}"] = pos

        # 1. entry
        e = p.fork()
        ghosts(e, it["start"])
        self.check_clauses(tag, "entry", invs, e, pre_env=pre_env)
        # 2. arbitrary iteration
        body = p.fork(f"line {s.lineno}: loop {ordinal} arbitrary iteration")
        self.havoc(body, names, fields, L)
        pos = it["fresh_pos"]()
        ghosts(body, pos)
        body.assume(it["in_range"](pos, body))
        self.assume_clauses(invs, body, pre_env=pre_env)
        elem = it["elem"](pos, body)
        if "bind" in it:
            it["bind"](s.target, elem, body)
        else:
            self.store(s.target, elem, body)
        outs = []
        if self.feasible(body):
            for q, out in self.block(s.body, body):
                if out in ("next", "continue"):
                    ghosts(q, it["advance"](pos, elem, q))
                    self.check_clauses(tag, "preserved", invs, q, pre_env=pre_env)
                    if isinstance(s.iter, (ast.Subscript, ast.Attribute)) and not isinstance(it["value"].ty, T.Map):
                        # Python iterates the live container: the body must leave the iterated list as it was
                        try:
                            saved_pending, self.pending = self.pending, []
                            cur_it = self.ev(s.iter, q)
                            self.pending = saved_pending
                            if cur_it.ty == it["value"].ty and cur_it.ty.scalar:
                                self.oblige(f"loop{ordinal}:iter-stable", "iterated container unchanged by the body", q, cur_it.t == it["value"].t)
                        except Unsupported:
                            pass
                    # vacuity canary for the loop body: the hypotheses at the end of an iteration must not be contradictory
                    from .core import Obligation
                    self.obls.append(Obligation(self.cur.qual, "canary", f"loop{ordinal}-body-feasible", 0, list(q.hyps), z3.BoolVal(False),
                                                list(q.trace), "canary"))
                elif out == "break":
                    for g in (f"_it{ordinal}", f"_j{ordinal}", f"_done{ordinal}"):
                        q.env.pop(g, None)
                    outs.append((q, "next"))
                else:
                    outs.append((q, out))
        # 3. after the loop
        after = p.fork(f"line {s.lineno}: loop {ordinal} exit")
        self.havoc(after, names, fields, L + "x")
        endpos = it["end"](after)
        ghosts(after, endpos)
        self.assume_clauses(invs, after, pre_env=pre_env)
        for g in (f"_it{ordinal}", f"_j{ordinal}", f"_done{ordinal}"):
            after.env.pop(g, None)
        after.env[f"_iterated{ordinal}"] = it["value"]      # the collection this loop ran over, for postconditions: local("_iterated<n>")
        for t in tnames:
            after.env.pop(t, None)
        outs.append((after, "next"))
        return outs

    def iter_value(self, e, p):
        """Describe the iteration protocol of the iterable."""
        if isinstance(e, ast.Call) and isinstance(e.func, ast.Name) and e.func.id == "range":
            args = [self.coerce(self.ev(a, p), T.INT).t for a in e.args]
            lo, hi = (z3.IntVal(0), args[0]) if len(args) == 1 else (args[0], args[1])
            if len(args) > 2:
                raise Unsupported("range with step")
            hi2 = z3.If(hi >= lo, hi, lo)
            return dict(kind="pos", value=T.sv_int(hi2), start=T.sv_int(lo),
                        fresh_pos=lambda: T.sv_int(fresh("i", T.I)),
                        in_range=lambda pos, q: z3.And(lo <= pos.t, pos.t < hi),
                        elem=lambda pos, q: pos, advance=lambda pos, el, q: T.sv_int(pos.t + 1),
                        end=lambda q: T.sv_int(hi2))
        if isinstance(e, ast.Call) and isinstance(e.func, ast.Name) and e.func.id == "enumerate" and len(e.args) == 1 and not e.keywords:
            inner = self.iter_value(e.args[0], p)
            if inner["kind"] != "pos" or not isinstance(inner["value"].ty, (T.Seq,)) and inner["value"].ty != T.TUP:
                raise Unsupported("enumerate of a non-positional collection")
            def elem(pos, q):
                el = inner["elem"](pos, q)
                pt = T.Pair(T.INT, el.ty)
                return T.scalar(pt, pt.mk(pos.t, el.t))
            return dict(inner, elem=elem)
        items_of = None
        if isinstance(e, ast.Call) and isinstance(e.func, ast.Attribute) and e.func.attr == "items" and not e.args:
            m = self.ev(e.func.value, p)
            if isinstance(m.ty, T.ObjMap):
                if not isinstance(e.func.value, ast.Name):
                    raise Unsupported("items() of a dict of objects that is not a plain name")
                mname = e.func.value.id
                keys_call = ast.fix_missing_locations(ast.copy_location(
                    ast.Call(func=ast.copy_location(ast.Attribute(value=e.func.value, attr="keys", ctx=ast.Load()), e), args=[], keywords=[]), e))
                inner = self.iter_value(keys_call, p)

                def bind(target, elem, q):
                    # for k, v in d.items(): v is a reference into d (d as it is at this point of the iteration)
                    if not (isinstance(target, (ast.Tuple, ast.List)) and len(target.elts) == 2 and all(isinstance(t, ast.Name) for t in target.elts)):
                        raise Unsupported("items() of a dict of objects needs a `k, v` target")
                    cur = q.env[mname]
                    obj = self.om_get(cur, elem.t)
                    obj.ref = (mname, elem.t)
                    q.env[target.elts[0].id] = elem
                    q.env[target.elts[1].id] = obj
                return dict(inner, bind=bind)
            if isinstance(m.ty, T.Map):
                items_of = m
                v = T.scalar(T.Set(m.ty.k), m.dom)
        if items_of is None:
            v = self.ev(e, p)
        if isinstance(v.ty, T.Opt):
            self._raise_if(p, v.is_none, "TypeError", f"line {e.lineno}")
            v = v.val
        if isinstance(v.ty, T.Map):
            v = T.scalar(T.Set(v.ty.k), v.dom)
        if v.ty == T.TUP or isinstance(v.ty, T.Seq):
            ln = TH.tlen(v.t) if v.ty == T.TUP else v.len
            at = (lambda j: T.sv_int(TH.tat(v.t, j))) if v.ty == T.TUP else (lambda j: T.scalar(v.ty.e, v.at[j]))
            return dict(kind="pos", value=v, start=T.sv_int(0),
                        fresh_pos=lambda: T.sv_int(fresh("j", T.I)),
                        in_range=lambda pos, q: z3.And(0 <= pos.t, pos.t < ln),
                        elem=lambda pos, q: at(pos.t), advance=lambda pos, el, q: T.sv_int(pos.t + 1),
                        end=lambda q: T.sv_int(ln))
        if isinstance(v.ty, T.Set):
            st = v.ty
            def in_range(pos, q):
                x = fresh("x", st.e.sort())
                return z3.ForAll([x], z3.Implies(pos.t[x], v.t[x]), patterns=[pos.t[x]])
            def elem(pos, q):
                x = fresh("cur", st.e.sort())
                q.assume(z3.And(v.t[x], z3.Not(pos.t[x])))
                q.env["_cur_key"] = T.scalar(st.e, x)
                if items_of is not None:
                    pt = T.Pair(items_of.ty.k, items_of.ty.v)
                    return T.scalar(pt, pt.mk(x, items_of.val[x]))
                return T.scalar(st.e, x)
            def advance(pos, el, q):
                key = q.env.pop("_cur_key").t if "_cur_key" in q.env else el.t
                return self.named(T.scalar(st, z3.Store(pos.t, key, True)), q, "done")
            return dict(kind="coll", value=v, start=T.scalar(st, z3.K(st.e.sort(), z3.BoolVal(False))),
                        fresh_pos=lambda: T.scalar(st, fresh("done", st.sort())),
                        in_range=in_range, elem=elem, advance=advance, end=lambda q: v)
        if isinstance(v.ty, T.Bag):
            bt = v.ty
            def in_range(pos, q):
                x = fresh("x", bt.e.sort())
                return z3.And(z3.ForAll([x], z3.And(0 <= pos.t[x], pos.t[x] <= v.t[x]), patterns=[pos.t[x]]),
                              0 <= bt.blen()(pos.t), bt.blen()(pos.t) <= bt.blen()(v.t))
            def elem(pos, q):
                x = fresh("cur", bt.e.sort())
                q.assume(pos.t[x] < v.t[x])
                q.assume(bt.blen()(pos.t) < bt.blen()(v.t))    # there is a next element: fewer consumed than there are
                return T.scalar(bt.e, x)
            def advance(pos, el, q):
                nv = self.named(T.scalar(bt, z3.Store(pos.t, el.t, pos.t[el.t] + 1)), q, "done")
                q.assume(bt.blen()(nv.t) == bt.blen()(pos.t) + 1)
                return nv
            return dict(kind="coll", value=v, start=T.scalar(bt, z3.K(bt.e.sort(), z3.IntVal(0))),
                        fresh_pos=lambda: T.scalar(bt, fresh("done", bt.sort())),
                        in_range=in_range, elem=elem, advance=advance, end=lambda q: v)
        if v.ty in (T.EMPTYLIST, T.EMPTYDICT, T.EMPTYSET):
            return dict(kind="pos", value=T.sv_int(0), start=T.sv_int(0), fresh_pos=lambda: T.sv_int(fresh("j", T.I)),
                        in_range=lambda pos, q: z3.BoolVal(False), elem=lambda pos, q: T.sv_int(0),
                        advance=lambda pos, el, q: pos, end=lambda q: T.sv_int(0))
        raise Unsupported(f"iteration over {v.ty}")

    def st_While(self, s, p):
        """while test: body  - cut by the sidecar invariant: (entry) it holds; (arbitrary iteration) invariant and test, after the body the
        invariant again; (exit) invariant and not test.  Termination is not proved."""
        if s.orelse:
            raise Unsupported("while/else")
        ordinal = self.loop_ord[id(s)]
        invs = self.cur.invariants.get(ordinal)
        if invs is None:
            raise Unsupported(f"loop {ordinal} at line {s.lineno} has no invariant")
        names, fields = self.modified_in(s.body, p)
        pre_env = dict(p.env)
        self.loop_pre[ordinal] = pre_env
        tag = f"{self.cur.qual}:loop{ordinal}"
        e = p.fork()
        self.check_clauses(tag, "entry", invs, e, pre_env=pre_env)
        body = p.fork(f"line {s.lineno}: loop {ordinal} arbitrary iteration")
        self.havoc(body, names, fields, f"L{ordinal}")
        self.assume_clauses(invs, body, pre_env=pre_env)
        body.assume(self.truth(self.ev(s.test, body), body))
        outs = []
        if self.feasible(body):
            for q, out in self.block(s.body, body):
                if out in ("next", "continue"):
                    self.check_clauses(tag, "preserved", invs, q, pre_env=pre_env)
                    from .core import Obligation
                    self.obls.append(Obligation(self.cur.qual, "canary", f"loop{ordinal}-body-feasible", 0, list(q.hyps), z3.BoolVal(False),
                                                list(q.trace), "canary"))
                elif out == "break":
                    outs.append((q, "next"))
                else:
                    outs.append((q, out))
        after = p.fork(f"line {s.lineno}: loop {ordinal} exit")
        self.havoc(after, names, fields, f"L{ordinal}x")
        self.assume_clauses(invs, after, pre_env=pre_env)
        after.assume(z3.Not(self.truth(self.ev(s.test, after), after)))
        outs.append((after, "next"))
        return outs
