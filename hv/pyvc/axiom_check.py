"""Concrete-instance check of the built-in theory (DESIGN.md §3.4): every axiom of hv/pyvc/theory.py about node tuples, metadata dicts and
finite collections of integers is evaluated in the intended model - Python tuples, dicts, sets and lists - for every assignment of its
bound variables over a small finite domain.  An axiom that is false in the intended model (a wrong guard, a swapped argument) shows up as a
counter-instance.  This does not prove the axioms (the domain is finite), it removes typing-error class mistakes from the trusted base.

    python -m hv.pyvc.axiom_check        exit 0 when no counter-instance was found; writes evidence/axioms.json
"""
import itertools
import json
import os
import sys
import time

import z3

from . import theory as TH
from . import ty as T

NODES = (0, 1, 2)
INTS = (-1, 0, 1, 2, 3, 4)
TUPS = [t for n in range(0, 4) for t in itertools.product(NODES, repeat=n)]
FIELDS, VALS = ("f0", "f1"), ("v0", "v1")
METAS = [tuple(sorted(d.items())) for d in
         (dict(zip(fs, vs)) for r in range(0, 3) for fs in itertools.combinations(FIELDS, r) for vs in itertools.product(VALS, repeat=r))]
SETS = [frozenset(s) for r in range(0, 4) for s in itertools.combinations(NODES, r)]
BAGS = [tuple(c) for c in itertools.product((0, 1, 2), repeat=len(NODES))]          # multiplicity of each node


class Arr:
    """Total function with a default (z3 arrays): dict of exceptions + default value."""

    def __init__(self, d, default):
        self.d = {k: v for k, v in d.items() if v != default}
        self.default = default

    def get(self, k):
        return self.d.get(k, self.default)

    def store(self, k, v):
        d = dict(self.d)
        d[k] = v
        return Arr(d, self.default)

    def key(self):
        return (tuple(sorted(self.d.items(), key=repr)), self.default)

    def __eq__(self, o):
        return isinstance(o, Arr) and self.key() == o.key()

    def __hash__(self):
        return hash(self.key())


def set_arr(s):
    return Arr({x: True for x in s}, False)


def bag_arr(b):
    return Arr({n: c for n, c in zip(NODES, b)}, 0)


def _diff_witness(a, b):
    for x in sorted(set(a.d) | set(b.d), key=repr):
        if a.get(x) != b.get(x):
            return x
    return 0


def interpretations():
    f = {
        "tlen": len,
        "tat": lambda k, j: k[j] if 0 <= j < len(k) else 0,
        "tmem": lambda k, n: n in k,
        "pmem": lambda k, j, n: n in k[:max(0, j)],
        "strict": lambda k: all(a < b for a, b in zip(k, k[1:])),
        "distinct_t": lambda k: len(set(k)) == len(k),
        "canon": lambda k: tuple(sorted(k)),
        "tfilter_ne": lambda k, x: tuple(n for n in k if n != x),
        "tsingle": lambda x: (x,),
        "twith": lambda k, x: tuple(sorted(set(k) | {x})),
        "tdiff": lambda a, b: next(iter(sorted(set(a) ^ set(b))), 0),
        "EMPTY_TUP": (),
        "EMPTY_META": (),
        "mhas": lambda m, g: g in dict(m),
        "mget": lambda m, g: dict(m).get(g, "v0"),
        "mset": lambda m, g, v: tuple(sorted({**dict(m), g: v}.items())),
        "mdel": lambda m, g: tuple(sorted((a, b) for a, b in m if a != g)),
    }
    n = T._sname(T.INT)
    f.update({
        f"card_{n}": lambda s: sum(1 for v in s.d.values() if v),
        f"blen_{n}": lambda b: sum(b.d.values()),
        f"supp_{n}": lambda b: Arr({k: True for k, v in b.d.items() if v >= 1}, False),
        f"bagof_{n}": lambda s: Arr({k: 1 for k, v in s.d.items() if v}, 0),
        f"set_union_{n}": lambda a, b: Arr({k: True for k in set(a.d) | set(b.d)}, False),
        f"set_inter_{n}": lambda a, b: Arr({k: True for k in set(a.d) & set(b.d)}, False),
        f"set_diff_{n}": lambda a, b: Arr({k: True for k in set(a.d) - set(b.d)}, False),
        # Skolem witnesses, interpreted as their axioms intend: an element listed more than once / a member of a that is not in b (if any)
        f"w01_{n}": lambda b: next((k for k, v in sorted(b.d.items()) if v > 1 or v < 0), 0),
        f"subset_witness_{n}": lambda a, b: next((k for k in sorted(a.d) if a.get(k) and not b.get(k)), 0),
        f"some_{n}": lambda s: next((k for k in sorted(s.d) if s.get(k)), 0),        # a member of the set if it has one
    })
    return f


class Unknown(Exception):
    pass


def domain(sort):
    s = sort.sexpr() if hasattr(sort, "sexpr") else str(sort)
    if sort == T.TupS:
        return TUPS
    if sort == T.I:
        return INTS
    if sort == T.MetaS:
        return METAS
    if sort == T.FieldS:
        return FIELDS
    if sort == T.ValS:
        return VALS
    if sort == T.B:
        return (False, True)
    if sort.kind() == z3.Z3_ARRAY_SORT and sort.domain() == T.I and sort.range() == T.B:
        return [set_arr(x) for x in SETS]
    if sort.kind() == z3.Z3_ARRAY_SORT and sort.domain() == T.I and sort.range() == T.I:
        return [bag_arr(x) for x in BAGS]
    raise Unknown(f"no finite domain for sort {s}")


def evaluate(t, env, F):
    if z3.is_var(t):
        return env[len(env) - 1 - z3.get_var_index(t)]
    if z3.is_quantifier(t):
        doms = [domain(t.var_sort(i)) for i in range(t.num_vars())]
        results = (evaluate(t.body(), env + list(vals), F) for vals in itertools.product(*doms))
        return all(results) if t.is_forall() else any(results)
    if z3.is_int_value(t):
        return t.as_long()
    if z3.is_rational_value(t):
        return t.numerator_as_long() / t.denominator_as_long()
    k = t.decl().kind()
    ch = t.children()
    if k == z3.Z3_OP_TRUE:
        return True
    if k == z3.Z3_OP_FALSE:
        return False
    if k == z3.Z3_OP_AND:
        return all(evaluate(c, env, F) for c in ch)
    if k == z3.Z3_OP_OR:
        return any(evaluate(c, env, F) for c in ch)
    if k == z3.Z3_OP_NOT:
        return not evaluate(ch[0], env, F)
    if k == z3.Z3_OP_IMPLIES:
        return (not evaluate(ch[0], env, F)) or evaluate(ch[1], env, F)
    if k == z3.Z3_OP_ITE:
        return evaluate(ch[1], env, F) if evaluate(ch[0], env, F) else evaluate(ch[2], env, F)
    if k in (z3.Z3_OP_EQ, z3.Z3_OP_IFF):
        return evaluate(ch[0], env, F) == evaluate(ch[1], env, F)
    if k == z3.Z3_OP_DISTINCT:
        vs = [evaluate(c, env, F) for c in ch]
        return len(set(map(repr, vs))) == len(vs)
    vals = [evaluate(c, env, F) for c in ch]
    if k == z3.Z3_OP_LE:
        return vals[0] <= vals[1]
    if k == z3.Z3_OP_LT:
        return vals[0] < vals[1]
    if k == z3.Z3_OP_GE:
        return vals[0] >= vals[1]
    if k == z3.Z3_OP_GT:
        return vals[0] > vals[1]
    if k == z3.Z3_OP_ADD:
        return sum(vals)
    if k == z3.Z3_OP_SUB:
        return vals[0] - sum(vals[1:])
    if k == z3.Z3_OP_UMINUS:
        return -vals[0]
    if k == z3.Z3_OP_MUL:
        r = 1
        for v in vals:
            r *= v
        return r
    if k == z3.Z3_OP_TO_REAL:
        return vals[0]
    if k == z3.Z3_OP_SELECT:
        return vals[0].get(vals[1])
    if k == z3.Z3_OP_STORE:
        return vals[0].store(vals[1], vals[2])
    if k == z3.Z3_OP_CONST_ARRAY:
        return Arr({}, vals[0])
    if k == z3.Z3_OP_UNINTERPRETED:
        name = t.decl().name()
        if name not in F:
            if name.startswith(("card_ext", "blen_ext", "setdiff", "bagdiff", "cdiff", "bdiff")) or "diff" in name and len(vals) == 2 and isinstance(vals[0], Arr):
                return _diff_witness(vals[0], vals[1])
            raise Unknown(f"no interpretation for {name}")
        fn = F[name]
        return fn(*vals) if callable(fn) else fn
    raise Unknown(f"operator {t.decl().name()} not handled")


def check_axiom(name, ax, F, limit=400000):
    """-> (status, instances, counter-instance)"""
    if z3.is_quantifier(ax) and ax.is_forall():
        try:
            doms = [domain(ax.var_sort(i)) for i in range(ax.num_vars())]
        except Unknown as ex:
            return "skipped: " + str(ex), 0, None
        total = 1
        for d in doms:
            total *= len(d)
        if total > limit:
            return f"skipped: {total} instances", 0, None
        n = 0
        try:
            for vals in itertools.product(*doms):
                n += 1
                if not evaluate(ax.body(), list(vals), F):
                    names = [ax.var_name(i) for i in range(ax.num_vars())]
                    return "COUNTER-INSTANCE", n, {a: repr(v.key() if isinstance(v, Arr) else v) for a, v in zip(names, vals)}
        except Unknown as ex:
            return "skipped: " + str(ex), n, None
        return "holds", n, None
    try:
        return ("holds" if evaluate(ax, [], F) else "COUNTER-INSTANCE"), 1, None
    except Unknown as ex:
        return "skipped: " + str(ex), 0, None


def run():
    t0 = time.time()
    F = interpretations()
    T.Set(T.INT), T.Bag(T.INT)
    axioms = dict(TH.THEORY)
    axioms.update(TH.collection_axioms(T.INT))
    # the evaluator must be able to refute something: two deliberately wrong variants of real axioms
    _k, _n = z3.Const("_k", T.TupS), z3.Int("_n")
    wrong = {"tfilter_mem without the inequality": z3.ForAll([_k, _n, z3.Int("_x")], TH.tmem(TH.tfilter_ne(_k, z3.Int("_x")), _n) == TH.tmem(_k, _n)),
             "canon_strict without distinctness": z3.ForAll([_k], TH.strict(TH.canon(_k)))}
    for name, ax in wrong.items():
        if check_axiom(name, ax, F)[0] != "COUNTER-INSTANCE":
            print(f"AXIOM-CHECK-BROKEN: the wrong axiom `{name}` was not refuted")
            return 3
    rows, bad = [], 0
    for name, ax in axioms.items():
        st, n, cx = check_axiom(name, ax, F)
        rows.append(dict(axiom=name, status=st, instances=n, counter_instance=cx))
        if st == "COUNTER-INSTANCE":
            bad += 1
            print(f"COUNTER-INSTANCE {name}: {cx}")
    held = sum(r["status"] == "holds" for r in rows)
    skipped = [r["axiom"] + " (" + r["status"][9:] + ")" for r in rows if r["status"].startswith("skipped")]
    ev = dict(domain=dict(nodes=NODES, ints=INTS, tuples=len(TUPS), metas=len(METAS), sets=len(SETS), bags=len(BAGS)),
              axioms=len(rows), hold=held, counter_instances=bad, skipped=skipped, instances=sum(r["instances"] for r in rows),
              results=rows, wall_s=round(time.time() - t0, 1))
    out = os.path.join(os.path.dirname(os.path.dirname(os.path.dirname(os.path.abspath(__file__)))), "evidence", "axioms.json")
    json.dump(ev, open(out, "w"), indent=1)
    print(f"axiom check: {held}/{len(rows)} axioms hold on every instance ({ev['instances']} instances), {bad} counter-instances, {len(skipped)} skipped: {skipped}")
    return 1 if bad else 0


if __name__ == "__main__":
    sys.exit(run())
