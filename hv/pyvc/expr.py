"""Expression evaluation of the PyV subset over symbolic values."""
import ast
import z3
from . import ty as T
from .ty import SV, fresh
from . import theory as TH
from .core import Unsupported, quick_unsat


def is_ty(v, cls):
    return isinstance(v.ty, cls)


class ExprMixin:
    # ------------------------------------------------------------------ guards / implicit exceptions
    def _guard(self):
        return z3.And(self.guards) if self.guards else None

    def _assume(self, p, f):
        g = self._guard()
        p.assume(f if g is None else z3.Implies(g, f))

    def _raise_if(self, p, cond, exc, note):
        """Fork an exceptional path on which `cond` holds; the current path continues with not cond."""
        if self.spec_mode:
            return    # specification expressions are total: an out-of-domain read denotes an unspecified value
        g = self._guard()
        full = cond if g is None else z3.And(g, cond)
        if z3.is_false(z3.simplify(full)):
            return
        q = p.fork(f"implicit {exc} at {note}")
        q.assume(full)
        if not quick_unsat(q.hyps, self.prune_ms):
            if self.spec_mode:
                raise Unsupported(f"specification expression may raise {exc} at {note}")
            self.pending.append((q, exc))
        p.assume(z3.Not(full))

    # ------------------------------------------------------------------ coercions
    def coerce(self, v, ty):
        if v.ty == ty:
            return v
        if isinstance(ty, T.Multi) and isinstance(v.ty, T.Multi) and len(ty.ts) == len(v.ty.ts):
            return T.sv_multi([self.coerce(x, t) for x, t in zip(v.items, ty.ts)])
        if isinstance(ty, T.Opt):
            if v.ty == T.NONE:
                return T.sv_opt(ty.t, z3.BoolVal(True), T.fresh_value(ty.t, "nonepayload"))
            if isinstance(v.ty, T.Opt):
                return T.sv_opt(ty.t, v.is_none, self.coerce(v.val, ty.t))
            return T.sv_opt(ty.t, z3.BoolVal(False), self.coerce(v, ty.t))
        if ty == T.VOBJ and v.ty == T.INT:
            return T.scalar(T.VOBJ, T.VObjS.oNode(v.t))         # a node stored in a table that also holds hyperedges
        if ty == T.VOBJ and v.ty == T.TUP:
            return T.scalar(T.VOBJ, T.VObjS.oEdge(v.t))
        if ty == T.REAL and v.ty in (T.INT, T.BOOL):
            return T.sv_real(T.to_real(v))
        if ty == T.XINT and v.ty in (T.INT, T.BOOL):
            return T.scalar(T.XINT, T.XIntS.fin(self.coerce(v, T.INT).t))
        if ty == T.INT and v.ty == T.BOOL:
            return T.sv_int(z3.If(v.t, 1, 0))
        if isinstance(ty, T.Map) and isinstance(v.ty, T.Map) and ty.k == v.ty.k == T.INT and ty.v == T.REAL and v.ty.v == T.INT:
            return T.sv_map(T.INT, T.REAL, v.dom, TH.SEQ_TOREAL(v.val))      # {int: int} read as {int: float}
        if isinstance(ty, T.Seq) and isinstance(v.ty, T.Seq) and ty.e == T.REAL and v.ty.e == T.INT:
            return T.sv_seq(T.REAL, v.len, TH.SEQ_TOREAL(v.at))
        if isinstance(ty, T.Bag) and isinstance(v.ty, T.Set) and ty.e == v.ty.e:
            return T.scalar(ty, TH.bagof_fn(ty.e)(v.t))       # a set passed where a list is iterated: every member once (axioms bagof_def, bagof_len)
        if v.ty == T.EMPTYLIST:
            if isinstance(ty, T.Bag):
                return T.scalar(ty, z3.K(ty.e.sort(), z3.IntVal(0)))
            if isinstance(ty, T.Seq):
                return T.sv_seq(ty.e, z3.IntVal(0), fresh("emptyat", z3.ArraySort(T.I, ty.e.sort())))
            if ty == T.TUP:
                return T.scalar(T.TUP, TH.EMPTY_TUP)
        if v.ty == T.EMPTYDICT and isinstance(ty, T.ObjMap):
            return self.om_fresh(ty, "emptyobjmap", empty=True)
        if v.ty == T.EMPTYDICT:
            if ty == T.META:
                return T.scalar(T.META, TH.EMPTY_META)
            if isinstance(ty, T.Map):
                return T.sv_map(ty.k, ty.v, z3.K(ty.k.sort(), z3.BoolVal(False)),
                                fresh("emptyval", z3.ArraySort(ty.k.sort(), ty.v.sort())))
        if v.ty == T.EMPTYSET and isinstance(ty, T.Set):
            return T.scalar(ty, z3.K(ty.e.sort(), z3.BoolVal(False)))
        if isinstance(v.ty, T.Opt) and v.ty.t == ty:
            # reading an Optional where a plain value is required: Python would fail on None
            return v.val
        raise Unsupported(f"cannot coerce {v.ty} to {ty}")

    def unopt(self, v, p, note):
        """Use an Optional as a plain value (arithmetic, comparison): TypeError path when it is None."""
        if isinstance(v.ty, T.Opt):
            self._raise_if(p, v.is_none, "TypeError", note)
            return v.val
        if v.ty == T.NONE:
            self._raise_if(p, z3.BoolVal(True), "TypeError", note)
            raise Unsupported("None used as a value")
        return v

    def merge(self, c, a, b):
        """Value of `a if c else b`."""
        if a.ty == T.NONE and b.ty == T.NONE:
            return a
        if a.ty == T.NONE or b.ty == T.NONE or isinstance(a.ty, T.Opt) or isinstance(b.ty, T.Opt):
            inner = [x.ty.t if isinstance(x.ty, T.Opt) else x.ty for x in (a, b) if x.ty != T.NONE]
            inner = [T.META if t == T.EMPTYDICT else t for t in inner]
            if len(set(inner)) > 1 and set(inner) <= {T.INT, T.REAL, T.BOOL}:
                base = T.REAL if T.REAL in inner else T.INT
            else:
                base = inner[0]
            oa, ob = self.coerce(a, T.Opt(base)), self.coerce(b, T.Opt(base))
            return T.sv_opt(base, z3.If(c, oa.is_none, ob.is_none), self.merge(c, oa.val, ob.val))
        if a.ty != b.ty:
            if T.XINT in (a.ty, b.ty) and {a.ty, b.ty} <= {T.XINT, T.INT, T.BOOL}:
                a, b = self.coerce(a, T.XINT), self.coerce(b, T.XINT)
            elif {a.ty, b.ty} <= {T.INT, T.REAL, T.BOOL}:
                tt = T.REAL if T.REAL in (a.ty, b.ty) else T.INT
                a, b = self.coerce(a, tt), self.coerce(b, tt)
            elif a.ty in (T.EMPTYDICT, T.EMPTYLIST, T.EMPTYSET):
                a = self.coerce(a, b.ty)
            elif b.ty in (T.EMPTYDICT, T.EMPTYLIST, T.EMPTYSET):
                b = self.coerce(b, a.ty)
            else:
                raise Unsupported(f"conditional expression over {a.ty} / {b.ty}")
        if a.ty.scalar:
            return T.scalar(a.ty, z3.If(c, a.t, b.t))
        if isinstance(a.ty, T.Seq):
            return T.sv_seq(a.ty.e, z3.If(c, a.len, b.len), z3.If(c, a.at, b.at))
        raise Unsupported(f"conditional expression over {a.ty}")

    # ------------------------------------------------------------------ truthiness, length, membership
    def truth(self, v, p):
        if v.ty == T.BOOL:
            return v.t
        if v.ty == T.NONE:
            return z3.BoolVal(False)
        if v.ty == T.INT:
            return v.t != 0
        if v.ty == T.REAL:
            return v.t != 0
        if isinstance(v.ty, T.Opt):
            inner = self.truth(v.val, p)
            return z3.And(z3.Not(v.is_none), inner)
        if v.ty in (T.EMPTYLIST, T.EMPTYDICT, T.EMPTYSET):
            return z3.BoolVal(False)
        if v.ty == T.META:
            return v.t != TH.EMPTY_META
        if v.ty == T.TUP or isinstance(v.ty, (T.Bag, T.Set, T.Map, T.Seq)):
            return self.length(v, p) > 0
        if isinstance(v.ty, T.Obj):
            return z3.BoolVal(True)
        raise Unsupported(f"truthiness of {v.ty}")

    def length(self, v, p):
        if isinstance(v.ty, T.Opt):
            self._raise_if(p, v.is_none, "TypeError", "len(None)")
            return self.length(v.val, p)
        if v.ty == T.TUP:
            return TH.tlen(v.t)
        if isinstance(v.ty, T.Bag):
            n = v.ty.blen()(v.t)
            p.assume(n >= 0)
            return n
        if isinstance(v.ty, T.Set):
            n = v.ty.card()(v.t)
            p.assume(n >= 0)
            return n
        if isinstance(v.ty, (T.Map, T.ObjMap)):
            n = T.Set(v.ty.k).card()(v.dom)
            p.assume(n >= 0)
            return n
        if isinstance(v.ty, T.Seq):
            return v.len
        if v.ty in (T.EMPTYLIST, T.EMPTYDICT, T.EMPTYSET):
            return z3.IntVal(0)
        if isinstance(v.ty, T.Pair):
            return z3.IntVal(2)
        raise Unsupported(f"len of {v.ty}")

    def member(self, x, c, p):
        """x in c"""
        if c.ty == T.VNAME and x.ty == T.STR:
            if "E" in self.strs and x.t.eq(self.strs["E"]):
                return T.VNameS.is_vE(c.t)                   # 'E' in name: exactly the hyperedge names contain the letter
            raise Unsupported("substring test on a vertex name other than 'E' in name")
        if isinstance(c.ty, T.Opt):
            if not self.spec_mode:
                self._raise_if(p, c.is_none, "TypeError", "`in` on None")
            return self.member(x, c.val, p)
        if isinstance(c.ty, (T.Map, T.ObjMap)):
            return c.dom[self.coerce(x, c.ty.k).t]
        if c.ty == T.TUP:
            return TH.tmem(c.t, self.coerce(x, T.INT).t)
        if isinstance(c.ty, T.Set):
            return c.t[self.coerce(x, c.ty.e).t]
        if isinstance(c.ty, T.Bag):
            return c.t[self.coerce(x, c.ty.e).t] >= 1
        if c.ty in (T.EMPTYLIST, T.EMPTYDICT, T.EMPTYSET):
            return z3.BoolVal(False)
        if isinstance(c.ty, T.Seq):
            j = fresh("memj", T.I)   # existential witness index, Skolemised both ways is not possible: use a function
            raise Unsupported("membership in a positional list")
        raise Unsupported(f"`in` on {c.ty}")

    def bag_of(self, v, p):
        """list(x) as a bag of its elements (x a node tuple or already a bag)."""
        if isinstance(v.ty, T.Bag):
            return v
        if v.ty == T.TUP:
            bt = T.Bag(T.INT)
            b = fresh("bagoftup", bt.sort())
            n = fresh("n", T.I)
            tcount = z3.Function("tcount", T.TupS, T.I, T.I)     # number of occurrences of n in the tuple
            self._assume(p, z3.ForAll([n], b[n] == tcount(v.t, n), patterns=[b[n]]))
            self._assume(p, z3.ForAll([n], z3.And(tcount(v.t, n) >= 0, (tcount(v.t, n) >= 1) == TH.tmem(v.t, n),
                                                  z3.Implies(TH.distinct_t(v.t), tcount(v.t, n) <= 1)),
                                      patterns=[tcount(v.t, n), TH.tmem(v.t, n)]))
            self._assume(p, bt.blen()(b) == TH.tlen(v.t))
            return T.scalar(bt, b)
        raise Unsupported(f"list of {v.ty}")

    def equal(self, a, b, p):
        if a.ty == T.NONE or b.ty == T.NONE:
            o = b if a.ty == T.NONE else a
            if o.ty == T.NONE:
                return z3.BoolVal(True)
            if isinstance(o.ty, T.Opt):
                return o.is_none
            return z3.BoolVal(False)
        if isinstance(a.ty, T.Opt) and isinstance(b.ty, T.Opt):
            return z3.And(a.is_none == b.is_none, z3.Implies(z3.Not(a.is_none), self.equal(a.val, b.val, p)))
        if isinstance(a.ty, T.Opt):
            return z3.And(z3.Not(a.is_none), self.equal(a.val, b, p))
        if isinstance(b.ty, T.Opt):
            return z3.And(z3.Not(b.is_none), self.equal(a, b.val, p))
        if T.XINT in (a.ty, b.ty) and a.ty != b.ty and {a.ty, b.ty} <= {T.XINT, T.INT, T.BOOL}:
            return self.coerce(a, T.XINT).t == self.coerce(b, T.XINT).t
        if {a.ty, b.ty} <= {T.INT, T.REAL, T.BOOL} and a.ty != b.ty:
            return T.to_real(a) == T.to_real(b)
        if a.ty in (T.EMPTYDICT, T.EMPTYLIST, T.EMPTYSET) and b.ty not in (T.EMPTYDICT, T.EMPTYLIST, T.EMPTYSET):
            a = self.coerce(a, b.ty)
        if b.ty in (T.EMPTYDICT, T.EMPTYLIST, T.EMPTYSET) and a.ty not in (T.EMPTYDICT, T.EMPTYLIST, T.EMPTYSET):
            b = self.coerce(b, a.ty)
        if a.ty != b.ty:
            raise Unsupported(f"== between {a.ty} and {b.ty}")
        if a.ty == T.STR:
            known = list(self.strs.values())
            if any(a.t.eq(k) for k in known) and any(b.t.eq(k) for k in known):
                return z3.BoolVal(a.t.eq(b.t))      # two string literals
        if a.ty.scalar:
            return a.t == b.t
        if isinstance(a.ty, T.Map):
            k = fresh("eqk", a.ty.k.sort())
            return z3.And(a.dom == b.dom, z3.ForAll([k], z3.Implies(a.dom[k], a.val[k] == b.val[k])))
        raise Unsupported(f"== on {a.ty}")

    # ------------------------------------------------------------------ expressions
    def ev(self, e, p):
        m = getattr(self, "ev_" + type(e).__name__, None)
        if m is None:
            raise Unsupported(f"expression {type(e).__name__} at line {getattr(e, 'lineno', '?')}")
        return m(e, p)

    def ev_Constant(self, e, p):
        v = e.value
        if v is None:
            return T.sv_none()
        if isinstance(v, bool):
            return T.sv_bool(v)
        if isinstance(v, int):
            return T.sv_int(v)
        if isinstance(v, float):
            return T.sv_real(z3.RealVal(repr(v)))
        if isinstance(v, str):
            return self.str_const(v)
        raise Unsupported(f"constant {v!r}")

    def str_const(self, s):
        c = self.strs.get(s)
        if c is None:
            c = z3.Const(f"str_{len(self.strs)}_{''.join(ch if ch.isalnum() else '_' for ch in s)[:20]}", T.StrS)
            self.strs[s] = c
        return T.scalar(T.STR, c)

    def ev_Name(self, e, p):
        if e.id in p.env:
            return p.env[e.id]
        if self.spec_mode:
            return self.spec_name(e.id, p)
        if e.id in ("True", "False"):
            return T.sv_bool(e.id == "True")
        raise Unsupported(f"name {e.id} at line {e.lineno}")

    def ev_Attribute(self, e, p):
        if e.attr == "__name__" and isinstance(e.value, ast.Call) and isinstance(e.value.func, ast.Name) and e.value.func.id == "type" \
                and len(e.value.args) == 1:
            o = self.ev(e.value.args[0], p)
            if isinstance(o.ty, T.Obj):
                return self.str_const(o.ty.cls)
            raise Unsupported("type(x).__name__ of a non-object")
        if e.attr == "inf" and isinstance(e.value, ast.Name) and e.value.id == "math" and "math" not in p.env:
            return T.scalar(T.XINT, T.XIntS.pinf)      # math.inf, used as the neutral element of a running min / max over integers
        base = self.ev(e.value, p)
        if isinstance(base.ty, T.Obj) and base.ty.cls == "LabelEnc" and e.attr == "classes_":
            # the fitted labels, each once (sorted by sklearn; the order is not modelled): assumed library contract
            dom = base.fields["_enc"].dom          # the same listing at every read: a function of the label set
            return self.uniq_seq(T.Set(T.INT), dom, p, at=TH.sorted_fn(T.INT)(dom), idx=lambda x: TH.sorted_idx_fn(T.INT)(dom, x))
        if isinstance(e.value, ast.Name) and not self.spec_mode and (
                (isinstance(base.ty, T.Obj) and e.attr not in base.fields) or isinstance(base.ty, (T.Bag, T.Set, T.Map, T.Seq)) or base.ty in (T.EMPTYLIST, T.EMPTYSET, T.EMPTYDICT)):
            # a method reference, to be called later through its alias. The alias is resolved by the *name* of the container, which is only
            # right if that name is bound once in the function (a second `xs = ...` would leave the alias on the old object)
            fdef = getattr(self, "cur_fdef", None)
            if fdef is not None:
                binds = 0
                for n in ast.walk(fdef):
                    tg = []
                    if isinstance(n, ast.Assign):
                        tg = n.targets
                    elif isinstance(n, (ast.AugAssign, ast.AnnAssign, ast.For)):
                        tg = [n.target]
                    for t in tg:
                        for tt in (t.elts if isinstance(t, (ast.Tuple, ast.List)) else [t]):
                            if isinstance(tt, ast.Name) and tt.id == e.value.id:
                                binds += 1
                if binds > 1:
                    raise Unsupported(f"bound-method alias of `{e.value.id}`, which is assigned more than once")
            return SV(T.BOUND, obj=e.value.id, attr=e.attr)
        if isinstance(base.ty, T.Obj):
            if e.attr not in base.fields:
                raise Unsupported(f"field {e.attr} of {base.ty} is not in the declared layout")
            return base.fields[e.attr]
        raise Unsupported(f"attribute {e.attr} on {base.ty}")

    def ev_Dict(self, e, p):
        if not e.keys:
            return SV(T.EMPTYDICT)
        if all(isinstance(k, ast.Constant) and isinstance(k.value, str) for k in e.keys):
            m = TH.EMPTY_META
            for k, v in zip(e.keys, e.values):
                m = TH.mset(m, self.field_const(k.value), self.to_val(self.ev(v, p)))
            return T.scalar(T.META, m)
        if all(k is not None for k in e.keys):
            # {k1: v1, ...} with computed scalar keys of one type and values of one type: later entries overwrite earlier ones
            ks = [self.ev(k, p) for k in e.keys]
            vs = [self.ev(v, p) for v in e.values]
            kt, vt = ks[0].ty, vs[0].ty
            if kt.scalar and vt.scalar and kt.sort() is not None and vt.sort() is not None and all(k.ty == kt for k in ks) and all(v.ty == vt for v in vs):
                dom = z3.K(kt.sort(), z3.BoolVal(False))
                val = fresh("dictlit", z3.ArraySort(kt.sort(), vt.sort()))
                for k, v in zip(ks, vs):
                    dom, val = z3.Store(dom, k.t, True), z3.Store(val, k.t, v.t)
                return T.sv_map(kt, vt, dom, val)
        raise Unsupported("dict literal with computed keys")

    def field_const(self, name):
        return z3.Const("field_" + "".join(ch if ch.isalnum() else "_" for ch in name), T.FieldS)

    def to_val(self, v):
        """Injection of a Python value into the opaque metadata-value sort."""
        if v.ty == T.VAL:
            return v.t
        if v.ty == T.NONE:
            return z3.Const("val_None", T.ValS)
        if isinstance(v.ty, T.Seq):
            inj = z3.Function("val_of_seq_" + "".join(ch if ch.isalnum() else "_" for ch in v.ty.e.name), T.I, z3.ArraySort(T.I, v.ty.e.sort()), T.ValS)
            return inj(v.len, v.at)
        if not v.ty.scalar or v.ty.sort() is None:
            raise Unsupported(f"metadata value of type {v.ty}")
        inj = z3.Function("val_of_" + "".join(ch if ch.isalnum() else "_" for ch in v.ty.name), v.ty.sort(), T.ValS)
        return inj(v.t)

    def ev_List(self, e, p):
        if not e.elts:
            return SV(T.EMPTYLIST)
        vals = [self.ev(x, p) for x in e.elts]
        if all(v.ty == T.INT for v in vals):
            return self.tuple_of(vals, p)
        if all(v.ty == vals[0].ty and v.ty.scalar and v.ty.sort() is not None for v in vals):
            # [a, b, ..] of non-node values: a list whose order is not modelled
            bt = T.Bag(vals[0].ty)
            b = z3.K(vals[0].ty.sort(), z3.IntVal(0))
            for v in vals:
                b = z3.Store(b, v.t, b[v.t] + 1)
            out = fresh("listlit", bt.sort())
            p.assume(out == b)
            p.assume(bt.blen()(out) == len(vals))
            return T.scalar(bt, out)
        return self.tuple_of(vals, p)

    def ev_Tuple(self, e, p):
        vals = [self.ev(x, p) for x in e.elts]
        return self.tuple_of(vals, p)

    def tuple_of(self, vals, p):
        if any(not v.ty.scalar or v.ty.sort() is None for v in vals) and len(vals) >= 2 and all(v.ty not in (T.EMPTYLIST, T.EMPTYDICT, T.EMPTYSET) for v in vals):
            return T.sv_multi(vals)          # a tuple with an object / dict / list component
        int_pairs = self.cur is not None and "int_pairs" in self.cur.options and not self.spec_mode   # (node, depth) records, not 2-node hyperedges
        if len(vals) == 2 and (int_pairs or not (vals[0].ty == T.INT and vals[1].ty == T.INT)):
            a, b = vals
            if a.ty.scalar and b.ty.scalar and a.ty.sort() is not None and b.ty.sort() is not None:
                pt = T.Pair(a.ty, b.ty)
                return T.scalar(pt, pt.mk(a.t, b.t))
        if len(vals) == 2 and all(v.ty == T.INT for v in vals) and self.cur is not None and "pair_literals" in self.cur.options:
            return T.scalar(T.TUP, TH.tpair(vals[0].t, vals[1].t))      # a constructor term: equal components give the same tuple
        if all(v.ty == T.INT for v in vals):
            k = fresh("tuplit", T.TupS)
            p.assume(TH.tlen(k) == len(vals))
            for i, v in enumerate(vals):
                p.assume(TH.tat(k, i) == v.t)
            n = fresh("n", T.I)
            p.assume(z3.ForAll([n], TH.tmem(k, n) == z3.Or([n == v.t for v in vals] or [z3.BoolVal(False)]),
                               patterns=[TH.tmem(k, n)]))
            if len(vals) <= 1:
                p.assume(TH.strict(k))
            return T.scalar(T.TUP, k)
        raise Unsupported("tuple/list literal of this shape")

    def ev_Set(self, e, p):
        vals = [self.ev(x, p) for x in e.elts]
        et = vals[0].ty
        st = T.Set(et)
        s = z3.K(et.sort(), z3.BoolVal(False))
        for v in vals:
            s = z3.Store(s, self.coerce(v, et).t, True)
        return T.scalar(st, s)

    def ev_IfExp(self, e, p):
        c = z3.simplify(self.truth(self.ev(e.test, p), p))
        if z3.is_true(c):
            return self.ev(e.body, p)
        if z3.is_false(c):
            return self.ev(e.orelse, p)
        self.guards.append(c)
        try:
            a = self.ev(e.body, p)
        finally:
            self.guards.pop()
        self.guards.append(z3.Not(c))
        try:
            b = self.ev(e.orelse, p)
        finally:
            self.guards.pop()
        return self.merge(c, a, b)

    def ev_BoolOp(self, e, p):
        is_and = isinstance(e.op, ast.And)
        first = self.ev(e.values[0], p)
        if first.ty != T.BOOL and len(e.values) == 2 and not self.spec_mode:
            # value semantics: `x or default` / `x and y`
            t = self.truth(first, p)
            self.guards.append(z3.Not(t) if not is_and else t)
            try:
                second = self.ev(e.values[1], p)
            finally:
                self.guards.pop()
            return self.merge(t, second, first) if is_and else self.merge(t, first, second)
        terms, pushed = [self.truth(first, p)], 0
        try:
            self.guards.append(terms[0] if is_and else z3.Not(terms[0]))
            pushed += 1
            for sub in e.values[1:]:
                last = z3.simplify(terms[-1])
                if (z3.is_false(last) and is_and) or (z3.is_true(last) and not is_and):
                    break        # short circuit decided by a literal: the remaining operands are never evaluated
                t = self.truth(self.ev(sub, p), p)
                terms.append(t)
                self.guards.append(t if is_and else z3.Not(t))
                pushed += 1
        finally:
            for _ in range(pushed):
                self.guards.pop()
        return T.sv_bool(z3.And(terms) if is_and else z3.Or(terms))

    def ev_UnaryOp(self, e, p):
        v = self.ev(e.operand, p)
        if isinstance(e.op, ast.Not):
            return T.sv_bool(z3.Not(self.truth(v, p)))
        if isinstance(e.op, ast.USub):
            v = self.unopt(v, p, f"line {e.lineno}")
            if v.ty == T.INT:
                return T.sv_int(-v.t)
            if v.ty == T.REAL:
                return T.sv_real(-v.t)
            if v.ty == T.XINT:
                X = T.XIntS
                return T.scalar(T.XINT, z3.If(X.is_pinf(v.t), X.ninf, z3.If(X.is_ninf(v.t), X.pinf, X.fin(-X.xval(v.t)))))
        raise Unsupported("unary operator")

    def ev_BinOp(self, e, p):
        if isinstance(e.op, ast.Mult) and isinstance(e.left, ast.List) and len(e.left.elts) == 1 and not self.spec_mode:
            # [x] * n: the positional list of n copies of x (empty for n <= 0)
            x = self.ev(e.left.elts[0], p)
            n = self.ev(e.right, p)
            if x.ty.scalar and n.ty in (T.INT, T.BOOL):
                n = self.coerce(n, T.INT).t
                at = fresh("rep", z3.ArraySort(T.I, x.ty.sort()))
                k = fresh("k", T.I)
                self._assume(p, z3.ForAll([k], at[k] == x.t, patterns=[at[k]]))
                return T.sv_seq(x.ty, z3.If(n > 0, n, z3.IntVal(0)), at)
        l = self.ev(e.left, p)
        r = self.ev(e.right, p)
        return self.binop(e.op, l, r, p, f"line {getattr(e, 'lineno', '?')}")

    def binop(self, op, l, r, p, note):
        if isinstance(op, ast.Add) and l.ty == T.STR and r.ty == T.STRINT:
            for lit, ctor in (("N", T.VNameS.vN), ("E", T.VNameS.vE)):
                if lit in self.strs and l.t.eq(self.strs[lit]):
                    return T.scalar(T.VNAME, ctor(r.t))          # "N" + str(i), "E" + str(i)
            raise Unsupported("string concatenation other than 'N' + str(i) / 'E' + str(i)")
        if isinstance(op, ast.Div) and isinstance(l.ty, T.Seq) and l.ty.e in (T.REAL, T.INT) and r.ty in (T.INT, T.REAL, T.BOOL):
            # numpy: array / number, element-wise (no exception for a zero divisor: numpy warns and yields inf / nan, which the uninterpreted
            # quotient leaves unspecified); assumed library contract
            at = fresh("divided", z3.ArraySort(T.I, T.R))
            k = fresh("k", T.I)
            num = (lambda t: z3.ToReal(t)) if l.ty.e == T.INT else (lambda t: t)
            self._assume(p, z3.ForAll([k], at[k] == TH.RDIV(num(l.at[k]), T.to_real(r)), patterns=[at[k]]))
            return T.sv_seq(T.REAL, l.len, at)
        if isinstance(op, ast.Div) and all(isinstance(v.ty, T.Obj) and v.ty.cls == "NpArray2" for v in (l, r)):
            # matrix / column (numpy broadcasting): every cell of row i divided by the column's entry i; assumed library contract
            if not (z3.is_int_value(r.fields["_c"].t) and r.fields["_c"].t.as_long() == 1):
                raise Unsupported("division of arrays other than matrix / column")
            rows, cols, m, d = l.fields["_r"].t, l.fields["_c"].t, l.fields["_m"], r.fields["_m"]
            if not self.spec_mode:
                self._raise_if(p, rows != r.fields["_r"].t, "ValueError", note)
            pt = T.Pair(T.INT, T.INT)
            val = fresh("div_val", z3.ArraySort(pt.sort(), T.R))
            i, j = fresh("i", T.I), fresh("j", T.I)
            self._assume(p, z3.ForAll([i, j], z3.Implies(z3.And(0 <= i, i < rows, 0 <= j, j < cols),
                                                         val[pt.mk(i, j)] == TH.RDIV(m.val[pt.mk(i, j)], d.val[pt.mk(i, 0)])), patterns=[val[pt.mk(i, j)]]))
            return T.sv_obj("NpArray2", {"_m": T.sv_map(pt, T.REAL, m.dom, val), "_r": T.sv_int(rows), "_c": T.sv_int(cols)})
        # set algebra
        if isinstance(l.ty, T.Set) or isinstance(r.ty, T.Set) or l.ty == T.EMPTYSET or r.ty == T.EMPTYSET:
            st = l.ty if isinstance(l.ty, T.Set) else r.ty
            l, r = self.coerce(l, st), self.coerce(r, st)
            su, si, sdf = TH.set_ops(st.e)
            if isinstance(op, ast.BitOr):
                out = su(l.t, r.t)
            elif isinstance(op, ast.BitAnd):
                out = si(l.t, r.t)
            elif isinstance(op, ast.Sub):
                out = sdf(l.t, r.t)
            else:
                raise Unsupported("set operator")
            return T.scalar(st, out)
        if isinstance(op, ast.Add) and (l.ty == T.TUP or isinstance(l.ty, T.Bag)) and (r.ty == T.TUP or isinstance(r.ty, T.Bag)):
            # list concatenation, order not modelled: multiset union
            lb, rb = self.bag_of(l, p), self.bag_of(r, p)
            if lb.ty != rb.ty:
                raise Unsupported("concatenation of lists of different element types")
            bt = lb.ty
            x = fresh("x", bt.e.sort())
            out = fresh("concat", bt.sort())
            self._assume(p, z3.ForAll([x], out[x] == lb.t[x] + rb.t[x], patterns=[out[x]]))
            self._assume(p, bt.blen()(out) == bt.blen()(lb.t) + bt.blen()(rb.t))
            return T.scalar(bt, out)
        if l.ty == T.BOOL and r.ty == T.BOOL and isinstance(op, (ast.BitAnd, ast.BitOr)):
            return T.sv_bool(z3.And(l.t, r.t) if isinstance(op, ast.BitAnd) else z3.Or(l.t, r.t))
        l, r = self.unopt(l, p, note), self.unopt(r, p, note)
        if l.ty not in (T.INT, T.REAL, T.BOOL) or r.ty not in (T.INT, T.REAL, T.BOOL):
            raise Unsupported(f"arithmetic on {l.ty}, {r.ty}")
        real = T.REAL in (l.ty, r.ty)
        lt = T.to_real(l) if real else self.coerce(l, T.INT).t
        rt = T.to_real(r) if real else self.coerce(r, T.INT).t
        mk = T.sv_real if real else T.sv_int
        if isinstance(op, ast.Add):
            return mk(lt + rt)
        if isinstance(op, ast.Sub):
            return mk(lt - rt)
        if isinstance(op, ast.Mult):
            if z3.is_int_value(lt) or z3.is_int_value(rt) or z3.is_rational_value(lt) or z3.is_rational_value(rt):
                return mk(lt * rt)
            raise Unsupported("nonlinear multiplication")
        if isinstance(op, ast.Div):
            # true division: an uninterpreted function of the two operands as reals (congruence only: no arithmetic facts about the quotient)
            self._raise_if(p, rt == 0, "ZeroDivisionError", note)
            return T.sv_real(TH.RDIV(T.to_real(l), T.to_real(r)))
        if isinstance(op, (ast.FloorDiv, ast.Mod)) and not real and z3.is_int_value(rt) and rt.as_long() > 0:
            return mk(lt / rt if isinstance(op, ast.FloorDiv) else lt % rt)
        raise Unsupported("arithmetic operator")

    def ev_Compare(self, e, p):
        if self.cur is not None and "empty_tests" in self.cur.options and not self.spec_mode and len(e.ops) == 1 \
                and isinstance(e.ops[0], (ast.Eq, ast.NotEq, ast.Gt)) and isinstance(e.comparators[0], ast.Constant) and e.comparators[0].value == 0 \
                and type(e.comparators[0].value) is int and isinstance(e.left, ast.Call) and isinstance(e.left.func, ast.Name) \
                and e.left.func.id == "len" and len(e.left.args) == 1 and not e.left.keywords:
            s = self.ev(e.left.args[0], p)
            if isinstance(s.ty, T.Set) and s.ty.e.scalar:
                # len(s) == 0 / != 0 / > 0 on a set as an emptiness test: s is non-empty iff it contains some(s) (axiom some_def), with no
                # cardinality term -- a finite set has length 0 exactly when it has no member
                from .theory import some_fn
                non_empty = s.t[some_fn(s.ty.e)(s.t)]
                return T.sv_bool(z3.Not(non_empty) if isinstance(e.ops[0], ast.Eq) else non_empty)
        left = self.ev(e.left, p)
        terms = []
        for op, ce in zip(e.ops, e.comparators):
            right = self.ev(ce, p)
            terms.append(self.compare(op, left, right, p, f"line {getattr(e, 'lineno', '?')}"))
            left = right
        return T.sv_bool(z3.And(terms) if len(terms) > 1 else terms[0])

    def compare(self, op, l, r, p, note):
        if T.OPAQUE in (l.ty, r.ty):
            return fresh("opaque_cmp", T.B)      # a comparison with an opaque value: either outcome
        if isinstance(op, ast.In):
            return self.member(l, r, p)
        if isinstance(op, ast.NotIn):
            return z3.Not(self.member(l, r, p))
        if isinstance(op, (ast.Is, ast.IsNot)):
            if r.ty != T.NONE and l.ty != T.NONE:
                if self.spec_mode:
                    t = self.equal(l, r, p)
                    return z3.Not(t) if isinstance(op, ast.IsNot) else t
                raise Unsupported("`is` between non-None values")
            t = self.equal(l, r, p)
            return z3.Not(t) if isinstance(op, ast.IsNot) else t
        if isinstance(op, ast.Eq):
            return self.equal(l, r, p)
        if isinstance(op, ast.NotEq):
            return z3.Not(self.equal(l, r, p))
        l, r = self.unopt(l, p, note), self.unopt(r, p, note)
        if T.XINT in (l.ty, r.ty) and {l.ty, r.ty} <= {T.XINT, T.INT, T.BOOL}:
            a, b = self.coerce(l, T.XINT).t, self.coerce(r, T.XINT).t
            if isinstance(op, ast.Lt):
                return T.x_lt(a, b)
            if isinstance(op, ast.LtE):
                return z3.Not(T.x_lt(b, a))
            if isinstance(op, ast.Gt):
                return T.x_lt(b, a)
            if isinstance(op, ast.GtE):
                return z3.Not(T.x_lt(a, b))
        if l.ty in (T.INT, T.REAL, T.BOOL) and r.ty in (T.INT, T.REAL, T.BOOL):
            real = T.REAL in (l.ty, r.ty)
            lt = T.to_real(l) if real else self.coerce(l, T.INT).t
            rt = T.to_real(r) if real else self.coerce(r, T.INT).t
            if isinstance(op, ast.Lt):
                return lt < rt
            if isinstance(op, ast.LtE):
                return lt <= rt
            if isinstance(op, ast.Gt):
                return lt > rt
            if isinstance(op, ast.GtE):
                return lt >= rt
        raise Unsupported(f"comparison {type(op).__name__} on {l.ty}, {r.ty}")

    def ev_Subscript(self, e, p):
        base = self.ev(e.value, p)
        if isinstance(e.slice, ast.Slice):
            raise Unsupported("slice")
        if isinstance(base.ty, T.Obj) and base.ty.cls == "NpArray2":
            return T.sv_real(base.fields["_m"].val[self.np2_index(base, e.slice, p, f"line {getattr(e, 'lineno', '?')}")])
        if isinstance(base.ty, T.Bag) and isinstance(e.value, ast.Subscript) and not self.spec_mode:
            outer = self.ev(e.value.value, p)
            if isinstance(outer.ty, T.Map) and outer.ty.v == base.ty:
                return self.bag_position(outer, self.coerce(self.ev(e.value.slice, p), outer.ty.k), self.coerce(self.ev(e.slice, p), T.INT).t, p,
                                         f"line {getattr(e, 'lineno', '?')}")
        key = self.ev(e.slice, p)
        r = self.subscript(base, key, p, f"line {getattr(e, 'lineno', '?')}")
        if isinstance(base.ty, T.ObjMap) and isinstance(e.value, ast.Name) and not self.spec_mode:
            r.ref = (e.value.id, self.coerce(key, base.ty.k).t)      # d[k] is a reference into d: mutating calls on it update d
        return r

    def bag_fns(self, mty):
        """Position functions of the lists stored in a dict of lists `d`: BAT(d, k, i) = d[k][i], BIDX(d, k, x) = d[k].index(x)."""
        nm = "".join(ch if ch.isalnum() else "_" for ch in mty.name)
        vs = z3.ArraySort(mty.k.sort(), mty.v.sort())
        return (z3.Function("bagat_" + nm, vs, mty.k.sort(), T.I, mty.v.e.sort()), z3.Function("bagidx_" + nm, vs, mty.k.sort(), mty.v.e.sort(), T.I))

    def bag_position(self, m, k, i, p, note):
        """d[k][i] for a dict d of lists whose order is not modelled (bags).  ASSUMED (DESIGN §3.3): the list d[k] is some enumeration of
        its bag - every position holds a member, different positions of a duplicate-free list hold different members, every member has a
        position; the enumeration is a function of (value of d, k), i.e. two dicts holding the same bags are taken to list them alike."""
        bat, bidx = self.bag_fns(m.ty)
        ln = m.ty.v.blen()(m.val[k.t])
        self._raise_if(p, z3.Not(m.dom[k.t]), "KeyError", note)
        self._raise_if(p, z3.Or(i >= ln, i < -ln), "IndexError", note)
        ii = z3.If(i >= 0, i, i + ln) if not z3.is_int_value(i) or i.as_long() < 0 else i
        mv, kk = self.bag_enum(m, k, p)
        r = fresh("elem", m.ty.v.e.sort())
        self._assume(p, r == bat(mv, kk, ii))
        return T.scalar(m.ty.v.e, r)

    def bag_enum(self, m, k, p):
        """Assume the enumeration facts of the list d[k] (see bag_position) on this path; returns the named terms of d's value and k.
        The facts hold unconditionally, so they are not put under the guards of the expression being evaluated."""
        bat, bidx = self.bag_fns(m.ty)
        cache = getattr(p.env.get("__bagpos"), "keys", {})
        key = (m.val.get_id(), k.t.get_id())
        if key in cache:
            return cache[key]        # the facts are already on this path (the marker travels with the path's environment when it forks)
        mv, kk = fresh("dl", m.val.sort()), fresh("dk", k.t.sort())     # named, so that the quantifier patterns are plain applications
        p.env["__bagpos"] = SV(T.NONE, keys={**cache, key: (mv, kk)})
        p.assume(z3.And(mv == m.val, kk == k.t))
        bb = mv[kk]
        ln = m.ty.v.blen()(bb)
        a, c, x = fresh("a", T.I), fresh("c", T.I), fresh("x", m.ty.v.e.sort())
        p.assume(z3.ForAll([a], z3.Implies(z3.And(0 <= a, a < ln), bb[bat(mv, kk, a)] >= 1), patterns=[bat(mv, kk, a)]))
        p.assume(z3.Implies(z3.ForAll([x], bb[x] <= 1, patterns=[bb[x]]),
                                   z3.ForAll([a, c], z3.Implies(z3.And(0 <= a, a < c, c < ln), bat(mv, kk, a) != bat(mv, kk, c)),
                                             patterns=[z3.MultiPattern(bat(mv, kk, a), bat(mv, kk, c))])))
        p.assume(z3.ForAll([x], z3.Implies(bb[x] >= 1, z3.And(0 <= bidx(mv, kk, x), bidx(mv, kk, x) < ln, bat(mv, kk, bidx(mv, kk, x)) == x)),
                                  patterns=[bidx(mv, kk, x)]))
        return mv, kk

    def np2_index(self, arr, sl, p, note):
        """a[i, j] on a 2-D numpy array (assumed library contract): IndexError outside [-n, n) per axis, negative indices count from the end."""
        if not (isinstance(sl, ast.Tuple) and len(sl.elts) == 2):
            raise Unsupported("2-D array subscript that is not a[i, j]")
        pt = T.Pair(T.INT, T.INT)
        out = []
        for ex, dim in zip(sl.elts, (arr.fields["_r"].t, arr.fields["_c"].t)):
            i = self.coerce(self.ev(ex, p), T.INT).t
            if not self.spec_mode:
                self._raise_if(p, z3.Or(i >= dim, i < -dim), "IndexError", note)
            out.append(z3.If(i >= 0, i, i + dim))
        return pt.mk(out[0], out[1])

    def subscript(self, base, key, p, note):
        if isinstance(base.ty, T.ObjMap):
            k = self.coerce(key, base.ty.k)
            if not self.spec_mode:
                self._raise_if(p, z3.Not(base.dom[k.t]), "KeyError", note)
            return self.om_get(base, k.t)
        if isinstance(base.ty, T.Map):
            k = self.coerce(key, base.ty.k)
            self._raise_if(p, z3.Not(base.dom[k.t]), "KeyError", note)
            return T.scalar(base.ty.v, base.val[k.t])
        if base.ty == T.TUP:
            j = self.coerce(key, T.INT).t
            self._raise_if(p, z3.Or(j >= TH.tlen(base.t), j < -TH.tlen(base.t)), "IndexError", note)
            jj = z3.If(j >= 0, j, j + TH.tlen(base.t)) if not z3.is_int_value(j) or j.as_long() < 0 else j
            return T.sv_int(TH.tat(base.t, jj))
        if isinstance(base.ty, T.Seq):
            j = self.coerce(key, T.INT).t
            if self.spec_mode:
                return T.scalar(base.ty.e, base.at[j])      # specifications index with 0 <= j < len only
            self._raise_if(p, z3.Or(j >= base.len, j < -base.len), "IndexError", note)
            jj = z3.If(j >= 0, j, j + base.len) if not z3.is_int_value(j) or j.as_long() < 0 else j
            return T.scalar(base.ty.e, base.at[jj])
        if isinstance(base.ty, T.Multi):
            if key.ty == T.INT and z3.is_int_value(key.t) and 0 <= key.t.as_long() < len(base.items):
                return base.items[key.t.as_long()]
            raise Unsupported("tuple subscript with a non-constant index")
        if isinstance(base.ty, T.Pair):
            if z3.is_int_value(key.t):
                i = key.t.as_long()
                if i == 0:
                    return T.scalar(base.ty.a, base.ty.fst(base.t))
                if i == 1:
                    return T.scalar(base.ty.b, base.ty.snd(base.t))
            raise Unsupported("pair subscript with a non-constant index")
        if isinstance(base.ty, T.Opt):
            self._raise_if(p, base.is_none, "TypeError", note)
            return self.subscript(base.val, key, p, note)
        if base.ty == T.META:
            f = self.coerce(key, T.FIELD) if key.ty == T.FIELD else None
            if f is None:
                raise Unsupported("metadata subscript with a non-field key")
            self._raise_if(p, z3.Not(TH.mhas(base.t, f.t)), "KeyError", note)
            return T.scalar(T.VAL, TH.mget(base.t, f.t))
        raise Unsupported(f"subscript on {base.ty}")
