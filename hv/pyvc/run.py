"""Generate and discharge the obligations of contracted functions.

One *guarded* worker process per function: the worker has an address-space limit and reports every obligation as it goes; the parent kills a
worker that does not answer within a hard deadline (z3's own timeout is cooperative and a matching loop can outrun it or exhaust memory),
records the obligation in progress as `timeout` and lets a fresh worker continue with the remaining obligations. A check therefore ends in
bounded time and memory whatever the code under verification looks like; a killed obligation is undecided, never a violation.
"""
import multiprocessing as mp
import os
import sys
import time
import traceback
from concurrent.futures import ThreadPoolExecutor

MEM_LIMIT = int(os.environ.get("VERIF_WORKER_MEM_GB", "10")) << 30   # address space of one worker
GEN_DEADLINE = 600.0          # seconds for symbolic execution of one function (path pruning uses small solver budgets)
MAX_RESPAWN = 4               # workers restarted at most this often per function; what is left after that is `timeout`


def _solve(o, timeout_ms):
    from .core import discharge
    if o.kind == "canary":
        (st, dt, why), = discharge(o.hyps, [o.goal], min(timeout_ms, 2500), portfolio=False)
        status = "vacuous" if st == "discharged" else "ok"     # a canary is fine when False is NOT provable
    else:
        (st, dt, why), = discharge(o.hyps, [o.goal], timeout_ms)
        status = st
    return dict(name=o.name, kind=o.kind, clause=o.clause, tag=o.tag, status=status, time=round(dt, 4), reason=why, trace=o.trace[-6:])


def _generate(qual, repo):
    from .engine import Engine
    from .core import Unsupported, ContractError
    from ..contracts.registry import build
    eng = Engine(build(), repo)
    try:
        obls, info, n_paths = eng.verify(qual)
    except Unsupported as ex:
        return None, dict(status="undecided", reason=f"unsupported: {ex}")
    except ContractError as ex:
        return None, dict(status="contract-error", reason=str(ex))
    except MemoryError:
        return None, dict(status="undecided", reason="worker memory limit reached while generating obligations")
    except Exception:
        return None, dict(status="crash", reason=traceback.format_exc())
    return obls, dict(info=info, paths=n_paths)


def verify_one(args):
    """In-process variant (no guard): used by the self-test on small functions."""
    qual, repo, timeout_ms = args
    t0 = time.time()
    out = dict(qual=qual, obligations=[], info=None, paths=0, status="ok", reason="", gen_s=0.0, solve_s=0.0)
    obls, meta = _generate(qual, repo)
    out.update(meta)
    if obls is None:
        return out
    out["gen_s"] = time.time() - t0
    t1 = time.time()
    for o in obls:
        out["obligations"].append(_solve(o, timeout_ms))
    out["solve_s"] = time.time() - t1
    return out


def _child(qual, repo, timeout_ms, conn, skip):
    try:
        import resource
        resource.setrlimit(resource.RLIMIT_AS, (MEM_LIMIT, MEM_LIMIT))
    except Exception:       # noqa: BLE001
        pass
    try:
        t0 = time.time()
        obls, meta = _generate(qual, repo)
        if obls is None:
            conn.send(("fail", meta))
            return
        conn.send(("gen", dict(meta, gen_s=time.time() - t0, n=len(obls),
                               heads=[dict(name=o.name, kind=o.kind, clause=o.clause, tag=o.tag, trace=o.trace[-6:]) for o in obls])))
        for i, o in enumerate(obls):
            if i in skip:
                continue
            conn.send(("start", i))
            try:
                r = _solve(o, timeout_ms)
            except MemoryError:
                r = dict(name=o.name, kind=o.kind, clause=o.clause, tag=o.tag, status="timeout", time=0.0, trace=o.trace[-6:],
                         reason="worker memory limit reached")
            except Exception as ex:     # noqa: BLE001  (z3 reports resource exhaustion as Z3Exception)
                r = dict(name=o.name, kind=o.kind, clause=o.clause, tag=o.tag, status="timeout", time=0.0, trace=o.trace[-6:],
                         reason=f"solver error: {str(ex)[:120]}")
            conn.send(("res", i, r))
        conn.send(("end",))
    except BaseException:   # noqa: BLE001
        try:
            conn.send(("fail", dict(status="crash", reason=traceback.format_exc())))
        except Exception:   # noqa: BLE001
            pass
    finally:
        conn.close()


def verify_guarded(args):
    qual, repo, timeout_ms = args
    out = dict(qual=qual, obligations=[], info=None, paths=0, status="ok", reason="", gen_s=0.0, solve_s=0.0)
    ctx = mp.get_context("fork")
    results, heads, n = {}, None, None
    hard = 2 * timeout_ms / 1000.0 + 60.0          # two solver configurations per obligation, plus slack
    t_solve = time.time()
    for attempt in range(MAX_RESPAWN + 1):
        parent, child = ctx.Pipe(duplex=False)
        pr = ctx.Process(target=_child, args=(qual, repo, timeout_ms, child, set(results)), daemon=True)
        pr.start()
        child.close()
        cur, finished, why = None, False, ""
        deadline = time.time() + GEN_DEADLINE
        try:
            while True:
                if not parent.poll(max(0.0, deadline - time.time())):
                    why = "no answer within the hard deadline (worker killed)"
                    break
                try:
                    msg = parent.recv()
                except (EOFError, OSError):
                    why = "worker died (memory limit or solver crash)"
                    break
                if msg[0] == "fail":
                    out.update(msg[1])
                    finished = True
                    break
                if msg[0] == "gen":
                    m = msg[1]
                    heads, n = m["heads"], m["n"]
                    out["info"], out["paths"] = m["info"], m["paths"]
                    out["gen_s"] = max(out["gen_s"], m["gen_s"])
                    t_solve = time.time() if attempt == 0 else t_solve
                    deadline = time.time() + hard
                elif msg[0] == "start":
                    cur = msg[1]
                    deadline = time.time() + hard
                elif msg[0] == "res":
                    results[msg[1]] = msg[2]
                    cur = None
                    deadline = time.time() + hard
                elif msg[0] == "end":
                    finished = True
                    break
        finally:
            if pr.is_alive():
                pr.kill()
            pr.join(5)
            parent.close()
        if finished:
            break
        if heads is None:
            out.update(status="undecided", reason=f"generation of obligations: {why}")
            return out
        if cur is not None:
            results[cur] = dict(heads[cur], status="timeout", time=hard, reason=why)
    if heads is not None:
        for i in range(n):
            if i not in results:
                results[i] = dict(heads[i], status="timeout", time=0.0, reason="not attempted: the worker of this function was restarted too often")
        out["obligations"] = [results[i] for i in range(n)]
        out["solve_s"] = time.time() - t_solve
    return out


def verify_many(quals, repo, timeout_ms=20000, jobs=None):
    jobs = jobs or min(16, os.cpu_count() or 4)
    from .engine import Engine                    # noqa: F401  (imported before the worker threads fork, so no child forks mid-import)
    from ..contracts.registry import build
    build()
    with ThreadPoolExecutor(max_workers=jobs) as ex:
        return list(ex.map(verify_guarded, [(q, repo, timeout_ms) for q in quals]))


if __name__ == "__main__":
    repo = os.environ.get("VERIF_REPO", "/repo")
    quals = sys.argv[1:]
    verbose = os.environ.get("V", "")
    if not quals:
        from ..contracts.registry import build
        quals = [q for q, c in build().contracts.items() if not c.assumed]
    res = verify_many(quals, repo)
    for r in res:
        obl = [o for o in r["obligations"] if o["kind"] != "canary"]
        ok = sum(o["status"] == "discharged" for o in obl)
        vac = sum(o["status"] == "vacuous" for o in r["obligations"])
        print(f"{r['qual']}: {r['status']} {r['reason'][-700:]} paths={r['paths']} {ok}/{len(obl)} discharged, vacuous={vac}, gen {r['gen_s']:.1f}s solve {r['solve_s']:.1f}s")
        for o in r["obligations"]:
            if o["status"] not in ("discharged", "ok") or verbose:
                print("   ", o["status"], o["name"], o["tag"], o["time"], o["reason"], "|", " > ".join(o["trace"][-3:]))
