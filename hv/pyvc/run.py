"""Generate and discharge the obligations of contracted functions (one worker process per function)."""
import os
import sys
import time
import traceback
from concurrent.futures import ProcessPoolExecutor


def verify_one(args):
    qual, repo, timeout_ms = args
    import z3
    from .engine import Engine
    from .core import Unsupported, ContractError, discharge
    from ..contracts.registry import build
    t0 = time.time()
    reg = build()
    eng = Engine(reg, repo)
    out = dict(qual=qual, obligations=[], info=None, paths=0, status="ok", reason="", gen_s=0.0, solve_s=0.0)
    try:
        obls, info, n_paths = eng.verify(qual)
    except Unsupported as ex:
        out.update(status="undecided", reason=f"unsupported: {ex}")
        return out
    except ContractError as ex:
        out.update(status="contract-error", reason=str(ex))
        return out
    except Exception:
        out.update(status="crash", reason=traceback.format_exc())
        return out
    out["info"], out["paths"] = info, n_paths
    out["gen_s"] = time.time() - t0
    t1 = time.time()
    # group by identical hypothesis lists (same path) to reuse the solver
    groups = {}
    for o in obls:
        groups.setdefault(tuple(id(h) for h in o.hyps) if False else len(groups) if o.kind == "canary" else ("g", id(o.hyps)), []).append(o)
    for o in obls:
        if o.kind == "canary":
            (st, dt, why), = discharge(o.hyps, [o.goal], min(timeout_ms, 2500), portfolio=False)
            # a canary is fine when False is NOT provable
            status = "vacuous" if st == "discharged" else "ok"
        else:
            (st, dt, why), = discharge(o.hyps, [o.goal], timeout_ms)
            status = st
        out["obligations"].append(dict(name=o.name, kind=o.kind, clause=o.clause, tag=o.tag, status=status,
                                       time=round(dt, 4), reason=why, trace=o.trace[-6:]))
    out["solve_s"] = time.time() - t1
    return out


def verify_many(quals, repo, timeout_ms=20000, jobs=None):
    jobs = jobs or min(16, os.cpu_count() or 4)
    with ProcessPoolExecutor(max_workers=jobs) as ex:
        return list(ex.map(verify_one, [(q, repo, timeout_ms) for q in quals]))


if __name__ == "__main__":
    repo = os.environ.get("VERIF_REPO", "/repo")
    quals = sys.argv[1:]
    verbose = os.environ.get("V", "")
    if not quals:
        from ..contracts.registry import build
        quals = [q for q, c in build().contracts.items() if not c.assumed]
    res = verify_many(quals, repo) if len(quals) > 1 else [verify_one((quals[0], repo, 20000))]
    for r in res:
        obl = [o for o in r["obligations"] if o["kind"] != "canary"]
        ok = sum(o["status"] == "discharged" for o in obl)
        vac = sum(o["status"] == "vacuous" for o in r["obligations"])
        print(f"{r['qual']}: {r['status']} {r['reason'][-700:]} paths={r['paths']} {ok}/{len(obl)} discharged, vacuous={vac}, gen {r['gen_s']:.1f}s solve {r['solve_s']:.1f}s")
        for o in r["obligations"]:
            if o["status"] not in ("discharged", "ok") or verbose:
                print("   ", o["status"], o["name"], o["tag"], o["time"], o["reason"], "|", " > ".join(o["trace"][-3:]))
