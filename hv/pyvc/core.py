"""Shared pieces of the symbolic executor: paths, obligations, exceptions, solver helpers."""
import os
import time
import z3
from .theory import THEORY, all_axioms


class Unsupported(Exception):
    """Construct outside the PyV subset -> obligation status UNDECIDED, never VIOLATION."""


class ContractError(Exception):
    """The contract text itself cannot be interpreted (checker problem, exit 3)."""


EXC_PARENTS = {
    "KeyError": ["LookupError", "Exception", "BaseException"],
    "IndexError": ["LookupError", "Exception", "BaseException"],
    "ValueError": ["Exception", "BaseException"],
    "TypeError": ["Exception", "BaseException"],
    "AttributeError": ["Exception", "BaseException"],
    "NotImplementedError": ["RuntimeError", "Exception", "BaseException"],
    "RuntimeError": ["Exception", "BaseException"],
    "Exception": ["BaseException"],
}


def exc_matches(raised, handler_names):
    for h in handler_names:
        if h == raised or h in EXC_PARENTS.get(raised, ["Exception", "BaseException"]):
            return True
    return False


class Path:
    __slots__ = ("env", "hyps", "trace")

    def __init__(self, env, hyps=None, trace=None):
        self.env, self.hyps, self.trace = env, hyps or [], trace or []

    def fork(self, note=None):
        p = Path(dict(self.env), list(self.hyps), list(self.trace))
        if note:
            p.trace.append(note)
        return p

    def assume(self, f):
        self.hyps.append(f)


class Obligation:
    __slots__ = ("func", "kind", "clause", "path_id", "hyps", "goal", "trace", "status", "time", "reason", "tag")

    def __init__(self, func, kind, clause, path_id, hyps, goal, trace, tag="observable"):
        self.func, self.kind, self.clause, self.path_id = func, kind, clause, path_id
        self.hyps, self.goal, self.trace, self.tag = hyps, goal, trace, tag
        self.status, self.time, self.reason = None, 0.0, ""

    @property
    def name(self):
        return f"{self.func}:{self.kind}:{self.clause}"


def new_solver(timeout_ms, relevancy=2, scope=None, ctx=None):
    """scope: the formulas of the query; only the contract-module axioms that talk about symbols occurring in it are loaded (theory.extra_for).
    ctx: a private z3 context for this query. The terms are copied into it, so that the solver's behaviour depends on the query alone and not
    on what the process built or freed before (term identifiers of the shared context vary with the history and with garbage collection; they
    steer z3's internal orders, and an obligation that takes 0.1 s in one run was seen to exhaust 20 s in the next)."""
    s = z3.Solver(ctx=ctx) if ctx is not None else z3.Solver()
    s.set("auto_config", False)
    s.set("mbqi", False)
    s.set("timeout", timeout_ms)
    s.set("random_seed", 7)
    s.set("relevancy", relevancy)
    for a in all_axioms(scope).values():
        s.add(a.translate(ctx) if ctx is not None else a)
    return s


def quick_unsat(hyps, timeout_ms=1500):
    """True only if hyps are definitely contradictory (used to prune infeasible paths)."""
    s = new_solver(timeout_ms, scope=hyps)
    s.add(hyps)
    return s.check() == z3.unsat


def discharge(hyps, goals, timeout_ms, portfolio=True):
    """Discharge several goals under common hypotheses. Returns list of (status, seconds, reason).

    A proof found by any configuration is a proof. z3's running time on these queries is bimodal - the same obligation was seen to take 0.02 s
    or to exhaust 20 s depending on nothing but term numbering - so a goal is tried under a small portfolio before it is reported undecided:
      1. a private z3 context (terms copied, so the outcome depends on the query alone, not on what the process built or freed before), short budget;
      2. the same with another random seed, short budget;
      3. the shared context, full budget.
    Within a stage, E-matching with relevancy propagation first and - only when that saturates without a proof - relevancy filtering off (every
    ground term may trigger; robust against the case-split order, which had made one verdict depend on an unrelated axiom being present).
    `failed` = some stage saturated without a proof in both E-matching configurations or found a model; `timeout` = every stage ran out of time."""
    short = min(timeout_ms, 4000)
    stages = [("private", 7, short), ("private", 101, short), ("shared", 7, timeout_ms)] if portfolio else [("shared", 7, timeout_ms)]
    if os.environ.get("VERIF_SHARED_CTX"):
        stages = [("shared", 7, timeout_ms)]
    solvers = {}
    ctxs = {}

    def solver(kind, seed, budget, rel):
        key = (kind, seed, rel)
        if key not in solvers:
            ctx = None
            if kind == "private":
                ctx = ctxs.setdefault(seed, z3.Context())
            sv = new_solver(budget, rel, scope=list(hyps) + list(goals), ctx=ctx)
            sv.set("random_seed", seed)
            sv.add([h.translate(ctx) for h in hyps] if ctx is not None else hyps)
            solvers[key] = (sv, ctx)
        return solvers[key]
    out = []
    for g in goals:
        total, verdict = 0.0, None
        for kind, seed, budget in stages:
            last = None
            for rel in ((2, 0) if portfolio else (2,)):
                s, ctx = solver(kind, seed, budget, rel)
                s.push()
                s.add(z3.Not(g.translate(ctx) if ctx is not None else g))
                t = time.time()
                r = s.check()
                total += time.time() - t
                why = s.reason_unknown() if r == z3.unknown else ""
                s.pop()
                if last is None or r != z3.unknown:
                    last = (r, why)      # the second configuration can only upgrade the verdict (a proof or a model); otherwise the first one stands
                if r != z3.unknown or "timeout" in why or "canceled" in why:
                    break
            r, why = last
            timed_out = r == z3.unknown and ("timeout" in why or "canceled" in why)
            if verdict is None or not timed_out:
                verdict = (r, why)
            if not timed_out:
                break            # proved, refuted or saturated: a later stage would only repeat it
        r, why = verdict
        if r == z3.unsat:
            out.append(("discharged", total, ""))
        elif r == z3.sat:
            out.append(("failed", total, "sat"))
        elif "timeout" in why or "canceled" in why:
            out.append(("timeout", total, why))
        else:
            out.append(("failed", total, why))   # E-matching saturated without a proof in both configurations
    return out
