"""Shared pieces of the symbolic executor: paths, obligations, exceptions, solver helpers."""
import time
import z3
from .theory import THEORY, all_axioms


class Unsupported(Exception):
    """Construct outside the PyV subset -> obligation status UNDECIDED, never VIOLATION."""


class ContractError(Exception):
    """The contract text itself cannot be interpreted (checker problem, exit 3)."""


EXC_PARENTS = {
    "KeyError": ["LookupError", "Exception", "BaseException"],
    "IndexError": ["LookupError", "Exception", "BaseException"],
    "ValueError": ["Exception", "BaseException"],
    "TypeError": ["Exception", "BaseException"],
    "AttributeError": ["Exception", "BaseException"],
    "NotImplementedError": ["RuntimeError", "Exception", "BaseException"],
    "RuntimeError": ["Exception", "BaseException"],
    "Exception": ["BaseException"],
}


def exc_matches(raised, handler_names):
    for h in handler_names:
        if h == raised or h in EXC_PARENTS.get(raised, ["Exception", "BaseException"]):
            return True
    return False


class Path:
    __slots__ = ("env", "hyps", "trace")

    def __init__(self, env, hyps=None, trace=None):
        self.env, self.hyps, self.trace = env, hyps or [], trace or []

    def fork(self, note=None):
        p = Path(dict(self.env), list(self.hyps), list(self.trace))
        if note:
            p.trace.append(note)
        return p

    def assume(self, f):
        self.hyps.append(f)


class Obligation:
    __slots__ = ("func", "kind", "clause", "path_id", "hyps", "goal", "trace", "status", "time", "reason", "tag")

    def __init__(self, func, kind, clause, path_id, hyps, goal, trace, tag="observable"):
        self.func, self.kind, self.clause, self.path_id = func, kind, clause, path_id
        self.hyps, self.goal, self.trace, self.tag = hyps, goal, trace, tag
        self.status, self.time, self.reason = None, 0.0, ""

    @property
    def name(self):
        return f"{self.func}:{self.kind}:{self.clause}"


def new_solver(timeout_ms, relevancy=2, scope=None):
    """scope: the formulas of the query; only the contract-module axioms that talk about symbols occurring in it are loaded (theory.extra_for)."""
    s = z3.Solver()
    s.set("auto_config", False)
    s.set("mbqi", False)
    s.set("timeout", timeout_ms)
    s.set("random_seed", 7)
    s.set("relevancy", relevancy)
    for a in all_axioms(scope).values():
        s.add(a)
    return s


def quick_unsat(hyps, timeout_ms=1500):
    """True only if hyps are definitely contradictory (used to prune infeasible paths)."""
    s = new_solver(timeout_ms, scope=hyps)
    s.add(hyps)
    return s.check() == z3.unsat


def discharge(hyps, goals, timeout_ms, portfolio=True):
    """Discharge several goals under common hypotheses. Returns list of (status, seconds, reason).
    Two E-matching configurations are tried in turn (a proof found by either is a proof): z3's default relevancy propagation, and - only when
    that saturates without a proof - relevancy filtering off (every ground term may trigger an instantiation: robust against the case-split
    order, which had made one verdict depend on an unrelated axiom being present)."""
    solvers = {}

    def solver(rel):
        if rel not in solvers:
            solvers[rel] = new_solver(timeout_ms, rel, scope=list(hyps) + list(goals))
            solvers[rel].add(hyps)
        return solvers[rel]
    out = []
    for g in goals:
        total, last = 0.0, None
        for rel in ((2, 0) if portfolio else (2,)):
            s = solver(rel)
            s.push()
            s.add(z3.Not(g))
            t = time.time()
            r = s.check()
            total += time.time() - t
            why = s.reason_unknown() if r == z3.unknown else ""
            s.pop()
            if last is None or r != z3.unknown:
                last = (r, why)      # the second configuration can only upgrade the verdict (a proof or a model); otherwise the first one stands
            if r != z3.unknown or "timeout" in why or "canceled" in why:
                break
        r, why = last
        if r == z3.unsat:
            out.append(("discharged", total, ""))
        elif r == z3.sat:
            out.append(("failed", total, "sat"))
        elif "timeout" in why or "canceled" in why:
            out.append(("timeout", total, why))
        else:
            out.append(("failed", total, why))   # E-matching saturated without a proof in both configurations
    return out
