"""Calls: built-ins, container methods, comprehensions, stores into lvalues."""
import ast
import z3
from . import ty as T
from .ty import SV, fresh
from . import theory as TH
from .core import Unsupported

NOOP_CALLS = {"print"}
NOOP_ATTR_CALLS = {("warnings", "warn")}
# networkx model classes: method -> fields it may change (frame of the assumed library contract)
NX_MODIFIES = {"NxGraph": {"add_node": ["_gv"], "add_nodes_from": ["_gv"], "add_edge": ["_gv", "_ge", "_gw"]},
               "NxDiGraph": {"add_node": ["_gv"], "add_nodes_from": ["_gv"], "add_edge": ["_gv", "_ge", "_gw"]},
               "NxGraphS": {"add_node": ["_gv"], "add_nodes_from": ["_gv"], "add_edge": ["_gv", "_ge", "_gw"]}}      # vertices are vertex names


class CallMixin:
    # ------------------------------------------------------------------ naming (trigger hygiene)
    def named(self, v, p, hint):
        """Bind array-valued terms to fresh constants so that quantifier patterns can mention them."""
        def nm(term, h):
            if z3.is_const(term) and term.decl().kind() == z3.Z3_OP_UNINTERPRETED:
                return term
            c = fresh(h, term.sort())
            p.assume(c == term)
            return c
        if isinstance(v.ty, T.ObjMap):
            return self.om_named(v, p, hint)
        if isinstance(v.ty, T.Map):
            return T.sv_map(v.ty.k, v.ty.v, nm(v.dom, hint + "_dom"), nm(v.val, hint + "_val"))
        if isinstance(v.ty, (T.Bag, T.Set)):
            return T.scalar(v.ty, nm(v.t, hint))
        if isinstance(v.ty, T.Seq):
            r = T.sv_seq(v.ty.e, v.len, nm(v.at, hint + "_at"))
            if getattr(v, "uset", None) is not None:     # a duplicate-free listing keeps its member set and position function
                r.uset, r.uidx = v.uset, v.uidx
            return r
        return v

    # ------------------------------------------------------------------ dict of objects (Map[K, Obj[C]])
    def _om_field_sorts(self, ty):
        lay = self.reg.layouts[ty.cls]
        out = {}
        for f, ft in lay.fields.items():
            if isinstance(ft, T.Map):
                out[f] = ("m", z3.ArraySort(ty.k.sort(), z3.ArraySort(ft.k.sort(), T.B)), z3.ArraySort(ty.k.sort(), z3.ArraySort(ft.k.sort(), ft.v.sort())), ft)
            elif ft.scalar and ft.sort() is not None:
                out[f] = ("s", z3.ArraySort(ty.k.sort(), ft.sort()), None, ft)
            else:
                raise Unsupported(f"dict of {ty.cls} objects: field {f} of type {ft}")
        return out

    def om_fresh(self, ty, hint, empty=False):
        lifted = {}
        for f, (kind, s1, s2, ft) in self._om_field_sorts(ty).items():
            lifted[f] = (fresh(f"{hint}_{f}_dom", s1), fresh(f"{hint}_{f}_val", s2)) if kind == "m" else fresh(f"{hint}_{f}", s1)
        dom = z3.K(ty.k.sort(), z3.BoolVal(False)) if empty else fresh(hint + "_dom", z3.ArraySort(ty.k.sort(), T.B))
        return SV(ty, dom=dom, lifted=lifted)

    def om_get(self, om, key):
        fields = {}
        for f, (kind, s1, s2, ft) in self._om_field_sorts(om.ty).items():
            if kind == "m":
                fields[f] = T.sv_map(ft.k, ft.v, om.lifted[f][0][key], om.lifted[f][1][key])
            else:
                fields[f] = T.scalar(ft, om.lifted[f][key])
        return T.sv_obj(om.ty.cls, fields)

    def om_set(self, om, key, obj):
        lifted = {}
        for f, (kind, s1, s2, ft) in self._om_field_sorts(om.ty).items():
            v = obj.fields[f]
            if kind == "m":
                lifted[f] = (z3.Store(om.lifted[f][0], key, v.dom), z3.Store(om.lifted[f][1], key, v.val))
            else:
                lifted[f] = z3.Store(om.lifted[f], key, v.t)
        return SV(om.ty, dom=z3.Store(om.dom, key, True), lifted=lifted)

    def om_named(self, om, p, hint):
        """Bind the lifted arrays to fresh constants (patterns may not contain store terms)."""
        def nm(term, h):
            if z3.is_const(term) and term.decl().kind() == z3.Z3_OP_UNINTERPRETED:
                return term
            c = fresh(h, term.sort())
            p.assume(c == term)
            return c
        lifted = {f: ((nm(v[0], f"{hint}_{f}_dom"), nm(v[1], f"{hint}_{f}_val")) if isinstance(v, tuple) else nm(v, f"{hint}_{f}")) for f, v in om.lifted.items()}
        return SV(om.ty, dom=nm(om.dom, hint + "_dom"), lifted=lifted)

    def om_writeback(self, obj, p):
        """An object read out of a dict of objects (d[k], or the value variable of `for k, v in d.items()`) was mutated: update the dict."""
        ref = getattr(obj, "ref", None)
        if ref is None:
            return
        name, key = ref
        om = p.env.get(name)
        if om is None or not isinstance(om.ty, T.ObjMap):
            raise Unsupported("object alias into a dict that is no longer in scope")
        p.env[name] = self.om_named(self.om_set(om, key, obj), p, name)

    # ------------------------------------------------------------------ stores
    def store(self, target, v, p, inplace=False):
        if isinstance(target, ast.Name):
            if not inplace and self.cur is not None and target.id in self.cur.modifies_args and target.id in self.cur.params \
                    and not isinstance(p.env.get(target.id, SV(T.NONE)).ty, T.Obj):
                raise Unsupported(f"argument `{target.id}` is declared as modified in place but is re-bound")
            hint = self.cur.locals.get(target.id) if self.cur else None
            if hint is not None:
                # "A|B": a local re-bound to values of different types (e.g. `edges = set(edges)`): the first alternative that fits
                alts = [self.parse_ty(h) for h in hint.split("|")]
                if v.ty == T.TUP and alts[0] == T.Bag(T.INT):
                    v = self.bag_of(v, p)          # a list of node labels whose order does not matter from here on
                if not any(v.ty == a for a in alts):
                    for a in alts:
                        try:
                            v = self.coerce(v, a)
                            break
                        except Unsupported:
                            if a is alts[-1]:
                                raise
            if isinstance(v.ty, T.Obj) and any(o is v for n, o in p.env.items() if n != target.id):
                raise Unsupported(f"aliasing of object through name {target.id}")
            p.env[target.id] = self.named(v, p, target.id)
            return
        if isinstance(target, ast.Attribute):
            if not isinstance(target.value, ast.Name):
                raise Unsupported("store into nested attribute")
            oname = target.value.id
            obj = p.env.get(oname)
            if obj is None or not isinstance(obj.ty, T.Obj):
                raise Unsupported(f"attribute store on {oname}")
            lay = self.reg.layouts[obj.ty.cls]
            if target.attr not in lay.fields:
                raise Unsupported(f"field {target.attr} not in layout of {obj.ty.cls}")
            fty = lay.fields[target.attr]
            v = self.coerce(v, fty)
            nf = dict(obj.fields)
            nf[target.attr] = self.named(v, p, target.attr)
            p.env[oname] = T.sv_obj(obj.ty.cls, nf)
            return
        if isinstance(target, ast.Subscript):
            base = self.ev(target.value, p)
            if isinstance(base.ty, T.Obj) and base.ty.cls == "NpArray2":
                if not isinstance(target.value, ast.Name):
                    raise Unsupported("store into a computed array")
                ij = self.np2_index(base, target.slice, p, f"line {target.lineno}")
                m = base.fields["_m"]
                nf = dict(base.fields)
                nf["_m"] = self.named(T.sv_map(m.ty.k, m.ty.v, m.dom, z3.Store(m.val, ij, self.coerce(v, T.REAL).t)), p, "arr")
                p.env[target.value.id] = T.sv_obj("NpArray2", nf)
                return
            key = self.ev(target.slice, p)
            if base.ty == T.EMPTYDICT and isinstance(v.ty, T.Obj) and isinstance(target.value, ast.Name) and self.cur and target.value.id in self.cur.locals:
                base = self.coerce(base, self.parse_ty(self.cur.locals[target.value.id].split("|")[0]))
            if isinstance(base.ty, T.ObjMap):
                if not (isinstance(v.ty, T.Obj) and v.ty.cls == base.ty.cls):
                    raise Unsupported(f"store of {v.ty} into {base.ty}")
                k = self.coerce(key, base.ty.k)
                return self.store(target.value, self.om_set(base, k.t, v), p, inplace=True)
            if isinstance(base.ty, T.Map):
                k = self.coerce(key, base.ty.k)
                val = self.coerce(v, base.ty.v)
                nb = T.sv_map(base.ty.k, base.ty.v, z3.Store(base.dom, k.t, True), z3.Store(base.val, k.t, val.t))
                return self.store(target.value, nb, p, inplace=True)
            if base.ty == T.META:
                if key.ty != T.FIELD:
                    raise Unsupported("metadata store with non-field key")
                val = self.coerce(v, T.VAL)
                return self.store(target.value, T.scalar(T.META, TH.mset(base.t, key.t, val.t)), p, inplace=True)
            if isinstance(base.ty, T.Seq):
                j = self.coerce(key, T.INT).t
                self._raise_if(p, z3.Or(j >= base.len, j < 0), "IndexError", f"line {target.lineno}")
                return self.store(target.value, T.sv_seq(base.ty.e, base.len, z3.Store(base.at, j, self.coerce(v, base.ty.e).t)), p, inplace=True)
            raise Unsupported(f"subscript store on {base.ty}")
        if isinstance(target, (ast.Tuple, ast.List)):
            if isinstance(v.ty, T.Multi) and len(target.elts) == len(v.items):
                for t, x in zip(target.elts, v.items):
                    self.store(t, x, p)
                return
            if isinstance(v.ty, T.Pair) and len(target.elts) == 2:
                self.store(target.elts[0], T.scalar(v.ty.a, v.ty.fst(v.t)), p)
                self.store(target.elts[1], T.scalar(v.ty.b, v.ty.snd(v.t)), p)
                return
            if v.ty == T.TUP and all(isinstance(t, ast.Name) for t in target.elts):
                # a, b = <node tuple>: ValueError unless it has exactly as many elements; the names get the elements by position
                self._raise_if(p, TH.tlen(v.t) != len(target.elts), "ValueError", f"line {getattr(target, 'lineno', '?')}")
                m = fresh("m", T.I)       # a tuple of that length has exactly these members (tat_mem / pmem_* unrolled for the literal length)
                self._assume(p, z3.ForAll([m], TH.tmem(v.t, m) == z3.Or([m == TH.tat(v.t, z3.IntVal(i)) for i in range(len(target.elts))]),
                                          patterns=[TH.tmem(v.t, m)]))
                for i, t in enumerate(target.elts):
                    self.store(t, T.sv_int(TH.tat(v.t, z3.IntVal(i))), p)
                return
            raise Unsupported("tuple unpacking of this shape")
        raise Unsupported(f"store target {type(target).__name__}")

    def delete(self, target, p):
        if not isinstance(target, ast.Subscript):
            raise Unsupported("del of a non-subscript")
        base = self.ev(target.value, p)
        key = self.ev(target.slice, p)
        note = f"line {target.lineno}"
        if isinstance(base.ty, T.Map):
            k = self.coerce(key, base.ty.k)
            self._raise_if(p, z3.Not(base.dom[k.t]), "KeyError", note)
            return self.store(target.value, T.sv_map(base.ty.k, base.ty.v, z3.Store(base.dom, k.t, False), base.val), p, inplace=True)
        if base.ty == T.META and key.ty == T.FIELD:
            self._raise_if(p, z3.Not(TH.mhas(base.t, key.t)), "KeyError", note)
            return self.store(target.value, T.scalar(T.META, TH.mdel(base.t, key.t)), p, inplace=True)
        raise Unsupported(f"del on {base.ty}")

    # ------------------------------------------------------------------ calls
    def ev_Call(self, e, p):
        f = e.func
        fname = f.id if isinstance(f, ast.Name) else f.attr if isinstance(f, ast.Attribute) else None
        if fname is not None and self.cur is not None and ("opaque:" + fname) in self.cur.options and not self.spec_mode:
            # declared opaque by the contract (ASSUMED: the call has no effect on any modelled value; its arguments are not even evaluated,
            # they must not contain calls that matter): the result can only be passed on or compared
            for n in ast.walk(ast.Module(body=[ast.Expr(value=a) for a in list(e.args) + [k.value for k in e.keywords]], type_ignores=[])):
                if isinstance(n, ast.Call) and not (isinstance(n.func, ast.Name) and n.func.id in ("len", "tuple", "list", "set")) \
                        and not (isinstance(n.func, ast.Attribute) and n.func.attr in ("array",)):
                    raise Unsupported(f"call inside the arguments of the opaque call {fname}")
            return SV(T.OPAQUE)
        if any(isinstance(a, ast.Starred) for a in e.args) or any(k.arg is None for k in e.keywords):
            raise Unsupported("star-args")
        if isinstance(f, ast.Name):
            if self.spec_mode:
                r = self.spec_call(f.id, e, p)
                if r is not None:
                    return r
            if f.id in NOOP_CALLS:
                return T.sv_none()
            bm = p.env.get(f.id)
            if bm is not None and bm.ty == T.BOUND:
                # add_visited = visited.add ; ... ; add_visited(x)   ==   visited.add(x)
                call = ast.copy_location(ast.Call(func=ast.copy_location(ast.Attribute(value=ast.copy_location(ast.Name(id=bm.obj, ctx=ast.Load()), e),
                                                                                      attr=bm.attr, ctx=ast.Load()), e), args=e.args, keywords=e.keywords), e)
                self.call_ord[id(call)] = self.call_ord.get(id(e), 0)
                return self.ev_Call(call, p)
            b = getattr(self, "bi_" + f.id, None)
            if b is not None:
                return b(e, p)
            if f.id in self.local_defs:
                return self.local_call(f.id, e, p)
            if f.id in self.reg.layouts:       # constructor
                return self.construct(f.id, e, p)
            q = self.reg.resolve_function(f.id, self.cur_module)
            if q is not None:
                return self.call_function(q, e, p)
            if f.id not in p.env:
                lib = self.library_call(f, e, p)      # a library class / function imported by its bare name (LabelEncoder())
                if lib is not None:
                    return lib
            raise Unsupported(f"call of {f.id} at line {e.lineno}")
        if isinstance(f, ast.Attribute):
            if isinstance(f.value, ast.Name) and (f.value.id, f.attr) in NOOP_ATTR_CALLS:
                return T.sv_none()
            if isinstance(f.value, ast.Constant) and isinstance(f.value.value, str) and f.attr == "format":
                return T.scalar(T.STR, fresh("fmt", T.StrS))
            if isinstance(f.value, ast.Name) and f.value.id == "copy" and f.attr == "deepcopy" and "copy" not in p.env:
                return self.deepcopy(e, p)
            if f.attr == "choice" and isinstance(f.value, ast.Attribute) and f.value.attr in ("_rng", "rng") \
                    or (f.attr == "choice" and isinstance(f.value, ast.Name) and f.value.id in ("rng", "_rng")):
                return self.rng_choice(e, p)
            if f.attr == "random" and not e.args and not e.keywords and \
                    (isinstance(f.value, ast.Attribute) and f.value.attr in ("_rng", "rng") or isinstance(f.value, ast.Name) and f.value.id in ("rng", "_rng")):
                r = fresh("rand", T.R)         # Generator.random(): a float in [0, 1); assumed contract of numpy
                self._assume(p, z3.And(r >= 0, r < 1))
                return T.sv_real(r)
            lib = self.library_call(f, e, p)
            if lib is not None:
                return lib
            recv = self.ev(f.value, p)
            if isinstance(recv.ty, T.Obj) and recv.ty.cls == "NpArray2":
                if f.attr == "flatten" and not e.args and not e.keywords:
                    # row-major listing: position FLAT(i, j, c) = i * c + j holds a[i, j]; r * c entries (assumed library contract)
                    r, c, m = recv.fields["_r"].t, recv.fields["_c"].t, recv.fields["_m"]
                    at = fresh("flat_at", z3.ArraySort(T.I, T.R))
                    n = fresh("flat_len", T.I)
                    pt = T.Pair(T.INT, T.INT)
                    i, j = fresh("i", T.I), fresh("j", T.I)
                    self._assume(p, z3.ForAll([i, j], z3.Implies(z3.And(0 <= i, i < r, 0 <= j, j < c), at[TH.FLAT(i, j, c)] == m.val[pt.mk(i, j)]),
                                              patterns=[at[TH.FLAT(i, j, c)]]))
                    self._assume(p, z3.And(n == TH.FLATLEN(r, c), n >= 0))
                    return T.sv_seq(T.REAL, n, at)
                if f.attr == "sum" and not e.args and len(e.keywords) == 1 and e.keywords[0].arg == "axis" \
                        and isinstance(e.keywords[0].value, ast.Constant) and e.keywords[0].value.value == 1:
                    # a.sum(axis=1) of an r x c matrix: the r x 1 column of row sums; ROWSUM(cells, i, c) is a specification function (a sum
                    # over the c cells of row i; only its dependence on that row is stated: axiom rowsum_ext). Assumed library contract.
                    r, c, m = recv.fields["_r"].t, recv.fields["_c"].t, recv.fields["_m"]
                    pt = T.Pair(T.INT, T.INT)
                    dom = fresh("rs_dom", z3.ArraySort(pt.sort(), T.B))
                    val = fresh("rs_val", z3.ArraySort(pt.sort(), T.R))
                    i, j = fresh("i", T.I), fresh("j", T.I)
                    self._assume(p, z3.ForAll([i, j], dom[pt.mk(i, j)] == z3.And(0 <= i, i < r, j == 0), patterns=[dom[pt.mk(i, j)]]))
                    self._assume(p, z3.ForAll([i], z3.Implies(z3.And(0 <= i, i < r), val[pt.mk(i, 0)] == TH.ROWSUM(m.val, i, c)), patterns=[val[pt.mk(i, 0)]]))
                    return T.sv_obj("NpArray2", {"_m": T.sv_map(pt, T.REAL, dom, val), "_r": T.sv_int(r), "_c": T.sv_int(z3.IntVal(1))})
                if f.attr in ("tocsr", "tocsc", "tocoo") and not e.args and not e.keywords:
                    return recv        # the same table of numbers in another storage format (assumed library contract)
                raise Unsupported(f"numpy array method {f.attr}")
            if isinstance(recv.ty, T.Obj) and recv.ty.cls in NX_MODIFIES:
                return self.nx_method(recv, f, e, p)
            if isinstance(recv.ty, T.Obj) and recv.ty.cls == "LabelEnc":
                return self.le_method(recv, f, e, p)
            if isinstance(recv.ty, T.Obj):
                return self.call_method(recv, f, e, p)
            return self.container_method(recv, f, e, p)
        raise Unsupported("call of a computed function")

    def local_fn(self, name, arg_sorts):
        return z3.Function("localfn_" + name, *arg_sorts, T.B)

    def local_call(self, name, e, p):
        """Call of a nested pure helper: an uninterpreted Boolean function of its (scalar) arguments."""
        if e.keywords:
            raise Unsupported("keyword call of a nested helper")
        fdef = self.local_defs[name]
        body = fdef.body[1:] if fdef.body and isinstance(fdef.body[0], ast.Expr) and isinstance(getattr(fdef.body[0], "value", None), ast.Constant) else fdef.body
        chain = body and all((isinstance(st, ast.If) and not st.orelse and len(st.body) == 1 and isinstance(st.body[0], ast.Return) and st.body[0].value is not None)
                             or (st is body[-1] and isinstance(st, ast.Return) and st.value is not None) for st in body)
        plain = not fdef.args.vararg and not fdef.args.kwarg and not fdef.args.kwonlyargs and not fdef.args.defaults and len(fdef.args.args) == len(e.args)
        if chain and plain and any(isinstance(st, ast.If) for st in body):
            # a helper of the form `if c1: return e1 ... [return en]`: inlined as the conditional expression it denotes (reads of enclosing
            # variables see their current values; a test decided by the known arguments selects its branch, others must be call-free)
            vals = [self.ev(a, p) for a in e.args]
            saved = dict(p.env)
            try:
                for a, v in zip(fdef.args.args, vals):
                    p.env[a.arg] = v
                pending = []
                result = None
                for st in body:
                    if isinstance(st, ast.Return):
                        result = self.ev(st.value, p)
                        break
                    c = z3.simplify(self.truth(self.ev(st.test, p), p))
                    if z3.is_true(c):
                        result = self.ev(st.body[0].value, p)
                        break
                    if z3.is_false(c):
                        continue
                    self.guards.append(c)
                    try:
                        pending.append((c, self.ev(st.body[0].value, p)))
                    finally:
                        self.guards.pop()
                if result is None:
                    result = T.sv_none()
                for c, v in reversed(pending):
                    result = self.merge(c, v, result)
                return result
            finally:
                p.env.clear()
                p.env.update(saved)
        args = []
        for a in e.args:
            v = self.ev(a, p)
            if isinstance(v.ty, T.Opt):
                self._raise_if(p, v.is_none, "TypeError", f"line {e.lineno}")
                v = v.val
            if not v.ty.scalar or v.ty.sort() is None:
                raise Unsupported("nested helper applied to a composite value")
            args.append(v.t)
        return T.sv_bool(self.local_fn(name, [a.sort() for a in args])(*args))

    def coo_new(self, e, p):
        """sparse.coo_array((data, (rows, columns)), shape=(R, C)[, dtype=..]) -- ASSUMED library contract: ValueError unless the three lists
        are equally long and every coordinate lies inside the shape; the R x C table whose entry (i, j) is 0 when no position addresses
        (i, j) and the datum of that position when exactly one does (entries addressed several times are their data's sum: not needed,
        not stated). `coo_pos` is the choice function of axiom coo_pos_def (some position addressing (i, j) if there is one). The element
        type (dtype) is assumed to hold the data exactly."""
        kw = {k.arg: k.value for k in e.keywords}
        a = e.args[0] if len(e.args) == 1 else None
        if not (isinstance(a, ast.Tuple) and len(a.elts) == 2 and isinstance(a.elts[1], ast.Tuple) and len(a.elts[1].elts) == 2 and "shape" in kw
                and set(kw) <= {"shape", "dtype"}):
            raise Unsupported("sparse.coo_array in this form")
        if "NpArray2" not in self.reg.layouts:
            raise Unsupported("layout NpArray2 is not registered (numpy model)")
        seqs = []
        for x in (a.elts[0], a.elts[1].elts[0], a.elts[1].elts[1]):
            v = self.ev(x, p)
            if v.ty == T.EMPTYLIST:
                v = self.coerce(v, T.Seq(T.INT))
            if not (isinstance(v.ty, T.Seq) and v.ty.e == T.INT):
                raise Unsupported(f"sparse.coo_array over {v.ty}")
            seqs.append(v)
        data, rows, cols = seqs
        note = f"line {e.lineno}"
        shape = self.unopt(self.ev(kw["shape"], p), p, note)
        pt = T.Pair(T.INT, T.INT)
        if shape.ty == T.TUP:
            self._raise_if(p, TH.tlen(shape.t) != 2, "ValueError", note)
            R, C = TH.tat(shape.t, z3.IntVal(0)), TH.tat(shape.t, z3.IntVal(1))
        elif shape.ty == pt:
            R, C = pt.fst(shape.t), pt.snd(shape.t)
        else:
            raise Unsupported(f"shape of type {shape.ty}")
        q = fresh("q", T.I)
        inside = z3.ForAll([q], z3.Implies(z3.And(0 <= q, q < rows.len), z3.And(0 <= rows.at[q], rows.at[q] < R, 0 <= cols.at[q], cols.at[q] < C)),
                           patterns=[rows.at[q], cols.at[q]])
        self._raise_if(p, z3.Not(z3.And(rows.len == cols.len, data.len == rows.len, R >= 0, C >= 0, inside)), "ValueError", note)
        dom = fresh("coo_dom", z3.ArraySort(pt.sort(), T.B))
        val = fresh("coo_val", z3.ArraySort(pt.sort(), T.R))
        dup = z3.Function(f"coo_dup!{next(T._fresh)}", T.I, T.I, T.I)
        i, j = fresh("i", T.I), fresh("j", T.I)
        self._assume(p, z3.ForAll([i, j], dom[pt.mk(i, j)] == z3.And(0 <= i, i < R, 0 <= j, j < C), patterns=[dom[pt.mk(i, j)]]))
        c, d = TH.coo_pos(rows.at, cols.at, rows.len, i, j), dup(i, j)
        addressed = z3.And(0 <= c, c < rows.len, rows.at[c] == i, cols.at[c] == j)
        again = z3.And(0 <= d, d < rows.len, d != c, rows.at[d] == i, cols.at[d] == j)
        self._assume(p, z3.ForAll([i, j], z3.And(z3.Implies(z3.Not(addressed), val[pt.mk(i, j)] == 0),
                                                 z3.Implies(addressed, z3.Or(val[pt.mk(i, j)] == z3.ToReal(data.at[c]), again))),
                                  patterns=[val[pt.mk(i, j)]]))
        return T.sv_obj("NpArray2", {"_m": T.sv_map(pt, T.REAL, dom, val), "_r": T.sv_int(R), "_c": T.sv_int(C)})

    def library_call(self, f, e, p):
        """Assumed contracts of random-number functions: the result is havoc within its documented range, so whatever
        is proved holds for every outcome of the draw."""
        dotted = []
        cur = f
        while isinstance(cur, ast.Attribute):
            dotted.append(cur.attr)
            cur = cur.value
        if not isinstance(cur, ast.Name) or cur.id in p.env:
            return None
        name = ".".join([cur.id] + dotted[::-1])
        if name in ("np.random.rand", "numpy.random.rand", "np.random.random", "random.random") and not e.args:
            r = fresh("rand", T.R)
            self._assume(p, z3.And(r >= 0, r < 1))
            return T.sv_real(r)
        if name in ("nx.Graph", "nx.DiGraph", "networkx.Graph", "networkx.DiGraph") and not e.args and not e.keywords:
            if self.cur is not None and "nx_strings" in self.cur.options and not name.endswith("DiGraph"):
                return self.nx_new("NxGraphS")
            return self.nx_new("NxDiGraph" if name.endswith("DiGraph") else "NxGraph")
        if name in ("nx.betweenness_centrality", "nx.closeness_centrality", "networkx.betweenness_centrality", "networkx.closeness_centrality") \
                and len(e.args) == 1 and not e.keywords:
            # ASSUMED library contract: one value per vertex of the graph, a function of the graph (vertex set, links, weights) alone
            g = self.ev(e.args[0], p)
            if not (isinstance(g.ty, T.Obj) and g.ty.cls in NX_MODIFIES):
                raise Unsupported(f"{name} of {g.ty}")
            fn = TH.nx_centrality(name.rsplit(".", 1)[1], g.ty.cls, g.fields["_gv"].ty.e)
            return T.sv_map(g.fields["_gv"].ty.e, T.REAL, g.fields["_gv"].t, fn(g.fields["_gv"].t, g.fields["_ge"].t, g.fields["_gw"].dom, g.fields["_gw"].val))
        if name in ("np.zeros", "numpy.zeros") and len(e.args) == 1 and not e.keywords and isinstance(e.args[0], ast.Tuple) and len(e.args[0].elts) == 2:
            # np.zeros((r, c)): an r x c array of 0.0 (ValueError for a negative dimension); assumed library contract
            if "NpArray2" not in self.reg.layouts:
                raise Unsupported("layout NpArray2 is not registered (numpy model)")
            r, c = (self.coerce(self.ev(x, p), T.INT).t for x in e.args[0].elts)
            self._raise_if(p, z3.Or(r < 0, c < 0), "ValueError", f"line {e.lineno}")
            pt = T.Pair(T.INT, T.INT)
            dom = fresh("np_dom", z3.ArraySort(pt.sort(), T.B))
            i, j = fresh("i", T.I), fresh("j", T.I)
            self._assume(p, z3.ForAll([i, j], dom[pt.mk(i, j)] == z3.And(0 <= i, i < r, 0 <= j, j < c), patterns=[dom[pt.mk(i, j)]]))
            return T.sv_obj("NpArray2", {"_m": T.sv_map(pt, T.REAL, dom, z3.K(pt.sort(), z3.RealVal(0))), "_r": T.sv_int(r), "_c": T.sv_int(c)})
        if name in ("np.matrix", "numpy.matrix", "sparse.csr_matrix", "scipy.sparse.csr_matrix") and len(e.args) == 1 and not e.keywords:
            v = self.ev(e.args[0], p)
            if isinstance(v.ty, T.Obj) and v.ty.cls == "NpArray2":
                return v           # the same table of numbers in another container (assumed library contract)
            raise Unsupported(f"{name} of {v.ty}")
        if name in ("np.array", "numpy.array") and len(e.args) == 1 and not e.keywords:
            v = self.ev(e.args[0], p)
            if v.ty == T.EMPTYLIST:
                return self.coerce(v, T.Seq(T.REAL))
            if isinstance(v.ty, T.Seq):
                return v           # np.array(list): the same sequence of values
            raise Unsupported(f"np.array of {v.ty}")
        if name in ("Counter", "collections.Counter") and len(e.args) == 1 and not e.keywords:
            # Counter(list): every element that occurs, with its number of occurrences
            v = self.ev(e.args[0], p)
            if v.ty == T.EMPTYLIST:
                return SV(T.EMPTYDICT)
            if isinstance(v.ty, T.Bag) and v.ty.e.scalar:
                dom = fresh("counter_dom", z3.ArraySort(v.ty.e.sort(), T.B))
                x = fresh("x", v.ty.e.sort())
                self._assume(p, z3.ForAll([x], dom[x] == (v.t[x] >= 1), patterns=[dom[x]]))
                return T.sv_map(v.ty.e, T.INT, dom, v.t)
            raise Unsupported(f"Counter of {v.ty}")
        if name in ("LabelEncoder", "preprocessing.LabelEncoder", "sklearn.preprocessing.LabelEncoder") and not e.args and not e.keywords:
            if "LabelEnc" not in self.reg.layouts:
                raise Unsupported("layout LabelEnc is not registered (label-encoder model)")
            # an encoder that has not been fitted: no label known
            return T.sv_obj("LabelEnc", {"_enc": T.sv_map(T.INT, T.INT, z3.K(T.I, z3.BoolVal(False)), z3.K(T.I, z3.IntVal(0))),
                                         "_inv": T.sv_map(T.INT, T.INT, z3.K(T.I, z3.BoolVal(False)), z3.K(T.I, z3.IntVal(0)))})
        if name in ("np.linspace", "numpy.linspace") and len(e.args) == 3 and not e.keywords and all(isinstance(a, ast.Constant) for a in e.args[:2]) \
                and e.args[0].value == e.args[1].value and type(e.args[0].value) in (int, float):
            # np.linspace(c, c, n): n copies of the float c (ValueError for a negative n); assumed library contract
            n = self.coerce(self.ev(e.args[2], p), T.INT).t
            self._raise_if(p, n < 0, "ValueError", f"line {e.lineno}")
            at = fresh("linspace", z3.ArraySort(T.I, T.R))
            k = fresh("k", T.I)
            self._assume(p, z3.ForAll([k], at[k] == z3.RealVal(e.args[0].value), patterns=[at[k]]))
            return T.sv_seq(T.REAL, n, at)
        if name in ("np.ones_like", "numpy.ones_like") and len(e.args) == 1 and not e.keywords:
            v = self.ev(e.args[0], p)
            if v.ty == T.EMPTYLIST:
                v = self.coerce(v, T.Seq(T.INT))
            if isinstance(v.ty, T.Seq) and v.ty.e == T.INT:
                # np.ones_like(list of ints): as many ones (assumed library contract)
                at = fresh("ones", z3.ArraySort(T.I, T.I))
                k = fresh("k", T.I)
                self._assume(p, z3.ForAll([k], at[k] == 1, patterns=[at[k]]))
                return T.sv_seq(T.INT, v.len, at)
            raise Unsupported(f"np.ones_like of {v.ty}")
        if name in ("sparse.coo_array", "sparse.coo_matrix", "scipy.sparse.coo_array", "scipy.sparse.coo_matrix"):
            return self.coo_new(e, p)
        if name == "dict.fromkeys" and len(e.args) == 1 and not e.keywords:
            # dict.fromkeys(xs): the distinct elements of xs as keys (values None, never read here); iterating it visits every distinct element once
            v = self.ev(e.args[0], p)
            sv = self.as_set(v, p)
            if sv.ty == T.EMPTYSET:
                return SV(T.EMPTYDICT)
            return T.sv_map(sv.ty.e, T.BOOL, sv.t, z3.K(sv.ty.e.sort(), z3.BoolVal(False)))
        if name == "random.seed":
            for a in e.args:
                self.ev(a, p)
            return T.sv_none()
        if name == "random.sample" and len(e.args) == 2 and not e.keywords:
            # random.sample(population, k): k positions of the population without replacement, as a list (ValueError when k is negative or
            # exceeds the population); for a population of node labels the result is a node tuple
            pop = self.ev(e.args[0], p)
            k = self.coerce(self.ev(e.args[1], p), T.INT).t
            if not (isinstance(pop.ty, T.Bag) and pop.ty.e == T.INT):
                raise Unsupported(f"random.sample over {pop.ty}")
            bt = pop.ty
            self._raise_if(p, z3.Or(k < 0, k > bt.blen()(pop.t)), "ValueError", f"line {e.lineno}")
            t = fresh("sample", T.TupS)
            n, x = fresh("n", T.I), fresh("x", T.I)
            self._assume(p, TH.tlen(t) == k)
            self._assume(p, z3.ForAll([n], z3.Implies(TH.tmem(t, n), pop.t[n] >= 1), patterns=[TH.tmem(t, n)]))
            self._assume(p, z3.Implies(z3.ForAll([x], pop.t[x] <= 1, patterns=[pop.t[x]]), TH.distinct_t(t)))
            return T.scalar(T.TUP, t)
        return None

    # ---- networkx graphs: the ASSUMED contract of the library class (DESIGN §3.4). A graph over integer vertices is its vertex set, its set
    # of ordered pairs (for nx.Graph both orientations of every link are present) and the `weight` attribute of each pair.
    def nx_new(self, cls):
        lay = self.reg.layouts.get(cls)
        if lay is None:
            raise Unsupported(f"layout {cls} is not registered (networkx model)")
        vt = lay.fields["_gv"].e
        pt = T.Pair(vt, vt)
        return T.sv_obj(cls, {"_gv": T.scalar(T.Set(vt), z3.K(vt.sort(), z3.BoolVal(False))),
                              "_ge": T.scalar(T.Set(pt), z3.K(pt.sort(), z3.BoolVal(False))),
                              "_gw": T.sv_map(pt, T.REAL, z3.K(pt.sort(), z3.BoolVal(False)), fresh("gw0", z3.ArraySort(pt.sort(), T.R)))})

    def nx_method(self, recv, f, e, p):
        if not isinstance(f.value, ast.Name):
            raise Unsupported("networkx method on a computed receiver")
        cls, name = recv.ty.cls, f.value.id
        directed = cls == "NxDiGraph"
        vt = recv.fields["_gv"].ty.e
        pt = T.Pair(vt, vt)
        gv, ge, gw = recv.fields["_gv"], recv.fields["_ge"], recv.fields["_gw"]
        kw = {k.arg: k.value for k in e.keywords}

        def put(gv2, ge2, gw2):
            nf = {"_gv": self.named(T.scalar(gv.ty, gv2), p, "gv"), "_ge": self.named(T.scalar(ge.ty, ge2), p, "ge"),
                  "_gw": self.named(T.sv_map(pt, T.REAL, gw2[0], gw2[1]), p, "gw")}
            p.env[name] = T.sv_obj(cls, nf)
            return T.sv_none()
        if f.attr == "add_node" and len(e.args) == 1:
            for v in kw.values():
                self.ev(v, p)          # node attributes are not modelled
            n = self.coerce(self.ev(e.args[0], p), vt).t
            return put(z3.Store(gv.t, n, True), ge.t, (gw.dom, gw.val))
        if f.attr == "add_edge" and len(e.args) == 2 and set(kw) <= {"weight"}:
            u = self.coerce(self.ev(e.args[0], p), vt).t
            v = self.coerce(self.ev(e.args[1], p), vt).t
            gv2 = z3.Store(z3.Store(gv.t, u, True), v, True)
            ge2 = z3.Store(ge.t, pt.mk(u, v), True)
            dom, val = gw.dom, gw.val
            if not directed:
                ge2 = z3.Store(ge2, pt.mk(v, u), True)
            if "weight" in kw:
                w = self.coerce(self.ev(kw["weight"], p), T.REAL).t
                dom, val = z3.Store(dom, pt.mk(u, v), True), z3.Store(val, pt.mk(u, v), w)
                if not directed:
                    dom, val = z3.Store(dom, pt.mk(v, u), True), z3.Store(val, pt.mk(v, u), w)
            return put(gv2, ge2, (dom, val))
        if f.attr == "add_nodes_from" and len(e.args) == 1 and not kw:
            src = self.ev(e.args[0], p)
            x = fresh("x", vt.sort())
            if isinstance(src.ty, T.Bag) and src.ty.e == vt:
                mem = src.t[x] >= 1
            elif isinstance(src.ty, T.Set) and src.ty.e == vt:
                mem = src.t[x]
            else:
                raise Unsupported(f"add_nodes_from over {src.ty}")
            gv2 = fresh("gv_from", gv.ty.sort())
            self._assume(p, z3.ForAll([x], gv2[x] == z3.Or(gv.t[x], mem), patterns=[gv2[x]]))
            return put(gv2, ge.t, (gw.dom, gw.val))
        raise Unsupported(f"networkx method {f.attr} in this form")

    def le_facts(self, p, enc, inv):
        """ASSUMED library contract of a fitted sklearn LabelEncoder: the known labels are numbered 0..N-1 bijectively (`_inv` is the inverse
        table; that the numbering follows the sorted order of the labels is not stated)."""
        n, i = fresh("n", T.I), fresh("i", T.I)
        N = T.Set(T.INT).card()(enc.dom)
        self._assume(p, N >= 0)
        self._assume(p, z3.ForAll([n], z3.Implies(enc.dom[n], z3.And(0 <= enc.val[n], enc.val[n] < N, inv.dom[enc.val[n]], inv.val[enc.val[n]] == n)),
                                  patterns=[enc.val[n], enc.dom[n]]))
        self._assume(p, z3.ForAll([i], inv.dom[i] == z3.And(0 <= i, i < N), patterns=[inv.dom[i]]))
        self._assume(p, z3.ForAll([i], z3.Implies(z3.And(0 <= i, i < N), z3.And(enc.dom[inv.val[i]], enc.val[inv.val[i]] == i)), patterns=[inv.val[i], inv.dom[i]]))

    def le_method(self, recv, f, e, p):
        """Methods of the label-encoder model (assumed library contracts): fit(labels), transform(tuple | list)."""
        enc, inv = recv.fields["_enc"], recv.fields["_inv"]
        note = f"line {e.lineno}"
        if f.attr == "fit" and len(e.args) == 1 and not e.keywords:
            if not isinstance(f.value, ast.Name):
                raise Unsupported("fit on a computed receiver")
            s = self.as_set(self.ev(e.args[0], p), p)
            if s.ty == T.EMPTYSET:
                s = self.coerce(s, T.Set(T.INT))
            if s.ty != T.Set(T.INT):
                raise Unsupported(f"LabelEncoder.fit over {s.ty}")
            enc2 = T.sv_map(T.INT, T.INT, s.t, fresh("enc_val", z3.ArraySort(T.I, T.I)))
            inv2 = T.sv_map(T.INT, T.INT, fresh("inv_dom", z3.ArraySort(T.I, T.B)), fresh("inv_val", z3.ArraySort(T.I, T.I)))
            self.le_facts(p, enc2, inv2)
            obj = T.sv_obj("LabelEnc", {"_enc": enc2, "_inv": inv2})
            p.env[f.value.id] = obj
            return obj
        if f.attr == "transform" and len(e.args) == 1 and not e.keywords:
            v = self.ev(e.args[0], p)
            if v.ty == T.TUP:
                # element-wise encoding of a node tuple (ValueError for a label that was not fitted); stated through membership, for an
                # encoder whose tables are inverse to each other
                n, x = fresh("n", T.I), fresh("x", T.I)
                self._raise_if(p, z3.Exists([n], z3.And(TH.tmem(v.t, n), z3.Not(enc.dom[n]))), "ValueError", note)
                r = fresh("encoded", T.TupS)
                self._assume(p, TH.tlen(r) == TH.tlen(v.t))
                self._assume(p, z3.ForAll([n], z3.Implies(TH.tmem(v.t, n), TH.tmem(r, enc.val[n])), patterns=[TH.tmem(v.t, n)]))
                self._assume(p, z3.ForAll([x], z3.Implies(TH.tmem(r, x), z3.And(inv.dom[x], TH.tmem(v.t, inv.val[x]))), patterns=[TH.tmem(r, x)]))
                return T.scalar(T.TUP, r)
            if isinstance(v.ty, T.Seq) and v.ty.e == T.INT:
                j = fresh("j", T.I)
                self._raise_if(p, z3.Exists([j], z3.And(0 <= j, j < v.len, z3.Not(enc.dom[v.at[j]]))), "ValueError", note)
                at = fresh("encoded_at", z3.ArraySort(T.I, T.I))
                self._assume(p, z3.ForAll([j], z3.Implies(z3.And(0 <= j, j < v.len), at[j] == enc.val[v.at[j]]), patterns=[at[j], v.at[j]]))
                return T.sv_seq(T.INT, v.len, at)
            raise Unsupported(f"LabelEncoder.transform of {v.ty}")
        raise Unsupported(f"LabelEncoder method {f.attr}")

    def rng_choice(self, e, p):
        """Generator.choice(population_list, size=k, replace=False): k distinct positions of the list, i.e. a sub-bag of size k
        (ValueError when k exceeds the population). Assumed contract of numpy; the result is otherwise havoc."""
        kw = {k.arg: k.value for k in e.keywords}
        if len(e.args) != 1 or "size" not in kw or not (isinstance(kw.get("replace"), ast.Constant) and kw["replace"].value is False):
            raise Unsupported("rng.choice in a form other than choice(list, size=k, replace=False)")
        pop = self.ev(e.args[0], p)
        if pop.ty == T.INT and isinstance(kw["size"], ast.Constant) and kw["size"].value == 2:
            # choice(n, size=2, replace=False): two different positions below n (ValueError when n < 2); assumed contract of numpy
            n = pop.t
            self._raise_if(p, n < 2, "ValueError", f"line {e.lineno}")
            a, b = fresh("pick", T.I), fresh("pick", T.I)
            self._assume(p, z3.And(0 <= a, a < n, 0 <= b, b < n, a != b))
            pt = T.Pair(T.INT, T.INT)
            return T.scalar(pt, pt.mk(a, b))
        if not isinstance(pop.ty, T.Bag):
            raise Unsupported(f"rng.choice over {pop.ty}")
        k = self.coerce(self.ev(kw["size"], p), T.INT).t
        bt = pop.ty
        self._raise_if(p, z3.Or(k < 0, k > bt.blen()(pop.t)), "ValueError", f"line {e.lineno}")
        r = fresh("choice", bt.sort())
        x = fresh("x", bt.e.sort())
        self._assume(p, z3.ForAll([x], z3.And(0 <= r[x], r[x] <= pop.t[x]), patterns=[r[x]]))
        self._assume(p, bt.blen()(r) == k)
        return T.scalar(bt, r)

    # ---- built-ins
    def _one(self, e, p):
        if len(e.args) != 1 or e.keywords:
            raise Unsupported(f"{e.func.id} with these arguments")
        return self.ev(e.args[0], p)

    def bi_any(self, e, p):
        """any(cond(v) for v in d.values()) in code: some key of d whose value satisfies the condition"""
        if len(e.args) == 1 and isinstance(e.args[0], ast.GeneratorExp) and not e.keywords and len(e.args[0].generators) == 1 and not e.args[0].generators[0].ifs:
            g = e.args[0].generators[0]
            it = g.iter
            if isinstance(it, ast.Call) and isinstance(it.func, ast.Attribute) and it.func.attr == "values" and not it.args and isinstance(g.target, ast.Name):
                m = self.ev(it.func.value, p)
                if isinstance(m.ty, T.Map) and m.ty.v.scalar:
                    k = fresh("anyk", m.ty.k.sort())
                    saved = p.env.get(g.target.id)
                    p.env[g.target.id] = T.scalar(m.ty.v, m.val[k])
                    try:
                        c = self.truth(self.ev(e.args[0].elt, p), p)
                    finally:
                        if saved is None:
                            p.env.pop(g.target.id, None)
                        else:
                            p.env[g.target.id] = saved
                    return T.sv_bool(z3.Exists([k], z3.And(m.dom[k], c)))
        raise Unsupported("any() in this form")

    def bi_next(self, e, p):
        """next(iter(d)): some key of the dict / member of the set (StopIteration when it is empty); which one is not modelled"""
        if len(e.args) == 1 and isinstance(e.args[0], ast.Call) and isinstance(e.args[0].func, ast.Name) and e.args[0].func.id == "iter" and len(e.args[0].args) == 1:
            c = self.ev(e.args[0].args[0], p)
            if isinstance(c.ty, T.Map):
                c = T.scalar(T.Set(c.ty.k), c.dom)
            if isinstance(c.ty, T.Set):
                x = fresh("first", c.ty.e.sort())
                y = fresh("y", c.ty.e.sort())
                self._raise_if(p, z3.ForAll([y], z3.Not(c.t[y]), patterns=[c.t[y]]), "StopIteration", f"line {e.lineno}")
                self._assume(p, c.t[x])
                return T.scalar(c.ty.e, x)
        raise Unsupported("next() in this form")

    def bi_str(self, e, p):
        v = self._one(e, p)
        if v.ty in (T.INT, T.BOOL):
            return T.scalar(T.STRINT, self.coerce(v, T.INT).t)
        raise Unsupported(f"str() of {v.ty}")

    def bi_sum(self, e, p):
        """sum(d.values()) for a dict of ints: the specification function vsum of the table (theory: vsum_* laws of a finite sum)"""
        if len(e.args) == 1 and not e.keywords:
            a = e.args[0]
            if isinstance(a, ast.Call) and isinstance(a.func, ast.Attribute) and a.func.attr == "values" and not a.args and not a.keywords:
                m = self.ev(a.func.value, p)
                if isinstance(m.ty, T.Map) and m.ty.k == T.INT and m.ty.v == T.INT:
                    return T.sv_int(TH.VSUM(m.dom, m.val))
                if m.ty == T.EMPTYDICT:
                    return T.sv_int(z3.IntVal(0))
        raise Unsupported("sum() in this form")

    def bi_len(self, e, p):
        if len(e.args) == 1 and not e.keywords and isinstance(e.args[0], ast.Name) and isinstance(p.env.get(e.args[0].id, SV(T.NONE)).ty, T.Obj) \
                and not self.spec_mode:
            # len(obj) is obj.__len__(): through that method's contract
            call = ast.copy_location(ast.Call(func=ast.copy_location(ast.Attribute(value=e.args[0], attr="__len__", ctx=ast.Load()), e), args=[], keywords=[]), e)
            self.call_ord[id(call)] = self.call_ord.get(id(e), 0)
            return self.ev_Call(call, p)
        return T.sv_int(self.length(self._one(e, p), p))

    def bi_tuple(self, e, p):
        if not e.args:
            return T.scalar(T.TUP, TH.EMPTY_TUP)
        if len(e.args) == 1 and isinstance(e.args[0], ast.GeneratorExp) and not e.keywords:
            g = e.args[0]     # tuple(<generator>) is tuple([<the same comprehension>])
            return self.ev_ListComp(ast.copy_location(ast.ListComp(elt=g.elt, generators=g.generators), g), p)
        return self.as_listing(self._one(e, p), p)

    def bi_list(self, e, p):
        if not e.args:
            return SV(T.EMPTYLIST)
        return self.as_listing(self._one(e, p), p)

    def as_listing(self, v, p):
        """list(x) / tuple(x): Tup and Seq stay positional, everything else becomes a bag."""
        if isinstance(v.ty, T.Opt):
            self._raise_if(p, v.is_none, "TypeError", "list(None)")
            return self.as_listing(v.val, p)
        if v.ty in (T.TUP, T.EMPTYLIST) or isinstance(v.ty, (T.Bag, T.Seq)):
            return v
        if isinstance(v.ty, (T.Map, T.Set)) and self.cur is not None and "listing_positional" in self.cur.options:
            st = T.Set(v.ty.k) if isinstance(v.ty, T.Map) else v.ty
            return self.uniq_seq(st, v.dom if isinstance(v.ty, T.Map) else v.t, p)
        if isinstance(v.ty, T.Map):
            return self.bag_of_set(T.Set(v.ty.k), v.dom, p)
        if isinstance(v.ty, T.Set):
            return self.bag_of_set(v.ty, v.t, p)
        if v.ty in (T.EMPTYDICT, T.EMPTYSET):
            return SV(T.EMPTYLIST)
        raise Unsupported(f"list() of {v.ty}")

    def uniq_seq(self, st, s, p, at=None, idx=None):
        """A positional list that lists every member of the set s exactly once, in an order that is not modelled (list(d), list(a_set):
        the iteration order of the container).  The value remembers its member set (`uset`) and position function (`uidx`)."""
        at = at if at is not None else fresh("listing", z3.ArraySort(T.I, st.e.sort()))
        if idx is None:
            f = z3.Function(f"pos!{next(T._fresh)}", st.e.sort(), T.I)
            idx = lambda x: f(x)      # noqa: E731
        ln = st.card()(s)
        j, x = fresh("j", T.I), fresh("x", st.e.sort())
        self._assume(p, ln >= 0)
        self._assume(p, z3.ForAll([j], z3.Implies(z3.And(0 <= j, j < ln), z3.And(s[at[j]], idx(at[j]) == j)), patterns=[at[j]]))
        self._assume(p, z3.ForAll([x], z3.Implies(s[x], z3.And(0 <= idx(x), idx(x) < ln, at[idx(x)] == x)), patterns=[s[x], idx(x)]))
        v = T.sv_seq(st.e, ln, at)
        v.uset, v.uidx = s, idx
        return v

    def bag_of_set(self, st, s, p):
        bt = T.Bag(st.e)
        b = TH.bagof_fn(st.e)(s)         # axioms bagof_def, bagof_len
        x = fresh("bx", st.e.sort())
        self._assume(p, z3.ForAll([x], b[x] == z3.If(s[x], 1, 0), patterns=[b[x], s[x]]))
        self._assume(p, bt.blen()(b) == st.card()(s))
        return T.scalar(bt, b)

    def bi_set(self, e, p):
        if not e.args:
            return SV(T.EMPTYSET)
        a = e.args[0]
        if len(e.args) == 1 and isinstance(a, ast.Call) and isinstance(a.func, ast.Attribute) and a.func.attr == "chain" and isinstance(a.func.value, ast.Name) \
                and a.func.value.id == "itertools" and len(a.args) == 1 and isinstance(a.args[0], ast.Starred) and not a.keywords:
            # set(itertools.chain(*B)) for a list B of node tuples: all labels occurring in them (axioms members_intro / members_elim)
            b = self.ev(a.args[0].value, p)
            if isinstance(b.ty, T.Bag) and b.ty.e == T.TUP:
                return T.scalar(T.Set(T.INT), TH.members(b.t))
            raise Unsupported(f"itertools.chain(*x) over {b.ty}")
        v = self._one(e, p)
        return self.as_set(v, p)

    def as_set(self, v, p):
        if isinstance(v.ty, T.Set) or v.ty == T.EMPTYSET:
            return v
        if v.ty == T.EMPTYLIST:
            return SV(T.EMPTYSET)
        if v.ty == T.TUP and self.cur is not None and "tuple_sets" in self.cur.options:
            st = T.Set(T.INT)
            self._assume(p, z3.Implies(TH.distinct_t(v.t), st.card()(TH.tset(v.t)) == TH.tlen(v.t)))
            return T.scalar(st, TH.tset(v.t))        # axiom tset_def
        if v.ty == T.TUP:
            st = T.Set(T.INT)
            s = fresh("setoftup", st.sort())
            n = fresh("n", T.I)
            self._assume(p, z3.ForAll([n], s[n] == TH.tmem(v.t, n), patterns=[s[n], TH.tmem(v.t, n)]))
            self._assume(p, z3.Implies(TH.distinct_t(v.t), st.card()(s) == TH.tlen(v.t)))
            return T.scalar(st, s)
        if isinstance(v.ty, T.Bag):
            st = T.Set(v.ty.e)
            s = TH.supp_fn(v.ty.e)(v.t)      # set(list): the support (axioms supp_def, bag01_len)
            x = fresh("x", v.ty.e.sort())
            self._assume(p, z3.ForAll([x], s[x] == (v.t[x] >= 1), patterns=[s[x], v.t[x]]))
            self._assume(p, st.card()(s) <= v.ty.blen()(v.t))
            return T.scalar(st, s)
        if isinstance(v.ty, T.Map):
            return T.scalar(T.Set(v.ty.k), v.dom)
        if isinstance(v.ty, T.Seq):
            st = T.Set(v.ty.e)
            s = fresh("setofseq", st.sort())
            j = fresh("j", T.I)
            x = fresh("x", v.ty.e.sort())
            idx = z3.Function(f"idx!{next(T._fresh)}", v.ty.e.sort(), T.I)
            self._assume(p, z3.ForAll([j], z3.Implies(z3.And(0 <= j, j < v.len), s[v.at[j]]), patterns=[v.at[j]]))
            self._assume(p, z3.ForAll([x], z3.Implies(s[x], z3.And(0 <= idx(x), idx(x) < v.len, v.at[idx(x)] == x)), patterns=[s[x]]))
            self._assume(p, z3.And(st.card()(s) <= v.len, st.card()(s) >= 0))
            # a list is as long as its set exactly when it has no repeated element (pigeonhole; a law of finite sequences, not provable by E-matching)
            a, b = fresh("a", T.I), fresh("b", T.I)
            self._assume(p, (st.card()(s) == v.len) == z3.ForAll([a, b], z3.Implies(z3.And(0 <= a, a < b, b < v.len), v.at[a] != v.at[b]),
                                                                 patterns=[z3.MultiPattern(v.at[a], v.at[b])]))
            return T.scalar(st, s)
        raise Unsupported(f"set() of {v.ty}")

    def bi_range(self, e, p):
        """range(a, b) used as a value (comprehension source): the list of the integers a <= x < b, each once."""
        args = [self.coerce(self.ev(a, p), T.INT).t for a in e.args]
        if not 1 <= len(args) <= 2 or e.keywords:
            raise Unsupported("range with step")
        lo, hi = (z3.IntVal(0), args[0]) if len(args) == 1 else args
        bt = T.Bag(T.INT)
        b = fresh("range", bt.sort())
        x = fresh("x", T.I)
        self._assume(p, z3.ForAll([x], b[x] == z3.If(z3.And(lo <= x, x < hi), 1, 0), patterns=[b[x]]))
        self._assume(p, bt.blen()(b) == z3.If(hi >= lo, hi - lo, 0))
        return T.scalar(bt, b)

    def bi_deque(self, e, p):
        """collections.deque(iterable): a list whose order is not modelled."""
        if not e.args:
            return SV(T.EMPTYLIST)
        return self.as_listing(self._one(e, p), p)

    def bi_zip(self, e, p):
        """zip(a, b) of two positional lists: the positional list of pairs, as long as the shorter one."""
        if len(e.args) != 2 or e.keywords:
            raise Unsupported("zip of other than two lists")
        a, b = (self.ev(x, p) for x in e.args)
        if not (isinstance(a.ty, T.Seq) and isinstance(b.ty, T.Seq)):
            raise Unsupported(f"zip of {a.ty}, {b.ty}")
        pt = T.Pair(a.ty.e, b.ty.e)
        at = fresh("zip", z3.ArraySort(T.I, pt.sort()))
        j = fresh("j", T.I)
        self._assume(p, z3.ForAll([j], at[j] == pt.mk(a.at[j], b.at[j]), patterns=[at[j], a.at[j], b.at[j]]))
        return T.sv_seq(pt, z3.If(a.len <= b.len, a.len, b.len), at)

    def bi_sorted(self, e, p):
        if len(e.args) != 1 or e.keywords:
            raise Unsupported("sorted with key/reverse")
        v = self.ev(e.args[0], p)
        if v.ty == T.TUP:
            return T.scalar(T.TUP, TH.canon(v.t))
        if isinstance(v.ty, T.Bag) and isinstance(v.ty.e, T.Pair) and v.ty.e.a == T.INT and self.cur is not None and "sorted_records" in self.cur.options:
            # sorted(list of (time, x) records), the list being duplicate-free (obligation): a positional list of the same records, every one
            # once, with non-decreasing times (pairs compare by their first component first); positions among equal times are not modelled
            x = fresh("x", v.ty.e.sort())
            self.oblige("sorted:records", "the sorted list has no repeated record", p, z3.ForAll([x], v.t[x] <= 1, patterns=[v.t[x]]))
            st = T.Set(v.ty.e)
            s_ = self.as_set(v, p)
            seq = self.uniq_seq(st, s_.t, p)
            self._assume(p, seq.len == v.ty.blen()(v.t))
            a, b = fresh("a", T.I), fresh("b", T.I)
            self._assume(p, z3.ForAll([a, b], z3.Implies(z3.And(0 <= a, a < b, b < seq.len), v.ty.e.fst(seq.at[a]) <= v.ty.e.fst(seq.at[b])),
                                      patterns=[z3.MultiPattern(seq.at[a], seq.at[b])]))
            return seq
        if isinstance(v.ty, T.Bag) or v.ty == T.EMPTYLIST:
            return v      # order is not modelled for bags
        if isinstance(v.ty, (T.Set, T.Map)):
            if self.cur is not None and "sorted_positional" in self.cur.options:
                return self.sorted_seq(v, p)
            return self.as_listing(v, p)
        raise Unsupported(f"sorted of {v.ty}")

    def sorted_seq(self, v, p):
        """sorted(S) for a set / the keys of a dict, as a positional list: a function of the set alone (the order itself is not modelled:
        SORTED_K(S) is uninterpreted), listing every member exactly once.  Assumes the elements are mutually comparable."""
        st = T.Set(v.ty.k) if isinstance(v.ty, T.Map) else v.ty
        s = v.dom if isinstance(v.ty, T.Map) else v.t
        idx = TH.sorted_idx_fn(st.e)
        return self.uniq_seq(st, s, p, at=TH.sorted_fn(st.e)(s), idx=lambda x: idx(s, x))

    def bi_max(self, e, p):
        return self._extremum(e, p, True)

    def bi_min(self, e, p):
        return self._extremum(e, p, False)

    def _extremum(self, e, p, is_max):
        if len(e.args) == 1 and len(e.keywords) == 1 and e.keywords[0].arg == "key" and isinstance(e.keywords[0].value, ast.Name) \
                and e.keywords[0].value.id == "len":
            # max(collection_of_collections, key=len): some element of maximal length
            v = self.ev(e.args[0], p)
            if isinstance(v.ty, T.Bag) and isinstance(v.ty.e, (T.Set, T.Bag)):
                self._raise_if(p, v.ty.blen()(v.t) == 0, "ValueError", f"line {e.lineno}")
                size = v.ty.e.card() if isinstance(v.ty.e, T.Set) else v.ty.e.blen()
                r = fresh("ext", v.ty.e.sort())
                x = fresh("x", v.ty.e.sort())
                self._assume(p, v.t[r] >= 1)
                self._assume(p, z3.ForAll([x], z3.Implies(v.t[x] >= 1, size(x) <= size(r) if is_max else size(x) >= size(r)), patterns=[v.t[x]]))
                return T.scalar(v.ty.e, r)
            raise Unsupported(f"max/min(.., key=len) of {v.ty}")
        if len(e.args) == 1 and isinstance(e.args[0], ast.GeneratorExp) and not e.keywords:
            g = e.args[0]     # max(<generator>) is max([<the same comprehension>])
            v = self.ev_ListComp(ast.copy_location(ast.ListComp(elt=g.elt, generators=g.generators), g), p)
        else:
            v = self._one(e, p)
        if isinstance(v.ty, T.Seq) and v.ty.e == T.INT:
            # max / min of a positional list of ints: the value at some position, bounding every position
            self._raise_if(p, v.len == 0, "ValueError", f"line {e.lineno}")
            r, w, j = fresh("ext", T.I), fresh("extpos", T.I), fresh("j", T.I)
            self._assume(p, z3.And(0 <= w, w < v.len, v.at[w] == r))
            self._assume(p, z3.ForAll([j], z3.Implies(z3.And(0 <= j, j < v.len), v.at[j] <= r if is_max else v.at[j] >= r), patterns=[v.at[j]]))
            return T.sv_int(r)
        if isinstance(v.ty, T.Bag) and v.ty.e == T.INT:
            self._raise_if(p, v.ty.blen()(v.t) == 0, "ValueError", f"line {e.lineno}")
            r = fresh("ext", T.I)
            x = fresh("x", T.I)
            self._assume(p, v.t[r] >= 1)
            self._assume(p, z3.ForAll([x], z3.Implies(v.t[x] >= 1, x <= r if is_max else x >= r), patterns=[v.t[x]]))
            return T.sv_int(r)
        raise Unsupported(f"max/min of {v.ty}")

    def bi_isinstance(self, e, p):
        v = self.ev(e.args[0], p)
        tn = e.args[1]
        names = [tn.id] if isinstance(tn, ast.Name) else [x.id for x in tn.elts] if isinstance(tn, ast.Tuple) else None
        if names is None:
            raise Unsupported("isinstance with a computed type")
        def one(name):
            if name == "int":
                return v.ty in (T.INT, T.BOOL)
            if name == "tuple":
                return v.ty == T.TUP or isinstance(v.ty, T.Pair)
            if name == "list":
                return isinstance(v.ty, (T.Bag, T.Seq))
            if name == "dict":
                return v.ty == T.META or isinstance(v.ty, T.Map)
            if name == "str":
                return v.ty in (T.STR, T.LAYER)
            if name in self.reg.layouts:
                return isinstance(v.ty, T.Obj) and v.ty.cls == name
            raise Unsupported(f"isinstance(.., {name})")
        if isinstance(v.ty, T.Opt):
            outer, v = v, v.val
            if "NoneType" in names:
                raise Unsupported("isinstance(.., NoneType)")
            return T.sv_bool(z3.And(z3.Not(outer.is_none), z3.BoolVal(any(one(n) for n in names))))
        return T.sv_bool(any(one(n) for n in names))

    def bi_dict(self, e, p):
        if not e.args and not e.keywords:
            return SV(T.EMPTYDICT)
        if len(e.args) == 1 and not e.keywords:
            v = self.ev(e.args[0], p)
            if v.ty == T.META or isinstance(v.ty, T.Map) or v.ty == T.EMPTYDICT:
                return v          # a copy: values have no identity in this model
            if isinstance(v.ty, T.Seq) and isinstance(v.ty.e, T.Pair) and v.ty.e.a.scalar and v.ty.e.b.scalar:
                # dict(list of (key, value) pairs): the keys are the first components; a key's value is the second component at the LAST
                # position holding that key (`last`: Skolem function of the key)
                pt = v.ty.e
                last = z3.Function(f"lastpos!{next(T._fresh)}", pt.a.sort(), T.I)
                dom = fresh("dz_dom", z3.ArraySort(pt.a.sort(), T.B))
                val = fresh("dz_val", z3.ArraySort(pt.a.sort(), pt.b.sort()))
                x, j = fresh("x", pt.a.sort()), fresh("j", T.I)
                self._assume(p, z3.ForAll([x], dom[x] == z3.And(0 <= last(x), last(x) < v.len, pt.fst(v.at[last(x)]) == x), patterns=[dom[x]]))
                self._assume(p, z3.ForAll([j], z3.Implies(z3.And(0 <= j, j < v.len), z3.And(dom[pt.fst(v.at[j])], last(pt.fst(v.at[j])) >= j)), patterns=[v.at[j]]))
                self._assume(p, z3.ForAll([x], z3.Implies(dom[x], val[x] == pt.snd(v.at[last(x)])), patterns=[val[x]]))
                return T.sv_map(pt.a, pt.b, dom, val)
        raise Unsupported("dict(...)")

    def deepcopy(self, e, p):
        v = self._one(e, p)
        # assumed contract of copy.deepcopy: equal value, no sharing (objects are values in this model)
        return v

    # ---- container methods
    def container_method(self, recv, f, e, p):
        name = f.attr
        if name == "extend" and len(e.args) == 1 and isinstance(e.args[0], ast.GeneratorExp):
            # xs.extend(<generator>): the generator is consumed at once, like the list built from it
            lc = ast.copy_location(ast.ListComp(elt=e.args[0].elt, generators=e.args[0].generators), e.args[0])
            args = [self.ev(lc, p)]
        else:
            args = [self.ev(a, p) for a in e.args]
        note = f"line {e.lineno}"
        rt = recv.ty
        if rt == T.TUP and name == "remove" and len(args) == 1 and isinstance(f.value, ast.Name):
            # list(k).remove(x) on a list of node labels: ValueError when x is absent; for a duplicate-free list what is left is the list without x
            # (for a list with repeated labels only the length is stated)
            x = self.coerce(args[0], T.INT)
            self._raise_if(p, z3.Not(TH.tmem(recv.t, x.t)), "ValueError", note)
            r = fresh("removed", T.TupS)
            self._assume(p, z3.Implies(TH.distinct_t(recv.t), r == TH.tfilter_ne(recv.t, x.t)))
            self._assume(p, TH.tlen(r) == TH.tlen(recv.t) - 1)
            self.store(f.value, T.scalar(T.TUP, r), p)
            return T.sv_none()
        if isinstance(rt, T.Bag) and name == "extend":
            o = args[0]
            if o.ty == T.EMPTYLIST:
                return T.sv_none()
            if isinstance(o.ty, T.Set) and o.ty.e == rt.e:
                o = self.coerce(o, rt)          # extend(a_set): every member once (bagof)
            if not (isinstance(o.ty, T.Bag) and o.ty.e == rt.e):
                raise Unsupported(f"extend of {rt} with {o.ty}")
            x = fresh("x", rt.e.sort())
            out = fresh("extended", rt.sort())
            self._assume(p, z3.ForAll([x], out[x] == recv.t[x] + o.t[x], patterns=[out[x]]))
            self._assume(p, rt.blen()(out) == rt.blen()(recv.t) + rt.blen()(o.t))
            self.store(f.value, T.scalar(rt, out), p)
            return T.sv_none()
        if isinstance(rt, T.Bag) and name in ("popleft", "pop") and not args:
            # which element leaves a queue / stack is not modelled (the order of a bag is not): some element that is in it
            self._raise_if(p, rt.blen()(recv.t) <= 0, "IndexError", note)
            x = fresh("popped", rt.e.sort())
            self._assume(p, recv.t[x] >= 1)
            nb = z3.Store(recv.t, x, recv.t[x] - 1)
            nv = self.named(T.scalar(rt, nb), p, "bag")
            self._assume(p, rt.blen()(nv.t) == rt.blen()(recv.t) - 1)
            self.store(f.value, nv, p)
            return T.scalar(rt.e, x)
        if rt == T.EMPTYLIST and name == "append":
            et = args[0].ty
            hint = None
            if isinstance(f.value, ast.Name) and self.cur and f.value.id in self.cur.locals:
                recv = self.coerce(recv, self.parse_ty(self.cur.locals[f.value.id].split("|")[0]))
            else:
                recv = self.coerce(recv, T.Bag(et))
            rt = recv.ty
        if rt == T.EMPTYSET and name in ("add", "update"):
            if name == "add":
                recv = self.coerce(recv, T.Set(args[0].ty))
            else:
                s = self.as_set(args[0], p)
                if s.ty == T.EMPTYSET:
                    return T.sv_none()
                recv = self.coerce(recv, s.ty)
            rt = recv.ty
        if isinstance(rt, T.Seq) and name == "append":
            x = self.coerce(args[0], rt.e)
            self.store(f.value, T.sv_seq(rt.e, recv.len + 1, z3.Store(recv.at, recv.len, x.t)), p)
            return T.sv_none()
        if isinstance(rt, T.Seq) and name == "extend" and len(args) == 1 and (isinstance(args[0].ty, T.Seq) or args[0].ty == T.EMPTYLIST):
            # positional concatenation: the old positions keep their elements, the new ones follow in the argument's order
            b = self.coerce(args[0], rt)
            if b.ty.e != rt.e:
                raise Unsupported(f"extend of {rt} by {b.ty}")
            at = fresh("ext", z3.ArraySort(T.I, rt.e.sort()))
            i, k = fresh("i", T.I), fresh("k", T.I)
            l1, l2 = recv.len, b.len
            self._assume(p, z3.ForAll([i], z3.Implies(z3.And(0 <= i, i < l1), at[i] == recv.at[i]), patterns=[at[i], recv.at[i]]))
            self._assume(p, z3.ForAll([k], z3.Implies(z3.And(0 <= k, k < l2), at[l1 + k] == b.at[k]), patterns=[b.at[k]]))
            self._assume(p, z3.ForAll([i], z3.Implies(z3.And(l1 <= i, i < l1 + l2), at[i] == b.at[i - l1]), patterns=[at[i]]))
            self.store(f.value, T.sv_seq(rt.e, l1 + l2, at), p)
            return T.sv_none()
        if isinstance(rt, T.Bag):
            if name == "append":
                x = self.coerce(args[0], rt.e)
                nb = z3.Store(recv.t, x.t, recv.t[x.t] + 1)
                nv = self.named(T.scalar(rt, nb), p, "bag")
                self._assume(p, rt.blen()(nv.t) == rt.blen()(recv.t) + 1)
                self._assume(p, recv.t[x.t] >= 0)
                self.store(f.value, nv, p)
                return T.sv_none()
            if name == "remove":
                x = self.coerce(args[0], rt.e)
                self._raise_if(p, recv.t[x.t] < 1, "ValueError", note)
                nb = z3.Store(recv.t, x.t, recv.t[x.t] - 1)
                nv = self.named(T.scalar(rt, nb), p, "bag")
                self._assume(p, rt.blen()(nv.t) == rt.blen()(recv.t) - 1)
                self.store(f.value, nv, p)
                return T.sv_none()
            if name == "count":
                x = self.coerce(args[0], rt.e)
                return T.sv_int(recv.t[x.t])
            if name == "copy":
                return recv
        if isinstance(rt, T.Set):
            if name == "add":
                x = self.coerce(args[0], rt.e)
                self.store(f.value, T.scalar(rt, z3.Store(recv.t, x.t, True)), p)
                return T.sv_none()
            if name in ("remove", "discard"):
                x = self.coerce(args[0], rt.e)
                if name == "remove":
                    self._raise_if(p, z3.Not(recv.t[x.t]), "KeyError", note)
                self.store(f.value, T.scalar(rt, z3.Store(recv.t, x.t, False)), p)
                return T.sv_none()
            if name in ("update", "union", "intersection", "difference"):
                o = self.as_set(args[0], p)
                if o.ty == T.EMPTYSET:
                    o = self.coerce(o, rt)
                op = {"update": ast.BitOr(), "union": ast.BitOr(), "intersection": ast.BitAnd(), "difference": ast.Sub()}[name]
                r = self.binop(op, recv, o, p, note)
                if name == "update":
                    self.store(f.value, r, p)
                    return T.sv_none()
                return r
            if name == "issubset":
                o = self.coerce(self.as_set(args[0], p), rt)
                x = fresh("x", rt.e.sort())
                return T.sv_bool(z3.ForAll([x], z3.Implies(recv.t[x], o.t[x]), patterns=[recv.t[x]]))
            if name == "copy":
                return recv
        if isinstance(rt, T.ObjMap):
            if name == "keys":
                return T.scalar(T.Set(rt.k), recv.dom)
            raise Unsupported(f"method {name} on {rt}")
        if isinstance(rt, T.Map):
            if name == "keys":
                return T.scalar(T.Set(rt.k), recv.dom)
            if name == "get":
                k = self.coerce(args[0], rt.k)
                hit = T.scalar(rt.v, recv.val[k.t])
                default = args[1] if len(args) > 1 else T.sv_none()
                return self.merge(recv.dom[k.t], hit, default)
            if name == "clear":
                self.store(f.value, T.sv_map(rt.k, rt.v, z3.K(rt.k.sort(), z3.BoolVal(False)), recv.val), p)
                return T.sv_none()
            if name == "copy":
                return recv
            if name == "values":
                return self.map_values_bag(recv, p)
        if rt == T.META:
            if name == "update" and len(args) == 1 and args[0].ty == T.META:
                # m.update(literal): replay the literal's msets on top of m
                def rebuild(lit):
                    if lit.eq(TH.EMPTY_META):
                        return recv.t
                    if z3.is_app(lit) and lit.decl().name() == "mset":
                        return TH.mset(rebuild(lit.arg(0)), lit.arg(1), lit.arg(2))
                    raise Unsupported("dict.update with a non-literal argument")
                self.store(f.value, T.scalar(T.META, rebuild(args[0].t)), p)
                return T.sv_none()
            if name == "clear":
                self.store(f.value, T.scalar(T.META, TH.EMPTY_META), p)
                return T.sv_none()
            if name == "copy":
                return recv
        if rt in (T.EMPTYDICT, T.EMPTYLIST, T.EMPTYSET) and name in ("clear", "copy"):
            return T.sv_none() if name == "clear" else recv
        raise Unsupported(f"method {name} on {rt} at {note}")

    def map_values_bag(self, m, p):
        """list(d.values()) as a bag: image of the key set under the value function."""
        bt = T.Bag(m.ty.v)
        b = fresh("valuesbag", bt.sort())
        k = fresh("k", m.ty.k.sort())
        v = fresh("v", m.ty.v.sort())
        pre = z3.Function(f"preimg!{next(T._fresh)}", m.ty.v.sort(), m.ty.k.sort())
        self._assume(p, z3.ForAll([k], z3.Implies(m.dom[k], b[m.val[k]] >= 1), patterns=[m.val[k], m.dom[k]]))
        self._assume(p, z3.ForAll([v], z3.Implies(b[v] >= 1, z3.And(m.dom[pre(v)], m.val[pre(v)] == v)), patterns=[b[v]]))
        self._assume(p, z3.ForAll([v], b[v] >= 0, patterns=[b[v]]))
        self._assume(p, bt.blen()(b) == T.Set(m.ty.k).card()(m.dom))
        return T.scalar(bt, b)

    # ------------------------------------------------------------------ comprehensions
    def _comp_parts(self, e):
        if len(e.generators) != 1 or e.generators[0].is_async:
            raise Unsupported("comprehension with several generators")
        g = e.generators[0]
        return g.target, g.iter, g.ifs

    def ev_ListComp(self, e, p):
        target, it, ifs = self._comp_parts(e)
        src = self.ev(it, p)
        if src.ty == T.EMPTYLIST:
            return SV(T.EMPTYLIST)
        if src.ty == T.TUP:
            # [n for n in edge if n != x]  -> tfilter_ne ; [n for n in edge] -> edge
            if isinstance(e.elt, ast.Name) and isinstance(target, ast.Name) and e.elt.id == target.id:
                if not ifs:
                    return src
                if len(ifs) == 1 and isinstance(ifs[0], ast.Compare) and len(ifs[0].ops) == 1 \
                        and isinstance(ifs[0].ops[0], ast.NotEq) and isinstance(ifs[0].left, ast.Name) and ifs[0].left.id == target.id:
                    x = self.coerce(self.ev(ifs[0].comparators[0], p), T.INT)
                    return T.scalar(T.TUP, TH.tfilter_ne(src.t, x.t))
            raise Unsupported("list comprehension over a node tuple of this shape")
        src = self.as_listing(src, p) if isinstance(src.ty, (T.Map, T.Set)) else src
        if isinstance(src.ty, T.Bag) and src.ty.e.scalar and self.cur is not None and "listing_bags" in self.cur.options and not self.spec_mode:
            # the list handed out by a call, used positionally: a duplicate-free list (obligation) is a positional listing of its elements,
            # every one once, in an order that is not modelled. It is kept as the pseudo-local `_listed<k>` for the postcondition.
            x = fresh("x", src.ty.e.sort())
            self.oblige("listing:bag", "the list that is enumerated positionally has no repeated element", p, z3.ForAll([x], src.t[x] <= 1, patterns=[src.t[x]]))
            st = T.Set(src.ty.e)
            sup = fresh("listed_set", st.sort())
            self._assume(p, z3.ForAll([x], sup[x] == (src.t[x] >= 1), patterns=[sup[x], src.t[x]]))
            seq = self.uniq_seq(st, sup, p)
            self._assume(p, seq.len == src.ty.blen()(src.t))
            k = sum(1 for n in p.env if n.startswith("_listed"))
            p.env[f"_listed{k}"] = seq
            src = seq
        if isinstance(src.ty, T.Seq):
            return self.seq_comp(src, target, e.elt, ifs, p, e.lineno)
        if not isinstance(src.ty, T.Bag):
            raise Unsupported(f"comprehension over {src.ty}")
        return self.bag_image(src, target, e.elt, ifs, p, e.lineno)

    def seq_comp(self, src, target, elt, ifs, p, lineno):
        """Comprehension over a positional list: [x for x in L if c(x)] for a duplicate-free L with known member set (the result lists the
        selected members once each, order not modelled), and [f(x) for x in L] (same length, element-wise)."""
        et = src.ty.e
        identity = isinstance(elt, ast.Name) and isinstance(target, ast.Name) and elt.id == target.id
        uset = getattr(src, "uset", None)
        member = (lambda xx: uset[xx]) if uset is not None else (lambda xx: z3.BoolVal(True))
        x, vals, conds, defs = self._bound_eval(target, et, list(ifs) + [elt], p, lineno, member)
        cond_terms = [self.truth(v, p) for v in vals[:-1]]
        fx = vals[-1]
        c = z3.And(cond_terms) if cond_terms else z3.BoolVal(True)
        if uset is None:
            # without the member set the per-element facts are only usable position-wise
            j = fresh("j", T.I)
            inr = z3.And(0 <= j, j < src.len)
            sub = lambda term: z3.substitute(term, (x, src.at[j]))      # noqa: E731
            if ifs or conds:
                raise Unsupported("filtered or partial comprehension over a positional list without a known member set")
            for d in defs:
                self._assume(p, z3.ForAll([j], z3.Implies(inr, sub(d)), patterns=[src.at[j]]) if any(v.eq(x) for v in z3.z3util.get_vars(d)) else d)
        else:
            self._close_defs(p, x, defs, uset[x])
            if conds:
                unsafe = z3.Or([cc for cc, _ in conds])
                self._raise_if(p, z3.Exists([x], z3.And(uset[x], unsafe)), conds[0][1], f"comprehension at line {lineno}")
                self._assume(p, z3.ForAll([x], z3.Implies(uset[x], z3.Not(unsafe)), patterns=[uset[x]]))
        if identity:
            if not ifs:
                return src
            if uset is None:
                raise Unsupported("filter over a positional list without a known member set")
            st = T.Set(et)
            sel = fresh("selected", st.sort())
            self._assume(p, z3.ForAll([x], sel[x] == z3.And(uset[x], c), patterns=[sel[x], uset[x]]))
            self._assume(p, st.card()(sel) <= st.card()(uset))
            return self.uniq_seq(st, sel, p)
        if ifs:
            raise Unsupported("filtered image comprehension over a positional list")
        if not fx.ty.scalar:
            raise Unsupported("comprehension element of composite type")
        at = fresh("mapped", z3.ArraySort(T.I, fx.ty.sort()))
        j = fresh("j", T.I)
        self._assume(p, z3.ForAll([j], z3.Implies(z3.And(0 <= j, j < src.len), at[j] == z3.substitute(fx.t, (x, src.at[j]))), patterns=[at[j], src.at[j]]))
        return T.sv_seq(fx.ty, src.len, at)

    def _bound_eval(self, target, src_elem_ty, exprs, p, lineno, member):
        """Evaluate expressions with the comprehension variable bound to a fresh constant x (member(x) assumed).
        Returns x, values, raise-conditions, local facts. Values created for one element (results of contracted
        calls, auxiliary sets) are Skolemised into functions of x so that the facts can be closed over x."""
        if not isinstance(target, ast.Name):
            raise Unsupported("comprehension target")
        x = fresh("c_" + target.id, src_elem_ty.sort())
        saved = p.env.get(target.id)
        scratch = p.fork()
        scratch.env[target.id] = T.scalar(src_elem_ty, x)
        n0 = len(scratch.hyps)
        scratch.assume(member(x))
        old_pending, self.pending = self.pending, []
        old_guards, self.guards = self.guards, []
        old_rec, T._record = T._record, []
        conds = []
        orig = self._raise_if

        def collect(pp, cond, exc, note, _c=conds):
            g = self._guard()
            _c.append((cond if g is None else z3.And(g, cond), exc))
        self._raise_if = collect
        try:
            vals = [self.ev(ex, scratch) for ex in exprs]
            if self.pending:
                raise Unsupported(f"a contracted call inside the comprehension at line {lineno} may raise")
            created = T._record
        finally:
            self._raise_if = orig
            self.pending, self.guards, T._record = old_pending, old_guards, old_rec
        if old_rec is not None:
            old_rec.extend(created)
        defs = scratch.hyps[n0 + 1:]
        # Skolemise element-local constants
        subs = []
        for c in created:
            if c.eq(x):
                continue
            fn = z3.Function(f"sk_{c.decl().name()}", src_elem_ty.sort(), c.sort())
            subs.append((c, fn(x)))
        if subs:
            defs = [z3.substitute(d, *subs) for d in defs]
            conds = [(z3.substitute(c, *subs), e) for c, e in conds]
            def subv(v):
                if v.ty.scalar and v.ty.sort() is not None:
                    return T.scalar(v.ty, z3.substitute(v.t, *subs))
                if isinstance(v.ty, T.Opt):
                    return T.sv_opt(v.ty.t, z3.substitute(v.is_none, *subs), subv(v.val))
                return v
            vals = [subv(v) for v in vals]
        return x, vals, conds, defs

    def bag_image(self, src, target, elt, ifs, p, lineno):
        et = src.ty.e
        x, vals, conds, defs = self._bound_eval(target, et, list(ifs) + [elt], p, lineno, lambda xx: src.t[xx] >= 1)
        cond_terms = [self.truth(v, p) for v in vals[:-1]]
        fx = vals[-1]
        if not fx.ty.scalar:
            raise Unsupported("comprehension element of composite type")
        c = z3.And(cond_terms) if cond_terms else z3.BoolVal(True)
        inb = src.t[x] >= 1
        self._close_defs(p, x, defs, inb)
        # implicit exceptions: fork  (exists x in src raising)  vs  (forall x in src: safe)
        if conds:
            unsafe = z3.Or([cc for cc, _ in conds])
            exc = conds[0][1]
            self._raise_if(p, z3.Exists([x], z3.And(inb, unsafe)), exc, f"comprehension at line {lineno}")
            self._assume(p, z3.ForAll([x], z3.Implies(inb, z3.Not(unsafe)), patterns=[src.t[x]]))
        rt = T.Bag(fx.ty)
        r = fresh("comp", rt.sort())
        y = fresh("y", fx.ty.sort())
        identity = z3.is_const(fx.t) and fx.t.eq(x)
        if identity:
            self._assume(p, z3.ForAll([x], r[x] == z3.If(c, src.t[x], 0), patterns=[r[x]]))
        else:
            # (b) Skolem pre-image, (c) non-negativity; (a) exact multiplicities only under injectivity, which is
            # emitted as an obligation by the caller contract if it needs it (see comp_injective)
            pre = z3.Function(f"pre!{next(T._fresh)}", fx.ty.sort(), et.sort())
            sub = lambda term, new: z3.substitute(term, (x, new))
            self._assume(p, z3.ForAll([y], z3.Implies(r[y] >= 1, z3.And(src.t[pre(y)] >= 1, sub(c, pre(y)), sub(fx.t, pre(y)) == y)),
                                     patterns=[r[y]]))
            self._assume(p, z3.ForAll([x], z3.Implies(z3.And(inb, c), r[fx.t] >= src.t[x]), patterns=[src.t[x]]))
            self._assume(p, z3.ForAll([y], r[y] >= 0, patterns=[r[y]]))
            # exact counts when f is injective on the filtered support: stated as a conditional fact with a
            # Skolemised injectivity hypothesis  inj := forall x1 x2 in support. f x1 = f x2 -> x1 = x2
            x2 = fresh("c2", et.sort())
            inj = z3.ForAll([x, x2], z3.Implies(z3.And(src.t[x] >= 1, c, src.t[x2] >= 1, sub(c, x2), fx.t == sub(fx.t, x2)), x == x2))
            self._assume(p, z3.Implies(inj, z3.ForAll([x], z3.Implies(z3.And(inb, c), r[fx.t] == src.t[x]), patterns=[src.t[x]])))
            self.last_comp_inj = inj
            if self.cur is not None and "image_counts" in self.cur.options:
                # a value occurs in the image of a duplicate-free list as often as it has pre-images: r[y] = |{x in src : c(x), f(x) = y}|
                # (for a list with repeated elements the multiplicities would have to be summed; nothing is stated then)
                st = T.Set(et)
                ps = z3.Function(f"preset!{next(T._fresh)}", fx.ty.sort(), st.sort())
                self._assume(p, z3.ForAll([y, x], ps(y)[x] == z3.And(inb, c, fx.t == y), patterns=[ps(y)[x]]))
                once = z3.ForAll([x], src.t[x] <= 1, patterns=[src.t[x]])
                self._assume(p, z3.Implies(once, z3.ForAll([y], r[y] == st.card()(ps(y)), patterns=[r[y]])))
        if not cond_terms:
            self._assume(p, rt.blen()(r) == src.ty.blen()(src.t))
        else:
            self._assume(p, z3.And(rt.blen()(r) <= src.ty.blen()(src.t), rt.blen()(r) >= 0))
        return T.scalar(rt, r)

    def _close_defs(self, p, x, defs, guard):
        """Facts produced while evaluating a comprehension element hold for every member of the source."""
        for d in defs:
            if any(v.eq(x) for v in z3.z3util.get_vars(d)):
                self._assume(p, z3.ForAll([x], z3.Implies(guard, d)))
            else:
                self._assume(p, d)

    def ev_DictComp(self, e, p):
        target, it, ifs = self._comp_parts(e)
        if isinstance(target, ast.Tuple) and len(target.elts) == 2 and isinstance(it, ast.Call) and isinstance(it.func, ast.Attribute) and it.func.attr == "items" \
                and not it.args and isinstance(it.func.value, ast.Attribute) and isinstance(it.func.value.value, ast.Name):
            # ... for k, v in self._table.items(): the table is read once, under a temporary name
            tbl = self.ev(it.func.value, p)
            if isinstance(tbl.ty, T.Map):
                import copy as _copy
                tmp = f"__items{e.lineno}_{e.col_offset}"
                e2 = _copy.deepcopy(e)
                e2.generators[0].iter.func.value = ast.copy_location(ast.Name(id=tmp, ctx=ast.Load()), it.func.value)
                p.env[tmp] = tbl
                try:
                    return self.ev_DictComp(ast.fix_missing_locations(e2), p)
                finally:
                    p.env.pop(tmp, None)
        if isinstance(target, ast.Tuple) and len(target.elts) == 2 and all(isinstance(t, ast.Name) for t in target.elts) \
                and isinstance(it, ast.Call) and isinstance(it.func, ast.Attribute) and it.func.attr == "items" and not it.args \
                and isinstance(it.func.value, ast.Name) and isinstance(p.env.get(it.func.value.id, SV(T.NONE)).ty, T.Map):
            # {f(k, v): g(k, v) for k, v in d.items()}  is  {f(k, d[k]): g(k, d[k]) for k in d}
            kname, vname, dname = target.elts[0].id, target.elts[1].id, it.func.value.id

            class _R(ast.NodeTransformer):
                def visit_Name(self, n):
                    if n.id == vname and isinstance(n.ctx, ast.Load):
                        return ast.copy_location(ast.Subscript(value=ast.copy_location(ast.Name(id=dname, ctx=ast.Load()), n),
                                                               slice=ast.copy_location(ast.Name(id=kname, ctx=ast.Load()), n), ctx=ast.Load()), n)
                    return n
            import copy as _copy
            e2 = _copy.deepcopy(e)
            e2.generators[0].target = ast.copy_location(ast.Name(id=kname, ctx=ast.Store()), target)
            e2.generators[0].iter = ast.copy_location(ast.Name(id=dname, ctx=ast.Load()), it)
            e2.key, e2.value = _R().visit(e2.key), _R().visit(e2.value)
            e2.generators[0].ifs = [_R().visit(c) for c in e2.generators[0].ifs]
            return self.ev_DictComp(ast.fix_missing_locations(e2), p)
        src = self.ev(it, p)
        if isinstance(src.ty, (T.Map, T.Set)):
            src = self.as_listing(src, p)
        if src.ty == T.EMPTYLIST:
            return SV(T.EMPTYDICT)
        if not isinstance(src.ty, T.Bag):
            raise Unsupported(f"dict comprehension over {src.ty}")
        if not (isinstance(e.key, ast.Name) and isinstance(target, ast.Name) and e.key.id == target.id):
            return self._dictcomp_keyed(e, target, ifs, src, p)
        et = src.ty.e
        x, vals, conds, defs = self._bound_eval(target, et, list(ifs) + [e.value], p, e.lineno, lambda xx: src.t[xx] >= 1)
        cond_terms = [self.truth(v, p) for v in vals[:-1]]
        fx = vals[-1]
        if fx.ty == T.EMPTYSET:
            # {k: set() for k in ...}: a table of empty sets; the element type of the sets is taken to be the key type (a node -> nodes table)
            fx = T.scalar(T.Set(et), z3.K(et.sort(), z3.BoolVal(False)))
        c = z3.And(cond_terms) if cond_terms else z3.BoolVal(True)
        inb = src.t[x] >= 1
        self._close_defs(p, x, defs, inb)
        if conds:
            unsafe = z3.Or([cc for cc, _ in conds])
            self._raise_if(p, z3.Exists([x], z3.And(inb, c, unsafe)), conds[0][1], f"comprehension at line {e.lineno}")
            self._assume(p, z3.ForAll([x], z3.Implies(z3.And(inb, c), z3.Not(unsafe)), patterns=[src.t[x]]))
        mt = T.Map(et, fx.ty)
        dom = fresh("dc_dom", z3.ArraySort(et.sort(), T.B))
        val = fresh("dc_val", z3.ArraySort(et.sort(), fx.ty.sort()))
        self._assume(p, z3.ForAll([x], dom[x] == z3.And(inb, c), patterns=[dom[x], src.t[x]]))
        self._assume(p, z3.ForAll([x], z3.Implies(z3.And(inb, c), val[x] == fx.t), patterns=[val[x]]))
        return T.sv_map(et, fx.ty, dom, val)

    def _dictcomp_keyed(self, e, target, ifs, src, p):
        """{f(x): g(x) for x in src if c(x)}.  Python keeps the last value written under a key; the encoding states val[f(x)] == g(x) for
        every selected x, which is only meaningful when f is injective on the selected elements: that is generated as an obligation."""
        et = src.ty.e
        x, vals, conds, defs = self._bound_eval(target, et, list(ifs) + [e.key, e.value], p, e.lineno, lambda xx: src.t[xx] >= 1)
        cond_terms = [self.truth(v, p) for v in vals[:-2]]
        kx, fx = vals[-2], vals[-1]
        if not (kx.ty.scalar and kx.ty.sort() is not None and fx.ty.scalar and fx.ty.sort() is not None):
            raise Unsupported("dict comprehension with composite keys or values")
        c = z3.And(cond_terms) if cond_terms else z3.BoolVal(True)
        inb = src.t[x] >= 1
        self._close_defs(p, x, defs, inb)
        if conds:
            unsafe = z3.Or([cc for cc, _ in conds])
            self._raise_if(p, z3.Exists([x], z3.And(inb, c, unsafe)), conds[0][1], f"comprehension at line {e.lineno}")
            self._assume(p, z3.ForAll([x], z3.Implies(z3.And(inb, c), z3.Not(unsafe)), patterns=[src.t[x]]))
        x2 = fresh("c2_" + target.id, et.sort())
        sel2 = z3.substitute(z3.And(inb, c), (x, x2))
        k2 = z3.substitute(kx.t, (x, x2))
        self.oblige(f"dictcomp@{e.lineno}", "keys are distinct for distinct elements", p,
                    z3.ForAll([x, x2], z3.Implies(z3.And(inb, c, sel2, kx.t == k2), x == x2), patterns=[z3.MultiPattern(src.t[x], src.t[x2])]))
        dom = fresh("dk_dom", z3.ArraySort(kx.ty.sort(), T.B))
        val = fresh("dk_val", z3.ArraySort(kx.ty.sort(), fx.ty.sort()))
        y = fresh("y", kx.ty.sort())
        pre = z3.Function(f"dkpre!{next(T._fresh)}", kx.ty.sort(), et.sort())
        self._assume(p, z3.ForAll([x], z3.Implies(z3.And(inb, c), z3.And(dom[kx.t], val[kx.t] == fx.t)), patterns=[src.t[x]]))
        self._assume(p, z3.ForAll([y], z3.Implies(dom[y], z3.And(src.t[pre(y)] >= 1, z3.substitute(c, (x, pre(y))), z3.substitute(kx.t, (x, pre(y))) == y)),
                                  patterns=[dom[y]]))
        return T.sv_map(kx.ty, fx.ty, dom, val)

    def ev_SetComp(self, e, p):
        if not self.spec_mode:
            raise Unsupported("set comprehension in code")
        # specification only: {x for x in DOM if cond}  (the element must be the bound variable)
        target, it, ifs = self._comp_parts(e)
        if not (isinstance(e.elt, ast.Name) and isinstance(target, ast.Name) and e.elt.id == target.id):
            raise Unsupported("set comprehension whose element is not the bound variable")
        from .engine import UNIVERSES
        universe = isinstance(it, ast.Name) and (it.id in UNIVERSES or it.id == "Key") and it.id not in p.env
        if universe:
            dom = None
            ety = UNIVERSES.get(it.id) or self.key_type(p)
        else:
            dom = self.ev(it, p)
            ety = dom.ty.k if isinstance(dom.ty, T.Map) else T.INT if dom.ty == T.TUP else dom.ty.e
        x = fresh("sc_" + target.id, ety.sort())
        xv = T.scalar(ety, x)
        saved = dict(p.env)
        p.env[target.id] = xv
        p.env["__bv_" + target.id] = xv
        try:
            conds = ([] if universe else [self.member(xv, dom, p)]) + [self.truth(self.ev(c, p), p) for c in ifs]
        finally:
            p.env.clear()
            p.env.update(saved)
        st = T.Set(ety)
        bvs = list(self.bound_vars)
        # two comprehensions with the same defining formula (over the same state) are the same term: the symbol is looked up by the formula with
        # the bound variables renamed canonically, so that e.g. a callee's postcondition and the caller's own speak about one set and no
        # extensionality argument is needed to identify them (the definition is re-assumed on the path at hand: harmless when already there)
        canon = [z3.Const(f"__sc{i}", v.sort()) for i, v in enumerate(bvs + [x])]
        body = z3.And(conds)
        key = (st.name, tuple(v.sort().name() for v in bvs), z3.substitute(body, *zip(bvs + [x], canon)).sexpr())
        cache = self.__dict__.setdefault("_setcomp_cache", {})
        if bvs:
            # inside a quantifier the set depends on the bound variables: Skolem function of them
            fn = cache.get(key)
            if fn is None:
                fn = cache[key] = z3.Function(f"setcomp!{next(T._fresh)}", *[v.sort() for v in bvs], st.sort())
            s = fn(*bvs)
            p.assume(z3.ForAll(bvs + [x], s[x] == body, patterns=[s[x]]))
        else:
            s = cache.get(key)
            if s is None:
                s = cache[key] = fresh("setcomp", st.sort())
            self._assume(p, z3.ForAll([x], s[x] == body, patterns=[s[x]]))
        return T.scalar(st, s)

    def ev_GeneratorExp(self, e, p):
        raise Unsupported("generator expression in code")

    def ev_Lambda(self, e, p):
        raise Unsupported("lambda")

    def ev_JoinedStr(self, e, p):
        return T.scalar(T.STR, fresh("fstr", T.StrS))
