"""Types and symbolic values of the PyV subset (DESIGN.md §3.3).

A Python value is modelled by a *type descriptor* (instances of Ty) plus one or more z3 terms.
Scalar types (one z3 term): INT BOOL REAL TUP META LAYER STR FIELD, Pair(A,B), Bag(E), Set(E).
Composite types (several terms, cannot be stored inside arrays): Map(K,V), Opt(T), Seq(E), Obj(cls).
"""
import itertools
import z3

I, B, R = z3.IntSort(), z3.BoolSort(), z3.RealSort()
TupS = z3.DeclareSort("Tup")        # finite sequence of node labels (a hyperedge as listed / stored)
MetaS = z3.DeclareSort("Meta")      # a metadata dict (opaque; see theory for get/set/del)
LayerS = z3.DeclareSort("Layer")    # layer name
StrS = z3.DeclareSort("Str")        # any other string constant (only equality)
FieldS = z3.DeclareSort("Field")    # metadata attribute name
ValS = z3.DeclareSort("Val")        # metadata attribute value

_fresh = itertools.count()


_record = None   # when a list, every fresh constant is appended (used to Skolemise comprehension-local values)


def fresh(name, sort):
    c = z3.Const(f"{name}!{next(_fresh)}", sort)
    if _record is not None:
        _record.append(c)
    return c


def type_facts(v):
    """Facts every value of this type satisfies."""
    if isinstance(v.ty, Seq):
        return [v.len >= 0]
    if isinstance(v.ty, Bag):
        x = fresh("tf", v.ty.e.sort())
        return [z3.ForAll([x], v.t[x] >= 0, patterns=[v.t[x]])]
    if isinstance(v.ty, Opt):
        return type_facts(v.val)
    if isinstance(v.ty, Obj):
        return [f for x in v.fields.values() for f in type_facts(x)]
    return []


class Ty:
    scalar = True

    def __init__(self, name, sort=None):
        self.name, self._sort = name, sort

    def sort(self):
        return self._sort

    def __repr__(self):
        return self.name

    def __eq__(self, o):
        return isinstance(o, Ty) and self.name == o.name

    def __hash__(self):
        return hash(self.name)


INT, BOOL, REAL = Ty("Int", I), Ty("Bool", B), Ty("Real", R)
TUP, META, LAYER, STR = Ty("Tup", TupS), Ty("Meta", MetaS), Ty("Layer", LayerS), Ty("Str", StrS)
FIELD, VAL = Ty("Field", FieldS), Ty("Val", ValS)
# integer extended by +inf / -inf (`math.inf` used as the neutral element of a running minimum / maximum)
_X = z3.Datatype("XInt")
_X.declare("fin", ("xval", I))
_X.declare("pinf")
_X.declare("ninf")
XIntS = _X.create()
XINT = Ty("XInt", XIntS)
# vertex names of the bipartite projection: "N" + str(i) / "E" + str(i) (ASSUMED facts about Python strings: str(i) is injective, consists of
# digits and '-' only, so the two families are disjoint and only the E-names contain the letter E), and the objects they stand for
_VN = z3.Datatype("VName")
_VN.declare("vN", ("vn_idx", I))
_VN.declare("vE", ("ve_idx", I))
VNameS = _VN.create()
VNAME = Ty("VName", VNameS)
_VO = z3.Datatype("VObj")
_VO.declare("oNode", ("o_node", I))
_VO.declare("oEdge", ("o_edge", TupS))
VObjS = _VO.create()
VOBJ = Ty("VObj", VObjS)
STRINT = Ty("StrOfInt", I)          # str(i) for an integer i (only as the right operand of "N" + ... / "E" + ...)
NONE = Ty("None", None)
OPAQUE = Ty("Opaque", None)       # result of a call the contract declares opaque (numerics outside the subset): only passed on or compared
BOUND = Ty("BoundMethod", None)   # `f = obj.method` (a local alias of a method of a local container or object); SV carries .obj (name) and .attr
EMPTYLIST = Ty("EmptyList", None)   # `[]` whose element type is fixed at first use
EMPTYDICT = Ty("EmptyDict", None)   # `{}` (a Meta when stored in a metadata table, else an empty Map)
EMPTYSET = Ty("EmptySet", None)

_pairs = {}


class Pair(Ty):
    """Python 2-tuple with heterogeneous components, e.g. (time, edge), (edge, layer), (src, tgt)."""

    def __init__(self, a, b):
        self.a, self.b = a, b
        self.name = f"Pair[{a.name},{b.name}]"
        if self.name not in _pairs:
            d = z3.Datatype(f"P_{a.name}_{b.name}".replace("[", "_").replace("]", "_").replace(",", "_"))
            d.declare("mk", ("fst", a.sort()), ("snd", b.sort()))
            _pairs[self.name] = d.create()
        self._sort = _pairs[self.name]

    def mk(self, x, y):
        return self._sort.mk(x, y)

    def fst(self, p):
        return self._sort.fst(p)

    def snd(self, p):
        return self._sort.snd(p)


ELEM_TYPES = {}   # element types for which Bag/Set were built (collection axioms are generated per element sort)


def _sname(e):
    return e.name.replace("[", "_").replace("]", "_").replace(",", "_")


class Bag(Ty):
    """A list whose order is not modelled: element -> multiplicity."""

    def __init__(self, e):
        self.e = e
        ELEM_TYPES.setdefault(e.name, e)
        self.name = f"Bag[{e.name}]"
        self._sort = z3.ArraySort(e.sort(), I)

    def blen(self):
        return z3.Function(f"blen_{self.e.name}".replace("[", "_").replace("]", "_").replace(",", "_"), self._sort, I)


class Set(Ty):
    def __init__(self, e):
        self.e = e
        ELEM_TYPES.setdefault(e.name, e)
        self.name = f"Set[{e.name}]"
        self._sort = z3.ArraySort(e.sort(), B)

    def card(self):
        return z3.Function(f"card_{self.e.name}".replace("[", "_").replace("]", "_").replace(",", "_"), self._sort, I)


class Map(Ty):
    scalar = False

    def __init__(self, k, v):
        assert v.scalar, v
        self.k, self.v = k, v
        self.name = f"Map[{k.name},{v.name}]"


class ObjMap(Ty):
    """dict whose values are objects of one class: every field of the class layout lifted to an array indexed by the key."""
    scalar = False

    def __init__(self, k, cls):
        self.k, self.cls = k, cls
        self.name = f"Map[{k.name},Obj[{cls}]]"


class Opt(Ty):
    scalar = False

    def __init__(self, t):
        self.t = t
        self.name = f"Opt[{t.name}]"


class Seq(Ty):
    """A list / tuple used positionally: (len, index -> element)."""
    scalar = False

    def __init__(self, e):
        assert e.scalar
        self.e = e
        self.name = f"Seq[{e.name}]"


class Obj(Ty):
    scalar = False

    def __init__(self, cls):
        self.cls = cls
        self.name = f"Obj[{cls}]"


class Multi(Ty):
    """Python tuple with components of any (also composite) types, e.g. `return g, id_to_edge`: held component-wise (SV.items)."""
    scalar = False

    def __init__(self, *ts):
        self.ts = list(ts)
        self.name = "Multi[" + ",".join(t.name for t in ts) + "]"


def sv_multi(items):
    return SV(Multi(*[x.ty for x in items]), items=list(items))


def parse_ty(s, aliases=None):
    """'Int', 'Opt[Real]', 'Map[Tup,Int]', 'Pair[Int,Tup]', 'Obj[Hypergraph]', plus aliases such as 'Key'."""
    s = s.strip()
    aliases = aliases or {}
    if s in aliases:
        return parse_ty(aliases[s], aliases) if isinstance(aliases[s], str) else aliases[s]
    base = {"Int": INT, "Node": INT, "Bool": BOOL, "Real": REAL, "Tup": TUP, "NodeSeq": TUP, "Meta": META,
            "Layer": LAYER, "Str": STR, "Field": FIELD, "Val": VAL, "None": NONE, "XInt": XINT, "VName": VNAME, "VObj": VOBJ}
    if s in base:
        return base[s]
    head, rest = s.split("[", 1)
    assert rest.endswith("]"), s
    rest = rest[:-1]
    parts, depth, cur = [], 0, ""
    for ch in rest:
        if ch == "[":
            depth += 1
        if ch == "]":
            depth -= 1
        if ch == "," and depth == 0:
            parts.append(cur)
            cur = ""
        else:
            cur += ch
    parts.append(cur)
    args = [parse_ty(p, aliases) if head != "Obj" else p.strip() for p in parts]
    if head == "Multi":
        return Multi(*args)
    if head == "Map" and isinstance(args[1], Obj):
        return ObjMap(args[0], args[1].cls)
    return {"Opt": Opt, "Map": Map, "Bag": Bag, "Set": Set, "Seq": Seq, "Pair": Pair, "Obj": Obj}[head](*args)


class SV:
    """Symbolic value. Scalars: .t ; Map: .dom .val ; Opt: .is_none .val(SV) ; Seq: .len .at ; Obj: .fields"""

    def __init__(self, ty, **kw):
        self.ty = ty
        self.__dict__.update(kw)

    def __repr__(self):
        return f"SV<{self.ty}>"


def scalar(ty, t):
    return SV(ty, t=t)


def sv_int(t):
    return SV(INT, t=t if z3.is_expr(t) else z3.IntVal(t))


def sv_bool(t):
    return SV(BOOL, t=t if z3.is_expr(t) else z3.BoolVal(t))


def sv_real(t):
    return SV(REAL, t=t)


def sv_none():
    return SV(NONE)


def sv_map(k, v, dom, val):
    return SV(Map(k, v), dom=dom, val=val)


def sv_opt(t, is_none, val):
    return SV(Opt(t), is_none=is_none, val=val)


def sv_seq(e, ln, at):
    return SV(Seq(e), len=ln, at=at)


def sv_obj(cls, fields):
    return SV(Obj(cls), fields=fields)


def fresh_value(ty, hint):
    """A fresh unconstrained symbolic value of type ty."""
    if isinstance(ty, Map):
        return sv_map(ty.k, ty.v, fresh(hint + "_dom", z3.ArraySort(ty.k.sort(), B)),
                      fresh(hint + "_val", z3.ArraySort(ty.k.sort(), ty.v.sort())))
    if isinstance(ty, Opt):
        return sv_opt(ty.t, fresh(hint + "_isnone", B), fresh_value(ty.t, hint))
    if isinstance(ty, Seq):
        return sv_seq(ty.e, fresh(hint + "_len", I), fresh(hint + "_at", z3.ArraySort(I, ty.e.sort())))
    if isinstance(ty, Obj):
        raise ValueError("fresh object needs its class layout: use Layout.fresh_obj")
    if ty == NONE:
        return sv_none()
    return scalar(ty, fresh(hint, ty.sort()))


def x_lt(a, b):
    """a < b on extended integers (z3 terms of sort XInt)."""
    X = XIntS
    return z3.Or(z3.And(X.is_ninf(a), z3.Not(X.is_ninf(b))), z3.And(X.is_pinf(b), z3.Not(X.is_pinf(a))),
                 z3.And(X.is_fin(a), X.is_fin(b), X.xval(a) < X.xval(b)))


def to_real(v):
    if v.ty == REAL:
        return v.t
    if v.ty == INT:
        return z3.ToReal(v.t)
    if v.ty == BOOL:
        return z3.If(v.t, z3.RealVal(1), z3.RealVal(0))
    raise TypeError(f"not numeric: {v.ty}")
