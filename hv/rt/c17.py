"""C17 - Hypergraph-MT / spectral clustering: valid reproducible output, EM ascends.   (bounded tier)

Scope (everything is SAMPLED; nothing here is exhaustive)
-----
Hypergraphs: 13 fixed small ones (4-8 nodes; unweighted, integer- and float-weighted; isolated nodes with the smallest,
a middle and the largest label; largest hyperedge size D = 2, 3, 4, 5; hypergraphs without any hyperedge of some size
<= D, in particular without pairs; labels 0..N-1, non-contiguous integers, strings; one hypergraph with a singleton
hyperedge) plus seeded random ones (6 quick / 20 thorough: 4-8 nodes, 0-2 isolated nodes, 3-9 hyperedges of sizes
2..5, unweighted or integer weights, the three label kinds).

(MT) HypergraphMT(n_realizations, max_iter, min_value_par, verbose=False).fit(H, K, seed, normalizeU, baseline_r0) with
     K in {2,3}, seeds 0..4 (quick) / 0..19 (thorough), n_realizations in {1,3}, max_iter in {1,20,200}, normalizeU and
     baseline_r0 in {True,False}, min_value_par in {library default 1e-5, 0}; every other constructor parameter keeps its
     default.  The 48 combinations of the last five are all run for every (fixed hypergraph, K, seed) in the thorough
     tier; the quick tier and the random hypergraphs take a seeded slice of 16 resp. 12 of them per (hypergraph, K,
     seed), rotating with the seed so that the slices of one hypergraph cover all 48.
     Clauses, each taken from the statement, evaluated on what fit returns and on the public attribute train_info:
       * does not raise;
       * u is an N x K array / finite and non-negative; w is a (D-1) x K array / finite and non-negative
         (N = number of nodes, D = largest hyperedge size, both read through the public Hypergraph API);
       * the row of every isolated node (a node in no hyperedge) is exactly zero; rows follow Hypergraph.get_mapping();
       * normalizeU=True: every non-zero row sums to one (1e-9; with min_value_par > 0 a row may additionally fall short
         by at most K x min_value_par, the memberships truncated after the normalisation);
       * the returned log-likelihood equals the largest, over the realisations, of the last value recorded for the
         realisation in train_info (exact equality);
       * normalizeU=False: inside every realisation the recorded values never decrease (1e-9 relative to max(1,|value|)).
         When that fails the fit is repeated with both truncations of the memberships switched off (min_value_par=0,
         max_value_par=inf) ONLY to label the failure: the key carries "[truncation not involved]" iff that run records
         the very same values in the realisation up to and including the decrease (so no membership was ever zeroed
         below min_value_par or clamped at max_value_par before it), else "[truncation involved]"; the key also says
         whether the checked fit used min_value_par=0 or the default;
       * min_value_par=0: the returned value equals (1e-6 relative to max(1,|value|)) the Poisson log-likelihood of
         Hypergraph-MT evaluated from its definition at the returned (u, w):
             lambda_e = sum_k w[|e|-2, k] * prod_{i in e} u[i, k],
             log L    = sum_{e observed} A_e log lambda_e  -  sum_{e subset of the N nodes, 2 <= |e| <= D} lambda_e
         (A_e the weight of e, 1 if unweighted; the normalisation of the library: no log A_e! term, no prior as gammaU =
         gammaW = 0 by default; the second sum runs over ALL subsets of the node set incl. isolated nodes).  The oracle
         enumerates every subset with itertools.combinations (at most 218 subsets for N = 8, D = 5) and sums with
         math.fsum; the library instead maintains elementary symmetric polynomials incrementally.  If the definition
         gives -inf (an observed hyperedge with lambda_e = 0) nothing is compared (counted);
       * a second, fresh model with the same arguments returns bit-identical u, w and log-likelihood (always for
         max_iter <= 20, for max_iter = 200 on every fourth seed).
     (MT-reuse) the clauses "N x K", "(D-1) x K" and "largest final value in train_info" on the SECOND of two fits
     performed with one model object on two different hypergraphs, all under the single key
     "HypergraphMT.fit:model object fitted before" (the statement speaks about fit, not about fresh objects, but a reader
     may restrict it to them).
(SC) HySC(seed, n_realizations).fit(H, K, weighted_L) with K in {2,3}, the same seeds, n_realizations (k-means restarts)
     in {1,3}, weighted_L in {False,True}: does not raise; N x K array with entries in {0,1}; exactly one 1 in the row of
     every non-isolated node; zero rows for isolated nodes; a second fresh object returns the identical matrix.

Oracle: plain Python brute force written from the statement / the model's formula; the implementation is observed
through fit's return value and train_info only.

Known limits
------------
* Bounded, sampled: at most 8 nodes, D <= 5, K <= 3, 200 iterations.
* "Identical when run twice" is checked inside one process (same BLAS/OpenMP configuration, one thread).
* Singleton hyperedges: the model's formula has no affinity for size 1, so for the hypergraph with a singleton the
  agreement with the definition is NOT checked, and a node whose only hyperedge is a singleton is treated as neither
  isolated nor non-isolated (no clause on its row).  All other HypergraphMT clauses are evaluated there but share the
  single key "HypergraphMT.fit:hypergraph with a singleton hyperedge" (one root cause: sizes index the affinity matrix).
* Ascent and agreement with the definition are claims about exact arithmetic; they are checked on the floating-point
  values the library records, with the tolerances above.  The truncation label is a diagnosis, not a clause.
* K larger than the number of non-isolated nodes is not explored (k-means cannot form K clusters).
* extra_params of fit (fixed/initial u and w, priors gammaU/gammaW, output files) keep their defaults.
"""
import contextlib
import io
import itertools
import math
import random
import warnings

PROPERTY = "C17"

TOL = 1e-9        # "sum to one", "never decreases"
TOL_DEF = 1e-6    # "equals, up to rounding, the log-likelihood evaluated from its definition"
RAISES = "does not raise on admissible input"
MT = "HypergraphMT.fit"
SC = "HySC.fit"


# --------------------------------------------------------------------------------------------------------------
# inputs
# --------------------------------------------------------------------------------------------------------------
GRAPHS = [
    dict(name="g4-pairs", edges=[(0, 1), (1, 2), (2, 3), (0, 3), (0, 2)], weights=None, isolated=[]),
    dict(name="g4-mixed", edges=[(0, 1), (1, 2), (0, 1, 2), (2, 3), (1, 2, 3)], weights=None, isolated=[]),
    dict(name="g5-weighted-D4", edges=[(0, 1, 2), (2, 3, 4), (0, 4), (1, 3), (0, 1, 2, 3)], weights=[2, 1, 3, 1, 2],
         isolated=[]),
    dict(name="g6-weighted-D5", edges=[(0, 1), (0, 2), (0, 3), (1, 2, 3, 4, 5), (3, 4), (4, 5)],
         weights=[1, 5, 2, 1, 1, 3], isolated=[]),
    dict(name="g4-strings", edges=[("a", "b"), ("b", "c", "d"), ("a", "d"), ("c", "d")], weights=None, isolated=[]),
    dict(name="g6-shifted-isolated-middle", edges=[(10, 11, 12), (12, 14), (14, 15), (10, 15), (11, 12, 14, 15)],
         weights=[1, 2, 1, 1, 4], isolated=[13]),
    dict(name="g5-uniform3", edges=[(0, 1, 2), (0, 1, 3), (1, 2, 4), (2, 3, 4), (0, 3, 4)], weights=[3, 1, 1, 2, 1],
         isolated=[]),
    dict(name="g7-two-triangles-isolated-first", edges=[(7, 20), (20, 31), (7, 31), (7, 20, 31), (40, 52), (52, 66),
                                                        (40, 66), (40, 52, 66), (31, 40)],
         weights=None, isolated=[3]),
    dict(name="g8-strings-weighted-two-isolated", edges=[("b", "c"), ("c", "d", "e"), ("b", "d"), ("e", "f", "g"),
                                                         ("f", "g"), ("b", "c", "d", "e"), ("e", "g")],
         weights=[2, 1, 1, 3, 2, 1, 1], isolated=["a", "z"]),
    dict(name="g6-sizes-4-5-only", edges=[(0, 1, 2, 3), (2, 3, 4, 5), (0, 1, 2, 3, 4), (1, 2, 4, 5)], weights=None,
         isolated=[]),
    dict(name="g5-float-weights", edges=[(0, 1), (1, 2, 3), (3, 4), (0, 4), (0, 2, 4)], weights=[0.5, 2.5, 1.0, 1.5, 0.25],
         isolated=[]),
    dict(name="g6-two-cliques-graph", edges=[(0, 1), (1, 2), (0, 2), (3, 4), (4, 5), (3, 5), (2, 3)], weights=None,
         isolated=[]),
    dict(name="g5-singleton", edges=[(0, 1), (1, 2), (0, 1, 2), (2, 3), (4,)], weights=None, isolated=[]),
]


def _random_graph(i, seed):
    R = random.Random(f"c17-graph-{seed}-{i}")
    n_act = R.randint(4, 8)
    n_iso = R.choice([0, 0, 1, 2]) if n_act <= 6 else R.choice([0, 0, 1]) if n_act == 7 else 0
    n = n_act + n_iso
    kind = R.choice(["range", "ints", "strings"])
    if kind == "range":
        labels = list(range(n))
    elif kind == "ints":
        labels = sorted(R.sample(range(1, 100), n))
    else:
        labels = sorted(R.sample([a + b for a in "abcdefgh" for b in "xyz"], n))
    R.shuffle(labels)
    active, iso = labels[:n_act], labels[n_act:]
    dmax = R.randint(2, min(5, n_act))
    want = R.randint(3, 9)
    edges = set()
    edges.add(tuple(sorted(R.sample(active, dmax), key=repr)))
    tries = 0
    while len(edges) < want and tries < 200:
        tries += 1
        d = R.randint(2, dmax)
        edges.add(tuple(sorted(R.sample(active, d), key=repr)))
    edges = sorted(edges, key=repr)
    R.shuffle(edges)
    covered = {v for e in edges for v in e}
    iso = iso + [v for v in active if v not in covered]
    weights = None if R.random() < 0.5 else [R.randint(1, 4) for _ in edges]
    return dict(name=f"random-{seed}-{i}", edges=[list(e) for e in edges], weights=weights, isolated=iso)


def _graphs(quick, seed):
    return [dict(g) for g in GRAPHS] + [_random_graph(i, seed) for i in range(6 if quick else 20)]


def _imports():
    warnings.filterwarnings("ignore")
    import numpy as np
    from hypergraphx import Hypergraph
    from hypergraphx.communities.hypergraph_mt.model import HypergraphMT
    from hypergraphx.communities.hy_sc.model import HySC
    return np, Hypergraph, HypergraphMT, HySC


def _build(Hypergraph, g):
    edges = [tuple(e) for e in g["edges"]]
    if g["weights"] is None:
        H = Hypergraph(edges)
    else:
        H = Hypergraph(edges, weighted=True, weights=list(g["weights"]))
    for v in g["isolated"]:
        H.add_node(v)
    return H


def _facts(H):
    """Through the public API only: N, D, {frozenset(row indices): weight}, isolated rows, rows with only singletons."""
    enc = H.get_mapping()
    nodes = list(H.get_nodes())
    idx = {v: int(enc.transform([v])[0]) for v in nodes}
    data = {}
    for e, wt in zip(H.get_edges(), H.get_weights()):
        data[frozenset(idx[v] for v in e)] = float(wt)
    N = len(nodes)
    D = max(len(e) for e in data)
    in_any = {i for e in data for i in e}
    in_proper = {i for e in data if len(e) >= 2 for i in e}
    isolated = sorted(set(range(N)) - in_any)
    singleton_only = sorted(in_any - in_proper)
    return dict(N=N, D=D, data=data, isolated=isolated, singleton_only=singleton_only,
                has_singleton=any(len(e) == 1 for e in data))


def _loglik_definition(u, w, data, N, D):
    """sum_e A_e log lambda_e - sum over ALL subsets e of the node set with 2 <= |e| <= D of lambda_e."""
    K = len(u[0])
    expected, observed = [], []
    for d in range(2, D + 1):
        wd = w[d - 2]
        for e in itertools.combinations(range(N), d):
            lam = 0.0
            for k in range(K):
                p = wd[k]
                for i in e:
                    p *= u[i][k]
                lam += p
            expected.append(lam)
            a = data.get(frozenset(e))
            if a:
                if lam <= 0.0:
                    return -math.inf
                observed.append(a * math.log(lam))
    return math.fsum(observed) - math.fsum(expected)


@contextlib.contextmanager
def _quiet():
    with warnings.catch_warnings():
        warnings.simplefilter("ignore")
        with contextlib.redirect_stdout(io.StringIO()):
            yield


def _exc(e):
    return f"{type(e).__name__}: {str(e)[:200]}"


def _short(cfg):
    """Case description / failing input: the configuration with the hypergraph spelled out."""
    return dict(cfg)


def _family(g):
    return "a random hypergraph" if g["name"].startswith("random-") else g["name"]


def _caseid(cfg):
    """Case description: the configuration with hypergraphs named (fixed ones are in GRAPHS, random ones are seeded)."""
    d = {k: v for k, v in cfg.items() if k not in ("graph", "first")}
    d["graph"] = cfg["graph"]["name"]
    d["call"] = "HySC.fit" if "weighted_L" in cfg else "HypergraphMT.fit"
    if "first" in cfg:
        d["first"] = cfg["first"]["name"]
    return d


# --------------------------------------------------------------------------------------------------------------
# (MT)
# --------------------------------------------------------------------------------------------------------------
def _mt_model(HypergraphMT, cfg, **over):
    kw = dict(n_realizations=cfg["n_realizations"], max_iter=cfg["max_iter"], verbose=False)
    if cfg["min_value_par"] is not None:
        kw["min_value_par"] = cfg["min_value_par"]
    kw.update(over)
    return HypergraphMT(**kw)


def _mt_fit(m, H, cfg):
    with _quiet():
        return m.fit(H, K=cfg["K"], seed=cfg["seed"], normalizeU=cfg["normalizeU"], baseline_r0=cfg["baseline_r0"])


def _history(np, m):
    """{realisation: [recorded log-likelihood in iteration order]} from the public train_info table."""
    ti = m.train_info
    rows = sorted(zip([int(x) for x in ti["realization"].tolist()], [int(x) for x in ti["iter"].tolist()],
                      range(len(ti)), [float(x) for x in ti["loglik"].tolist()]))
    hist = {}
    for r, it, _, ll in rows:
        hist.setdefault(r, []).append(ll)
    return hist


def _descents(hist):
    """Every (realisation, iteration) at which the recorded value is smaller than the one recorded just before."""
    out = []
    for r in sorted(hist):
        ls = hist[r]
        for j in range(1, len(ls)):
            a, b = ls[j - 1], ls[j]
            if not (b >= a - TOL * max(1.0, abs(a), abs(b))):
                out.append(dict(realization=r, iteration=j, previous=a, value=b))
    return out


class _Clauses:
    """ctx.check with the key built as function:clause[suffix]; `override` replaces every key (one root cause, one key)."""

    def __init__(self, ctx, fn, inp, rp, override=None):
        self.ctx, self.fn, self.inp, self.rp, self.override = ctx, fn, inp, rp, override

    def __call__(self, cond, clause, expected=None, observed=None, suffix="", inp=None):
        key = self.override or f"{self.fn}:{clause}{suffix}"
        return self.ctx.check(bool(cond), self.fn, clause, self.inp if inp is None else inp, expected=expected,
                              observed=observed, key=key, replay=self.rp)


C_RAISE = RAISES
C_U_SHAPE = "membership matrix is an N x K array"
C_W_SHAPE = "affinity matrix is a (D-1) x K array"
C_U_VALUES = "membership matrix finite and non-negative"
C_W_VALUES = "affinity matrix finite and non-negative"
C_ISOLATED = "rows of isolated nodes are zero"
C_ROWSUM = "non-zero rows sum to one when normalizeU=True"
C_LARGEST = "log-likelihood is the largest final value recorded in train_info"
C_ASCENT = "log-likelihood never decreases within a realisation"  # normalizeU=False; keys stay below 120 characters
C_DEFINITION = "log-likelihood equals its definition at the returned parameters (min_value_par=0)"
C_SAME = "identical results when run twice with the same seed"
# collapsed keys
K_SINGLETON = f"{MT}:hypergraph with a singleton hyperedge"
K_REUSE = f"{MT}:model object fitted before"


def _shape_clauses(chk, np, u, w, f, K):
    ok_u = isinstance(u, np.ndarray) and u.shape == (f["N"], K)
    chk(ok_u, C_U_SHAPE, expected=[f["N"], K], observed=getattr(u, "shape", repr(type(u))))
    ok_w = isinstance(w, np.ndarray) and w.shape == (f["D"] - 1, K)
    chk(ok_w, C_W_SHAPE, expected=[f["D"] - 1, K], observed=getattr(w, "shape", repr(type(w))))
    return ok_u, ok_w


def _largest_final_clause(chk, np, m, L):
    try:
        hist = _history(np, m)
    except Exception as e:
        chk(False, C_LARGEST, observed="train_info unreadable: " + _exc(e))
        return None
    finals = [hist[r][-1] for r in sorted(hist)]
    try:
        Lf = float(L)
    except Exception:
        Lf = math.nan
    chk(bool(finals) and Lf == max(finals), C_LARGEST, expected=max(finals) if finals else None,
        observed=dict(returned=Lf, finals=finals))
    return hist


def _truncation_label(np, HypergraphMT, H, cfg, hist, bads):
    """Label only (min_value_par > 0 and max_value_par are outside the statement's conditions for this clause): repeat the
    fit with both truncations of the memberships switched off (min_value_par=0, max_value_par=inf).  A decrease is labelled
    'truncation not involved' iff that run records the very same values in that realisation up to and including the
    decrease (no threshold was ever hit before it), otherwise 'truncation involved'."""
    try:
        m2 = _mt_model(HypergraphMT, cfg, min_value_par=0.0, max_value_par=math.inf)
        _mt_fit(m2, H, cfg)
        hist2 = _history(np, m2)
    except Exception:
        hist2 = {}
    out = {}
    for b in bads:
        r, j = b["realization"], b["iteration"]
        same = hist2.get(r, [])[:j + 1] == hist[r][:j + 1]
        out.setdefault("[truncation not involved]" if same else "[truncation involved]", b)
    return out


def _run_mt(ctx, cfg):
    np, Hypergraph, HypergraphMT, HySC = _imports()
    g = cfg["graph"]
    H = _build(Hypergraph, g)
    f = _facts(H)
    K = cfg["K"]
    inp = _short(cfg)
    # sizes index the affinity matrix as size-2, so a singleton hyperedge reads its last row: one root cause, one key
    chk = _Clauses(ctx, MT, inp, dict(part="mt", **cfg), override=K_SINGLETON if f["has_singleton"] else None)

    m = _mt_model(HypergraphMT, cfg)
    try:
        u, w, L = _mt_fit(m, H, cfg)
    except Exception as e:
        ctx.case(_caseid(cfg), nontrivial=False)
        chk(False, C_RAISE, suffix=f"[{type(e).__name__}]", inp=dict(inp, error=_exc(e)))
        return
    chk(True, C_RAISE)
    ctx.case(_caseid(cfg))

    ok_u, ok_w = _shape_clauses(chk, np, u, w, f, K)
    fin_u = fin_w = False
    if ok_u:
        fin_u = bool(np.all(np.isfinite(u)) and np.all(u >= 0))
        chk(fin_u, C_U_VALUES, observed=u)
        if f["isolated"]:
            chk(np.all(u[f["isolated"]] == 0), C_ISOLATED, observed=dict(isolated_rows=f["isolated"], u=u))
        if cfg["normalizeU"] and fin_u:
            mvp = 1e-5 if cfg["min_value_par"] is None else cfg["min_value_par"]
            worst = None
            for i in range(f["N"]):
                if i in f["singleton_only"] or not np.any(u[i] != 0):
                    continue
                s = math.fsum(float(x) for x in u[i])
                if not (1.0 - TOL - K * mvp <= s <= 1.0 + TOL):
                    if worst is None or abs(s - 1) > abs(worst[1] - 1):
                        worst = (i, s, [float(x) for x in u[i]])
            chk(worst is None, C_ROWSUM, expected=1.0,
                observed=None if worst is None else dict(row=worst[0], sum=worst[1], entries=worst[2]))
    if ok_w:
        fin_w = bool(np.all(np.isfinite(w)) and np.all(w >= 0))
        chk(fin_w, C_W_VALUES, observed=w)

    hist = _largest_final_clause(chk, np, m, L)

    if hist is not None and not cfg["normalizeU"]:
        bads = _descents(hist)
        if not bads:
            chk(True, C_ASCENT)
        else:
            trunc = "[min_value_par=0]" if cfg["min_value_par"] == 0 else "[default min_value_par]"
            labels = {"": bads[0]} if f["has_singleton"] else _truncation_label(np, HypergraphMT, H, cfg, hist, bads)
            for label in sorted(labels):
                chk(False, C_ASCENT, observed=dict(labels[label], decreases_in_this_fit=len(bads)), suffix=trunc + label)
                ctx.count(f"MT: log-likelihood decreases{trunc}{label} on {_family(g)}")

    if cfg["min_value_par"] == 0 and ok_u and ok_w and fin_u and fin_w and not f["has_singleton"]:
        d = _loglik_definition(u.tolist(), w.tolist(), f["data"], f["N"], f["D"])
        if d == -math.inf:
            ctx.count("MT: definition gives -inf (an observed hyperedge has lambda = 0), not compared")
        else:
            Lf = float(L)
            dev = abs(Lf - d) / max(1.0, abs(d))
            chk(dev <= TOL_DEF, C_DEFINITION, expected=d, observed=dict(returned=Lf, relative_deviation=dev, u=u, w=w))
            ctx.count("MT: definition compared")
            for t in (1e-9, 1e-6, 1e-3):
                if dev > t:
                    ctx.count("MT: definition deviates by more than %g relative" % t)
            if dev > TOL_DEF:
                ctx.count(f"MT: definition deviates by more than 1e-06 relative on {_family(g)}")

    if cfg["max_iter"] <= 20 or cfg["seed"] % 4 == 0:
        m3 = _mt_model(HypergraphMT, cfg)
        try:
            u3, w3, L3 = _mt_fit(m3, H, cfg)
            same = (np.array_equal(np.asarray(u3), np.asarray(u), equal_nan=True)
                    and np.array_equal(np.asarray(w3), np.asarray(w), equal_nan=True)
                    and (float(L3) == float(L) or (math.isnan(float(L3)) and math.isnan(float(L)))))
            obs = None if same else dict(first=dict(u=u, w=w, L=float(L)), second=dict(u=u3, w=w3, L=float(L3)))
        except Exception as e:
            same, obs = False, "second run raised " + _exc(e)
        chk(same, C_SAME, observed=obs)


def _run_reuse(ctx, cfg):
    """One model object, fitted on `first` and then on `graph`: clauses on what the second fit returns."""
    np, Hypergraph, HypergraphMT, HySC = _imports()
    H1, H2 = _build(Hypergraph, cfg["first"]), _build(Hypergraph, cfg["graph"])
    f = _facts(H2)
    inp = _short(cfg)
    chk = _Clauses(ctx, MT, inp, dict(part="reuse", **cfg), override=K_REUSE)
    cid = _caseid(cfg)
    m = _mt_model(HypergraphMT, cfg)
    try:
        _mt_fit(m, H1, cfg)
    except Exception:
        ctx.case(cid, nontrivial=False)
        return
    try:
        u, w, L = _mt_fit(m, H2, cfg)
    except Exception as e:
        ctx.case(cid, nontrivial=False)
        chk(False, C_RAISE, inp=dict(inp, error=_exc(e)))
        return
    ctx.case(cid)
    _shape_clauses(chk, np, u, w, f, cfg["K"])
    _largest_final_clause(chk, np, m, L)


# --------------------------------------------------------------------------------------------------------------
# (SC)
# --------------------------------------------------------------------------------------------------------------
def _run_sc(ctx, cfg):
    np, Hypergraph, HypergraphMT, HySC = _imports()
    H = _build(Hypergraph, cfg["graph"])
    f = _facts(H)
    K = cfg["K"]
    inp = _short(cfg)
    chk = _Clauses(ctx, SC, inp, dict(part="sc", **cfg))
    if K > f["N"] - len(f["isolated"]):
        ctx.case(_caseid(cfg), nontrivial=False)
        return

    def fit():
        with _quiet():
            return HySC(seed=cfg["seed"], n_realizations=cfg["n_realizations"]).fit(H, K=K, weighted_L=cfg["weighted_L"])

    try:
        X = fit()
    except Exception as e:
        ctx.case(_caseid(cfg), nontrivial=False)
        chk(False, C_RAISE, suffix=f"[{type(e).__name__}]", inp=dict(inp, error=_exc(e)))
        return
    chk(True, C_RAISE)
    ctx.case(_caseid(cfg))
    ok = isinstance(X, np.ndarray) and X.shape == (f["N"], K) and bool(np.all((X == 0) | (X == 1)))
    chk(ok, "N x K array with entries in {0,1}", expected=[f["N"], K], observed=X)
    if ok:
        # a node whose only hyperedge is a singleton is neither clearly isolated nor clearly not: no clause on its row
        non_iso = [i for i in range(f["N"]) if i not in f["isolated"] and i not in f["singleton_only"]]
        bad = [i for i in non_iso if int((X[i] == 1).sum()) != 1]
        chk(not bad, "exactly one 1 in the row of every non-isolated node", observed=dict(rows=bad, X=X))
        if f["isolated"]:
            chk(np.all(X[f["isolated"]] == 0), C_ISOLATED, observed=dict(isolated_rows=f["isolated"], X=X))
    try:
        X2 = fit()
        same = isinstance(X2, np.ndarray) and isinstance(X, np.ndarray) and np.array_equal(X, X2)
        obs = None if same else dict(first=X, second=X2)
    except Exception as e:
        same, obs = False, "second run raised " + _exc(e)
    chk(same, C_SAME, observed=obs)


_RUNNERS = dict(mt=_run_mt, reuse=_run_reuse, sc=_run_sc)


# --------------------------------------------------------------------------------------------------------------
# plan
# --------------------------------------------------------------------------------------------------------------
_COMBOS = [dict(n_realizations=nr, max_iter=mi, normalizeU=nu, baseline_r0=b, min_value_par=mvp)
           for nr in (1, 3) for mi in (1, 20, 200) for nu in (True, False) for b in (True, False) for mvp in (None, 0.0)]


def _plan(quick, seed):
    graphs = _graphs(quick, seed)
    seeds = range(5) if quick else range(20)
    plan = []
    for gi, g in enumerate(graphs):
        fixed = gi < len(GRAPHS)
        for K in (2, 3):
            order = list(range(len(_COMBOS)))
            random.Random(f"c17-combos-{seed}-{g['name']}-{K}").shuffle(order)
            per = 16 if quick else (len(order) if fixed else 12)
            for s in seeds:
                picks = [order[(s * per + j) % len(order)] for j in range(per)]
                for ci in sorted(set(picks)):
                    plan.append(dict(part="mt", graph=g, K=K, seed=seed * 1000 + s, **_COMBOS[ci]))
                for nr in (1, 3):
                    for wl in (False, True):
                        plan.append(dict(part="sc", graph=g, K=K, seed=seed * 1000 + s, n_realizations=nr, weighted_L=wl))
    # one model object fitted twice, on different hypergraphs
    pairs = [(0, 2), (1, 3), (4, 5), (6, 1), (3, 0), (9, 7)]
    for a, b in pairs:
        for K in (2, 3):
            for s in (range(2) if quick else range(6)):
                plan.append(dict(part="reuse", first=graphs[a], graph=graphs[b], K=K, seed=seed * 1000 + s, n_realizations=1,
                                 max_iter=20, normalizeU=False, baseline_r0=bool(s % 2), min_value_par=None))
    return plan


# --------------------------------------------------------------------------------------------------------------
# driver
# --------------------------------------------------------------------------------------------------------------
class _Dedup:
    """Forwards to the real Ctx but records at most one failure per key and chunk; every evaluation is counted."""

    def __init__(self, ctx):
        self._ctx = ctx
        self._seen = {}

    def __getattr__(self, name):
        return getattr(self._ctx, name)

    def check(self, cond, function, clause, input, expected=None, observed=None, key=None, replay=None):
        self._ctx.clause(f"{function}:{clause}")
        if not cond:
            self.fail(function, clause, input, expected, observed, key, replay)
        return cond

    def fail(self, function, clause, input, expected=None, observed=None, key=None, replay=None):
        key = key or f"{function}:{clause}"
        n = self._seen.get(key, 0)
        self._seen[key] = n + 1
        self._ctx.count("failures of " + key)
        if n < 1:
            if isinstance(replay, dict):
                replay = dict(replay, key=key)
            self._ctx.fail(function, clause, input, expected, observed, key, replay)


def _work(sub, chunk):
    import numpy as np
    try:  # tiny matrices: BLAS/OpenMP pools in every forked worker only contend (and k-means must not change its thread count)
        from threadpoolctl import threadpool_limits
        limiter = threadpool_limits(limits=1)
    except Exception:  # noqa: BLE001
        limiter = contextlib.nullcontext()
    old = np.seterr(all="ignore")
    d = _Dedup(sub)
    try:
        with limiter:
            for cfg in chunk:
                cfg = dict(cfg)
                part = cfg.pop("part")
                _RUNNERS[part](d, cfg)
    finally:
        np.seterr(**old)


def _chunk_runner(args):
    from hv import common
    prop, tier, seed, chunk = args
    sub = common.Ctx(prop, tier, seed)
    _work(sub, chunk)
    return common.ctx_summary(sub)


def run(ctx):
    import multiprocessing as mp
    import os
    from hv import common
    _imports()
    ctx.rule("13 fixed hypergraphs (4-8 nodes, D in 2..5, weighted/unweighted, isolated nodes, three label kinds, one with a "
             "singleton hyperedge) + seeded random ones; HypergraphMT.fit over K x seed x n_realizations x max_iter x normalizeU "
             "x baseline_r0 x min_value_par (full product for the fixed hypergraphs in the thorough tier, seeded rotating slices "
             "otherwise); HySC.fit over K x seed x n_realizations x weighted_L; a case is non-trivial when fit returned.")
    ctx.assume("rows of the returned matrices correspond to nodes through Hypergraph.get_mapping()")
    ctx.assume("tolerances: 1e-9 for 'rows sum to one' and 'never decreases' (relative to max(1,|value|)), 1e-6 relative for "
               "'equals the log-likelihood from its definition'; exact equality for 'largest final value' and 'identical'")
    ctx.assume("normalizeU=True with min_value_par > 0: a row may fall short of one by at most K*min_value_par "
               "(memberships below the threshold are truncated after the normalisation)")
    ctx.assume("log-likelihood of Hypergraph-MT as the library normalises it: no log A_e! term, all subsets of the node set "
               "of size 2..D as possible hyperedges, no prior (gammaU = gammaW = 0)")
    ctx.assume("every constructor parameter outside the statement (max_value_par, tolerance, ...) keeps its default; "
               "max_value_par=inf is used only to label a failed ascent clause")

    plan = _plan(ctx.quick, ctx.seed)
    n_chunks = 128 if ctx.quick else 512
    chunks = [plan[i::n_chunks] for i in range(n_chunks)]
    chunks = [c for c in chunks if c]
    jobs = min(16, os.cpu_count() or 4)
    args = [(ctx.prop, ctx.tier, ctx.seed + i, ch) for i, ch in enumerate(chunks)]
    if jobs <= 1:
        parts = [_chunk_runner(a) for a in args]
    else:
        with mp.get_context("fork").Pool(jobs) as pool:
            parts = pool.map(_chunk_runner, args, chunksize=1)
    # keep one recorded failure per key over all chunks (replay files are named by key), deterministic in chunk order
    kept = {}
    for p in parts:
        vs = []
        for v in p["violations"]:
            k = v[6]
            kept[k] = kept.get(k, 0) + 1
            if kept[k] <= 1:
                vs.append(v)
        p["violations"] = vs
    common.merge_ctx(ctx, parts)
    ctx.count("configurations planned", len(plan))


def replay(data):
    import numpy as np
    from hv import common
    data = dict(data)
    part = data.pop("part", None)
    key = data.pop("key", None)
    if part not in _RUNNERS:
        return True, "nothing to replay"
    common.use_repo()
    ctx = common.Ctx("replay", "quick", 0)
    ctx._known = []
    old = np.seterr(all="ignore")
    try:
        _RUNNERS[part](ctx, data)
    finally:
        np.seterr(**old)
    fails = [v for v in ctx.violations if key is None or v.key == key]
    if fails:
        v = fails[0]
        return False, (f"{v.key} fails on this input: input={v.input} expected={v.expected} observed={v.observed}")[:2000]
    return True, ("clause %s holds on this input" % key) if key else "all clauses hold on this input"
