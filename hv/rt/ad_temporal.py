"""Adaptor of hypergraphx.TemporalHypergraph for the history explorer.
Ghost (statement of C03): set of nodes, map (time, frozenset) -> [weight, metadata], node metadata."""
import copy
from .containers import Reject, Unspecified, UNKNOWN, msort, tuplify
from .ad_hypergraph import FILTERS, UPTO, fname, sel

WINDOWS = [(a, b) for a in (0, 1, 2, 5) for b in (0, 1, 2, 3, 6)]
WIDTHS = [1, 2, 3, 7]


class Ghost:
    def __init__(self, weighted):
        self.weighted = weighted
        self.V = set()
        self.E = {}     # (t, frozenset) -> [w, md]
        self.NM = {}


def show(k):
    return [k[0], sorted(k[1])]


def hg_view(h):
    """Observable content of a plain Hypergraph produced by a derivation."""
    return dict(nodes=msort(h.get_nodes()), weighted=h.is_weighted(),
                edges={repr(sorted(e)): h.get_weight(e) for e in h.get_edges()})


class TemporalAdaptor:
    name = "TemporalHypergraph"

    def __init__(self, universe, probe_edges, times=(0, 1, 2, 5)):
        self.universe = list(universe)
        self.probe_edges = [tuple(e) for e in probe_edges]
        self.times = list(times)

    def new_real(self, config):
        from hypergraphx import TemporalHypergraph
        return TemporalHypergraph(weighted=config["weighted"])

    def new_ghost(self, config):
        return Ghost(config["weighted"])

    def function_of(self, op):
        return f"TemporalHypergraph.{op[0]}"

    def partial_key(self, op):
        if op[0] in ("remove_nodes", "add_nodes", "add_edges"):
            return f"TemporalHypergraph.{op[0]}:batch-applied-partially-before-raising"
        return None

    # ---- ghost
    def g_add_node(self, g, n, md=None):
        if n not in g.V:
            g.V.add(n)
            g.NM[n] = copy.deepcopy(md) if md is not None else {}
        elif md is not None and g.NM[n] != md:
            g.NM[n] = UNKNOWN

    def g_add_edge(self, g, nodes, t, w=None, md=None):
        nodes = tuple(nodes)
        if isinstance(t, bool) or not isinstance(t, int) or t < 0:
            raise Reject()
        if len(set(nodes)) != len(nodes) or not nodes:
            raise Reject()
        if not g.weighted and w is not None and w != 1:
            raise Reject()
        k = (t, frozenset(nodes))
        for n in nodes:
            self.g_add_node(g, n)
        if k not in g.E:
            g.E[k] = [(w if w is not None else 1) if g.weighted else 1, copy.deepcopy(md) if md is not None else {}]
        else:
            if g.weighted:
                g.E[k][0] += (w if w is not None else 1)
            g.E[k][1] = copy.deepcopy(md) if md is not None else UNKNOWN

    def g_remove_node(self, g, n, keep):
        if n not in g.V:
            raise Reject()
        inc = [k for k in g.E if n in k[1]]
        if keep:
            for k in inc:
                w, md = g.E[k]
                rest = k[1] - {n}
                if rest:
                    k2 = (k[0], rest)
                    if k2 in g.E:
                        if g.weighted:
                            g.E[k2][0] += w
                        g.E[k2][1] = UNKNOWN
                    else:
                        g.E[k2] = [w, md]
        for k in inc:
            del g.E[k]
        g.V.discard(n)
        g.NM.pop(n, None)

    def apply_ghost(self, g, op):
        op = tuplify(op)
        name, a = op[0], op[1:]
        key = lambda e, t: (t, frozenset(e))
        if name == "add_node":
            self.g_add_node(g, a[0], a[1] if len(a) > 1 else None)
        elif name == "add_nodes":
            for n in a[0]:
                self.g_add_node(g, n)
        elif name == "add_edge":
            self.g_add_edge(g, *a)
        elif name == "add_edges":
            edges, ts = a[0], a[1]
            ws = a[2] if len(a) > 2 else None
            if ws is not None and not g.weighted:
                raise Unspecified()
            if len(edges) != len(ts) or (ws is not None and len(ws) != len(edges)):
                raise Reject()
            if ws is not None and len(set(tuple(e) for e in edges)) != len(edges):
                raise Unspecified()     # the code rejects repeated node tuples in a weighted batch even at different times
            for e, t in zip(edges, ts):
                if isinstance(t, bool) or not isinstance(t, int) or t < 0 or len(set(e)) != len(e) or not e:
                    raise Reject()
            for i, (e, t) in enumerate(zip(edges, ts)):
                self.g_add_edge(g, e, t, ws[i] if ws is not None else None)
        elif name == "remove_edge":
            if key(a[0], a[1]) not in g.E:
                raise Reject()
            del g.E[key(a[0], a[1])]
        elif name == "remove_node":
            self.g_remove_node(g, a[0], a[1] if len(a) > 1 else False)
        elif name == "remove_nodes":
            ns = list(a[0])
            if len(set(ns)) != len(ns) or any(n not in g.V for n in ns):
                raise Reject()
            for n in ns:
                self.g_remove_node(g, n, a[1] if len(a) > 1 else False)
        elif name == "set_weight":
            k = key(a[0], a[1])
            if k not in g.E or (not g.weighted and a[2] != 1):
                raise Reject()
            g.E[k][0] = a[2]
        elif name == "set_node_metadata":
            if a[0] not in g.V:
                raise Reject()
            g.NM[a[0]] = copy.deepcopy(a[1])
        elif name == "set_edge_metadata":
            k = key(a[0], a[1])
            if k not in g.E:
                raise Reject()
            g.E[k][1] = copy.deepcopy(a[2])
        elif name == "set_attr_node":
            if a[0] not in g.V:
                raise Reject()
            if g.NM[a[0]] != UNKNOWN:
                g.NM[a[0]][a[1]] = a[2]
        elif name == "set_attr_edge":
            k = key(a[0], a[1])
            if k not in g.E:
                raise Reject()
            if g.E[k][1] != UNKNOWN:
                g.E[k][1][a[2]] = a[3]
        elif name == "del_attr_node":
            if a[0] not in g.V:
                raise Reject()
            if g.NM[a[0]] == UNKNOWN:
                raise Unspecified()
            if a[1] not in g.NM[a[0]]:
                raise Reject()
            del g.NM[a[0]][a[1]]
        elif name == "del_attr_edge":
            k = key(a[0], a[1])
            if k not in g.E:
                raise Reject()
            if g.E[k][1] == UNKNOWN:
                raise Unspecified()
            if a[2] not in g.E[k][1]:
                raise Reject()
            del g.E[k][1][a[2]]
        elif name == "clear":
            g.V.clear(), g.E.clear(), g.NM.clear()
        elif name == "copy":
            pass
        else:
            raise ValueError(name)

    # ---- real
    def apply_real(self, h, op):
        op = tuplify(op)
        name, a = op[0], op[1:]
        md = lambda x: copy.deepcopy(x) if x is not None else None
        if name == "add_node":
            h.add_node(a[0], md(a[1])) if len(a) > 1 else h.add_node(a[0])
        elif name == "add_nodes":
            h.add_nodes(list(a[0]))
        elif name == "add_edge":
            kw = {}
            if len(a) > 2 and a[2] is not None:
                kw["weight"] = a[2]
            if len(a) > 3 and a[3] is not None:
                kw["metadata"] = md(a[3])
            h.add_edge(tuple(a[0]), a[1], **kw)
        elif name == "add_edges":
            kw = {}
            if len(a) > 2 and a[2] is not None:
                kw["weights"] = list(a[2])
            h.add_edges([tuple(e) for e in a[0]], list(a[1]), **kw)
        elif name == "remove_edge":
            h.remove_edge(tuple(a[0]), a[1])
        elif name == "remove_node":
            h.remove_node(a[0], keep_edges=a[1] if len(a) > 1 else False)
        elif name == "remove_nodes":
            h.remove_nodes(list(a[0]), keep_edges=a[1] if len(a) > 1 else False)
        elif name == "set_weight":
            h.set_weight(tuple(a[0]), a[1], a[2])
        elif name == "set_node_metadata":
            h.set_node_metadata(a[0], md(a[1]))
        elif name == "set_edge_metadata":
            h.set_edge_metadata(tuple(a[0]), a[1], md(a[2]))
        elif name == "set_attr_node":
            h.set_attr_to_node_metadata(a[0], a[1], a[2])
        elif name == "set_attr_edge":
            h.set_attr_to_edge_metadata(tuple(a[0]), a[1], a[2], a[3])
        elif name == "del_attr_node":
            h.remove_attr_from_node_metadata(a[0], a[1])
        elif name == "del_attr_edge":
            h.remove_attr_from_edge_metadata(tuple(a[0]), a[1], a[2])
        elif name == "clear":
            h.clear()
        elif name == "copy":
            return h.copy()
        else:
            raise ValueError(name)
        return None

    # ---- observations
    def observe_ghost(self, g):
        o = {}
        V, E = g.V, g.E
        o["get_nodes()"] = msort(V)
        o["num_nodes()"] = len(V)
        o["is_weighted()"] = g.weighted
        o["get_nodes(metadata=True)"] = {repr(n): g.NM[n] for n in V}
        for n in self.universe:
            o[f"check_node({n!r})"] = n in V
            if n in V:
                o[f"get_node_metadata({n!r})"] = g.NM[n]
        for f in FILTERS + UPTO:
            ks = [k for k in E if sel(len(k[1]), f)]
            o[f"get_edges({fname(f)})"] = msort(show(k) for k in ks)
            o[f"num_edges({fname(f)})"] = len(ks)
            o[f"get_weights({fname(f)})"] = msort(E[k][0] for k in ks)
            o[f"get_weights(asdict,{fname(f)})"] = {repr(show(k)): E[k][0] for k in ks}
        for (a, b) in WINDOWS:
            for f in (dict(), dict(order=1), dict(size=3), dict(order=1, up_to=True)):
                ks = [k for k in E if a <= k[0] < b and sel(len(k[1]), f)]
                o[f"get_edges(time_window=({a},{b}),{fname(f)})"] = msort(show(k) for k in ks)
        o["get_edges(metadata=True)"] = {repr(show(k)): E[k][1] for k in E}
        o["get_sizes()"] = msort(len(k[1]) for k in E)
        o["get_orders()"] = msort(len(k[1]) - 1 for k in E)
        o["distribution_sizes()"] = {str(s): sum(1 for k in E if len(k[1]) == s) for s in {len(k[1]) for k in E}}
        o["is_uniform()"] = len({len(k[1]) for k in E}) <= 1
        if E:
            o["max_size()"] = max(len(k[1]) for k in E)
            o["max_order()"] = max(len(k[1]) for k in E) - 1
            o["min_time()"] = min(k[0] for k in E)
            o["max_time()"] = max(k[0] for k in E)
        for e in self.probe_edges:
            o[f"get_times_for_edge({e!r})"] = msort(k[0] for k in E if k[1] == frozenset(e))
            for t in self.times:
                k = (t, frozenset(e))
                o[f"check_edge({e!r},{t})"] = k in E
                if k in E:
                    o[f"get_weight({e!r},{t})"] = E[k][0]
                    o[f"get_edge_metadata({e!r},{t})"] = E[k][1]
        for f in FILTERS:
            o[f"degree_sequence({fname(f)})"] = {repr(n): sum(1 for k in E if n in k[1] and sel(len(k[1]), f)) for n in V}
            dd = {}
            for n in V:
                d = sum(1 for k in E if n in k[1] and sel(len(k[1]), f))
                dd[str(d)] = dd.get(str(d), 0) + 1
            o[f"degree_distribution({fname(f)})"] = dd
            for n in V:
                inc = [k for k in E if n in k[1] and sel(len(k[1]), f)]
                o[f"get_incident_edges({n!r},{fname(f)})"] = msort(show(k) for k in inc)
                o[f"degree({n!r},{fname(f)})"] = len(inc)
                nb = set()
                for k in inc:
                    nb |= set(k[1])
                nb.discard(n)
                o[f"get_neighbors({n!r},{fname(f)})"] = msort(nb)
        # derivations: snapshots and aggregation
        for win in [None, (0, 2), (1, 6), (2, 2)]:
            a, b = win if win is not None else (None, None)
            for alln in (False, True):
                res = {}
                for k in E:
                    if a is None or a <= k[0] < b:
                        res.setdefault(k[0], {})[k[1]] = E[k][0]
                out = {}
                for t, es in res.items():
                    nodes = set(V) if alln else set().union(*es.keys())
                    out[str(t)] = dict(nodes=msort(nodes), weighted=g.weighted, edges={repr(sorted(e)): w for e, w in es.items()})
                o[f"subhypergraph(time_window={(a, b) if a is not None else None},add_all_nodes={alln})"] = out
        for wdt in WIDTHS:
            out = {}
            if E:
                mt = max(k[0] for k in E)
                c = 0
                while c * wdt <= mt:
                    es = {}
                    for k in E:
                        if c * wdt <= k[0] < (c + 1) * wdt:
                            es[k[1]] = (es.get(k[1], 0) + E[k][0]) if g.weighted else 1
                    out[str(c)] = dict(nodes=msort(V), weighted=g.weighted, edges={repr(sorted(e)): w for e, w in es.items()})
                    c += 1
            o[f"aggregate({wdt})"] = out
        return o

    def observe_real(self, h, g=None):
        o = {}

        def q(key, fn):
            try:
                o[key] = fn()
            except Exception as ex:     # noqa: BLE001
                o[key] = f"<raised {type(ex).__name__}>"

        S = lambda e: [e[0], sorted(e[1])]
        q("get_nodes()", lambda: msort(h.get_nodes()))
        q("num_nodes()", lambda: h.num_nodes())
        q("is_weighted()", lambda: h.is_weighted())
        q("get_nodes(metadata=True)", lambda: {repr(n): m for n, m in h.get_nodes(metadata=True).items()})
        nodes = list(h.get_nodes())
        for n in self.universe:
            q(f"check_node({n!r})", lambda n=n: h.check_node(n))
            if n in nodes:
                q(f"get_node_metadata({n!r})", lambda n=n: h.get_node_metadata(n))
        for f in FILTERS + UPTO:
            q(f"get_edges({fname(f)})", lambda f=f: msort(S(e) for e in h.get_edges(**f)))
            q(f"num_edges({fname(f)})", lambda f=f: h.num_edges(**f))
            q(f"get_weights({fname(f)})", lambda f=f: msort(h.get_weights(**f)))
            q(f"get_weights(asdict,{fname(f)})", lambda f=f: {repr(S(k)): v for k, v in h.get_weights(asdict=True, **f).items()})
        for (a, b) in WINDOWS:
            for f in (dict(), dict(order=1), dict(size=3), dict(order=1, up_to=True)):
                q(f"get_edges(time_window=({a},{b}),{fname(f)})", lambda a=a, b=b, f=f: msort(S(e) for e in h.get_edges(time_window=(a, b), **f)))
        q("get_edges(metadata=True)", lambda: {repr(S(k)): v for k, v in h.get_edges(metadata=True).items()})
        q("get_sizes()", lambda: msort(h.get_sizes()))
        q("get_orders()", lambda: msort(h.get_orders()))
        q("distribution_sizes()", lambda: {str(k): v for k, v in h.distribution_sizes().items()})
        q("is_uniform()", lambda: h.is_uniform())
        if h.num_edges() > 0:
            q("max_size()", lambda: h.max_size())
            q("max_order()", lambda: h.max_order())
            q("min_time()", lambda: h.min_time())
            q("max_time()", lambda: h.max_time())
        for e in self.probe_edges:
            q(f"get_times_for_edge({e!r})", lambda e=e: msort(h.get_times_for_edge(e)))
            for t in self.times:
                q(f"check_edge({e!r},{t})", lambda e=e, t=t: h.check_edge(e, t))
                try:
                    present = h.check_edge(e, t)
                except Exception:   # noqa: BLE001
                    present = False
                if present is True:
                    q(f"get_weight({e!r},{t})", lambda e=e, t=t: h.get_weight(e, t))
                    q(f"get_edge_metadata({e!r},{t})", lambda e=e, t=t: h.get_edge_metadata(e, t))
        for f in FILTERS:
            q(f"degree_sequence({fname(f)})", lambda f=f: {repr(n): d for n, d in h.degree_sequence(**f).items()})
            q(f"degree_distribution({fname(f)})", lambda f=f: {str(k): v for k, v in h.degree_distribution(**f).items()})
            for n in nodes:
                q(f"get_incident_edges({n!r},{fname(f)})", lambda n=n, f=f: msort(S(e) for e in h.get_incident_edges(n, **f)))
                q(f"degree({n!r},{fname(f)})", lambda n=n, f=f: h.degree(n, **f))
                q(f"get_neighbors({n!r},{fname(f)})", lambda n=n, f=f: msort(h.get_neighbors(n, **f)))
        for w in [None, (0, 2), (1, 6), (2, 2)]:
            for alln in (False, True):
                q(f"subhypergraph(time_window={w},add_all_nodes={alln})",
                  lambda w=w, alln=alln: {str(t): hg_view(x) for t, x in h.subhypergraph(time_window=w, add_all_nodes=alln).items()})
        for wdt in WIDTHS:
            q(f"aggregate({wdt})", lambda wdt=wdt: {str(c): hg_view(x) for c, x in h.aggregate(wdt).items()})
        return o
