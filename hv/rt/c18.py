"""C18 -- random walks are stochastic and stationary; simplicial contagion is exact when deterministic (bounded).

Scope
* Random walk (transition_matrix, RW_stationary_state, random_walk_density, random_walk).  Exhaustive: every
  connected hypergraph whose node set is exactly 0..N-1, N <= 5, hyperedges of sizes 2..5, at most 4 hyperedges
  (quick: at most 3 hyperedges for N = 5).  Sampled beyond: seeded random connected hypergraphs on 6..10 nodes, sizes
  2..5, weighted and unweighted, hyperedges inserted as unsorted tuples in shuffled order (30 quick / 200 thorough).
  Per hypergraph: the matrix, the stationary state, densities for the N unit vectors, the uniform and one random
  starting density over horizon 6, and sampled walks of 8 steps (20 seeds with start = seed mod N; thorough: 4 more
  seeds from every start).
* simplicial_contagion.  Exhaustive: every hypergraph on the nodes 0..N-1 (all nodes present, isolated ones included)
  with hyperedges of sizes 2..5 and every initial condition, always with the 8 deterministic rate triples {0,1}^3:
  N <= 3 all hypergraphs and every horizon T = 1..6; N = 4 with <= 3 hyperedges (thorough: all 2048); N = 5 with <= 2
  hyperedges (thorough: <= 3); thorough additionally N = 5 with 4 hyperedges of sizes 2..3 for 4 sampled initial
  conditions each.  The 19 stochastic triples of {0,.3,1}^3 (those containing .3): all of them for N <= 3, for N = 4
  with <= 4 hyperedges (quick: <= 3) and, thorough, for N = 5 with <= 2 hyperedges of sizes 2..3; 6 sampled triples per
  input for N = 5 with <= 2 (quick) / exactly 3 (thorough) hyperedges of sizes 2..3.  For N >= 4: T = 6 for the
  deterministic triples, T cycling through 2..6 for the stochastic ones.  Sampled beyond: random hypergraphs on 6..9
  nodes with string / offset / plain labels, sizes 2..5, random initial conditions, all deterministic and 6 stochastic
  triples.

Oracle: written from the statement with exact rationals (fractions) and plain sets: W[i][j] = sum over hyperedges
containing i and j (i != j) of (size-1); the matrix clause is diagonal-agnostic (off-diagonal entries of row i equal
W[i][j] / sum_j W[i][j] times the off-diagonal mass of the row), the stationary state is compared with
sum_{e containing i} (size-1)^2 normalised.  The contagion reference is a synchronous set-based SIS step (pairs: a
susceptible node with an infected pairwise neighbour; triangles: both other members of a 3-node hyperedge infected;
recovery of every infected node when the recovery rate is 1; everything read from the old state).  Tolerances: 1e-12
absolute for the matrix, the density steps and the contagion fractions; 1e-9 for the stationary state and sums.

Known limits: for stochastic rates only range, start value and the two monotonicity claims are checked (one or two
seeds per input).  That the first density returned equals the starting density and the lengths of the returned lists
are not part of the statement and are not checked (the contagion trajectory is compared over the T values the
docstring promises).  The diagonal of the transition matrix is not pinned by the statement.
"""
import hashlib
import itertools
import multiprocessing
import os
import random as _pyrandom
import warnings
from fractions import Fraction

from .. import common

PROPERTY = "C18"

_L = {}
_CASES = []
TOL = 1e-12
TOL_PI = 1e-9
RATES = (0, 0.3, 1)


def _load():
    if _L:
        return _L
    common.use_repo()
    import numpy as np
    from hypergraphx import Hypergraph
    from hypergraphx.dynamics import randwalk
    from hypergraphx.dynamics.contagion import simplicial_contagion
    _L.update(np=np, Hypergraph=Hypergraph, rw=randwalk, simplicial_contagion=simplicial_contagion)
    return _L


def _derive(*parts):
    return int(hashlib.sha1(repr(parts).encode()).hexdigest()[:8], 16)


def _seed_globals(gseed):
    _pyrandom.seed(gseed)
    _L["np"].random.seed(gseed % (2 ** 32))


class _Rec:
    """Worker-side recorder with the ctx.check/ctx.fail interface; merged into the real ctx by the parent."""

    def __init__(self):
        self.clauses, self.fails, self.counts, self.perkey = {}, [], {}, {}

    def check(self, cond, function, clause, input, expected=None, observed=None, key=None, replay=None):
        k = f"{function}:{clause}"
        self.clauses[k] = self.clauses.get(k, 0) + 1
        if not cond:
            self.fail(function, clause, input, expected, observed, key, replay)
        return cond

    def fail(self, function, clause, input, expected=None, observed=None, key=None, replay=None):
        k = key or f"{function}:{clause}"
        self.perkey[k] = self.perkey.get(k, 0) + 1
        if self.perkey[k] <= 2:
            if isinstance(replay, dict):
                replay = dict(replay, _clause=clause)     # lets replay() report the clause that was recorded
            self.fails.append(dict(function=function, clause=clause, input=common.jsonable(input),
                                   expected=common.jsonable(expected), observed=common.jsonable(observed), key=key,
                                   replay=common.jsonable(replay)))

    def count(self, name, n=1):
        self.counts[name] = self.counts.get(name, 0) + n


def _call(_rec, _fn, _inp, _replay, _f, *a, **kw):
    try:
        v = _f(*a, **kw)
    except Exception as ex:      # noqa: BLE001 - every exception on an admissible input is reported
        _rec.check(False, _fn, "does not raise on admissible input", _inp, expected="returns",
                   observed=f"{type(ex).__name__}: {ex}", replay=_replay)
        return False, None
    _rec.check(True, _fn, "does not raise on admissible input", _inp)
    return True, v


# ------------------------------------------------------------------------------------------------------ random walk
def _connected_cover(N, edges):
    """Oracle: the hyperedges cover 0..N-1 and link them into one component (union-find)."""
    parent = list(range(N))

    def find(x):
        while parent[x] != x:
            parent[x] = parent[parent[x]]
            x = parent[x]
        return x

    seen = set()
    for e in edges:
        seen.update(e)
        for v in e[1:]:
            parent[find(v)] = find(e[0])
    return seen == set(range(N)) and len({find(v) for v in range(N)}) == 1


def _rw_oracle(N, edges):
    W = [[Fraction(0)] * N for _ in range(N)]
    S2 = [Fraction(0)] * N
    for e in edges:
        for i in e:
            S2[i] += (len(e) - 1) ** 2
            for j in e:
                if i != j:
                    W[i][j] += len(e) - 1
    return W, S2


def _build_rw(p):
    w = p.get("weights")
    h = _L["Hypergraph"](weighted=w is not None)
    for i, e in enumerate(p["edges"]):
        h.add_edge(tuple(e), weight=(w[i] if w is not None else None))
    return h


def _case_rw(rec, p):
    np, rw = _L["np"], _L["rw"]
    N, edges = p["N"], [tuple(e) for e in p["edges"]]
    inp = dict(N=N, edges=p["edges"], weights=p.get("weights"))
    h = _build_rw(p)
    W, S2 = _rw_oracle(N, edges)
    S = [sum(r) for r in W]
    share = [[i == j or W[i][j] > 0 for j in range(N)] for i in range(N)]
    # ---- transition_matrix
    fn = "dynamics.randwalk.transition_matrix"
    ok, K = _call(rec, fn, inp, p, rw.transition_matrix, h)
    Kf = None
    if ok:
        K = np.asarray(K.toarray() if hasattr(K, "toarray") else K, dtype=float)
        shape_ok = K.shape == (N, N)
        rows = K.sum(axis=1) if shape_ok else None
        rec.check(shape_ok and bool(np.all(np.isfinite(K))) and bool(np.all(K >= -TOL))
                  and bool(np.all(np.abs(rows - 1.0) <= TOL)), fn, "is row-stochastic", inp,
                  expected="N x N, entries >= 0, rows sum to 1 (1e-12)",
                  observed=dict(shape=list(K.shape), row_sums=(rows.tolist() if shape_ok else None),
                                min=float(K.min()) if K.size else None), replay=p)
        if shape_ok:
            devs = [abs(K[i, j] - float(W[i][j] / S[i]) * (1.0 - K[i, i]))
                    for i in range(N) for j in range(N) if i != j]
            rec.check(all(d <= TOL for d in devs), fn,
                      "entry (i, j) proportional to the sum over common hyperedges of (size - 1)", inp,
                      expected=[[float(W[i][j] / S[i]) for j in range(N)] for i in range(N)],
                      observed=dict(matrix=K.tolist(), deviation=max(devs, default=0.0)), replay=p)
            Kf = K
    # ---- RW_stationary_state
    fn = "dynamics.randwalk.RW_stationary_state"
    ok, pi = _call(rec, fn, inp, p, rw.RW_stationary_state, h)
    if ok:
        pi = np.asarray(pi, dtype=float).ravel()
        good = pi.shape == (N,) and bool(np.all(np.isfinite(pi)))
        rec.check(good and bool(np.all(pi >= -TOL_PI)) and abs(float(pi.sum()) - 1.0) <= TOL_PI, fn,
                  "is a probability vector", inp, expected="N entries >= 0 summing to 1 (1e-9)",
                  observed=pi.tolist(), replay=p)
        if good:
            if Kf is not None:
                dev = float(np.max(np.abs(pi @ Kf - pi)))
                rec.check(dev <= TOL_PI, fn, "is fixed by the transition matrix", inp, expected="pi K = pi (1e-9)",
                          observed=dict(pi=pi.tolist(), piK=(pi @ Kf).tolist(), deviation=dev), replay=p)
            tot = sum(S2)
            exp = [float(x / tot) for x in S2]
            dev = max(abs(a - b) for a, b in zip(pi.tolist(), exp))
            rec.check(dev <= TOL_PI, fn, "is proportional to the sum over a node's hyperedges of (size - 1)^2", inp,
                      expected=exp, observed=dict(pi=pi.tolist(), deviation=dev), replay=p)
    # ---- random_walk_density
    fn = "dynamics.randwalk.random_walk_density"
    rng = _pyrandom.Random(p["gseed"])
    starts = [[1.0 if i == k else 0.0 for i in range(N)] for k in range(N)]
    starts.append([1.0 / N] * N)
    r = [rng.random() + 0.01 for _ in range(N)]
    starts.append([x / sum(r) for x in r])
    nsub = 0
    # (vector, dtype): the one-hot start on node 0 is also given as an integer array, a density like any other
    typed = [(s0, float) for s0 in starts] + [([1 if i == 0 else 0 for i in range(N)], int)]
    for s0, dt in typed:
        dinp = dict(inp, start=s0, dtype=dt.__name__, time=p["T"])
        ok, dens = _call(rec, fn, dinp, p, rw.random_walk_density, h, np.array(s0, dtype=dt), p["T"])
        nsub += 1
        if not ok:
            continue
        dens = [np.asarray(d, dtype=float).ravel() for d in dens]
        bad_sum = [t for t, d in enumerate(dens) if not abs(float(d.sum()) - 1.0) <= TOL_PI]
        rec.check(not bad_sum, fn, "every density sums to one", dinp, expected="sum = 1 (1e-9)",
                  observed=dict(steps=bad_sum, densities=[d.tolist() for d in dens]), replay=p)
        if Kf is not None:
            bad = [t for t in range(1, len(dens))
                   if dens[t].shape != (N,) or not float(np.max(np.abs(dens[t] - dens[t - 1] @ Kf))) <= TOL]
            rec.check(not bad, fn, "every density is the previous one times the transition matrix", dinp,
                      expected="d[t] = d[t-1] K (1e-12)", observed=dict(steps=bad, densities=[d.tolist() for d in dens]),
                      replay=p)
    # ---- random_walk
    fn = "dynamics.randwalk.random_walk"
    for start, sd in p["walks"]:
        winp = dict(inp, start=start, time=p["steps"], numpy_seed=_derive(p["gseed"], "walk", start, sd))
        _seed_globals(winp["numpy_seed"])
        ok, walk = _call(rec, fn, winp, p, rw.random_walk, h, start, p["steps"])
        nsub += 1
        if not ok:
            continue
        walk = [int(v) for v in walk]
        bad = [[a, b] for a, b in zip(walk, walk[1:]) if not (0 <= a < N and 0 <= b < N and share[a][b])]
        rec.check(not bad, fn, "only steps between nodes sharing a hyperedge", winp, expected="every step inside a hyperedge",
                  observed=dict(walk=walk, bad_steps=bad), replay=p)
    rec.count("random-walk sub-inputs (densities, sampled walks)", nsub)
    return [N >= 3]


# -------------------------------------------------------------------------------------------------------- contagion
def _ref_contagion(nodes, edges, I0, T, beta, beta_D, mu):
    """Synchronous reference for rates in {0, 1}, written from the statement (sets only, old state read)."""
    infected = {v for v in nodes if I0[v] == 1}
    out = [len(infected) / len(nodes)]
    for _ in range(1, T):
        new = set()
        for v in nodes:
            if v in infected:
                if mu == 0:
                    new.add(v)
                continue
            others = [set(e) - {v} for e in edges if v in e]
            pair = beta == 1 and any(len(o) == 1 and o <= infected for o in others)
            tri = beta_D == 1 and any(len(o) == 2 and o <= infected for o in others)
            if pair or tri:
                new.add(v)
        infected = new
        out.append(len(infected) / len(nodes))
    return out


def _build_sc(p):
    h = _L["Hypergraph"]()
    h.add_nodes(list(p["nodes"]))
    for e in p["edges"]:
        h.add_edge(tuple(e))
    return h


def _case_sc(rec, p):
    np, sc = _L["np"], _L["simplicial_contagion"]
    fn = "dynamics.contagion.simplicial_contagion"
    nodes = list(p["nodes"])
    edges = [tuple(e) for e in p["edges"]]
    I0 = {v: int(x) for v, x in zip(nodes, p["I0"])}
    h = _build_sc(p)
    flags = []
    n_inf = sum(I0.values())
    for run in p["runs"]:
        T, b, bD, mu, draw = run
        single = dict(p, runs=[run])
        inp = dict(nodes=nodes, edges=p["edges"], I0=p["I0"], T=T, beta=b, beta_D=bD, mu=mu,
                   numpy_seed=_derive(p["gseed"], T, b, bD, mu, draw))
        _seed_globals(inp["numpy_seed"])
        ok, out = _call(rec, fn, inp, single, sc, h, dict(I0), T, b, bD, mu)
        flags.append(bool(edges) and n_inf > 0 and T >= 2)
        if not ok:
            continue
        out = [float(x) for x in np.asarray(out, dtype=float).ravel()]
        rec.check(all(0.0 <= x <= 1.0 for x in out), fn, "fractions lie in [0, 1]", inp, expected="0 <= x <= 1",
                  observed=out, replay=single)
        rec.check(len(out) >= 1 and abs(out[0] - n_inf / len(nodes)) <= TOL, fn, "starts at the initial infected fraction",
                  inp, expected=n_inf / len(nodes), observed=out, replay=single)
        if mu == 0:
            rec.check(all(y >= x - TOL for x, y in zip(out, out[1:])), fn, "never decreases when the recovery rate is 0",
                      inp, expected="non-decreasing", observed=out, replay=single)
        if b == 0 and bD == 0:
            rec.check(all(y <= x + TOL for x, y in zip(out, out[1:])), fn,
                      "never increases when both infection rates are 0", inp, expected="non-increasing", observed=out,
                      replay=single)
        if all(r in (0, 1) for r in (b, bD, mu)):
            ref = _ref_contagion(nodes, edges, I0, T, b, bD, mu)
            rec.check(len(out) == len(ref) and all(abs(x - y) <= TOL for x, y in zip(out, ref)), fn,
                      "deterministic regime reproduces the synchronous pair/triangle spreading exactly", inp,
                      expected=ref, observed=out, replay=single)
    return flags


_KINDS = dict(rw=_case_rw, sc=_case_sc)


def _run_case(rec, p):
    np = _L["np"]
    with warnings.catch_warnings():
        warnings.simplefilter("ignore")
        with np.errstate(all="ignore"):
            return _KINDS[p["kind"]](rec, p)


# ------------------------------------------------------------------------------------------------------- case lists
def _all_edges(N, smin=2, smax=5):
    return [list(c) for s in range(smin, min(smax, N) + 1) for c in itertools.combinations(range(N), s)]


def _gen_cases(ctx):
    rng = _pyrandom.Random(_derive(ctx.seed, "c18-gen"))
    quick = ctx.quick
    cases = []

    def add(p):
        p["gseed"] = _derive(ctx.seed, p["kind"], len(cases))
        cases.append(p)

    # ---- random walk: exhaustive small scope
    for N in range(2, 6):
        pool = _all_edges(N)
        kmax = 4 if (N < 5 or not quick) else 3
        for k in range(1, kmax + 1):
            for es in itertools.combinations(pool, k):
                if not _connected_cover(N, es):
                    continue
                if quick:
                    walks = [[sd % N, sd] for sd in range(20)]
                else:
                    walks = [[sd % N, sd] for sd in range(20)] + [[s, 20 + sd] for s in range(N) for sd in range(4)]
                add(dict(kind="rw", N=N, edges=[list(e) for e in es], T=6, steps=8, walks=walks))
    # ---- random walk: sampled larger
    for i in range(30 if quick else 200):
        N = rng.randint(6, 10)
        while True:
            es = set()
            for _ in range(rng.randint(3, 12)):
                es.add(tuple(sorted(rng.sample(range(N), rng.randint(2, 5)))))
            es = sorted(es)
            if _connected_cover(N, es):
                break
        es = [list(e) for e in es]
        rng.shuffle(es)
        for e in es:
            rng.shuffle(e)
        p = dict(kind="rw", N=N, edges=es, T=6, steps=8, walks=[[rng.randrange(N), sd] for sd in range(20)])
        if i % 2:
            p["weights"] = [rng.choice([0.5, 1.0, 2.0, 4.0]) for _ in es]
        add(p)
    # ---- contagion: exhaustive small scope
    triples = list(itertools.product(RATES, repeat=3))
    det = [t for t in triples if all(r in (0, 1) for r in t)]
    sto = [t for t in triples if t not in det]
    cyc = itertools.cycle(range(2, 7))

    def runs_for(N, sto_triples):
        rs = []
        for b, bD, mu in det:
            for T in (range(1, 7) if N <= 3 else (6,)):
                rs.append([T, b, bD, mu, 0])
        for b, bD, mu in sto_triples:
            for T in (range(1, 7) if N <= 3 else (next(cyc),)):
                for d in ((0, 1) if (N <= 3 and not quick) else (0,)):
                    rs.append([T, b, bD, mu, d])
        return rs

    for N in range(1, 6):
        nodes = list(range(N))
        pool = _all_edges(N)
        if N <= 3:
            kmax = len(pool)
        elif N == 4:
            kmax = 3 if quick else len(pool)
        else:
            kmax = 2 if quick else 3
        for k in range(0, kmax + 1):
            for es in itertools.combinations(pool, k):
                small_sizes = all(len(e) <= 3 for e in es)
                for I0 in itertools.product((0, 1), repeat=N):
                    if N <= 3 or (N == 4 and k <= 4):
                        st = sto
                    elif not small_sizes or N == 4:
                        st = []
                    elif quick or k == 3:
                        st = rng.sample(sto, 6)
                    else:
                        st = sto
                    add(dict(kind="sc", nodes=nodes, edges=[list(e) for e in es], I0=list(I0), runs=runs_for(N, st)))
        if N == 5 and not quick:
            pool23 = _all_edges(N, 2, 3)
            ics = list(itertools.product((0, 1), repeat=N))
            for es in itertools.combinations(pool23, 4):
                for I0 in rng.sample(ics, 4):
                    add(dict(kind="sc", nodes=nodes, edges=[list(e) for e in es], I0=list(I0),
                             runs=runs_for(N, [])))
    # ---- contagion: sampled larger, other label kinds
    for i in range(40 if quick else 400):
        N = rng.randint(6, 9)
        style = ("str", "offset", "int")[i % 3]
        nodes = {"str": ["v%d" % j for j in range(N)], "offset": [5 + 4 * j for j in range(N)],
                 "int": list(range(N))}[style]
        es = set()
        for _ in range(rng.randint(3, 14)):
            es.add(tuple(sorted(rng.sample(nodes, rng.choice([2, 2, 2, 3, 3, 3, 4, 5])))))
        es = [list(e) for e in sorted(es)]
        rng.shuffle(es)
        for _ in range(4):
            I0 = [1 if rng.random() < rng.choice([0.15, 0.4, 0.7]) else 0 for _ in nodes]
            rs = [[6, b, bD, mu, 0] for b, bD, mu in det] + [[rng.randint(2, 6)] + list(rng.choice(sto)) + [0]
                                                             for _ in range(6)]
            add(dict(kind="sc", nodes=nodes, edges=es, I0=I0, runs=rs))
    return cases


# ------------------------------------------------------------------------------------------------------- execution
def _work(span):
    lo, hi = span
    rec = _Rec()
    flags = []
    for i in range(lo, hi):
        flags.append(_run_case(rec, _CASES[i]))
    return flags, rec.clauses, rec.fails, rec.counts, rec.perkey


def _descs(p):
    if p["kind"] == "rw":
        d = dict(kind="rw", N=p["N"], edges=p["edges"])
        if p.get("weights"):
            d["weights"] = p["weights"]
        return [d]
    head = "contagion nodes=%s edges=%s I0=%s" % (p["nodes"], p["edges"], "".join(map(str, p["I0"])))
    return ["%s T=%d beta=%s beta_D=%s mu=%s draw=%d" % ((head,) + tuple(r)) for r in p["runs"]]


def run(ctx):
    _load()
    ctx.rule("random walk: one case = one connected hypergraph (matrix, stationary state, N+2 starting densities over "
             "horizon 6, 20 or 20+4*N seeded walks of 8 steps); non-trivial = at least 3 nodes. contagion: one case = "
             "(hypergraph, initial condition, T, rate triple, draw); non-trivial = at least one hyperedge, at least one "
             "infected node and T >= 2")
    ctx.assume("tolerances: 1e-12 absolute for transition-matrix entries, density steps and contagion fractions; 1e-9 for "
               "the stationary state (entries, sum, pi K = pi) and for density sums")
    ctx.assume("fractions.Fraction arithmetic and the union-find connectivity test of the driver are trusted")
    ctx.assume("numpy.random / random are seeded from sha1(ctx.seed, case, run) before every randomised call")
    ctx.assume("density steps and pi K = pi are evaluated with the matrix returned by transition_matrix (itself checked "
               "against the rational oracle)")
    global _CASES
    _CASES = _gen_cases(ctx)
    n = len(_CASES)
    step = 200
    spans = [(i, min(n, i + step)) for i in range(0, n, step)]
    procs = max(1, min(16, os.cpu_count() or 1))
    if procs > 1 and n > step:
        with multiprocessing.get_context("fork").Pool(procs) as pool:
            results = pool.map(_work, spans, chunksize=1)
    else:
        results = [_work(s) for s in spans]
    forwarded = {}
    for (lo, hi), (flags, clauses, fails, counts, perkey) in zip(spans, results):
        for i, fl in zip(range(lo, hi), flags):
            p = _CASES[i]
            ds = _descs(p)
            for d, nt in zip(ds, fl):
                ctx.case(d, nontrivial=nt)
            ctx.count("cases:" + ("random walk hypergraphs" if p["kind"] == "rw" else "contagion runs"), len(ds))
        for k, v in clauses.items():
            ctx.contract_evals[k] = ctx.contract_evals.get(k, 0) + v
        for k, v in counts.items():
            ctx.count(k, v)
        for k, v in perkey.items():
            ctx.count("failures:" + k, v)
        for f in fails:
            key = f["key"] or f"{f['function']}:{f['clause']}"
            forwarded[key] = forwarded.get(key, 0) + 1
            if forwarded[key] <= 2:
                ctx.fail(f["function"], f["clause"], f["input"], f["expected"], f["observed"], f["key"], f["replay"])
    ctx.exhaustive_parts.append("random walk: every connected hypergraph with node set exactly 0..N-1, N <= 5, sizes 2..5, "
                                "<= %s hyperedges" % ("4 (N <= 4) / 3 (N = 5)" if ctx.quick else "4"))
    ctx.exhaustive_parts.append("contagion, deterministic rate triples {0,1}^3, every initial condition: every hypergraph "
                                "on nodes 0..N-1 with hyperedges of sizes 2..5 for N <= 3 (every T = 1..6), N = 4 with %s, "
                                "N = 5 with <= %d hyperedges (T = 6); all 27 triples of {0,.3,1}^3 for N <= 3 and for N = 4 "
                                "with <= %d hyperedges"
                                % ("<= 3 hyperedges" if ctx.quick else "any number of hyperedges", 2 if ctx.quick else 3,
                                   3 if ctx.quick else 4))
    _CASES = []


def replay(data):
    _load()
    rec = _Rec()
    _run_case(rec, data)
    if rec.fails:
        want = data.get("_clause") if isinstance(data, dict) else None
        f = ([x for x in rec.fails if x["clause"] == want] or rec.fails)[0]
        return False, (f"{f['function']}: clause '{f['clause']}' fails; expected {str(f['expected'])[:300]} "
                       f"observed {str(f['observed'])[:300]}")
    return True, "all contract clauses hold on this input (%d clause evaluations)" % sum(rec.clauses.values())
