"""Adaptor of hypergraphx.MultiplexHypergraph for the history explorer.
Ghost (statement of C04): set of nodes, map (frozenset, layer) -> [weight, metadata], node metadata."""
import copy
from .containers import Reject, Unspecified, UNKNOWN, msort, tuplify
from .ad_temporal import hg_view
from .ad_hypergraph import FILTERS, fname, sel


class Ghost:
    def __init__(self, weighted):
        self.weighted = weighted
        self.V = set()
        self.E = {}     # (frozenset, layer) -> [w, md]
        self.NM = {}
        self.layers = set()


def show(k):
    return [sorted(k[0]), k[1]]


class MultiplexAdaptor:
    name = "MultiplexHypergraph"

    def __init__(self, universe, probe_edges, layers=("a", "b", "c")):
        self.universe = list(universe)
        self.probe_edges = [tuple(e) for e in probe_edges]
        self.layers = list(layers)

    def new_real(self, config):
        from hypergraphx import MultiplexHypergraph
        return MultiplexHypergraph(weighted=config["weighted"])

    def new_ghost(self, config):
        return Ghost(config["weighted"])

    def function_of(self, op):
        return f"MultiplexHypergraph.{op[0]}"

    def partial_key(self, op):
        if op[0] in ("add_nodes", "add_edges"):
            return f"MultiplexHypergraph.{op[0]}:batch-applied-partially-before-raising"
        return None

    def g_add_node(self, g, n, md=None):
        if n not in g.V:
            g.V.add(n)
            g.NM[n] = copy.deepcopy(md) if md is not None else {}
        elif md is not None and g.NM[n] != md:
            g.NM[n] = UNKNOWN

    def g_add_edge(self, g, nodes, layer, w=None, md=None):
        nodes = tuple(nodes)
        if len(set(nodes)) != len(nodes) or not nodes:
            raise Reject()
        if not g.weighted and w is not None and w != 1:
            raise Reject()
        k = (frozenset(nodes), layer)
        g.layers.add(layer)
        for n in nodes:
            self.g_add_node(g, n)
        if k not in g.E:
            g.E[k] = [(w if w is not None else 1) if g.weighted else 1, copy.deepcopy(md) if md is not None else {}]
        else:
            if g.weighted:
                g.E[k][0] += (w if w is not None else 1)
            g.E[k][1] = copy.deepcopy(md) if md is not None else UNKNOWN

    def g_remove_node(self, g, n, keep):
        if n not in g.V:
            raise Reject()
        inc = [k for k in g.E if n in k[0]]
        if keep:
            for k in inc:
                w, md = g.E[k]
                rest = k[0] - {n}
                if rest:
                    k2 = (rest, k[1])
                    if k2 in g.E:
                        if g.weighted:
                            g.E[k2][0] += w
                        g.E[k2][1] = UNKNOWN
                    else:
                        g.E[k2] = [w, md]
        for k in inc:
            del g.E[k]
        g.V.discard(n)
        g.NM.pop(n, None)

    def apply_ghost(self, g, op):
        op = tuplify(op)
        name, a = op[0], op[1:]
        key = lambda e, l: (frozenset(e), l)
        if name == "add_node":
            self.g_add_node(g, a[0], a[1] if len(a) > 1 else None)
        elif name == "add_nodes":
            for n in a[0]:
                self.g_add_node(g, n)
        elif name == "add_edge":
            self.g_add_edge(g, *a)
        elif name == "add_edges":
            edges, ls = a[0], a[1]
            ws = a[2] if len(a) > 2 else None
            if ws is not None and not g.weighted:
                raise Unspecified()
            if len(edges) != len(ls) or (ws is not None and len(ws) != len(edges)):
                raise Unspecified()
            if ws is not None and len(set(zip([tuple(e) for e in edges], ls))) != len(edges):
                raise Reject()
            for e in edges:
                if len(set(e)) != len(e) or not e:
                    raise Reject()
            for i, (e, l) in enumerate(zip(edges, ls)):
                self.g_add_edge(g, e, l, ws[i] if ws is not None else None)
        elif name == "remove_edge":
            if key(a[0], a[1]) not in g.E:
                raise Reject()
            del g.E[key(a[0], a[1])]
        elif name == "remove_node":
            self.g_remove_node(g, a[0], a[1] if len(a) > 1 else False)
        elif name == "set_weight":
            k = key(a[0], a[1])
            if k not in g.E or (not g.weighted and a[2] != 1):
                raise Reject()
            g.E[k][0] = a[2]
        elif name == "set_attr_node":
            if a[0] not in g.V:
                raise Reject()
            if g.NM[a[0]] != UNKNOWN:
                g.NM[a[0]][a[1]] = a[2]
        elif name == "set_attr_edge":
            k = key(a[0], a[1])
            if k not in g.E:
                raise Reject()
            if g.E[k][1] != UNKNOWN:
                g.E[k][1][a[2]] = a[3]
        elif name == "del_attr_node":
            if a[0] not in g.V:
                raise Reject()
            if g.NM[a[0]] == UNKNOWN:
                raise Unspecified()
            if a[1] not in g.NM[a[0]]:
                raise Reject()
            del g.NM[a[0]][a[1]]
        elif name == "del_attr_edge":
            k = key(a[0], a[1])
            if k not in g.E:
                raise Reject()
            if g.E[k][1] == UNKNOWN:
                raise Unspecified()
            if a[2] not in g.E[k][1]:
                raise Reject()
            del g.E[k][1][a[2]]
        else:
            raise ValueError(name)

    def apply_real(self, h, op):
        op = tuplify(op)
        name, a = op[0], op[1:]
        md = lambda x: copy.deepcopy(x) if x is not None else None
        if name == "add_node":
            h.add_node(a[0], md(a[1])) if len(a) > 1 else h.add_node(a[0])
        elif name == "add_nodes":
            h.add_nodes(list(a[0]))
        elif name == "add_edge":
            kw = {}
            if len(a) > 2 and a[2] is not None:
                kw["weight"] = a[2]
            if len(a) > 3 and a[3] is not None:
                kw["metadata"] = md(a[3])
            h.add_edge(tuple(a[0]), a[1], **kw)
        elif name == "add_edges":
            kw = {}
            if len(a) > 2 and a[2] is not None:
                kw["weights"] = list(a[2])
            h.add_edges([tuple(e) for e in a[0]], list(a[1]), **kw)
        elif name == "remove_edge":
            h.remove_edge((tuple(a[0]), a[1]))
        elif name == "remove_node":
            h.remove_node(a[0], keep_edges=a[1] if len(a) > 1 else False)
        elif name == "set_weight":
            h.set_weight(tuple(a[0]), a[1], a[2])
        elif name == "set_attr_node":
            h.set_attr_to_node_metadata(a[0], a[1], a[2])
        elif name == "set_attr_edge":
            h.set_attr_to_edge_metadata(tuple(a[0]), a[1], a[2], a[3])
        elif name == "del_attr_node":
            h.remove_attr_from_node_metadata(a[0], a[1])
        elif name == "del_attr_edge":
            h.remove_attr_from_edge_metadata(tuple(a[0]), a[1], a[2])
        else:
            raise ValueError(name)
        return None

    def observe_ghost(self, g):
        o = {}
        V, E = g.V, g.E
        o["get_nodes()"] = msort(V)
        o["is_weighted()"] = g.weighted
        o["get_nodes(metadata=True)"] = {repr(n): g.NM[n] for n in V}
        o["get_edges()"] = msort(show(k) for k in E)
        o["get_edges(metadata=True)"] = {repr(show(k)): E[k][1] for k in E}
        o["get_existing_layers()>=layers in use"] = True
        for e in self.probe_edges:
            for l in self.layers:
                k = (frozenset(e), l)
                if k in E:
                    o[f"get_weight({e!r},{l!r})"] = E[k][0]
                    o[f"get_edge_metadata({e!r},{l!r})"] = E[k][1]
                else:
                    o[f"get_weight({e!r},{l!r})"] = "<raised ValueError>"
            o[f"edge_overlap({e!r})"] = sum(E[k][0] for k in E if k[0] == frozenset(e))
        o["degree_sequence()"] = {repr(n): sum(1 for k in E if n in k[0]) for n in V}
        for n in V:
            inc = [k for k in E if n in k[0]]
            o[f"get_incident_edges({n!r})"] = msort(show(k) for k in inc)
            o[f"degree({n!r})"] = len(inc)
        for f in FILTERS[1:]:
            o[f"degree_sequence({fname(f)})"] = {repr(n): sum(1 for k in E if n in k[0] and sel(len(k[0]), f)) for n in V}
            for n in V:
                inc = [k for k in E if n in k[0] and sel(len(k[0]), f)]
                o[f"get_incident_edges({n!r},{fname(f)})"] = msort(show(k) for k in inc)
                o[f"degree({n!r},{fname(f)})"] = len(inc)
        agg = {}
        for k in E:
            agg[k[0]] = (agg.get(k[0], 0) + E[k][0]) if g.weighted else 1
        o["aggregated_hypergraph()"] = dict(nodes=msort(V), weighted=g.weighted, edges={repr(sorted(e)): w for e, w in agg.items()})
        o["aggregation and overlap leave the hypergraph metadata unchanged"] = True
        return o

    def observe_real(self, h, g=None):
        from hypergraphx.measures.multiplex.overlap import edge_overlap
        o = {}

        def q(key, fn):
            try:
                o[key] = fn()
            except Exception as ex:     # noqa: BLE001
                o[key] = f"<raised {type(ex).__name__}>"

        S = lambda e: [sorted(e[0]), e[1]]
        q("get_nodes()", lambda: msort(h.get_nodes()))
        q("is_weighted()", lambda: h.is_weighted())
        q("get_nodes(metadata=True)", lambda: {repr(n): m for n, m in h.get_nodes(metadata=True).items()})
        q("get_edges()", lambda: msort(S(e) for e in h.get_edges()))
        q("get_edges(metadata=True)", lambda: {repr(S(k)): v for k, v in h.get_edges(metadata=True).items()})
        q("get_existing_layers()>=layers in use", lambda: {e[1] for e in h.get_edges()} <= set(h.get_existing_layers()))
        nodes = list(h.get_nodes())
        for e in self.probe_edges:
            for l in self.layers:
                q(f"get_weight({e!r},{l!r})", lambda e=e, l=l: h.get_weight(e, l))
                if not isinstance(o[f"get_weight({e!r},{l!r})"], str):
                    q(f"get_edge_metadata({e!r},{l!r})", lambda e=e, l=l: h.get_edge_metadata(e, l))
            q(f"edge_overlap({e!r})", lambda e=e: edge_overlap(h, e))
        q("degree_sequence()", lambda: {repr(n): d for n, d in h.degree_sequence().items()})
        for n in nodes:
            q(f"get_incident_edges({n!r})", lambda n=n: msort(S(e) for e in h.get_incident_edges(n)))
            q(f"degree({n!r})", lambda n=n: h.degree(n))
        for f in FILTERS[1:]:
            q(f"degree_sequence({fname(f)})", lambda f=f: {repr(n): d for n, d in h.degree_sequence(**f).items()})
            for n in nodes:
                q(f"get_incident_edges({n!r},{fname(f)})", lambda n=n, f=f: msort(S(e) for e in h.get_incident_edges(n, **f)))
                q(f"degree({n!r},{fname(f)})", lambda n=n, f=f: h.degree(n, **f))
        hm0 = copy.deepcopy(h.get_hypergraph_metadata())      # taken before the derivations below: they must not write into it
        q("aggregated_hypergraph()", lambda: hg_view(h.aggregated_hypergraph()))
        q("get_hypergraph_metadata()", lambda: copy.deepcopy(h.get_hypergraph_metadata()))
        q("aggregation and overlap leave the hypergraph metadata unchanged", lambda: copy.deepcopy(h.get_hypergraph_metadata()) == hm0)
        return o
