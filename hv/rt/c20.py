"""C20 (bounded): centralities are the advertised functionals of the hypergraph's projections.

Functions under contract (real code of /repo):
  measures.s_centralities: s_betweenness, s_closeness, s_betweenness_nodes, s_closeness_nodes, s_betweenness_averaged,
  s_closeness_averaged, s_betweenness_nodes_averaged, s_closenness_nodes_averaged;
  measures.sub_hypergraph_centrality.subhypergraph_centrality; measures.eigen_centralities: CEC_centrality, HEC_centrality.

Scope
  static      exhaustive: every Hypergraph on nodes {0..n-1} (all nodes present -> isolated nodes) with <= m distinct
              hyperedges, quick (n, m) = (1,1) (2,3) (3,3) (4,3) (5,2), thorough (1,1) (2,3) (3,7 = all) (4,4) (5,3);
              s in {1,2,3} for the hyperedge centralities.  Sampled: seeded random hypergraphs with 5..9 nodes, 3..8
              hyperedges of size 1..6, integer (0..N-1 / sparse / negative) or string labels (some containing the
              capital letters E and N that the implementation uses as vertex-name prefixes), weighted containers.
              Every instance is also run under one seeded relabelling (permutation of its labels, or a move to
              another label alphabet) and the two results are compared through the relabelling.
  temporal    exhaustive: every TemporalHypergraph whose timed hyperedges are drawn from (all non-empty subsets of an
              n-node label set) x (times {1, 4}) with <= 3 timed hyperedges, quick n = 3, thorough n = 4, under three
              label alphabets (integers, lower-case strings, strings some of which contain "E"); sampled: random ones
              with 4..7 nodes, up to 4 distinct sparse times, repeated hyperedges across times, isolated nodes, weights.
  eigen       exhaustive: every connected k-uniform hypergraph covering {0..N-1}, k in {3,4}, N <= 6, with <= m
              hyperedges (quick m <= 4 for N <= 5 and <= 3 for N = 6; thorough <= 5 resp. <= 4), plus seeded random
              denser ones on N in {5,6}; each with 3 (quick) / 10 (thorough) seeded states of numpy's global RNG.
Oracle
  * s-line graph / bipartite graph built here from the set definitions (vertex = hyperedge as frozenset / tagged
    node), handed to networkx.betweenness_centrality / closeness_centrality (default parameters; trusted);
    temporal: snapshots = the timed hyperedges reported by get_edges() grouped by time, expected = sum / #snapshots.
  * sub-hypergraph centrality: A[i][j] = number of hyperedges containing both nodes (zero diagonal) in the node order
    of the public adjacency_matrix(return_mapping=True) mapping; expected = c + log(diag(scipy.linalg.expm(A - cI))), c = largest eigenvalue (no overflow), 1e-8;
    plus two dense complete uniform hypergraphs (spectral radius 168 and 840).
  * CEC: W[i][j] = number of hyperedges containing both; lambda_max from numpy.linalg.eigvalsh; residual
    max|Wc - lambda_max c| / max|Wc| <= 1e-4.  HEC: lhs_i = sum over hyperedges at i of the product of the other
    members' scores, rhs_i = c_i^(k-1), mu = least-squares multiple, residual max|lhs - mu rhs| / max|lhs| <= 1e-4.
    Both only on instances on which an independent long-run fixed-point iteration written here (uniform start, up to
    20000 resp. 5000 steps, step tolerance 1e-13) converges to a positive vector; the others are counted and skipped.
Limits
  * "all random initialisations" is sampled by a few seeds of the global RNG; convergence is never proved.
  * normalisation: the statement does not say which norm; a result passes if its 1-norm or its 2-norm is 1 (1e-9).
  * relabelling invariance of CEC/HEC is not compared value by value (the result depends on the random start and
    only agrees up to the convergence error); it is covered indirectly because every labelled instance, hence every
    relabelling of it inside 0..N-1, is enumerated and must satisfy the eigen-equation whose positive solution is unique.
  * isolated nodes of a TemporalHypergraph (in no snapshot) may be absent from the node averages or present with 0.
  * hypergraphs without nodes are not generated.
"""
import contextlib
import io
import itertools
import math
import random
import zlib

PROPERTY = "C20"
RAISES = "does not raise on admissible input"
S_VALUES = (1, 2, 3)
TOL = 1e-9


# ------------------------------------------------------------------------------------------------ plumbing
class Sink:
    """Collects cases / clause evaluations / failures (in a worker or in replay); merged into ctx by the parent."""

    def __init__(self):
        self.cases, self.clauses, self.fails, self.counts = [], {}, [], {}
        self._per_key = {}

    def case(self, desc, nontrivial=True):
        self.cases.append((desc, nontrivial))

    def count(self, name, n=1):
        self.counts[name] = self.counts.get(name, 0) + n

    def fail(self, function, clause, input, expected=None, observed=None, key=None, replay=None):
        key = key or f"{function}:{clause}"
        n = self._per_key.get(key, 0)
        self._per_key[key] = n + 1
        if n < 3:
            if isinstance(replay, dict):
                replay = dict(replay, clause=clause)
            self.fails.append(dict(function=function, clause=clause, input=input, expected=_j(expected),
                                   observed=_j(observed), key=key, replay=replay))

    def check(self, cond, function, clause, input, expected=None, observed=None, key=None, replay=None):
        name = f"{function}:{clause}"
        self.clauses[name] = self.clauses.get(name, 0) + 1
        if not cond:
            self.fail(function, clause, input, expected, observed, key, replay)
        return cond

    def merge_into(self, ctx, seen=None):
        """seen: key -> number already forwarded; ctx keeps only 50 violations in all, so forward two per key."""
        seen = {} if seen is None else seen
        for d, nt in self.cases:
            ctx.case(d, nt)
        for k, n in self.clauses.items():
            ctx.contract_evals[k] = ctx.contract_evals.get(k, 0) + n
        for k, n in self.counts.items():
            ctx.count(k, n)
        for f in self.fails:
            if seen.get(f["key"], 0) < 2:
                seen[f["key"]] = seen.get(f["key"], 0) + 1
                ctx.fail(**f)


def _j(x):
    if isinstance(x, (frozenset, set)):
        return sorted((_j(v) for v in x), key=repr)
    if isinstance(x, (list, tuple)):
        return [_j(v) for v in x]
    if isinstance(x, dict):
        return {(k if isinstance(k, str) else repr(_j(k))): _j(v) for k, v in x.items()}
    if isinstance(x, (str, int, bool)) or x is None:
        return x
    try:
        return float(x)
    except Exception:  # noqa: BLE001
        return repr(x)


_REPO = None


def _repo():
    global _REPO
    if _REPO is None:
        import networkx as nx
        import numpy as np
        import scipy.linalg as sla
        from hypergraphx import Hypergraph, TemporalHypergraph
        from hypergraphx.measures import s_centralities as SC
        from hypergraphx.measures.sub_hypergraph_centrality import subhypergraph_centrality
        from hypergraphx.measures import eigen_centralities as EC

        class R:
            pass
        R.nx, R.np, R.sla, R.Hypergraph, R.TemporalHypergraph, R.SC, R.sub, R.EC = (
            nx, np, sla, Hypergraph, TemporalHypergraph, SC, subhypergraph_centrality, EC)
        _REPO = R
    return _REPO


def _close(a, b, tol=TOL):
    try:
        a, b = float(a), float(b)
    except Exception:  # noqa: BLE001
        return False
    if math.isnan(a) or math.isnan(b):
        return False
    return abs(a - b) <= tol * max(1.0, abs(b))


def _guard(sink, fname, inp, rp, thunk):
    try:
        out = thunk()
    except Exception as ex:  # noqa: BLE001
        sink.check(False, fname, RAISES, inp, expected="a result", observed=f"{type(ex).__name__}: {ex}", replay=rp)
        return False, None
    sink.check(True, fname, RAISES, inp)
    return True, out


# ------------------------------------------------------------------------------------------------ oracles
def _line_graph(E, s):
    nx = _repo().nx
    G = nx.Graph()
    E = sorted(E, key=lambda e: sorted(map(repr, e)))
    G.add_nodes_from(E)
    for e, f in itertools.combinations(E, 2):
        if len(e & f) >= s:
            G.add_edge(e, f)
    return G


def _bipartite(N, E):
    nx = _repo().nx
    G = nx.Graph()
    G.add_nodes_from(("n", v) for v in sorted(N, key=repr))
    for e in sorted(E, key=lambda e: sorted(map(repr, e))):
        G.add_node(("e", e))
        for v in e:
            G.add_edge(("e", e), ("n", v))
    return G


def _nxc(which, G):
    nx = _repo().nx
    return nx.betweenness_centrality(G) if which == "betweenness" else nx.closeness_centrality(G)


def _edge_keyed(res):
    """result dict keyed by hyperedges -> ({frozenset: value}, well_formed)"""
    out, ok = {}, isinstance(res, dict)
    if not ok:
        return out, False
    for k, v in res.items():
        try:
            fs = frozenset(k) if not isinstance(k, (str, bytes)) else None
        except TypeError:
            fs = None
        if fs is None or fs in out:
            ok = False
            continue
        out[fs] = v
    return out, ok


def _compare(sink, fn, inp, rp, got, exp, what_keys, what_vals):
    """one value per object + values equal"""
    a = sink.check(set(got) == set(exp) , fn, what_keys, inp,
                   expected=dict(missing=_j(set(exp) - set(got))), observed=dict(unexpected=_j(set(got) - set(exp))), replay=rp)
    bad = [(_j(k), got[k], exp[k]) for k in exp if k in got and not _close(got[k], exp[k])]
    sink.check(not bad, fn, what_vals, inp, expected="equal up to 1e-9", observed=_j(bad[:3]), replay=rp)
    return a and not bad


# ------------------------------------------------------------------------------------------------ static hypergraphs
def _build_static(spec):
    R = _repo()
    nodes = list(spec["nodes"])
    edges = [tuple(e) for e in spec["edges"]]
    weights = spec.get("weights")
    try:
        h = R.Hypergraph(weighted=bool(weights))
        h.add_nodes(nodes)
        if weights:
            h.add_edges(edges, weights=list(weights))
        else:
            h.add_edges(edges)
        N = list(h.get_nodes())
        EL = [tuple(e) for e in h.get_edges()]
    except Exception:  # noqa: BLE001
        return None
    E = {frozenset(e) for e in EL}
    if len(E) != len(EL) or E != {frozenset(e) for e in edges} or set(N) != set(nodes) | {v for e in edges for v in e} \
            or len(set(N)) != len(N):
        return None
    return h, set(N), E


STATIC_FUNCS = ("s_betweenness", "s_closeness", "s_betweenness_nodes", "s_closeness_nodes", "subhypergraph_centrality")


def _static_contracts(sink, spec, only=None):
    """-> {(function, s): normalised result} for the relabelling comparison, or None if the input was not built."""
    R = _repo()
    built = _build_static(spec)
    if built is None:
        sink.count("inputs skipped: container rejected or misreported the description (not C20)")
        return None
    h, N, E = built
    results = {}
    want = (lambda f: only is None or only == f)
    for which in ("betweenness", "closeness"):
        name = "s_" + which
        if want(name):
            fn = "s_centralities." + name
            for s in S_VALUES:
                inp = dict(hypergraph=spec, s=s)
                rp = dict(part="static", spec=spec, function=name)
                ok, res = _guard(sink, fn, inp, rp, lambda: getattr(R.SC, name)(h, s=s))
                sink.count("calls " + name)
                if not ok:
                    continue
                got, wf = _edge_keyed(res)
                exp = _nxc(which, _line_graph(E, s))
                if not wf:
                    got = dict(got, **{"<malformed keys>": None})
                _compare(sink, fn, inp, rp, got, exp, "every hyperedge receives exactly one value",
                         "value = %s of the hyperedge's vertex in the s-line graph" % which)
                results[(name, s)] = got
        name = "s_%s_nodes" % which
        if want(name):
            fn = "s_centralities." + name
            inp = dict(hypergraph=spec)
            rp = dict(part="static", spec=spec, function=name)
            ok, res = _guard(sink, fn, inp, rp, lambda: getattr(R.SC, name)(h))
            sink.count("calls " + name)
            if ok:
                got = dict(res) if isinstance(res, dict) else {"<not a dict>": None}
                c = _nxc(which, _bipartite(N, E))
                exp = {v: c[("n", v)] for v in N}
                _compare(sink, fn, inp, rp, got, exp, "every node receives exactly one value",
                         "value = %s of the node's vertex in the bipartite projection" % which)
                results[(name, None)] = got
    name = "subhypergraph_centrality"
    if want(name):
        fn = "sub_hypergraph_centrality." + name
        inp = dict(hypergraph=spec)
        rp = dict(part="static", spec=spec, function=name)
        try:
            _, mapping = h.adjacency_matrix(return_mapping=True)
            order = [mapping[i] for i in range(len(N))]
            order = [o.item() if hasattr(o, "item") else o for o in order]
            if set(order) != N or len(order) != len(N):
                order = None
        except Exception:  # noqa: BLE001
            order = None
        if order is None:
            sink.count("subhypergraph_centrality skipped: adjacency_matrix mapping unusable (belongs to C09)")
        else:
            ok, res = _guard(sink, fn, inp, rp, lambda: R.sub(h))
            sink.count("calls subhypergraph_centrality")
            if ok:
                np = R.np
                try:
                    vec = [float(x) for x in np.asarray(res).reshape(-1)]
                except Exception:  # noqa: BLE001
                    vec = []
                a = sink.check(len(vec) == len(N), fn, "every node receives exactly one value", inp,
                               expected=len(N), observed=len(vec), replay=rp)
                if a:
                    A = np.zeros((len(N), len(N)))
                    for i, u in enumerate(order):
                        for j, v in enumerate(order):
                            if i != j:
                                A[i, j] = sum(1 for e in E if u in e and v in e)
                    # log diag expm(A) = c + log diag expm(A - cI): the shifted form cannot overflow for a large spectral radius
                    c = float(np.linalg.eigvalsh(A).max()) if len(N) else 0.0
                    exp = c + np.log(np.diag(R.sla.expm(A - c * np.eye(len(N)))))
                    bad = [(_j(order[i]), vec[i], float(exp[i])) for i in range(len(N)) if not _close(vec[i], exp[i], 1e-8)]
                    sink.check(not bad, fn, "value = log of the node's diagonal entry of expm(adjacency matrix)", inp,
                               expected="equal up to 1e-8", observed=_j(bad[:3]), replay=rp)
                    results[(name, None)] = {order[i]: vec[i] for i in range(len(N))}
    return results


def _relabelled_static(spec):
    m = {a: b for a, b in spec["relabel"]}
    out = dict(kind=spec["kind"], nodes=[m[v] for v in spec["nodes"]], edges=[[m[v] for v in e] for e in spec["edges"]],
               relabel=[[m[a], m[a]] for a, _ in spec["relabel"]])
    if spec.get("weights"):
        out["weights"] = spec["weights"]
    return out, m


def _run_static(sink, spec, only=None):
    only = only if only is not None else spec.get("only")
    if only is None or spec.get("only"):
        sink.case(spec, nontrivial=len(spec["edges"]) >= 2)
    r1 = _static_contracts(sink, spec, only)
    if r1 is None:
        return
    spec2, m = _relabelled_static(spec)
    r2 = _static_contracts(sink, spec2, only)
    if r2 is None:
        return
    for (name, s), a in r1.items():
        b = r2.get((name, s))
        if b is None:
            continue
        mod = "sub_hypergraph_centrality." if name == "subhypergraph_centrality" else "s_centralities."
        inp = dict(hypergraph=spec, relabelling=spec["relabel"], **({"s": s} if s else {}))
        rp = dict(part="static", spec=spec, function=name)
        edge_keyed = name in ("s_betweenness", "s_closeness")

        def tr(k):
            if isinstance(k, frozenset):
                return frozenset(m[v] for v in k)
            return m.get(k, k) if not edge_keyed else k
        bad = [(_j(k), v, b.get(tr(k), "<missing>")) for k, v in a.items() if tr(k) not in b or not _close(b[tr(k)], v)]
        sink.check(not bad and len(a) == len(b), mod + name, "carried along unchanged when the nodes are relabelled", inp,
                   expected="result(relabelled H)[relabelled x] == result(H)[x] (1e-9)", observed=_j(bad[:3]), replay=rp)


# ------------------------------------------------------------------------------------------------ temporal hypergraphs
TEMPORAL_FUNCS = (("s_betweenness_averaged", "betweenness", True), ("s_closeness_averaged", "closeness", True),
                  ("s_betweenness_nodes_averaged", "betweenness", False), ("s_closenness_nodes_averaged", "closeness", False))


def _build_temporal(spec):
    R = _repo()
    try:
        weights = spec.get("weights")
        T = R.TemporalHypergraph(weighted=bool(weights))
        T.add_nodes(list(spec["nodes"]))
        for i, (t, e) in enumerate(spec["tedges"]):
            if weights:
                T.add_edge(tuple(e), t, weight=weights[i])
            else:
                T.add_edge(tuple(e), t)
        TE = [(t, frozenset(e)) for t, e in T.get_edges()]
    except Exception:  # noqa: BLE001
        return None
    if len(set(TE)) != len(TE) or set(TE) != {(t, frozenset(e)) for t, e in spec["tedges"]}:
        return None
    return T, TE


def _temporal_contracts(sink, spec, only=None):
    R = _repo()
    built = _build_temporal(spec)
    if built is None:
        sink.count("inputs skipped: container rejected or misreported the description (not C20)")
        return None
    T, TE = built
    snaps = {}
    for t, e in TE:
        snaps.setdefault(t, set()).add(e)
    nsnap = len(snaps)
    results = {}
    for name, which, on_edges in TEMPORAL_FUNCS:
        if only is not None and only != name:
            continue
        fn = "s_centralities." + name
        for s in (S_VALUES if on_edges else (None,)):
            inp = dict(temporal_hypergraph=spec, **({"s": s} if s else {}))
            rp = dict(part="temporal", spec=spec, function=name)
            ok, res = _guard(sink, fn, inp, rp,
                             (lambda: getattr(R.SC, name)(T, s=s)) if on_edges else (lambda: getattr(R.SC, name)(T)))
            sink.count("calls " + name)
            if not ok:
                continue
            exp = {}
            for t in sorted(snaps):
                Es = snaps[t]
                if on_edges:
                    c = _nxc(which, _line_graph(Es, s))
                else:
                    Ns = set().union(*Es)
                    cc = _nxc(which, _bipartite(Ns, Es))
                    c = {v: cc[("n", v)] for v in Ns}
                for k, v in c.items():
                    exp[k] = exp.get(k, 0.0) + v
            exp = {k: v / nsnap for k, v in exp.items()}
            if on_edges:
                got, wf = _edge_keyed(res)
                if not wf:
                    got = dict(got, **{"<malformed keys>": None})
                _compare(sink, fn, inp, rp, got, exp, "every hyperedge of a snapshot receives exactly one value",
                         "value = sum over the snapshots of the s-line-graph %s / number of snapshots" % which)
            else:
                got = dict(res) if isinstance(res, dict) else {"<not a dict>": None}
                isolated = set(spec["nodes"]) - set(exp)
                for v in isolated:                      # in no snapshot: absent or 0, the statement does not say
                    try:
                        if v in got and _close(got[v], 0.0):
                            del got[v]
                    except TypeError:
                        pass
                _compare(sink, fn, inp, rp, got, exp, "every node of a snapshot receives exactly one value",
                         "value = sum over the snapshots of the bipartite %s / number of snapshots" % which)
            results[(name, s)] = got
    return results


def _relabelled_temporal(spec):
    m = {a: b for a, b in spec["relabel"]}
    out = dict(kind="T", nodes=[m[v] for v in spec["nodes"]], tedges=[[t, [m[v] for v in e]] for t, e in spec["tedges"]],
               relabel=[[m[a], m[a]] for a, _ in spec["relabel"]])
    if spec.get("weights"):
        out["weights"] = spec["weights"]
    return out, m


def _run_temporal(sink, spec, only=None):
    if only is None:
        sink.case(spec, nontrivial=len(spec["tedges"]) >= 2)
    r1 = _temporal_contracts(sink, spec, only)
    if r1 is None:
        return
    spec2, m = _relabelled_temporal(spec)
    r2 = _temporal_contracts(sink, spec2, only)
    if r2 is None:
        return
    for (name, s), a in r1.items():
        b = r2.get((name, s))
        if b is None:
            continue
        inp = dict(temporal_hypergraph=spec, relabelling=spec["relabel"], **({"s": s} if s else {}))
        rp = dict(part="temporal", spec=spec, function=name)

        def tr(k):
            if isinstance(k, frozenset):
                return frozenset(m[v] for v in k)
            return m.get(k, k)
        bad = [(_j(k), v, b.get(tr(k), "<missing>")) for k, v in a.items() if tr(k) not in b or not _close(b[tr(k)], v)]
        sink.check(not bad and len(a) == len(b), "s_centralities." + name,
                   "carried along unchanged when the nodes are relabelled", inp,
                   expected="result(relabelled H)[relabelled x] == result(H)[x] (1e-9)", observed=_j(bad[:3]), replay=rp)


# ------------------------------------------------------------------------------------------------ CEC / HEC
def _hec_lhs(np, N, edges, x):
    y = np.zeros(N)
    for e in edges:
        for i in e:
            p = 1.0
            for j in e:
                if j != i:
                    p *= x[j]
            y[i] += p
    return y


def _longrun_hec(np, N, k, edges):
    x = np.ones(N) / N
    for _ in range(5000):
        y = _hec_lhs(np, N, edges, x) ** (1.0 / (k - 1))
        y = y / y.sum()
        d = np.abs(y - x).max()
        x = y
        if d < 1e-13:
            return bool((x > 0).all())
    return False


def _longrun_cec(np, W):
    N = len(W)
    x = np.ones(N) / N
    for _ in range(20000):
        y = W @ x
        y = y / y.sum()
        d = np.abs(y - x).max()
        x = y
        if d < 1e-13:
            return bool((x > 0).all())
    return False


def _seed_for(spec, st):
    return zlib.crc32(("%s/%s/%s/%s" % (spec["seed"], spec["k"], spec["edges"], st)).encode()) & 0x7FFFFFFF


def _run_eigen(sink, spec, only=None):
    R = _repo()
    np = R.np
    N, k = spec["N"], spec["k"]
    edges = [tuple(e) for e in spec["edges"]]
    if only is None:
        sink.case(spec, nontrivial=True)
    try:
        h = R.Hypergraph(edges)
        okb = sorted(h.get_nodes()) == list(range(N)) and {frozenset(e) for e in h.get_edges()} == {frozenset(e) for e in edges}
    except Exception:  # noqa: BLE001
        okb = False
    if not okb:
        sink.count("inputs skipped: container rejected or misreported the description (not C20)")
        return
    W = np.zeros((N, N))
    for e in edges:
        for i, j in itertools.permutations(e, 2):
            W[i, j] += 1
    lam = float(np.linalg.eigvalsh(W)[-1])
    conv = dict(CEC_centrality=_longrun_cec(np, W), HEC_centrality=_longrun_hec(np, N, k, edges))
    for name in ("CEC_centrality", "HEC_centrality"):
        if only is not None and only != name:
            continue
        fn = "eigen_centralities." + name
        if not conv[name]:
            sink.count("%s instances skipped: independent long-run iteration did not converge" % name)
            continue
        sink.count("%s instances on which the independent long-run iteration converges" % name)
        for st in range(spec["starts"]):
            sd = _seed_for(spec, st)
            inp = dict(hypergraph=dict(k=k, N=N, edges=spec["edges"]), numpy_seed=sd)
            rp = dict(part="eigen", spec=spec, function=name)

            def call():
                np.random.seed(sd)
                buf = io.StringIO()
                with contextlib.redirect_stdout(buf):
                    out = getattr(R.EC, name)(h)
                if buf.getvalue().strip():
                    sink.count("%s runs that printed a non-convergence message" % name)
                return out
            ok, res = _guard(sink, fn, inp, rp, call)
            sink.count("calls " + name)
            if not ok:
                continue
            try:
                keys_ok = isinstance(res, dict) and set(res.keys()) == set(range(N))
                c = np.array([float(res[i]) for i in range(N)]) if keys_ok else None
            except Exception:  # noqa: BLE001
                keys_ok, c = False, None
            if not sink.check(keys_ok and bool(np.isfinite(c).all()), fn, "one finite score per node 0..N-1", inp,
                              observed=_j(res) if isinstance(res, dict) else repr(res), replay=rp):
                continue
            sink.check(bool((c > 0).all()), fn, "scores are positive", inp, observed=_j(list(c)), replay=rp)
            n1, n2 = float(np.abs(c).sum()), float(np.sqrt((c * c).sum()))
            sink.check(abs(n1 - 1) <= 1e-9 or abs(n2 - 1) <= 1e-9, fn, "vector is normalised (1-norm or 2-norm equal to 1)", inp,
                       observed=dict(norm1=n1, norm2=n2), replay=rp)
            if name == "CEC_centrality":
                Wc = W @ c
                res_ = float(np.abs(Wc - lam * c).max() / max(np.abs(Wc).max(), 1e-300))
                sink.check(res_ <= 1e-4, fn, "W c = lambda_max c (relative residual <= 1e-4)", inp,
                           expected=dict(lambda_max=lam), observed=dict(residual=res_, c=_j(list(c))), replay=rp)
            else:
                lhs = _hec_lhs(np, N, edges, c)
                rhs = c ** (k - 1)
                mu = float(lhs @ rhs) / max(float(rhs @ rhs), 1e-300)
                res_ = float(np.abs(lhs - mu * rhs).max() / max(np.abs(lhs).max(), 1e-300))
                sink.check(res_ <= 1e-4, fn,
                           "sum over a node's hyperedges of the product of the other scores = mu * score^(k-1) (residual <= 1e-4)",
                           inp, expected=dict(mu=mu), observed=dict(residual=res_, c=_j(list(c))), replay=rp)


# ------------------------------------------------------------------------------------------------ generators
PLAIN = ["a", "b", "c", "d", "f", "g", "h", "k", "m", "p", "q", "r"]
WITH_E = ["Ed", "b", "cE", "d", "E1", "g", "N0", "k", "Eve", "p", "NE", "r"]


def _alphabet(r, kind, n):
    if kind == "range":
        return list(range(n))
    if kind == "sparse":
        return r.sample(range(0, 1000), n)
    if kind == "negative":
        return r.sample(range(-50, 50), n)
    if kind == "plain":
        return r.sample(PLAIN, n)
    return r.sample(WITH_E, n)


def _relabel_for(r, labels):
    kind = r.choice(("perm", "sparse", "plain", "withE", "range"))
    if kind == "perm":
        tgt = r.sample(labels, len(labels))
    else:
        tgt = _alphabet(r, kind, len(labels))
    return [[a, b] for a, b in zip(labels, tgt)]


def _subsets(labels):
    return [list(c) for k in range(1, len(labels) + 1) for c in itertools.combinations(labels, k)]


def _gen_static_exhaustive(plan, seed):
    r = random.Random(f"{seed}/C20/static-exh")
    for n, m_max in plan:
        labels = list(range(n))
        subs = _subsets(labels)
        for m in range(0, min(m_max, len(subs)) + 1):
            for es in itertools.combinations(subs, m):
                yield dict(kind="H", nodes=labels, edges=[list(e) for e in es], relabel=_relabel_for(r, labels))


def _gen_static_random(count, seed):
    r = random.Random(f"{seed}/C20/static-rand")
    for _ in range(count):
        n = r.randint(5, 9)
        labs = _alphabet(r, r.choice(("range", "sparse", "negative", "plain", "withE")), n)
        used = labs[: r.randint(max(2, n - 2), n)]
        edges, seen = [], set()
        for _ in range(30):
            if len(edges) >= r.randint(3, 8):
                break
            if edges and r.random() < 0.5:
                base = r.choice(edges)
                e = set(r.sample(base, r.randint(1, len(base)))) | set(r.sample(used, r.randint(0, 2)))
            else:
                e = set(r.sample(used, r.randint(1, min(6, len(used)))))
            e = sorted(e, key=repr)[:6]
            if frozenset(e) not in seen:
                seen.add(frozenset(e))
                edges.append(r.sample(e, len(e)))
        spec = dict(kind="H", nodes=r.sample(labs, n), edges=edges, relabel=_relabel_for(r, labs))
        if r.random() < 0.3:
            spec["weights"] = [r.choice((0.5, 1, 2, 3.25)) for _ in edges]
        yield spec


def _gen_temporal_exhaustive(n, m_max, seed):
    r = random.Random(f"{seed}/C20/temporal-exh")
    for kind in ("range", "plain", "withE"):
        labels = list(range(n)) if kind == "range" else (PLAIN[:n] if kind == "plain" else WITH_E[:n])
        timed = [[t, e] for t in (1, 4) for e in _subsets(labels)]
        for m in range(0, m_max + 1):
            for tes in itertools.combinations(timed, m):
                yield dict(kind="T", nodes=labels, tedges=[[t, list(e)] for t, e in tes], relabel=_relabel_for(r, labels))


def _gen_temporal_random(count, seed):
    r = random.Random(f"{seed}/C20/temporal-rand")
    for _ in range(count):
        n = r.randint(4, 7)
        labs = _alphabet(r, r.choice(("range", "sparse", "plain", "plain", "withE")), n)
        used = labs[: r.randint(max(2, n - 1), n)]
        times = sorted(r.sample(range(0, 12), r.randint(1, 4)))
        tedges, seen, pool = [], set(), []
        for _ in range(r.randint(3, 10)):
            t = r.choice(times)
            if pool and r.random() < 0.4:
                e = r.choice(pool)                       # the same hyperedge at another time
            elif pool and r.random() < 0.4:
                base = r.choice(pool)
                e = sorted(set(r.sample(base, r.randint(1, len(base)))) | set(r.sample(used, r.randint(0, 2))), key=repr)
            else:
                e = r.sample(used, r.randint(1, min(5, len(used))))
            if (t, frozenset(e)) not in seen:
                seen.add((t, frozenset(e)))
                pool.append(list(e))
                tedges.append([t, list(e)])
        spec = dict(kind="T", nodes=r.sample(labs, n), tedges=tedges, relabel=_relabel_for(r, labs))
        if r.random() < 0.25:
            spec["weights"] = [r.choice((0.5, 1, 2)) for _ in tedges]
        yield spec


def _connected_cover(N, es):
    if {v for e in es for v in e} != set(range(N)):
        return False
    comp, changed = set(es[0]), True
    while changed:
        changed = False
        for e in es:
            if comp & set(e) and not set(e) <= comp:
                comp |= set(e)
                changed = True
    return len(comp) == N


def _gen_eigen(plan, n_random, starts, seed):
    for k, N, m_max in plan:
        all_e = list(itertools.combinations(range(N), k))
        for m in range(1, min(m_max, len(all_e)) + 1):
            for es in itertools.combinations(all_e, m):
                if _connected_cover(N, es):
                    yield dict(kind="U", k=k, N=N, edges=[list(e) for e in es], starts=starts, seed=seed)
    r = random.Random(f"{seed}/C20/eigen-rand")
    done = 0
    while done < n_random:
        k, N = r.choice(((3, 5), (3, 6), (3, 6), (4, 5), (4, 6), (4, 6)))
        all_e = list(itertools.combinations(range(N), k))
        m = r.randint(min(5, len(all_e)), min(12, len(all_e)))
        es = sorted(r.sample(all_e, m))
        if _connected_cover(N, es):
            done += 1
            yield dict(kind="U", k=k, N=N, edges=[r.sample(list(e), k) for e in r.sample(es, m)], starts=starts, seed=seed)


# ------------------------------------------------------------------------------------------------ driver
_RUNNERS = dict(H=_run_static, T=_run_temporal, U=_run_eigen)


def _work(specs):
    sink = Sink()
    try:                                   # tiny matrices: BLAS/OpenMP thread pools in every forked worker only contend
        from threadpoolctl import threadpool_limits
        limiter = threadpool_limits(limits=1)
    except Exception:  # noqa: BLE001
        limiter = contextlib.nullcontext()
    with limiter:
        for spec in specs:
            _RUNNERS[spec["kind"]](sink, spec)
    return sink


def _chunks(it, size):
    buf = []
    for x in it:
        buf.append(x)
        if len(buf) == size:
            yield buf
            buf = []
    if buf:
        yield buf


def run(ctx):
    import multiprocessing as mp
    _repo()
    seed = ctx.seed
    if ctx.quick:
        s_plan, n_srand = [(1, 1), (2, 3), (3, 3), (4, 3), (5, 2)], 250
        t_n, n_trand = 3, 250
        e_plan, n_erand, starts = [(3, 3, 1), (3, 4, 4), (3, 5, 4), (3, 6, 3), (4, 4, 1), (4, 5, 4), (4, 6, 3)], 60, 3
    else:
        s_plan, n_srand = [(1, 1), (2, 3), (3, 7), (4, 4), (5, 3)], 4000
        t_n, n_trand = 4, 4000
        e_plan, n_erand, starts = [(3, 3, 1), (3, 4, 4), (3, 5, 5), (3, 6, 4), (4, 4, 1), (4, 5, 5), (4, 6, 4)], 600, 10

    ctx.rule("static: every Hypergraph on nodes {0..n-1} with <=m distinct hyperedges for (n, m) in %s, s in {1,2,3}, plus %d "
             "seeded random ones (5..9 nodes, 3..8 hyperedges up to size 6, integer or string labels incl. strings "
             "containing 'E'/'N', weighted containers); each also under one seeded relabelling" % (s_plan, n_srand))
    ctx.rule("temporal: every TemporalHypergraph with <=3 timed hyperedges from (non-empty subsets of %d labels) x times "
             "{1,4} under three label alphabets (integers / lower-case strings / strings containing 'E'), plus %d seeded "
             "random ones (4..7 nodes, <=4 sparse times, repeated hyperedges, isolated nodes, weights); each also relabelled"
             % (t_n, n_trand))
    ctx.rule("eigen: every connected k-uniform hypergraph covering {0..N-1} with <=m hyperedges for (k, N, m) in %s plus %d "
             "seeded random denser ones on N in {5,6}; %d seeded states of numpy's global RNG each"
             % (e_plan, n_erand, starts))
    ctx.rule("one case = one input hypergraph (all functions, all s, and its relabelled copy are run); non-trivial = at least "
             "two (timed) hyperedges; every connected uniform instance counts as non-trivial")
    ctx.assume("networkx.betweenness_centrality / closeness_centrality with default parameters are the meaning of "
               "'betweenness and closeness of a vertex'; run on graphs built here from the set definitions")
    ctx.assume("scipy.linalg.expm and numpy.linalg.eigvalsh as reference linear algebra; tolerances: 1e-9 (s-centralities, "
               "relabelling), 1e-8 (sub-hypergraph centrality), 1e-4 relative residual (CEC/HEC)")
    ctx.assume("node order of the sub-hypergraph centrality vector = the mapping returned by the public "
               "adjacency_matrix(return_mapping=True) (its correctness is C09's concern; unusable mappings are skipped)")
    ctx.assume("CEC/HEC are judged only where an independent long-run iteration (uniform start) converges to a positive "
               "vector; numpy global RNG seeded per call from ctx.seed")
    ctx.assume("a result counts as normalised if its 1-norm or its 2-norm is 1 up to 1e-9 (the statement names no norm)")

    # dense inputs for the sub-hypergraph centrality: adjacency spectral radius 168 (complete 4-uniform on 9 nodes) and 840 (complete
    # 5-uniform on 11 nodes: exp(840) is not a float, the diagonal of expm(A) must still have a finite logarithm)
    dense = [dict(kind="H", nodes=list(range(n)), edges=[list(e) for e in itertools.combinations(range(n), k)],
                  relabel=[[v, v] for v in range(n)], only="subhypergraph_centrality") for n, k in ((9, 4), (11, 5))]
    ctx.rule("two dense inputs for subhypergraph_centrality only: the complete 4-uniform hypergraph on 9 nodes and the complete 5-uniform "
             "one on 11 nodes (462 hyperedges, adjacency spectral radius 840)")
    tasks = [dense]
    tasks += list(_chunks(_gen_static_exhaustive(s_plan, seed), 150))
    tasks += list(_chunks(_gen_static_random(n_srand, seed), 100))
    tasks += list(_chunks(_gen_temporal_exhaustive(t_n, 3, seed), 150))
    tasks += list(_chunks(_gen_temporal_random(n_trand, seed), 100))
    tasks += list(_chunks(_gen_eigen(e_plan, n_erand, starts, seed), 60))

    procs = min(12, max(1, (mp.cpu_count() or 2) - 2))
    if procs > 1 and len(tasks) > 2:
        with mp.get_context("fork").Pool(procs) as pool:
            sinks = pool.map(_work, tasks, chunksize=1)
    else:
        sinks = [_work(t) for t in tasks]
    seen = {}
    for s in sinks:
        s.merge_into(ctx, seen)
    ctx.exhaustive_parts.append("all Hypergraphs on {0..n-1} with <=m hyperedges for (n, m) in %s, s in {1,2,3}" % (s_plan,))
    ctx.exhaustive_parts.append("all TemporalHypergraphs with <=3 timed hyperedges over %d labels x times {1,4}, three label "
                                "alphabets" % t_n)
    ctx.exhaustive_parts.append("all connected k-uniform hypergraphs covering {0..N-1} with <=m hyperedges for (k, N, m) in %s "
                                "(random starts are sampled, not exhausted)" % (e_plan,))


def replay(data):
    _repo()
    sink = Sink()
    spec = data["spec"]
    _RUNNERS[spec["kind"]](sink, spec, only=data.get("function"))
    if sink.fails:
        same = [f for f in sink.fails if f["clause"] == data.get("clause")]
        f = (same or sink.fails)[0]
        return False, "%s: clause '%s' is false on %s; expected %s, observed %s" % (
            f["function"], f["clause"], _j(f["input"]), f["expected"], f["observed"])
    if not sink.clauses:
        return True, "input could not be rebuilt on this tree or was skipped; nothing to check"
    return True, "all clauses of %s hold on the recorded input (%d clause evaluations)" % (
        data.get("function"), sum(sink.clauses.values()))
