"""Generic history explorer for the four container classes (bounded tier of C01-C04, reused by C05/C07).

A *history* is a list of operation descriptors (json-able tuples). An adaptor per container class knows how to
  - create the real object and a ghost (plain sets / dicts written from the property statement),
  - apply an operation to both (the ghost decides whether the abstract operation is defined),
  - observe both through the same vocabulary of query keys (the real one through the public API only).
After every prefix the two observation dictionaries are compared key by key; every key is one contract clause.
"""
import copy
import itertools
import json

UNKNOWN = "<unspecified>"     # the statement is silent on this value: not compared


class Reject(Exception):
    """The abstract operation is undefined on the ghost state (missing key, inadmissible argument)."""


class Unspecified(Exception):
    """The statement does not say what this call does in this state: the rest of the history is not explored."""


def canon_obs(x):
    """Canonical json-able form; lists that are multisets must be pre-sorted by the adaptor."""
    if isinstance(x, dict):
        return {json.dumps(canon_obs(k), sort_keys=True) if not isinstance(k, str) else k: canon_obs(v) for k, v in x.items()}
    if isinstance(x, (list, tuple)):
        return [canon_obs(v) for v in x]
    if isinstance(x, (set, frozenset)):
        return sorted((canon_obs(v) for v in x), key=lambda v: json.dumps(v, sort_keys=True))
    if isinstance(x, float) and x == int(x):
        return int(x)
    if hasattr(x, "item") and not isinstance(x, (str, bytes)):
        try:
            return canon_obs(x.item())
        except Exception:
            pass
    return x


def _repeats(op):
    """Does the batch (first argument of a batched operation) list an element twice, up to the order of the nodes of a hyperedge?"""
    def norm(x):
        if isinstance(x, (list, tuple)):
            if x and all(isinstance(y, (list, tuple)) for y in x):
                return repr([sorted(map(repr, y)) for y in x])
            return repr(sorted(map(repr, x)))
        return repr(x)
    try:
        items = [norm(x) for x in op[1]]
    except Exception:       # noqa: BLE001
        return False
    return len(set(items)) != len(items)


def msort(xs):
    return sorted((canon_obs(x) for x in xs), key=lambda v: json.dumps(v, sort_keys=True))


def same(expected, observed):
    """Structural equality with UNKNOWN wildcards on the expected side."""
    if expected == UNKNOWN:
        return True
    if isinstance(expected, dict) and isinstance(observed, dict):
        return set(expected) == set(observed) and all(same(expected[k], observed[k]) for k in expected)
    if isinstance(expected, list) and isinstance(observed, list):
        return len(expected) == len(observed) and all(same(a, b) for a, b in zip(expected, observed))
    if isinstance(expected, float) or isinstance(observed, float):
        try:
            return abs(expected - observed) <= 1e-9 * max(1.0, abs(expected))
        except TypeError:
            return False
    if isinstance(expected, bool) or isinstance(observed, bool):
        return isinstance(expected, bool) and isinstance(observed, bool) and expected == observed
    return expected == observed


class Explorer:
    def __init__(self, ctx, adaptor):
        self.ctx, self.ad = ctx, adaptor

    def run_history(self, config, history, observe_every=True, tag="history"):
        """Execute one history on the real object and the ghost. Returns False when a violation was recorded."""
        ctx, ad = self.ctx, self.ad
        real = ad.new_real(config)
        ghost = ad.new_ghost(config)
        ok_all = True
        changed = False
        done = []
        for step, op in enumerate(history):
            done.append(op)
            inp = dict(cls=ad.name, config=config, history=done)
            before = ad.observe_real(real, ghost)
            g2 = copy.deepcopy(ghost)
            try:
                ad.apply_ghost(g2, op)
                rejected = False
            except Reject:
                rejected = True
            except Unspecified:
                ctx.count("histories cut at an unspecified call")
                break
            fn = ad.function_of(op)
            try:
                r = ad.apply_real(real, op)
                if r is not None:
                    real = r
                raised = None
            except Exception as ex:     # noqa: BLE001 - the contract is about *any* exception
                raised = type(ex).__name__
            rep = dict(adaptor=ad.name, config=config, history=list(done))
            if raised is not None:
                after = ad.observe_real(real, ghost)
                key_part = ad.partial_key(op)
                if key_part and _repeats(op):
                    # the recorded findings are about batches with a missing / undescribed element; a batch that is rejected because an
                    # element is listed twice and still changes the state is a different failure and gets its own key
                    key_part += ":repeated-element"
                if after != before:
                    # rejected operation changed the observable state
                    diff = [k for k in before if before.get(k) != after.get(k)][:5]
                    ctx.check(False, fn, "a rejected operation leaves the observable state unchanged", inp,
                              expected="state before the call", observed={k: after.get(k) for k in diff},
                              key=key_part or f"{fn}:rejected-call-changed-state", replay=rep)
                    ok_all = False
                    return ok_all
                ctx.clause(f"{fn}:a rejected operation leaves the observable state unchanged")
                if not rejected:
                    ctx.check(False, fn, f"does not raise on admissible input", inp, expected="no exception",
                              observed=raised, key=f"{fn}:raises-on-admissible-input", replay=rep)
                    ok_all = False
                    return ok_all
                continue
            if rejected:
                after = ad.observe_real(real, ghost)
                if after != before:
                    ctx.check(False, fn, "an operation undefined on the abstract state is rejected or has no effect", inp,
                              expected="exception or unchanged state", observed="state changed without exception",
                              key=f"{fn}:undefined-operation-accepted", replay=rep)
                    ok_all = False
                    return ok_all
                continue
            ghost = g2
            changed = True
            if observe_every or step == len(history) - 1:
                if not self.compare(real, ghost, inp, rep):
                    return False
            if step == len(history) - 1:
                # queries and derivations must not change the object: observing twice gives the same answers
                o1 = ad.observe_real(real, ghost)
                o2 = ad.observe_real(real, ghost)
                if o1 != o2:
                    diff = [k for k in o1 if o1.get(k) != o2.get(k)][:5]
                    ctx.check(False, f"{ad.name}.queries", "queries and derivations leave the object unchanged", inp,
                              expected={k: canon_obs(o1.get(k)) for k in diff}, observed={k: canon_obs(o2.get(k)) for k in diff},
                              key=f"{ad.name}:queries-modify-object", replay=rep)
                    return False
                ctx.clause(f"{ad.name}:queries and derivations leave the object unchanged")
        ctx.case(dict(cls=ad.name, config=config, history=history), nontrivial=changed)
        return ok_all

    def compare(self, real, ghost, inp, rep):
        ctx, ad = self.ctx, self.ad
        exp = ad.observe_ghost(ghost)
        obs = ad.observe_real(real, ghost)
        ok = True
        for k, e in exp.items():
            fn = k.split("(")[0]
            o = obs.get(k, "<missing>")
            good = same(canon_obs(e), canon_obs(o))
            ctx.clause(f"{ad.name}.{fn}")
            if not good:
                ctx.check(False, f"{ad.name}.{fn}", f"{k} equals the abstract model", inp, expected=canon_obs(e), observed=canon_obs(o),
                          key=f"{ad.name}.{fn}:differs-from-abstract-model", replay=rep)
                ok = False
                break
        return ok


def replay_history(adaptor, data):
    """Re-execute a recorded history; returns (ok, message)."""
    from ..common import Ctx
    ctx = Ctx("replay", "quick", 0)
    ctx._known = []
    ex = Explorer(ctx, adaptor)
    ex.run_history(data["config"], [tuple(o) if isinstance(o, list) else o for o in data["history"]])
    if ctx.violations:
        v = ctx.violations[0]
        return False, f"{v.function}: {v.clause}: expected {v.expected!r} observed {v.observed!r}"
    return True, "history now agrees with the abstract model"


def tuplify(x):
    if isinstance(x, list):
        return tuple(tuplify(v) for v in x)
    return x
