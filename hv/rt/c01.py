"""C01 bounded tier: Hypergraph against the abstract hypergraph of its history.

Scope (bounded, not a proof):
  * exhaustive: every history of length <= 2 (quick) / <= 3 (thorough) over a fixed alphabet of ~32 operations on the node
    universe {0,1,2} (single and batched insertions, listing orders (0,1)/(1,0), removals, node removals with and without
    keep_edges, weight and metadata updates, rejected calls, clear, copy), for weighted and unweighted hypergraphs;
  * seeded random histories of length <= 12 (quick: 300) / <= 30 (thorough: 6000) over the universe {0..5} (and the same with string
    labels) with hyperedges up to size 5;
  * after every prefix every query of the statement is compared with the ghost model for every order/size/up_to filter
    (orders 0..3, sizes 1..4); after a call that raised, the whole observable state is compared with the state before the call.
Oracle: a set of nodes, a dict frozenset -> [weight, metadata], a dict node -> metadata (hv/rt/ad_hypergraph.py). Where the
statement is silent (metadata after re-adding an existing node / hyperedge with other metadata) the value is not compared.
"""
import itertools
from .containers import Explorer, replay_history
from .ad_hypergraph import HypergraphAdaptor
from .. import common

PROPERTY = "C01"

PROBES = [(0,), (1,), (2,), (0, 1), (1, 0), (0, 2), (1, 2), (2, 1), (0, 1, 2), (2, 0, 1)]

ALPHABET = [
    ("add_node", 0), ("add_node", 1, {"c": 1}),
    ("add_nodes", [1, 2]), ("add_nodes", [0, 1], {"0": {"m": 1}, "1": {}}),
    ("add_edge", (0, 1)), ("add_edge", (1, 0)), ("add_edge", (0, 1, 2)), ("add_edge", (2,)),
    ("add_edge", (1, 2), 2), ("add_edge", (0, 1), None, {"t": "x"}), ("add_edge", (2, 0), 1),
    ("add_edges", [(0, 1), (1, 2)]), ("add_edges", [(0, 2), (2, 1)], [2, 3]), ("add_edges", [(0, 2), (2, 1), (0, 2)], [2, 3, 4]),
    ("remove_edge", (0, 1)), ("remove_edge", (1, 0)), ("remove_edge", (0, 1, 2)),
    ("remove_edges", [(0, 1), (1, 2)]), ("remove_edges", [(0, 1), (1, 0)]),
    ("remove_node", 0), ("remove_node", 1, True), ("remove_node", 2, True), ("remove_nodes", [0, 1]), ("remove_nodes", [0, 0]),
    ("set_weight", (0, 1), 5), ("set_weight", (1, 0), 1),
    ("set_node_metadata", 0, {"a": 1}), ("set_edge_metadata", (1, 0), {"b": 2}),
    ("set_attr_node", 0, "x", 1), ("set_attr_node", 1, "z", 3), ("set_attr_edge", (0, 1), "y", 2),
    ("del_attr_node", 0, "x"), ("del_attr_edge", (0, 1), "y"),
    ("clear",), ("copy",),
]


def adaptor(labels=None):
    uni = [0, 1, 2, 3, 4, 5]
    probes = PROBES + [(3, 4), (0, 1, 2, 3), (5, 4, 3, 2, 1)]
    if labels:
        uni = [labels[x] for x in uni]
        probes = [tuple(labels[x] for x in e) for e in probes]
    return HypergraphAdaptor(uni, probes)


def random_history(rng, length, n_nodes=6, labels=None):
    L = (lambda x: labels[x]) if labels else (lambda x: x)
    hist, edges = [], []

    def rnd_edge():
        k = rng.choice([1, 2, 2, 3, 3, 4, 5])
        e = rng.sample(range(n_nodes), min(k, n_nodes))
        return tuple(L(x) for x in e)

    def some_edge():
        if edges and rng.random() < 0.8:
            e = list(rng.choice(edges))
            rng.shuffle(e)
            return tuple(e)
        return rnd_edge()

    for _ in range(length):
        r = rng.random()
        if r < 0.30:
            e = rnd_edge() if rng.random() < 0.7 else some_edge()
            w = rng.choice([None, None, 1, 2, 0.5])
            md = rng.choice([None, None, {"k": rng.randrange(3)}])
            op = ("add_edge", e, w, md) if md is not None else (("add_edge", e, w) if w is not None else ("add_edge", e))
            edges.append(e)
        elif r < 0.38:
            es = [rnd_edge() for _ in range(rng.randrange(1, 4))]
            es = list(dict.fromkeys(es))
            if rng.random() < 0.5:
                op = ("add_edges", es, [rng.choice([1, 2, 3]) for _ in es])
            else:
                op = ("add_edges", es)
            edges += es
        elif r < 0.48:
            op = ("remove_edge", some_edge())
        elif r < 0.52:
            op = ("remove_edges", list(dict.fromkeys(some_edge() for _ in range(2))))
        elif r < 0.60:
            op = ("remove_node", L(rng.randrange(n_nodes)), rng.random() < 0.5)
        elif r < 0.63:
            op = ("remove_nodes", [L(x) for x in rng.sample(range(n_nodes), 2)], rng.random() < 0.5)
        elif r < 0.70:
            op = ("add_node", L(rng.randrange(n_nodes))) if rng.random() < 0.6 else ("add_nodes", [L(x) for x in rng.sample(range(n_nodes), 2)])
        elif r < 0.78:
            op = ("set_weight", some_edge(), rng.choice([1, 2, 7]))
        elif r < 0.83:
            op = ("set_node_metadata", L(rng.randrange(n_nodes)), {"a": rng.randrange(3)})
        elif r < 0.88:
            op = ("set_edge_metadata", some_edge(), {"b": rng.randrange(3)})
        elif r < 0.92:
            op = rng.choice([("set_attr_node", L(rng.randrange(n_nodes)), "x", rng.randrange(3)), ("set_attr_edge", some_edge(), "y", rng.randrange(3))])
        elif r < 0.96:
            op = rng.choice([("del_attr_node", L(rng.randrange(n_nodes)), "x"), ("del_attr_edge", some_edge(), "y")])
        elif r < 0.98:
            op = ("copy",)
        else:
            op = ("clear",)
        hist.append(op)
    return hist


def _work(sub, chunk):
    kind, items = chunk
    ex = Explorer(sub, adaptor(items.get("labels")))
    for cfg, h in items["histories"]:
        ex.run_history(cfg, h)


def run(ctx):
    ctx.rule("history = list of public mutating calls; exhaustive over a 31-operation alphabet on nodes {0,1,2} up to length "
             "2 (quick) / 3 (thorough), plus seeded random histories on {0..5} and on string labels; a history is non-trivial when "
             "at least one call changed the abstract state; distinct = distinct (configuration, history)")
    maxlen = 2 if ctx.quick else 3
    hs = []
    for n in range(1, maxlen + 1):
        for h in itertools.product(ALPHABET, repeat=n):
            for w in (False, True):
                hs.append((dict(weighted=w), list(h)))
    ctx.exhaustive_parts.append(f"all histories of length <= {maxlen} over the alphabet, weighted and unweighted: {len(hs)}")
    # shrinking removals that make two stored hyperedges coincide: B and A = B + {n} with different weights and metadata, inserted in either
    # order, then remove_node(n, keep_edges=True) - on nodes {0..3}, every B and n, weighted and unweighted; plus the chain of two removals
    merges = []
    for r in range(1, 4):
        for B in itertools.combinations(range(4), r):
            for n in range(4):
                if n in B:
                    continue
                A = tuple(sorted(B + (n,)))
                for first, second in (((B, 2, {"t": "small"}), (A, 3.5, {"t": "big"})), ((A, 3.5, {"t": "big"}), (B, 2, {"t": "small"}))):
                    for w in (False, True):
                        ops = [("add_edge", e, wt if w else None, md) for e, wt, md in (first, second)] + [("remove_node", n, True)]
                        merges.append((dict(weighted=w), ops))
                        merges.append((dict(weighted=w), ops + [("remove_node", B[0], True)]))
    hs += merges
    ctx.exhaustive_parts.append(f"merging removals: every hyperedge B on nodes 0..3 with B + {{n}} stored as well, then remove_node(n, keep_edges=True) "
                                f"(and a second shrinking removal): {len(merges)} histories")
    n_rand = 300 if ctx.quick else 6000
    rl = 12 if ctx.quick else 30
    rnd, rnds = [], []
    labels = {i: s for i, s in enumerate("abcdef")}
    for i in range(n_rand):
        rnd.append((dict(weighted=bool(i % 2)), random_history(ctx.rng, ctx.rng.randrange(3, rl + 1))))
    for i in range(n_rand // 3):
        rnds.append((dict(weighted=bool(i % 2)), random_history(ctx.rng, ctx.rng.randrange(3, rl + 1), labels=labels)))
    chunks = []
    step = max(1, len(hs) // 64)
    for i in range(0, len(hs), step):
        chunks.append(("ex", dict(histories=hs[i:i + step])))
    step = max(1, len(rnd) // 16)
    for i in range(0, len(rnd), step):
        chunks.append(("rnd", dict(histories=rnd[i:i + step])))
    step = max(1, len(rnds) // 8)
    for i in range(0, len(rnds), step):
        chunks.append(("rnds", dict(histories=rnds[i:i + step], labels=labels)))
    common.parallel_map(ctx, _work, chunks)


def replay(data):
    labels = None
    if any(isinstance(x, str) and x in "abcdef" for op in data["history"] for x in _flat(op)):
        labels = {i: s for i, s in enumerate("abcdef")}
    return replay_history(adaptor(labels), data)


def _flat(x):
    if isinstance(x, (list, tuple)):
        for y in x:
            yield from _flat(y)
    else:
        yield x
