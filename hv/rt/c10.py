"""C10 (bounded): graph projections encode exactly the incidence structure of the hypergraph.

Functions under contract (real code of /repo):
  representations.projections.bipartite_projection, clique_projection (keep_isolated in {False, True}), line_graph,
  directed_line_graph; representations.simplicial_complex.simplicial_complex (the similarity functions of
  measures.edge_similarity are exercised through the two line graphs).

Scope
  exhaustive  * every Hypergraph on the node set {0..n-1} (all n nodes present, hence isolated nodes whenever the
                hyperedges do not cover them) with at most m distinct hyperedges of size 1..n (nested ones included):
                quick (n, m) = (1,1) (2,3) (3,4) (4,4) (5,3);  thorough (1,1) (2,3) (3,7 = all) (4,5) (5,4).
              * every DirectedHypergraph on {0..n-1} whose hyperedges have disjoint non-empty source and target sets:
                quick (n, m) = (2,2) (3,3) (4,2);  thorough (2,2) (3,4) (4,3) (5,2).
              * on each of them every configuration: distance "intersection" with s in {1,2,3}, distance "jaccard" with
                s in {0.25,0.5,1.0}, weighted in {False,True}; keep_isolated in {False,True}.
              Every second enumerated instance is built with a shuffled insertion order of nodes and hyperedges.
  sampled     seeded random instances beyond that: 5..9 nodes, 3..8 hyperedges of size 1..6 (nested / overlapping ones
              forced), labels 0..N-1, sparse / negative integers or strings, isolated nodes, weighted and unweighted
              containers, histories with remove_edge / remove_node before projecting; extra thresholds s in {4,5} and
              dyadic Jaccard thresholds {0.125,0.375,0.75}.
Oracle
  Set-builder definitions taken from the statement, on plain frozensets; Jaccard values as exact Fractions (all
  thresholds are dyadic, so the float comparison `w >= s` of a correctly rounded quotient agrees with the rational
  one).  The input hypergraph is what the container reports through get_nodes()/get_edges() before the call; for
  instances built by the constructor alone this is cross-checked against the generating description and the instance
  is skipped (counted) if the container itself disagrees - that would belong to the container properties, not C10.
Limits
  * Where the statement is silent nothing is demanded: the weight attribute when weighted=False, the vertex set of
    the clique projection with keep_isolated=False (only "every vertex is a node"), names of the vertices, the empty
    hyperedge that simplicial_complex adds (counted in the evidence, not a violation), node set of the complex.
  * bipartite/clique/line graph/simplicial complex are applied to Hypergraph only, directed_line_graph to
    DirectedHypergraph only (as annotated in the code).
  * Node labels that are themselves tuples are not generated.
"""
import itertools
import random
from fractions import Fraction

PROPERTY = "C10"

RAISES = "does not raise on admissible input"
INT_S = (1, 2, 3)
JAC_S = (0.25, 0.5, 1.0)
INT_S_EXTRA = (4, 5)
JAC_S_EXTRA = (0.125, 0.375, 0.75)


# ------------------------------------------------------------------------------------------------ plumbing
class Sink:
    """Collects cases / clause evaluations / failures (in a worker or in replay); merged into ctx by the parent."""

    def __init__(self):
        self.cases, self.clauses, self.fails, self.counts = [], {}, [], {}
        self._per_key = {}

    def case(self, desc, nontrivial=True):
        self.cases.append((desc, nontrivial))

    def count(self, name, n=1):
        self.counts[name] = self.counts.get(name, 0) + n

    def fail(self, function, clause, input, expected=None, observed=None, key=None, replay=None):
        key = key or f"{function}:{clause}"
        n = self._per_key.get(key, 0)
        self._per_key[key] = n + 1
        if n < 3:
            if isinstance(replay, dict):
                replay = dict(replay, clause=clause)
            self.fails.append(dict(function=function, clause=clause, input=input, expected=_j(expected),
                                   observed=_j(observed), key=key, replay=replay))

    def check(self, cond, function, clause, input, expected=None, observed=None, key=None, replay=None):
        name = f"{function}:{clause}"
        self.clauses[name] = self.clauses.get(name, 0) + 1
        if not cond:
            self.fail(function, clause, input, expected, observed, key, replay)
        return cond

    def merge_into(self, ctx, seen=None):
        """seen: key -> number already forwarded; ctx keeps only 50 violations in all, so forward two per key."""
        seen = {} if seen is None else seen
        for d, nt in self.cases:
            ctx.case(d, nt)
        for k, n in self.clauses.items():
            ctx.contract_evals[k] = ctx.contract_evals.get(k, 0) + n
        for k, n in self.counts.items():
            ctx.count(k, n)
        for f in self.fails:
            if seen.get(f["key"], 0) < 2:
                seen[f["key"]] = seen.get(f["key"], 0) + 1
                ctx.fail(**f)


def _j(x):
    """json-able, order-stable rendering of sets of frozensets etc."""
    if isinstance(x, (frozenset, set)):
        return sorted((_j(v) for v in x), key=repr)
    if isinstance(x, (list, tuple)):
        return [_j(v) for v in x]
    if isinstance(x, dict):
        return {str(k): _j(v) for k, v in x.items()}
    if isinstance(x, Fraction):
        return float(x)
    if isinstance(x, (str, int, float, bool)) or x is None:
        return x
    return repr(x)


_REPO = None


def _repo():
    global _REPO
    if _REPO is None:
        import networkx as nx
        from hypergraphx import Hypergraph, DirectedHypergraph
        from hypergraphx.representations import projections as P
        from hypergraphx.representations.simplicial_complex import simplicial_complex

        class R:
            pass
        R.nx, R.Hypergraph, R.DirectedHypergraph, R.P, R.simplicial_complex = nx, Hypergraph, DirectedHypergraph, P, simplicial_complex
        _REPO = R
    return _REPO


# ------------------------------------------------------------------------------------------------ similarity (oracle)
def _sim(distance, a, b):
    if distance == "intersection":
        return len(a & b)
    return Fraction(len(a & b), len(a | b))


def _at_least(value, s):
    return Fraction(value) >= Fraction(s)


def _close(w, value):
    try:
        w = float(w)
    except Exception:
        return False
    v = float(value)
    return abs(w - v) <= 1e-9 * max(1.0, abs(v))


def _configs(extra):
    ints = INT_S + (INT_S_EXTRA if extra else ())
    jacs = JAC_S + (JAC_S_EXTRA if extra else ())
    for w in (False, True):
        for s in ints:
            yield dict(distance="intersection", s=s, weighted=w)
        for s in jacs:
            yield dict(distance="jaccard", s=s, weighted=w)


# ------------------------------------------------------------------------------------------------ building inputs
def _tup(x):
    return tuple(x)


def _build_undirected(spec):
    """-> (h, N:set, E:set[frozenset]) | None when the container rejects / misreports the description."""
    R = _repo()
    nodes = list(spec["nodes"])
    edges = [_tup(e) for e in spec["edges"]]
    weights = spec.get("weights")
    ops = spec.get("ops") or []
    try:
        h = R.Hypergraph(weighted=bool(weights))
        h.add_nodes(nodes)
        if weights:
            h.add_edges(edges, weights=list(weights))
        else:
            h.add_edges(edges)
        for op in ops:
            if op[0] == "remove_edge":
                h.remove_edge(_tup(op[1]))
            elif op[0] == "remove_node":
                h.remove_node(op[1])
        N = list(h.get_nodes())
        EL = [_tup(e) for e in h.get_edges()]
    except Exception:
        return None
    E = {frozenset(e) for e in EL}
    if len(E) != len(EL) or len(set(N)) != len(N) or any(not e <= set(N) for e in E):
        return None
    if not ops:
        want_e = {frozenset(e) for e in edges}
        want_n = set(nodes) | {v for e in edges for v in e}
        if E != want_e or set(N) != want_n:
            return None
    return h, set(N), E


def _build_directed(spec):
    R = _repo()
    nodes = list(spec["nodes"])
    edges = [(_tup(e[0]), _tup(e[1])) for e in spec["edges"]]
    weights = spec.get("weights")
    ops = spec.get("ops") or []
    try:
        h = R.DirectedHypergraph(weighted=bool(weights))
        h.add_nodes(nodes)
        if weights:
            h.add_edges(edges, weights=list(weights))
        else:
            h.add_edges(edges)
        for op in ops:
            if op[0] == "remove_edge":
                h.remove_edge((_tup(op[1][0]), _tup(op[1][1])))
        N = list(h.get_nodes())
        EL = [(_tup(e[0]), _tup(e[1])) for e in h.get_edges()]
    except Exception:
        return None
    E = {(frozenset(a), frozenset(b)) for a, b in EL}
    if len(E) != len(EL) or any(not (a | b) <= set(N) or not a or not b or (a & b) for a, b in E):
        return None
    if not ops:
        want_e = {(frozenset(a), frozenset(b)) for a, b in edges}
        want_n = set(nodes) | {v for a, b in edges for v in a + b}
        if E != want_e or set(N) != want_n:
            return None
    return h, set(N), E


# ------------------------------------------------------------------------------------------------ contracts
def _guard(sink, fname, inp, rp, thunk):
    """Run the real function; an exception on an admissible input is a failed clause."""
    try:
        out = thunk()
    except Exception as ex:  # noqa: BLE001
        sink.check(False, fname, RAISES, inp, expected="a result", observed=f"{type(ex).__name__}: {ex}", replay=rp)
        return False, None
    sink.check(True, fname, RAISES, inp)
    return True, out


def _examine(sink, fname, inp, rp, thunk):
    """Evaluate the clauses; a result of an unusable shape is reported once instead of crashing the driver."""
    try:
        thunk()
    except Exception as ex:  # noqa: BLE001
        sink.check(False, fname, "returns the advertised graph and id table", inp,
                   observed=f"{type(ex).__name__}: {ex}", replay=rp)


def _c_bipartite(sink, h, N, E, spec):
    R = _repo()
    fn = "projections.bipartite_projection"
    inp = dict(hypergraph=spec)
    rp = dict(spec=spec, function="bipartite")
    ok, out = _guard(sink, fn, inp, rp, lambda: R.P.bipartite_projection(h))
    if not ok:
        return

    def clauses():
        g, ids = out
        V = list(g.nodes())

        def img(o):
            try:
                if o in N:
                    return ("n", o)
            except TypeError:
                pass
            if isinstance(o, (str, bytes)):
                return None
            try:
                fs = frozenset(o)
            except TypeError:
                return None
            return ("e", fs) if fs in E else None

        images = {v: (img(ids[v]) if v in ids else None) for v in V}
        a = sink.check(all(i is not None for i in images.values()), fn,
                       "id table maps every vertex back to its node or hyperedge", inp,
                       expected="every vertex has an entry that is a node or a hyperedge of the input",
                       observed={str(v): _j(ids.get(v, "<missing>")) for v in V if images[v] is None}, replay=rp)
        want = {("n", v) for v in N} | {("e", e) for e in E}
        got = [i for i in images.values() if i is not None]
        sink.check(len(V) == len(N) + len(E) and len(set(got)) == len(got) and set(got) == want, fn,
                   "one vertex per node and one per hyperedge", inp,
                   expected=dict(vertices=len(N) + len(E)), observed=dict(vertices=len(V), distinct_images=len(set(got))),
                   replay=rp)
        if a:
            obs = {frozenset((images[u], images[v])) for u, v in g.edges()}
            exp = {frozenset((("n", v), ("e", e))) for e in E for v in e}
            sink.check(obs == exp, fn, "vertices joined exactly when the node belongs to the hyperedge", inp,
                       expected=dict(missing=_j(exp - obs)), observed=dict(spurious=_j(obs - exp)), replay=rp)
    _examine(sink, fn, inp, rp, clauses)


def _c_clique(sink, h, N, E, spec):
    R = _repo()
    fn = "projections.clique_projection"
    exp = {frozenset(p) for e in E for p in itertools.combinations(sorted(e, key=repr), 2)}
    for keep in (False, True):
        inp = dict(hypergraph=spec, keep_isolated=keep)
        rp = dict(spec=spec, function="clique", keep_isolated=keep)
        ok, g = _guard(sink, fn, inp, rp, lambda: R.P.clique_projection(h, keep_isolated=keep))
        if not ok:
            continue

        def clauses():
            V = set(g.nodes())
            obs = {frozenset((u, v)) for u, v in g.edges()}
            sink.check(obs == exp, fn, "two nodes joined exactly when some hyperedge contains both", inp,
                       expected=dict(missing=_j(exp - obs)), observed=dict(spurious=_j(obs - exp)), replay=rp)
            sink.check(V <= N, fn, "every vertex is a node of the hypergraph", inp, observed=_j(V - N), replay=rp)
            if keep:
                sink.check(N <= V, fn, "keeps isolated nodes when asked", inp, expected=_j(N), observed=_j(V), replay=rp)
        _examine(sink, fn, inp, rp, clauses)


def _c_line_graph(sink, h, N, E, spec, cfg):
    R = _repo()
    fn = "projections.line_graph"
    inp = dict(hypergraph=spec, **cfg)
    rp = dict(spec=spec, function="line_graph", cfg=cfg)
    ok, out = _guard(sink, fn, inp, rp,
                     lambda: R.P.line_graph(h, distance=cfg["distance"], s=cfg["s"], weighted=cfg["weighted"]))
    if not ok:
        return

    def clauses():
        g, ids = out
        V = list(g.nodes())

        def img(v):
            if v not in ids or isinstance(ids[v], (str, bytes)):
                return None
            try:
                fs = frozenset(ids[v])
            except TypeError:
                return None
            return fs if fs in E else None
        images = {v: img(v) for v in V}
        got = [i for i in images.values() if i is not None]
        a = sink.check(len(got) == len(V) == len(E) and set(got) == E, fn,
                       "one vertex per hyperedge, mapped back by the id table", inp,
                       expected=dict(vertices=len(E)), observed=dict(vertices=len(V), mapped=len(set(got))), replay=rp)
        if not a:
            return
        d = cfg["distance"]
        exp = {frozenset((e, f)) for e, f in itertools.combinations(list(E), 2) if _at_least(_sim(d, e, f), cfg["s"])}
        obs = {frozenset((images[u], images[v])) for u, v in g.edges()}
        sink.check(obs == exp, fn, "two hyperedges joined exactly when their similarity is at least s", inp,
                   expected=dict(missing=_j(exp - obs)), observed=dict(spurious=_j(obs - exp)), replay=rp)
        if cfg["weighted"]:
            bad = [(_j(images[u]), _j(images[v]), dd.get("weight", "<none>"), float(_sim(d, images[u], images[v])))
                   for u, v, dd in g.edges(data=True)
                   if u != v and not _close(dd.get("weight"), _sim(d, images[u], images[v]))]
            sink.check(not bad, fn, "carries the similarity value as weight when weighted", inp,
                       expected="weight == similarity (1e-9)", observed=_j(bad[:3]), replay=rp)
    _examine(sink, fn, inp, rp, clauses)


def _c_directed_line_graph(sink, h, N, E, spec, cfg):
    R = _repo()
    fn = "projections.directed_line_graph"
    inp = dict(hypergraph=spec, **cfg)
    rp = dict(spec=spec, function="directed_line_graph", cfg=cfg)
    ok, out = _guard(sink, fn, inp, rp,
                     lambda: R.P.directed_line_graph(h, distance=cfg["distance"], s=cfg["s"], weighted=cfg["weighted"]))
    if not ok:
        return

    def clauses():
        g, ids = out
        V = list(g.nodes())

        def img(v):
            try:
                a, b = ids[v]
                e = (frozenset(a), frozenset(b))
            except Exception:  # noqa: BLE001
                return None
            return e if e in E else None
        images = {v: img(v) for v in V}
        got = [i for i in images.values() if i is not None]
        a = sink.check(len(got) == len(V) == len(E) and set(got) == E, fn,
                       "one vertex per hyperedge, mapped back by the id table", inp,
                       expected=dict(vertices=len(E)), observed=dict(vertices=len(V), mapped=len(set(got))), replay=rp)
        if not a:
            return
        d = cfg["distance"]
        exp = {(e, f) for e in E for f in E if e != f and _at_least(_sim(d, e[1], f[0]), cfg["s"])}
        obs = {(images[u], images[v]) for u, v in g.edges()} if g.is_directed() else None
        sink.check(obs == exp, fn, "arc e->f exactly when target(e) and source(f) overlap by at least s", inp,
                   expected=dict(missing=_j(exp - obs) if obs is not None else "a directed graph"),
                   observed=dict(spurious=_j(obs - exp)) if obs is not None else "an undirected graph", replay=rp)
        if cfg["weighted"] and obs is not None:
            bad = [(_j(images[u]), _j(images[v]), dd.get("weight", "<none>"), float(_sim(d, images[u][1], images[v][0])))
                   for u, v, dd in g.edges(data=True)
                   if u != v and not _close(dd.get("weight"), _sim(d, images[u][1], images[v][0]))]
            sink.check(not bad, fn, "carries the overlap value as weight when weighted", inp,
                       expected="weight == similarity (1e-9)", observed=_j(bad[:3]), replay=rp)
    _examine(sink, fn, inp, rp, clauses)


def _c_simplicial(sink, h, N, E, spec):
    R = _repo()
    fn = "simplicial_complex.simplicial_complex"
    inp = dict(hypergraph=spec)
    rp = dict(spec=spec, function="simplicial")
    ok, S = _guard(sink, fn, inp, rp, lambda: R.simplicial_complex(h))
    if not ok:
        return

    def clauses():
        SE = {frozenset(e) for e in S.get_edges()}
        sink.check(E <= SE, fn, "contains every hyperedge of the input", inp, observed=dict(missing=_j(E - SE)), replay=rp)
        subs = {frozenset(c) for e in E for k in range(1, len(e) + 1) for c in itertools.combinations(sorted(e, key=repr), k)}
        sink.check(subs <= SE, fn, "contains every non-empty subset of every hyperedge", inp,
                   observed=dict(missing=_j(subs - SE)), replay=rp)
        extra = {f for f in SE if f and not any(f <= e for e in E)}
        sink.check(not extra, fn, "every non-empty hyperedge is a subset of some hyperedge of the input", inp,
                   observed=dict(spurious=_j(extra)), replay=rp)
        if frozenset() in SE:
            sink.count("simplicial_complex results that contain the empty hyperedge (not constrained by the statement)")
    _examine(sink, fn, inp, rp, clauses)


def _run_spec(sink, spec, extra=False, only=None):
    """All contracts on one input. only = replay selector dict(function=..., cfg=..., keep_isolated=...)."""
    directed = spec["kind"] == "D"
    built = _build_directed(spec) if directed else _build_undirected(spec)
    if built is None:
        sink.count("inputs skipped: container rejected or misreported the description (not C10)")
        return False
    h, N, E = built
    if only is None:
        sink.case(spec, nontrivial=len(E) >= 2)
    want = only["function"] if only else None
    if directed:
        for cfg in ([only["cfg"]] if only else _configs(extra)):
            _c_directed_line_graph(sink, h, N, E, spec, cfg)
            sink.count("calls directed_line_graph")
        return True
    if want in (None, "bipartite"):
        _c_bipartite(sink, h, N, E, spec)
        sink.count("calls bipartite_projection")
    if want in (None, "clique"):
        _c_clique(sink, h, N, E, spec)
        sink.count("calls clique_projection", 2)
    if want in (None, "line_graph"):
        for cfg in ([only["cfg"]] if only else _configs(extra)):
            _c_line_graph(sink, h, N, E, spec, cfg)
            sink.count("calls line_graph")
    if want in (None, "simplicial"):
        _c_simplicial(sink, h, N, E, spec)
        sink.count("calls simplicial_complex")
    return True


# ------------------------------------------------------------------------------------------------ generators
def _shuffled(spec, seed, idx):
    r = random.Random(f"{seed}/{spec['kind']}/{idx}")
    nodes, edges = list(spec["nodes"]), list(spec["edges"])
    r.shuffle(nodes)
    r.shuffle(edges)
    if spec["kind"] == "U":
        edges = [r.sample(list(e), len(e)) for e in edges]
    return dict(spec, nodes=nodes, edges=edges)


def _exhaustive_undirected(plan, seed):
    idx = 0
    for n, m_max in plan:
        subsets = [list(c) for k in range(1, n + 1) for c in itertools.combinations(range(n), k)]
        for m in range(0, min(m_max, len(subsets)) + 1):
            for es in itertools.combinations(subsets, m):
                spec = dict(kind="U", nodes=list(range(n)), edges=[list(e) for e in es])
                idx += 1
                yield _shuffled(spec, seed, idx) if idx % 2 else spec


def _directed_hyperedges(n):
    out = []
    for assign in itertools.product((0, 1, 2), repeat=n):
        src = [i for i in range(n) if assign[i] == 1]
        tgt = [i for i in range(n) if assign[i] == 2]
        if src and tgt:
            out.append([src, tgt])
    return out


def _exhaustive_directed(plan, seed):
    idx = 0
    for n, m_max in plan:
        hes = _directed_hyperedges(n)
        for m in range(0, m_max + 1):
            for es in itertools.combinations(hes, m):
                spec = dict(kind="D", nodes=list(range(n)), edges=[[list(a), list(b)] for a, b in es])
                idx += 1
                yield _shuffled(spec, seed, idx) if idx % 2 else spec


def _labels(r, n):
    kind = r.choice(("range", "sparse", "negative", "letters", "words"))
    if kind == "range":
        return list(range(n))
    if kind == "sparse":
        return r.sample(range(0, 1000), n)
    if kind == "negative":
        return r.sample(range(-50, 50), n)
    if kind == "letters":
        return r.sample("abcdefghijklmnopqrstuvwxyzENX", n)
    return r.sample(["n%d" % i for i in range(1, 40)] + ["E1", "N0", "E10", "node", "edge"], n)


def _random_undirected(r):
    n = r.randint(5, 9)
    labs = _labels(r, n)
    used = labs[: r.randint(max(2, n - 3), n)]            # the rest stay isolated
    m = r.randint(3, 8)
    edges = []
    for _ in range(m * 3):
        if len(edges) >= m:
            break
        mode = r.random()
        if edges and mode < 0.3:                             # nested: a sub-hyperedge of an existing one
            base = r.choice(edges)
            e = r.sample(base, r.randint(1, len(base)))
        elif edges and mode < 0.5:                           # overlapping: extend part of an existing one
            base = r.choice(edges)
            e = list(set(r.sample(base, r.randint(1, len(base))) + r.sample(used, r.randint(1, min(3, len(used))))))
        else:
            e = r.sample(used, r.randint(1, min(6, len(used))))
        e = sorted(set(e), key=repr)[:6]
        if e and frozenset(e) not in {frozenset(x) for x in edges}:
            edges.append(r.sample(e, len(e)))
    spec = dict(kind="U", nodes=r.sample(labs, n), edges=edges)
    if r.random() < 0.3:
        spec["weights"] = [r.choice((0.5, 1, 2, 3.25, 7)) for _ in edges]
    if r.random() < 0.35 and len(edges) >= 3:
        ops = []
        live = [list(e) for e in edges]
        for _ in range(r.randint(1, 2)):
            if r.random() < 0.6 and len(live) > 1:
                e = live.pop(r.randrange(len(live)))
                ops.append(["remove_edge", e])
            else:
                v = r.choice(labs)
                if any(o[0] == "remove_node" and o[1] == v for o in ops):
                    continue
                ops.append(["remove_node", v])
                live = [e for e in live if v not in e]
        spec["ops"] = ops
    return spec


def _random_directed(r):
    n = r.randint(4, 8)
    labs = _labels(r, n)
    m = r.randint(2, 7)
    edges, seen = [], set()
    for _ in range(m * 3):
        if len(edges) >= m:
            break
        if edges and r.random() < 0.5:                       # make target/source overlaps likely
            base = r.choice(edges)
            src = r.sample(base[1], r.randint(1, len(base[1])))
            if r.random() < 0.4:
                src = list(set(src + r.sample(labs, 1)))
        else:
            src = r.sample(labs, r.randint(1, min(3, n - 1)))
        rest = [v for v in labs if v not in src]
        if not rest:
            continue
        tgt = r.sample(rest, r.randint(1, min(3, len(rest))))
        k = (frozenset(src), frozenset(tgt))
        if k not in seen:
            seen.add(k)
            edges.append([src, tgt])
    spec = dict(kind="D", nodes=r.sample(labs, n), edges=edges)
    if r.random() < 0.3:
        spec["weights"] = [r.choice((0.5, 1, 2, 3.25)) for _ in edges]
    if r.random() < 0.25 and len(edges) >= 3:
        spec["ops"] = [["remove_edge", edges[r.randrange(len(edges))]]]
    return spec


# ------------------------------------------------------------------------------------------------ driver
def _work(task):
    specs, extra = task
    sink = Sink()
    for spec in specs:
        _run_spec(sink, spec, extra=extra)
    return sink


def _chunks(it, size):
    buf = []
    for x in it:
        buf.append(x)
        if len(buf) == size:
            yield buf
            buf = []
    if buf:
        yield buf


def run(ctx):
    import multiprocessing as mp
    _repo()
    quick = ctx.quick
    seed = ctx.seed
    if quick:
        u_plan, d_plan, n_rand = [(1, 1), (2, 3), (3, 4), (4, 4), (5, 3)], [(2, 2), (3, 3), (4, 2)], 400
    else:
        u_plan, d_plan, n_rand = [(1, 1), (2, 3), (3, 7), (4, 5), (5, 4)], [(2, 2), (3, 4), (4, 3), (5, 2)], 6000

    ctx.rule("exhaustive: every Hypergraph on nodes {0..n-1} with <=m distinct hyperedges of size 1..n for (n, m) in %s (all "
             "nodes added, so uncovered ones are isolated); every DirectedHypergraph with disjoint non-empty source/target "
             "for (n, m) in %s; on each one every configuration distance x s x weighted "
             "(intersection s in {1,2,3}, jaccard s in {0.25,0.5,1.0}), keep_isolated in {F,T}; every second instance is "
             "built in a shuffled insertion order" % (u_plan, d_plan))
    ctx.rule("random (seeded): %d undirected + %d directed instances with 5..9 / 4..8 nodes, 3..8 hyperedges up to size 6, "
             "nested and overlapping hyperedges forced, integer (0..N-1, sparse, negative) or string labels, isolated "
             "nodes, weighted containers, remove_edge/remove_node histories; extra thresholds s in {4,5} and "
             "{0.125,0.375,0.75}" % (n_rand, n_rand))
    ctx.rule("one case = one input hypergraph (all functions and configurations are run on it); non-trivial = at least two "
             "hyperedges (so that a pair can be joined or not)")
    ctx.assume("input hypergraph = what get_nodes()/get_edges() report before the call (cross-checked against the "
               "generating description for constructor-built inputs)")
    ctx.assume("Jaccard thresholds are dyadic rationals, so float `w >= s` on the correctly rounded quotient equals the "
               "exact rational comparison used by the oracle; weights compared with 1e-9 relative tolerance")
    ctx.assume("networkx Graph/DiGraph accessors nodes()/edges(data=True) used to observe the results")

    r = random.Random(f"{seed}/C10/random")
    rand_u = [_random_undirected(r) for _ in range(n_rand)]
    rand_d = [_random_directed(r) for _ in range(n_rand)]

    tasks = []
    for ch in _chunks(_exhaustive_undirected(u_plan, seed), 400):
        tasks.append((ch, False))
    for ch in _chunks(_exhaustive_directed(d_plan, seed), 400):
        tasks.append((ch, False))
    for ch in _chunks(iter(rand_u), 200):
        tasks.append((ch, True))
    for ch in _chunks(iter(rand_d), 200):
        tasks.append((ch, True))

    procs = min(12, max(1, (mp.cpu_count() or 2) - 2))
    if procs > 1 and len(tasks) > 2:
        with mp.get_context("fork").Pool(procs) as pool:
            sinks = pool.map(_work, tasks, chunksize=1)
    else:
        sinks = [_work(t) for t in tasks]
    seen = {}
    for s in sinks:
        s.merge_into(ctx, seen)
    ctx.exhaustive_parts.append("all Hypergraphs on {0..n-1} with <=m hyperedges for (n, m) in %s x all 12 line-graph "
                                "configurations, both clique modes, bipartite projection, simplicial complex" % (u_plan,))
    ctx.exhaustive_parts.append("all DirectedHypergraphs (disjoint non-empty source/target) on {0..n-1} with <=m hyperedges "
                                "for (n, m) in %s x all 12 configurations" % (d_plan,))


def replay(data):
    _repo()
    sink = Sink()
    spec = data["spec"]
    built = _run_spec(sink, spec, extra=False, only=data)
    if not built:
        return True, "input could not be rebuilt on this tree (container rejected it); nothing to check"
    if sink.fails:
        same = [f for f in sink.fails if f["clause"] == data.get("clause")]
        f = (same or sink.fails)[0]
        return False, "%s: clause '%s' is false on %s; expected %s, observed %s" % (
            f["function"], f["clause"], _j(data), f["expected"], f["observed"])
    return True, "all clauses of %s hold on the recorded input (%d clause evaluations)" % (
        data.get("function"), sum(sink.clauses.values()))
