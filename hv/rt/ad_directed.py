"""Adaptor of hypergraphx.DirectedHypergraph for the history explorer.
Ghost (from the statement of C02): set of nodes, map (frozenset source, frozenset target) -> [weight, metadata], node metadata."""
import copy
from .containers import Reject, Unspecified, UNKNOWN, msort, tuplify
from .ad_hypergraph import FILTERS, UPTO, fname, sel


class Ghost:
    def __init__(self, weighted):
        self.weighted = weighted
        self.V = set()
        self.E = {}
        self.NM = {}


def K(e):
    return (frozenset(e[0]), frozenset(e[1]))


def show(k):
    return [sorted(k[0]), sorted(k[1])]


def klen(k):
    return len(k[0]) + len(k[1])


class DirectedAdaptor:
    name = "DirectedHypergraph"

    def __init__(self, universe, probe_edges):
        self.universe = list(universe)
        self.probe_edges = [tuplify(list(e)) for e in probe_edges]

    def new_real(self, config):
        from hypergraphx import DirectedHypergraph
        return DirectedHypergraph(weighted=config["weighted"])

    def new_ghost(self, config):
        return Ghost(config["weighted"])

    def function_of(self, op):
        return f"DirectedHypergraph.{op[0]}"

    def partial_key(self, op):
        if op[0] in ("remove_edges", "remove_nodes", "add_nodes", "add_edges"):
            return f"DirectedHypergraph.{op[0]}:batch-applied-partially-before-raising"
        return None

    # ---- ghost
    def g_add_node(self, g, n, md=None):
        if n not in g.V:
            g.V.add(n)
            g.NM[n] = copy.deepcopy(md) if md is not None else {}
        elif md is not None and g.NM[n] != md:
            g.NM[n] = UNKNOWN

    def g_add_edge(self, g, e, w=None, md=None):
        s, t = tuple(e[0]), tuple(e[1])
        if not s or not t or len(set(s)) != len(s) or len(set(t)) != len(t) or set(s) & set(t):
            raise Reject()
        if not g.weighted and w is not None and w != 1:
            raise Reject()
        k = K(e)
        for n in s + t:
            self.g_add_node(g, n)
        if k not in g.E:
            g.E[k] = [(w if w is not None else 1) if g.weighted else 1, copy.deepcopy(md) if md is not None else {}]
        else:
            if g.weighted:
                g.E[k][0] += (w if w is not None else 1)
            g.E[k][1] = copy.deepcopy(md) if md is not None else UNKNOWN

    def g_remove_node(self, g, n):
        if n not in g.V:
            raise Reject()
        for k in [k for k in g.E if n in k[0] or n in k[1]]:
            del g.E[k]
        g.V.discard(n)
        g.NM.pop(n, None)

    def apply_ghost(self, g, op):
        op = tuplify(op)
        name, a = op[0], op[1:]
        if name == "add_node":
            self.g_add_node(g, a[0], a[1] if len(a) > 1 else None)
        elif name == "add_nodes":
            for n in a[0]:
                self.g_add_node(g, n)
        elif name == "add_edge":
            self.g_add_edge(g, *a)
        elif name == "add_edges":
            edges, ws, mds = a[0], (a[1] if len(a) > 1 else None), (a[2] if len(a) > 2 else None)
            if ws is not None and not g.weighted:
                raise Unspecified()     # the code announces that the hypergraph becomes weighted; the statement is silent
            if ws is not None and len(ws) != len(edges):
                raise Reject()
            for e in edges:
                s, t = tuple(e[0]), tuple(e[1])
                if not s or not t or len(set(s)) != len(s) or len(set(t)) != len(t) or set(s) & set(t):
                    raise Reject()
            for i, e in enumerate(edges):
                self.g_add_edge(g, e, ws[i] if ws is not None else None, mds[i] if mds is not None else None)
        elif name == "remove_edge":
            if K(a[0]) not in g.E:
                raise Reject()
            del g.E[K(a[0])]
        elif name == "remove_edges":
            ks = [K(e) for e in a[0]]
            if len(set(ks)) != len(ks) or any(k not in g.E for k in ks):
                raise Reject()
            for k in ks:
                del g.E[k]
        elif name == "remove_node":
            self.g_remove_node(g, a[0])
        elif name == "remove_nodes":
            ns = list(a[0])
            if len(set(ns)) != len(ns) or any(n not in g.V for n in ns):
                raise Reject()
            for n in ns:
                self.g_remove_node(g, n)
        elif name == "set_weight":
            k = K(a[0])
            if k not in g.E or (not g.weighted and a[1] != 1):
                raise Reject()
            g.E[k][0] = a[1]
        elif name == "set_node_metadata":
            if a[0] not in g.V:
                raise Reject()
            g.NM[a[0]] = copy.deepcopy(a[1])
        elif name == "set_edge_metadata":
            if K(a[0]) not in g.E:
                raise Reject()
            g.E[K(a[0])][1] = copy.deepcopy(a[1])
        elif name == "set_attr_node":
            if a[0] not in g.V:
                raise Reject()
            if g.NM[a[0]] != UNKNOWN:
                g.NM[a[0]][a[1]] = a[2]
        elif name == "set_attr_edge":
            if K(a[0]) not in g.E:
                raise Reject()
            if g.E[K(a[0])][1] != UNKNOWN:
                g.E[K(a[0])][1][a[1]] = a[2]
        elif name == "del_attr_node":
            if a[0] not in g.V:
                raise Reject()
            if g.NM[a[0]] == UNKNOWN:
                raise Unspecified()
            if a[1] not in g.NM[a[0]]:
                raise Reject()
            del g.NM[a[0]][a[1]]
        elif name == "del_attr_edge":
            if K(a[0]) not in g.E:
                raise Reject()
            md = g.E[K(a[0])][1]
            if md == UNKNOWN:
                raise Unspecified()
            if a[1] not in md:
                raise Reject()
            del md[a[1]]
        elif name == "clear":
            g.V.clear(), g.E.clear(), g.NM.clear()
        elif name == "copy":
            pass
        else:
            raise ValueError(name)

    # ---- real
    def apply_real(self, h, op):
        op = tuplify(op)
        name, a = op[0], op[1:]
        md = lambda x: copy.deepcopy(x) if x is not None else None
        E = lambda e: (tuple(e[0]), tuple(e[1]))
        if name == "add_node":
            h.add_node(a[0], md(a[1])) if len(a) > 1 else h.add_node(a[0])
        elif name == "add_nodes":
            h.add_nodes(list(a[0]))
        elif name == "add_edge":
            kw = {}
            if len(a) > 1 and a[1] is not None:
                kw["weight"] = a[1]
            if len(a) > 2 and a[2] is not None:
                kw["metadata"] = md(a[2])
            h.add_edge(E(a[0]), **kw)
        elif name == "add_edges":
            kw = {}
            if len(a) > 1 and a[1] is not None:
                kw["weights"] = list(a[1])
            if len(a) > 2 and a[2] is not None:
                kw["metadata"] = [md(x) for x in a[2]]
            h.add_edges([E(e) for e in a[0]], **kw)
        elif name == "remove_edge":
            h.remove_edge(E(a[0]))
        elif name == "remove_edges":
            h.remove_edges([E(e) for e in a[0]])
        elif name == "remove_node":
            h.remove_node(a[0])
        elif name == "remove_nodes":
            h.remove_nodes(list(a[0]))
        elif name == "set_weight":
            h.set_weight(E(a[0]), a[1])
        elif name == "set_node_metadata":
            h.set_node_metadata(a[0], md(a[1]))
        elif name == "set_edge_metadata":
            h.set_edge_metadata(E(a[0]), md(a[1]))
        elif name == "set_attr_node":
            h.set_attr_to_node_metadata(a[0], a[1], a[2])
        elif name == "set_attr_edge":
            h.set_attr_to_edge_metadata(E(a[0]), a[1], a[2])
        elif name == "del_attr_node":
            h.remove_attr_from_node_metadata(a[0], a[1])
        elif name == "del_attr_edge":
            h.remove_attr_from_edge_metadata(E(a[0]), a[1])
        elif name == "clear":
            h.clear()
        elif name == "copy":
            return h.copy()
        else:
            raise ValueError(name)
        return None

    # ---- observations
    def observe_ghost(self, g):
        o = {}
        V, E = g.V, g.E
        o["get_nodes()"] = msort(V)
        o["num_nodes()"] = len(V)
        o["num_edges()"] = len(E)
        o["is_weighted()"] = g.weighted
        o["get_nodes(metadata=True)"] = {repr(n): g.NM[n] for n in V}
        o["get_sources()"] = msort(sorted(k[0]) for k in E)
        o["get_targets()"] = msort(sorted(k[1]) for k in E)
        for n in self.universe:
            o[f"check_node({n!r})"] = n in V
            if n in V:
                o[f"get_node_metadata({n!r})"] = g.NM[n]
        for f in FILTERS + UPTO:
            ks = [k for k in E if sel(klen(k), f)]
            o[f"get_edges({fname(f)})"] = msort(show(k) for k in ks)
            o[f"get_weights({fname(f)})"] = msort(E[k][0] for k in ks)
            o[f"get_weights(asdict,{fname(f)})"] = {repr(show(k)): E[k][0] for k in ks}
        o["get_edges(metadata=True)"] = {repr(show(k)): E[k][1] for k in E}
        o["get_sizes()"] = msort(klen(k) for k in E)
        o["get_orders()"] = msort(klen(k) - 1 for k in E)
        o["distribution_sizes()"] = {str(s): sum(1 for k in E if klen(k) == s) for s in {klen(k) for k in E}}
        o["is_uniform()"] = len({klen(k) for k in E}) <= 1
        if E:
            o["max_size()"] = max(klen(k) for k in E)
            o["max_order()"] = max(klen(k) for k in E) - 1
        for e in self.probe_edges:
            k = K(e)
            o[f"check_edge({e!r})"] = k in E
            if k in E:
                o[f"get_weight({e!r})"] = E[k][0]
                o[f"get_edge_metadata({e!r})"] = E[k][1]
        for f in FILTERS:
            degs = {n: sum(1 for k in E if n in k[0] and sel(klen(k), f)) + sum(1 for k in E if n in k[1] and sel(klen(k), f)) for n in V}
            o[f"degree_sequence({fname(f)})"] = {repr(n): d for n, d in degs.items()}
            dd = {}
            for d in degs.values():
                dd[str(d)] = dd.get(str(d), 0) + 1
            o[f"degree_distribution({fname(f)})"] = dd
            for n in V:
                src = [k for k in E if n in k[0] and sel(klen(k), f)]
                tgt = [k for k in E if n in k[1] and sel(klen(k), f)]
                o[f"get_source_edges({n!r},{fname(f)})"] = msort(show(k) for k in src)
                o[f"get_target_edges({n!r},{fname(f)})"] = msort(show(k) for k in tgt)
                o[f"get_incident_edges({n!r},{fname(f)})"] = msort(show(k) for k in src + tgt)
                o[f"degree({n!r},{fname(f)})"] = len(src) + len(tgt)
                nb = set()
                for k in src + tgt:
                    nb |= set(k[0]) | set(k[1])
                nb.discard(n)
                o[f"get_neighbors({n!r},{fname(f)})"] = msort(nb)
        return o

    def observe_real(self, h, g=None):
        o = {}

        def q(key, fn):
            try:
                o[key] = fn()
            except Exception as ex:     # noqa: BLE001
                o[key] = f"<raised {type(ex).__name__}>"

        S = lambda e: [sorted(e[0]), sorted(e[1])]
        q("get_nodes()", lambda: msort(h.get_nodes()))
        q("num_nodes()", lambda: h.num_nodes())
        q("num_edges()", lambda: h.num_edges())
        q("is_weighted()", lambda: h.is_weighted())
        q("get_nodes(metadata=True)", lambda: {repr(n): m for n, m in h.get_nodes(metadata=True).items()})
        q("get_sources()", lambda: msort(sorted(s) for s in h.get_sources()))
        q("get_targets()", lambda: msort(sorted(s) for s in h.get_targets()))
        nodes = list(h.get_nodes())
        for n in self.universe:
            q(f"check_node({n!r})", lambda n=n: h.check_node(n))
            if n in nodes:
                q(f"get_node_metadata({n!r})", lambda n=n: h.get_node_metadata(n))
        for f in FILTERS + UPTO:
            q(f"get_edges({fname(f)})", lambda f=f: msort(S(e) for e in h.get_edges(**f)))
            q(f"get_weights({fname(f)})", lambda f=f: msort(h.get_weights(**f)))
            q(f"get_weights(asdict,{fname(f)})", lambda f=f: {repr(S(k)): v for k, v in h.get_weights(asdict=True, **f).items()})
        q("get_edges(metadata=True)", lambda: {repr(S(k)): v for k, v in h.get_edges(metadata=True).items()})
        q("get_sizes()", lambda: msort(h.get_sizes()))
        q("get_orders()", lambda: msort(h.get_orders()))
        q("distribution_sizes()", lambda: {str(k): v for k, v in h.distribution_sizes().items()})
        q("is_uniform()", lambda: h.is_uniform())
        if h.num_edges() > 0:
            q("max_size()", lambda: h.max_size())
            q("max_order()", lambda: h.max_order())
        for e in self.probe_edges:
            q(f"check_edge({e!r})", lambda e=e: h.check_edge(e))
            try:
                present = h.check_edge(e)
            except Exception:   # noqa: BLE001
                present = False
            if present is True:
                q(f"get_weight({e!r})", lambda e=e: h.get_weight(e))
                q(f"get_edge_metadata({e!r})", lambda e=e: h.get_edge_metadata(e))
        for f in FILTERS:
            q(f"degree_sequence({fname(f)})", lambda f=f: {repr(n): d for n, d in h.degree_sequence(**f).items()})
            q(f"degree_distribution({fname(f)})", lambda f=f: {str(k): v for k, v in h.degree_distribution(**f).items()})
            for n in nodes:
                q(f"get_source_edges({n!r},{fname(f)})", lambda n=n, f=f: msort(S(e) for e in h.get_source_edges(n, **f)))
                q(f"get_target_edges({n!r},{fname(f)})", lambda n=n, f=f: msort(S(e) for e in h.get_target_edges(n, **f)))
                q(f"get_incident_edges({n!r},{fname(f)})", lambda n=n, f=f: msort(S(e) for e in h.get_incident_edges(n, **f)))
                q(f"degree({n!r},{fname(f)})", lambda n=n, f=f: h.degree(n, **f))
                q(f"get_neighbors({n!r},{fname(f)})", lambda n=n, f=f: msort(h.get_neighbors(n, **f)))
        return o
