"""C04 bounded tier: MultiplexHypergraph against a map (node set, layer) -> (weight, metadata).

Scope (bounded): every history of length <= 2 (quick) / <= 3 (thorough) over a fixed alphabet of ~27 layered operations on nodes {0,1,2} and
layers {a,b,c} (the same node set in several layers, also in one weighted batch; removals; node removals with and without keep_edges; weight
and metadata updates; rejected calls), weighted and unweighted; seeded random histories of length <= 12 / <= 30 over {0..5}. After every
prefix: nodes, records, weights, layers in use, incident records, degrees, metadata, the aggregated hypergraph (nodes, distinct node sets,
summed weights), the overlap of every probe hyperedge; all of them recomputed to show that they leave the multiplex hypergraph (including
its hypergraph metadata) unchanged. Not generated: add_edges(weights=..) on an unweighted hypergraph (unspecified).
"""
import itertools
from .containers import Explorer, replay_history
from .ad_multiplex import MultiplexAdaptor
from .. import common

PROPERTY = "C04"
PROBES = [(0,), (0, 1), (1, 0), (1, 2), (0, 1, 2), (2, 0, 1), (3, 4)]
ALPHABET = [
    ("add_node", 0), ("add_node", 1, {"c": 1}), ("add_nodes", [1, 2]),
    ("add_edge", (0, 1), "a"), ("add_edge", (1, 0), "a"), ("add_edge", (0, 1), "b"), ("add_edge", (0, 1, 2), "a"), ("add_edge", (2,), "c"),
    ("add_edge", (1, 2), "b", 2), ("add_edge", (0, 1), "a", None, {"t": "x"}), ("add_edge", (0, 2), "b", 1),
    ("add_edges", [(0, 1), (1, 2)], ["a", "b"]), ("add_edges", [(0, 1), (0, 1)], ["a", "b"], [2, 3]), ("add_edges", [(0, 2), (0, 2)], ["c", "c"], [2, 3]),
    ("remove_edge", (0, 1), "a"), ("remove_edge", (1, 0), "b"), ("remove_edge", (0, 1, 2), "a"),
    ("remove_node", 0), ("remove_node", 1, True), ("remove_node", 2, True),
    ("set_weight", (0, 1), "a", 5), ("set_weight", (1, 0), "b", 1),
    ("set_attr_node", 0, "x", 1), ("set_attr_node", 1, "z", 3), ("set_attr_edge", (0, 1), "a", "y", 2),
    ("del_attr_node", 0, "x"), ("del_attr_edge", (0, 1), "a", "y"),
]


def adaptor():
    return MultiplexAdaptor([0, 1, 2, 3, 4, 5], PROBES)


def random_history(rng, length, n_nodes=6):
    hist, edges = [], []
    LAY = ["a", "b", "c"]

    def rnd_edge():
        k = rng.choice([1, 2, 2, 3, 3, 4, 5])
        return tuple(rng.sample(range(n_nodes), min(k, n_nodes))), rng.choice(LAY)

    def some_edge():
        if edges and rng.random() < 0.8:
            e, l = rng.choice(edges)
            e = list(e)
            rng.shuffle(e)
            return tuple(e), (l if rng.random() < 0.8 else rng.choice(LAY))
        return rnd_edge()

    for _ in range(length):
        r = rng.random()
        if r < 0.38:
            e, l = rnd_edge() if rng.random() < 0.6 else some_edge()
            w = rng.choice([None, None, 1, 2, 0.5])
            md = rng.choice([None, None, {"k": rng.randrange(3)}])
            op = ("add_edge", e, l, w, md) if md is not None else (("add_edge", e, l, w) if w is not None else ("add_edge", e, l))
            edges.append((e, l))
        elif r < 0.45:
            es = [rnd_edge() for _ in range(rng.randrange(1, 4))]
            op = ("add_edges", [e for e, _ in es], [l for _, l in es])
            edges += es
        elif r < 0.58:
            e, l = some_edge()
            op = ("remove_edge", e, l)
        elif r < 0.68:
            op = ("remove_node", rng.randrange(n_nodes), rng.random() < 0.5)
        elif r < 0.75:
            op = ("add_node", rng.randrange(n_nodes)) if rng.random() < 0.6 else ("add_nodes", rng.sample(range(n_nodes), 2))
        elif r < 0.85:
            e, l = some_edge()
            op = ("set_weight", e, l, rng.choice([1, 2, 7]))
        elif r < 0.93:
            e, l = some_edge()
            op = rng.choice([("set_attr_node", rng.randrange(n_nodes), "x", rng.randrange(3)), ("set_attr_edge", e, l, "y", rng.randrange(3))])
        else:
            e, l = some_edge()
            op = rng.choice([("del_attr_node", rng.randrange(n_nodes), "x"), ("del_attr_edge", e, l, "y")])
        hist.append(op)
    return hist


def _work(sub, chunk):
    ex = Explorer(sub, adaptor())
    for cfg, h in chunk:
        ex.run_history(cfg, h)


def run(ctx):
    ctx.rule("history = list of public mutating calls on a MultiplexHypergraph; exhaustive over a 26-operation alphabet on nodes {0,1,2}, layers "
             "{a,b,c} up to length 2 (quick) / 3 (thorough), plus seeded random histories on {0..5}; non-trivial = at least one call changed the "
             "abstract state; distinct = distinct (configuration, history)")
    maxlen = 2 if ctx.quick else 3
    hs = [(dict(weighted=w), list(h)) for n in range(1, maxlen + 1) for h in itertools.product(ALPHABET, repeat=n) for w in (False, True)]
    ctx.exhaustive_parts.append(f"all histories of length <= {maxlen} over the alphabet, weighted and unweighted: {len(hs)}")
    n_rand, rl = (400, 12) if ctx.quick else (8000, 30)
    rnd = [(dict(weighted=bool(i % 2)), random_history(ctx.rng, ctx.rng.randrange(3, rl + 1))) for i in range(n_rand)]
    allh = hs + rnd
    step = max(1, len(allh) // 64)
    common.parallel_map(ctx, _work, [allh[i:i + step] for i in range(0, len(allh), step)])


def replay(data):
    return replay_history(adaptor(), data)
