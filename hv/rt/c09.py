"""C09 - matrix/tensor representations equal their definitions under the returned node mapping (bounded tier).

Scope (everything is generated from ctx.seed only; budgets are counts, never wall-clock)
-----------------------------------------------------------------------------------------
EXHAUSTIVE
  * every hypergraph whose node set is {0..N-1}, 1 <= N <= 4, with every set of at most K distinct
    hyperedges of sizes 1..N (the nodes not covered stay as isolated nodes; the edgeless ones are degenerate).
      quick    : K = 3 for all six variants below
      thorough : K = 5 for labels 0..N-1 unweighted, K = 4 for the five other variants; plus N = 5 with K = 2
    variants = {labels 0..N-1, non-contiguous ints (20,5,30,10,40), strings ("n3","a","n10","B","zz")} x
               {unweighted, weighted (weights 0.5, 2, 3, 2.5, 7 by position)}.  The relabelling is not
    monotone, so the sorted order of the labels differs from the construction order.
  * every temporal hypergraph on the node set {0..N-1} given by at most 3 distinct (time, hyperedge) pairs,
    times in {0, 2}; N <= 3 (quick), N <= 4 (thorough); for N <= 3: labels 0..N-1 / non-contiguous ints / strings
    unweighted, plus the weighted variant for the 0..N-1 labelling; for N = 4: labels 0..N-1 and strings, unweighted.
SAMPLED (seeded)
  * random hypergraphs on 3..7 nodes, 1..8 hyperedges of size 1..5 in random insertion and in-edge order,
    label kinds: 0..N-1, 1..N, random (also negative) ints, strings, floats; isolated nodes added before and
    after the hyperedges; 40 % weighted; one in five is uniform on 0..N-1 (tensor).  300 quick / 3000 thorough.
  * random temporal hypergraphs on <= 6 nodes, <= 7 (time, hyperedge) pairs, times in 0..4.  100 / 1000.
EDITED OBJECTS (query -> edit -> check on the SAME object; the unedited input is a case of its own).  The query before
  the edit is get_mapping() plus the complete set of calls that is checked afterwards (every function, every order, both
  keep_isolated_nodes values, return_mapping True and False), so that whatever the library may keep from a call (a fitted
  encoder, a matrix, a snapshot) exists when the edit happens; nothing is reported from that query.
  * size-changing edits: every 10th exhaustive and every 3rd random static input, edited by remove_node with / without
    keep_edges, remove_edge, or add_edge with a new node.
  * SIZE-PRESERVING edits: every 17th exhaustive and every 3rd random static input (others than the ones above), edited so
    that the number of nodes and / or of hyperedges is what it was at the query while the content differs; kinds in turn:
      swap_node             remove_node(x, keep_edges=F/T); add_node(y), y a new label (isolated)       - node count kept
      relabel_node          remove_node(x); each hyperedge of x added again with y for x              - node, hyperedge and
                            per-order counts kept, y is not isolated
      readd_node            remove_node(x, keep_edges=F/T); add_node(x)   - same node set (labels 0..N-1 stay 0..N-1, so the
                            degree / Laplacian / tensor clauses are reached), other get_nodes() order
      swap_edge_same_size   remove_edge(e); add_edge(e') with |e'| = |e|, e' new, on the existing nodes - all counts kept
      swap_edge_other_size  the same with |e'| != |e|                                   - counts kept, per-order counts change
      reinsert_edge         remove_edge(e); add_edge(e)   - same content, e moves to the end of get_edges() (columns move)
      reweight              weighted inputs: set_weight(e, w') or add_edge(e, weight=w') (accumulates)  - only a weight changes
    y sorts before, between or after the existing labels and is of their kind (int / float / str).
  * every 23rd exhaustive and every 2nd random temporal input, queried in the same way (all temporal calls), then edited
    by swap_edge (remove_edge(e,t); add_edge(e',t)), move_edge (remove_edge(e,t); add_edge(e,t')), swap_node,
    relabel_node or reinsert_edge, which keep the number of nodes / of (time, hyperedge) pairs.
  What the edit did is read back through get_nodes() / get_edges() and counted ("edited inputs: node count unchanged, node
  set changed", ...).  An edit that the library rejects with an exception is skipped and counted (C09 says nothing about edits).
ZERO / EXTREME WEIGHTS (weighted inputs whose weights are not "ordinary"; the library accepts all of them on the unchanged tree)
  Every matrix of the statement except the weighted incidence is defined WITHOUT the weights (binary incidence, adjacency,
  dual adjacency: (e, f) = 1 iff e and f share a node, tensor, temporal adjacency), and the weighted incidence entry is the
  weight whatever it is, also 0.  So the same clauses are evaluated on
  * every exhaustive weighted static and temporal input that has a hyperedge - all of those on labels 0..N-1, every 4th of
    the relabelled ones - once more with its weights replaced, by position, by one of 8 profiles taken in turn: 0 / 0.0 in the
    first, second or third position next to ordinary weights, all weights zero, all 1e-200 / 1e-300 (products underflow),
    all 1e200 / 1e300 (products overflow), mixtures of these, a negative weight (-1.5);
  * random static inputs (a third as many as above; also the uniform ones on 0..N-1, so the adjacency tensor is evaluated on
    weighted inputs here) and random temporal inputs (a quarter as many), every weight drawn from
    {0, 0.0, 1e-200, 1e200, 1e-300, 1e300, -1.5} with probability 1/2, at least one of them;
  each built in one of three ways, in turn / drawn: add_edge(e, weight=w); the constructor (edge list, weights=[...]);
  creation with ordinary weights followed by set_weight(e, w) ("switched off afterwards"), with no query in between.  (The
  constructor of TemporalHypergraph refuses weights= when a hyperedge occurs at two times: those are built with add_edge.)
  * reweight_extreme: every 11th exhaustive and every 2nd random ordinary weighted static input, every 7th of the static inputs
    above, every 9th weighted temporal input (ordinary or above): queried completely, then ONE weight replaced by a value of
    that set - set_weight(e, w) or (static) add_edge(e, weight=w), which accumulates - and only then checked.
  Weights that the library rejects with an exception are skipped and counted (the statement does not oblige it to accept them).
  The entries of the weighted incidence matrices (incidence_matrix, incidence_matrix_by_order on weighted inputs, and their
  return_mapping=False counterparts) are copies of a weight and are compared relative to it, 1e-9 * |weight| (a weight of
  1e-200 stored as 0 is a failure); where 0 is expected the bound is 1e-9 * the smallest non-zero |weight| of the hypergraph.
  nan / inf weights are not generated.
ONE STRESS INPUT (outside the <= 7 node scope, deterministic): 10 nodes, the 256 hyperedges {0,1} u S for
  every S c {2..9}: nodes 0 and 1 share 256 hyperedges (adjacency_matrix only).

Clauses (one ctx.check each; all taken from the statement of C09)
  binary_incidence_matrix / incidence_matrix / incidence_matrix_by_order(keep_isolated_nodes in {F,T}) /
  adjacency_matrix / adjacency_matrix_by_order / dual_random_walk_adjacency / degree_matrix /
  laplacian_matrix_by_order / laplacian_matrices_all_orders / adjacency_tensor / temporal_adjacency_matrix /
  temporal_adjacency_matrix_by_order and the Hypergraph / TemporalHypergraph methods that delegate to them:
  does not raise; the returned mapping is a bijection rows <-> nodes; every entry equals the literal definition
  under that mapping; zero diagonal; for unweighted hypergraphs the per-order variants for every order 0..max+1
  (present or absent); Laplacian_d = d * D_d - A_d entry by entry, symmetric, zero row sums; dual (e,f) = 1 iff
  e and f share a node; tensor = symmetric indicator; temporal matrix at t = adjacency of the hyperedges at t;
  return_mapping=False returns the same matrix (the Hypergraph methods are called with return_mapping=True only).
  degree_matrix (whose contract is only implicit in the statement, "the order-d degree matrix") is evaluated under the
  two mappings the library itself returns for that order: incidence_matrix_by_order(keep_isolated_nodes=True) - the
  one the Laplacian uses - and (..=False), the latter under its own key.

Failure keys: "<function>:<clause>", except
  * "<function>:does not raise on admissible input:labels 0..N-1" / "...:labels not 0..N-1" - an exception on an
    input the property covers is a failed clause; the suffix keeps the known KeyError of degree_matrix /
    laplacian_* on labels other than 0..N-1 apart from any exception on plain labels;
  * an exception of the return_mapping=False call is reported under the clause "return_mapping=False returns the
    same matrix" (one defect, one key);
  * "linalg.degree_matrix:partial mapping" (mapping of the non-isolated nodes only);
  * "linalg.adjacency_matrix:<entry clause>:>=256 common hyperedges" for the stress input.

Oracle: plain Python loops over h.get_nodes() / h.get_edges() / h.get_weight() (th.get_edges() for temporal):
  membership tests and counts over frozensets, nothing else.  No matrix product, no encoder.  Columns are the
  hyperedges in get_edges() order (for a per-order matrix: the order-d hyperedges in that order), which is the
  anchor "column index = position in get_edges()" of the property.

Known limits
  * Bounded, not a proof.  Counts >= 256 are only exercised by the single stress input.
  * Edited objects: one edit (one call, or one remove+add group) after one complete query; longer histories of
    edits and queries are not explored, and the edit kinds are sampled in turn, not crossed with every input.
  * laplacian_matrix_by_order returns no mapping; its rows are read under the mapping that
    adjacency_matrix_by_order returns for the same order (the statement equates the two matrices).
  * incidence_matrices_all_orders returns no mapping at all (it drops it) and is therefore not checked;
    compute_multiorder_laplacian, annealed_* and adjacency_factor are not part of the statement.
  * Per-order adjacency / degree / Laplacian are checked for unweighted hypergraphs only, as the statement says;
    the `weighted=True` scaling of the Laplacian is not in the statement and not checked.
  * keep_isolated_nodes=False: the statement only needs the rows to be (a bijection with) a set of nodes that
    contains every node of an order-d hyperedge; that the other nodes are dropped is the documented meaning of the
    parameter and is a clause of its own.
  * adjacency_tensor: only uniform hypergraphs whose nodes are exactly 0..N-1 and that have >= 1 hyperedge
    (the rank of the tensor of an edgeless hypergraph is undefined); hyperedges with repeated nodes are never built.
  * Temporal snapshots: the mapping at t must be a bijection onto a set of nodes containing every node of a
    hyperedge at t (whether nodes silent at t belong to the snapshot is not fixed by the statement).
"""
import itertools
import multiprocessing
import os
import warnings

PROPERTY = "C09"
TOL = 1e-9

RAISE = "does not raise on admissible input"
BIJ = "mapping is a bijection rows<->nodes"
NOMAP = "return_mapping=False returns the same matrix"

_LIB = None


def _lib():
    global _LIB
    if _LIB is None:
        import numpy as np
        import hypergraphx.linalg as lin
        from hypergraphx import Hypergraph, TemporalHypergraph
        _LIB = (np, lin, Hypergraph, TemporalHypergraph)
    return _LIB


# ----------------------------------------------------------------------------------------------- recorder
class Rec:
    """Collects cases / clause evaluations / failures; picklable summary so that workers can send it back."""

    def __init__(self):
        self.cases = []
        self.evals = {}
        self.fails = []
        self.nfail = {}
        self.kept = {}
        self.trivial = False
        self.counters = {}

    def case(self, desc, nontrivial=True):
        self.cases.append((desc, nontrivial))
        self.trivial = not nontrivial

    def count(self, name, n=1):
        self.counters[name] = self.counters.get(name, 0) + n

    def check(self, cond, function, clause, spec, call=None, expected=None, observed=None, key=None):
        name = f"{function}:{clause}"
        self.evals[name] = self.evals.get(name, 0) + 1
        if cond:
            return True
        key = key or name
        self.nfail[key] = self.nfail.get(key, 0) + 1
        k2 = (key, self.trivial)
        self.kept[k2] = self.kept.get(k2, 0) + 1
        if self.kept[k2] <= 2:  # a couple of examples per kind of failure, degenerate inputs counted apart
            self.fails.append(dict(function=function, clause=clause, input=dict(spec=spec, call=call),
                                   expected=expected, observed=observed, key=key, trivial=self.trivial,
                                   replay=dict(spec=spec, key=key)))
        return False

    def export(self):
        return dict(cases=self.cases, evals=self.evals, fails=self.fails, nfail=self.nfail, counters=self.counters)


def _merge(ctx, out, fails):
    for desc, nontrivial in out["cases"]:
        ctx.case(desc, nontrivial)
    for name, n in out["evals"].items():
        ctx.contract_evals[name] = ctx.contract_evals.get(name, 0) + n
    for name, n in out["counters"].items():
        ctx.count(name, n)
    for key, n in out["nfail"].items():
        ctx.count("failed evaluations of " + key, n)
    fails.extend(out["fails"])


def _forward(ctx, fails):
    """ctx keeps 50 violations in all: forward two per kind of failure (examples on non-degenerate inputs first, then in
    generation order) so that one frequent kind cannot hide the others."""
    forwarded = {}
    for f in sorted(fails, key=lambda f: f["trivial"]):  # stable
        if forwarded.get(f["key"], 0) >= 2:
            continue
        forwarded[f["key"]] = forwarded.get(f["key"], 0) + 1
        ctx.fail(f["function"], f["clause"], f["input"], f["expected"], f["observed"], f["key"], f["replay"])


# ----------------------------------------------------------------------------------------------- helpers
def _py(x):
    return x.item() if hasattr(x, "item") else x


def _dense(M):
    np = _lib()[0]
    if hasattr(M, "toarray"):
        M = M.toarray()
    return np.asarray(M)


def _close(a, b):
    try:
        return abs(a - b) <= TOL * max(1.0, abs(b))
    except TypeError:
        return False


def _close_weight(scale0):
    """Comparison for the entries of a WEIGHTED incidence matrix, which are copies of a weight (or 0): relative to the
    weight itself (1e-9 * |weight|, so that a weight of 1e-200 is not 'equal' to 0), and where 0 is expected relative
    to `scale0`, the smallest non-zero |weight| of the hypergraph (1 at most)."""
    def close(a, b):
        try:
            return abs(a - b) <= TOL * (abs(b) if b != 0 else scale0)
        except TypeError:
            return False
    return close


def _mismatch(D, shape, expf, close=None):
    """None if D has `shape` and D[i][j] == expf(i, j) everywhere, else (where, expected, observed)."""
    close = close or _close
    if tuple(D.shape) != tuple(shape):
        return ("shape", list(shape), list(D.shape))
    rows = D.tolist()
    for i in range(shape[0]):
        for j in range(shape[1]):
            e = expf(i, j)
            if not close(rows[i][j], e):
                return ([i, j], e, rows[i][j])
    return None


def _same(D1, D2, close=None):
    return tuple(D1.shape) == tuple(D2.shape) and \
        _mismatch(D1, D2.shape, lambda i, j, r=D2.tolist(): r[i][j], close) is None


def _normmap(mp):
    if not isinstance(mp, dict):
        return None
    try:
        return {int(k): _py(v) for k, v in mp.items()}
    except (TypeError, ValueError):
        return None


def _is_bijection(m, nrows, lower, upper):
    """m: {row: node}.  Rows are exactly 0..nrows-1, nodes pairwise distinct, lower <= set(nodes) <= upper."""
    if m is None or len(m) != nrows or sorted(m) != list(range(nrows)):
        return False
    vals = list(m.values())
    try:
        s = set(vals)
    except TypeError:
        return False
    return len(s) == len(vals) and lower <= s <= upper


def _show(m):
    return None if m is None else {str(k): v for k, v in sorted(m.items())}


class _Run:
    """Checks on one input; `spec` is the json-able description that replay() rebuilds the input from."""

    def __init__(self, rec, spec):
        self.rec, self.spec = rec, spec
        self.labels = "labels 0..N-1"

    def set_nodes(self, nodes):
        nodes = list(nodes)
        rng = all(type(a) is int for a in nodes) and set(nodes) == set(range(len(nodes)))
        self.labels = "labels 0..N-1" if rng else "labels not 0..N-1"

    def call(self, fn, thunk, call):
        try:
            with warnings.catch_warnings():
                warnings.simplefilter("ignore")
                r = thunk()
        except Exception as ex:  # the statement covers this input: raising is a failed clause, not a driver crash
            self.rec.check(False, fn, RAISE, self.spec, call, expected="a result",
                           observed=f"{type(ex).__name__}: {ex}", key=f"{fn}:{RAISE}:{self.labels}")
            return False, None
        self.rec.check(True, fn, RAISE, self.spec, call)
        return True, r

    def nomap(self, fn, thunk, call, same, expected):
        """The call without a mapping returns the matrix that was checked under the mapping (one clause: a raise and a
        different result are the same kind of failure)."""
        try:
            with warnings.catch_warnings():
                warnings.simplefilter("ignore")
                r = thunk()
        except Exception as ex:
            return self.check(False, fn, NOMAP, call, expected=expected, observed=f"{type(ex).__name__}: {ex}")
        ok, shown = same(r)
        return self.check(ok, fn, NOMAP, call, expected=expected, observed=shown)

    def nomap_matrix(self, fn, thunk, call, D, close=None):
        def same(r):
            try:
                R = _dense(r)
                return _same(R, D, close), R.tolist()
            except Exception:
                return False, repr(r)
        return self.nomap(fn, thunk, call, same, D.tolist())

    def check(self, cond, fn, clause, call=None, expected=None, observed=None, key=None):
        return self.rec.check(cond, fn, clause, self.spec, call, expected, observed, key)

    def matrix(self, fn, clause, call, D, shape, expf, key=None, close=None):
        mm = _mismatch(D, shape, expf, close)
        if mm is None:
            return self.check(True, fn, clause, call, key=key)
        return self.check(False, fn, clause, call, expected=dict(where=mm[0], value=mm[1]),
                          observed=dict(value=mm[2], matrix=D.tolist()), key=key)

    def bijection(self, fn, call, m, nrows, lower, upper, raw):
        ok = _is_bijection(m, nrows, lower, upper)
        self.check(ok, fn, BIJ, call,
                   expected=dict(rows=nrows, nodes_at_least=sorted(lower, key=repr), nodes_at_most=sorted(upper, key=repr)),
                   observed=_show(m) if m is not None else repr(raw))
        return ok


# ----------------------------------------------------------------------------------------------- static
def build_hg(spec):
    return _build_hg(spec)[0]


def _build_hg(spec):
    """-> (the object, None) or, for an edited input, (the object, (nodes, hyperedges) before the edit)."""
    _, _, Hypergraph, _ = _lib()
    before = None
    ws = spec.get("weights")
    wmode = spec.get("wmode")
    if wmode:
        # an input with zero / extreme weights; "weights" are the final ones.  How they get there:
        #   add   add_edge(e, weight=w)                              ctor  Hypergraph(edges, weighted=True, weights=ws)
        #   set   created with the ordinary weights "weights0", then set_weight(e, w) where w differs (no query between)
        # The statement does not oblige the library to accept such weights: a rejection is a skipped case.
        try:
            with warnings.catch_warnings():
                warnings.simplefilter("ignore")
                if wmode == "ctor":
                    h = Hypergraph([tuple(e) for e in spec["edges"]], weighted=True, weights=list(ws))
                    for n in spec.get("pre_nodes", []) + spec.get("post_nodes", []):
                        h.add_node(n)
                else:
                    h = Hypergraph(weighted=True)
                    for n in spec.get("pre_nodes", []):
                        h.add_node(n)
                    w0 = spec["weights0"] if wmode == "set" else ws
                    for k, e in enumerate(spec["edges"]):
                        h.add_edge(tuple(e), weight=w0[k])
                    for n in spec.get("post_nodes", []):
                        h.add_node(n)
                    if wmode == "set":
                        for k, e in enumerate(spec["edges"]):
                            if repr(w0[k]) != repr(ws[k]):
                                h.set_weight(tuple(e), ws[k])
        except Exception as ex:
            raise InputRejected(f"{type(ex).__name__}: {ex}")
    else:
        h = Hypergraph(weighted=bool(spec["weighted"]))
        for n in spec.get("pre_nodes", []):
            h.add_node(n)
        for k, e in enumerate(spec["edges"]):
            if spec["weighted"]:
                h.add_edge(tuple(e), weight=ws[k])
            else:
                h.add_edge(tuple(e))
        for n in spec.get("post_nodes", []):
            h.add_node(n)
    if spec.get("then"):
        # the same object is queried, edited and queried again: a representation (encoder, matrix, snapshot) computed
        # before the edit must not survive it.  The query is the complete set of calls that is checked afterwards (same
        # functions, same orders, same flags), evaluated into a recorder that is thrown away: the unedited input is a
        # case of its own.
        with warnings.catch_warnings():
            warnings.simplefilter("ignore")
            try:
                h.get_mapping()
            except Exception:
                pass
        before = (list(h.get_nodes()), [tuple(e) for e in h.get_edges()])
        before += ({e: h.get_weight(e) for e in before[1]},)
        _check_hg_object(Rec(), spec, h, register=False)
        try:
            with warnings.catch_warnings():
                warnings.simplefilter("ignore")
                for op in spec["then"]:
                    if op[0] == "rm_node":
                        h.remove_node(op[1], keep_edges=bool(op[2]))
                    elif op[0] == "rm_edge":
                        h.remove_edge(tuple(op[1]))
                    elif op[0] == "add_edge":
                        if len(op) > 2 and op[2] is not None:
                            h.add_edge(tuple(op[1]), weight=op[2])
                        else:
                            h.add_edge(tuple(op[1]))
                    elif op[0] == "add_node":
                        h.add_node(op[1])
                    elif op[0] == "set_weight":
                        h.set_weight(tuple(op[1]), op[2])
                    else:
                        raise AssertionError(f"unknown edit {op!r}")
        except AssertionError:
            raise
        except Exception as ex:  # an edit the library rejects: the statement of C09 says nothing about edits
            raise EditRejected(f"{type(ex).__name__}: {ex}")
    return h, before


class EditRejected(Exception):
    pass


class InputRejected(Exception):
    """The library refused to build an input with a zero / extreme weight (allowed: the case is skipped)."""


def _count_edit(rec, before, nodes, edges, wts):
    """Counters that say what the edit did to the sizes (evidence that size-preserving edits are really explored)."""
    n0, e0, w0 = before
    same_n, same_e = len(n0) == len(nodes), len(e0) == len(edges)
    rec.count("edited inputs")
    if same_n and set(n0) != set(nodes):
        rec.count("edited inputs: node count unchanged, node set changed")
    if same_e and set(e0) != set(edges):
        rec.count("edited inputs: hyperedge count unchanged, hyperedge set changed")
    if same_n and same_e and (set(n0) != set(nodes) or set(e0) != set(edges)):
        rec.count("edited inputs: both counts unchanged, content changed")
    if set(n0) == set(nodes) and set(e0) == set(edges) and (n0 != list(nodes) or e0 != list(edges)):
        rec.count("edited inputs: same nodes and hyperedges, get_nodes()/get_edges() order changed")
    if set(e0) == set(edges) and any(w0[e] != w for e, w in zip(edges, wts)):
        rec.count("edited inputs: same hyperedges, a weight changed")


def check_hg(rec, spec):
    try:
        h, before = _build_hg(spec)
    except EditRejected:
        rec.case(spec, nontrivial=False)
        rec.count("edited inputs skipped (the library rejected the edit)")
        return
    except InputRejected:
        rec.case(spec, nontrivial=False)
        rec.count("zero / extreme weight inputs skipped (the library rejected the weights)")
        return
    if spec.get("wmode"):
        rec.count("static inputs built with zero / extreme weights (" + spec["wmode"] + ")")
    _check_hg_object(rec, spec, h, before=before)


def _check_hg_object(rec, spec, h, register=True, before=None):
    np, L, _, _ = _lib()
    run = _Run(rec, spec)
    # ---- the abstract value of the input, read through the public API
    nodes = list(h.get_nodes())
    edges = [tuple(e) for e in h.get_edges()]
    weighted = bool(h.is_weighted())
    wts = [h.get_weight(e) for e in edges]
    esets = [frozenset(e) for e in edges]
    nodeset = set(nodes)
    N, E = len(nodes), len(edges)
    run.set_nodes(nodes)
    if register:  # (not for the query that precedes an edit: its recorder is thrown away)
        rec.case(spec, nontrivial=E >= 1)
        if before is not None:
            _count_edit(rec, before, nodes, edges, wts)
    rec.count("hypergraphs")
    if weighted:
        rec.count("hypergraphs weighted")
    if nodeset - set().union(*esets):
        rec.count("hypergraphs with isolated nodes")
    if weighted and any(w == 0 for w in wts):
        rec.count("hypergraphs with a hyperedge of weight 0")
    if weighted and any(w != 0 and not 1e-100 <= abs(w) <= 1e100 for w in wts):
        rec.count("hypergraphs with a weight below 1e-100 or above 1e100 in absolute value")
    if weighted and any(w < 0 for w in wts):
        rec.count("hypergraphs with a negative weight")
    # entries of the weighted incidence matrices are copies of a weight: compared relative to that weight
    close_w = _close_weight(min([abs(w) for w in wts if w != 0] + [1.0]))

    def common(a, b, cols):
        return sum(1 for c in cols if a in esets[c] and b in esets[c])

    allcols = list(range(E))

    # ---- binary incidence and weighted incidence (function and Hypergraph method)
    for fn, f in (("linalg.binary_incidence_matrix", lambda **kw: L.binary_incidence_matrix(h, **kw)),
                  ("Hypergraph.binary_incidence_matrix", lambda **kw: h.binary_incidence_matrix(**kw))):
        ok, r = run.call(fn, lambda: _pair(f(return_mapping=True)), "return_mapping=True")
        if ok:
            D, m = _dense(r[0]), _normmap(r[1])
            if run.bijection(fn, None, m, D.shape[0], nodeset, nodeset, r[1]):
                run.matrix(fn, "entry (i,e) = 1 iff node i in hyperedge e", None, D, (N, E),
                           lambda i, j: 1 if m[i] in esets[j] else 0)
            if fn.startswith("linalg."):
                run.nomap_matrix(fn, lambda: f(), "return_mapping=False", D)
    for fn, f in (("linalg.incidence_matrix", lambda **kw: L.incidence_matrix(h, **kw)),
                  ("Hypergraph.incidence_matrix", lambda **kw: h.incidence_matrix(**kw))):
        ok, r = run.call(fn, lambda: _pair(f(return_mapping=True)), "return_mapping=True")
        if ok:
            D, m = _dense(r[0]), _normmap(r[1])
            if run.bijection(fn, None, m, D.shape[0], nodeset, nodeset, r[1]):
                run.matrix(fn, "entry (i,e) = weight of e if node i in e else 0", None, D, (N, E),
                           lambda i, j: wts[j] if m[i] in esets[j] else 0, close=close_w)
            if fn.startswith("linalg."):
                run.nomap_matrix(fn, lambda: f(), "return_mapping=False", D, close=close_w)

    # ---- adjacency
    for fn, f in (("linalg.adjacency_matrix", lambda **kw: L.adjacency_matrix(h, **kw)),
                  ("Hypergraph.adjacency_matrix", lambda **kw: h.adjacency_matrix(**kw))):
        _adjacency(run, fn, f, nodeset, nodeset, N, lambda a, b: common(a, b, allcols))

    # ---- dual
    for fn, f in (("linalg.dual_random_walk_adjacency", lambda **kw: L.dual_random_walk_adjacency(h, **kw)),
                  ("Hypergraph.dual_random_walk_adjacency", lambda **kw: h.dual_random_walk_adjacency(**kw))):
        ok, r = run.call(fn, lambda: _pair(f(return_mapping=True)), "return_mapping=True")
        if ok:
            D = _dense(r[0])
            run.matrix(fn, "entry (e,f) = 1 iff e and f share a node", None, D, (E, E),
                       lambda i, j: 1 if esets[i] & esets[j] else 0)
            if fn.startswith("linalg."):
                run.nomap_matrix(fn, lambda: f(), "return_mapping=False", D)

    # ---- per-order variants, for every order 0..max+1 (present and absent)
    maxord = max([len(e) for e in edges], default=0)  # = max order + 1
    adjmaps = {}
    for d in range(0, maxord + 1):
        cols = [c for c in range(E) if len(esets[c]) == d + 1]
        covered = set().union(*[esets[c] for c in cols]) if cols else set()
        rec.count("orders present" if cols else "orders absent")
        rawmaps = {}
        for keep in (False, True):
            fn = "linalg.incidence_matrix_by_order"
            cl = f"order={d}, keep_isolated_nodes={keep}"
            ok, r = run.call(fn, lambda: _pair(L.incidence_matrix_by_order(
                h, d, keep_isolated_nodes=keep, return_mapping=True)), cl)
            if not ok:
                continue
            D, m = _dense(r[0]), _normmap(r[1])
            lower = nodeset if keep else covered
            if not run.bijection(fn, cl, m, D.shape[0], lower, nodeset, r[1]):
                continue
            if not keep:
                run.check(set(m.values()) == covered, fn,
                          "keep_isolated_nodes=False keeps exactly the nodes of the order-d hyperedges", cl,
                          expected=sorted(covered, key=repr), observed=_show(m))
            if weighted:
                run.matrix(fn, "weighted: entry (i,e) = weight of the order-d hyperedge e if i in e else 0", cl, D,
                           (len(m), len(cols)), lambda i, j: wts[cols[j]] if m[i] in esets[cols[j]] else 0,
                           close=close_w)
            else:
                run.matrix(fn, "unweighted: columns are the order-d hyperedges, entry (i,e) = 1 iff i in e", cl, D,
                           (len(m), len(cols)), lambda i, j: 1 if m[i] in esets[cols[j]] else 0)
            rawmaps[keep] = (r[1], m)
            if not keep:  # all defaults: keep_isolated_nodes=False, return_mapping=False
                run.nomap_matrix(fn, lambda: L.incidence_matrix_by_order(h, d), f"order={d}, all defaults", D,
                                 close=close_w if weighted else None)
        if weighted:
            continue  # the statement defines the remaining per-order matrices for unweighted hypergraphs only
        cl = f"order={d}"
        deg = {a: sum(1 for c in cols if a in esets[c]) for a in nodes}
        m_adj = adjmaps[d] = _adjacency(run, "linalg.adjacency_matrix_by_order",
                           lambda **kw: L.adjacency_matrix_by_order(h, d, **kw), nodeset, nodeset, N,
                           lambda a, b: common(a, b, cols), cl)
        # degree matrix, under the full mapping and (when it differs) under the mapping of the non-isolated nodes
        for keep, key in ((True, None), (False, "linalg.degree_matrix:partial mapping")):
            if keep not in rawmaps:
                continue  # incidence_matrix_by_order gave no usable mapping: already reported above
            raw, mm = rawmaps[keep]
            if not keep and len(mm) == N:
                continue  # no node was dropped: same mapping as with keep_isolated_nodes=True
            fn = "linalg.degree_matrix"
            cl2 = cl + ", mapping=" + repr(_show(mm))
            ok, r = run.call(fn, lambda: L.degree_matrix(h, d, raw), cl2)
            if ok:
                run.matrix(fn, "entry (i,i) = number of order-d hyperedges containing node i, 0 off the diagonal", cl2,
                           _dense(r), (len(mm), len(mm)), lambda i, j: deg[mm[i]] if i == j else 0, key=key)
        # Laplacian of order d
        fn = "linalg.laplacian_matrix_by_order"
        ok, r = run.call(fn, lambda: L.laplacian_matrix_by_order(h, d), cl)
        if ok and m_adj is not None:
            _laplacian(run, fn, cl, _dense(r), m_adj, N, d, deg, lambda a, b: common(a, b, cols))

    # ---- all Laplacians at once (max_order() is undefined without hyperedges: the statement is silent there)
    if not weighted and E >= 1:
        fn = "linalg.laplacian_matrices_all_orders"
        ok, r = run.call(fn, lambda: dict(L.laplacian_matrices_all_orders(h)), None)
        if ok:
            for d in sorted(r):
                cols = [c for c in range(E) if len(esets[c]) == d + 1]
                deg = {a: sum(1 for c in cols if a in esets[c]) for a in nodes}
                mm = adjmaps.get(d)
                if mm is None:
                    continue  # adjacency_matrix_by_order gave no usable mapping for this order: reported above
                _laplacian(run, fn, f"order={d}", _dense(r[d]), mm, N, d, deg,
                           lambda a, b, cols=cols: common(a, b, cols))

    # ---- adjacency tensor: uniform, nodes exactly 0..N-1, at least one hyperedge
    if E >= 1 and len({len(e) for e in esets}) == 1 and all(type(a) is int for a in nodes) \
            and nodeset == set(range(N)) and all(len(esets[c]) == len(edges[c]) for c in range(E)):
        k = len(edges[0])
        fn = "linalg.adjacency_tensor"
        rec.count("uniform 0..N-1 hypergraphs (tensor)")
        ok, T = run.call(fn, lambda: L.adjacency_tensor(h), None)
        if ok:
            T = np.asarray(T)
            eset = set(esets)
            bad = None
            if tuple(T.shape) != (N,) * k:
                bad = ("shape", [N] * k, list(T.shape))
            else:
                for idx in itertools.product(range(N), repeat=k):
                    e = 1 if (len(set(idx)) == k and frozenset(idx) in eset) else 0
                    if not _close(T[idx].item(), e):
                        bad = (list(idx), e, T[idx].item())
                        break
            run.check(bad is None, fn, "T[i1..ik] = 1 iff {i1..ik} is a hyperedge (symmetric indicator)", None,
                      expected=bad and dict(where=bad[0], value=bad[1]), observed=bad and bad[2])


def _pair(r):
    if not (isinstance(r, tuple) and len(r) == 2):
        raise TypeError(f"return_mapping=True did not return a (matrix, mapping) pair but {type(r).__name__}")
    return r


def _adjacency(run, fn, f, lower, upper, N, count, cl=None, key_suffix=None):
    """f(return_mapping=...) -> adjacency-like matrix; count(a, b) = defined entry for nodes a != b.
    Returns the normalised mapping if it is a bijection, else None."""
    ok, r = run.call(fn, lambda: _pair(f(return_mapping=True)), _join(cl, "return_mapping=True"))
    if not ok:
        return None
    D, m = _dense(r[0]), _normmap(r[1])
    if not run.bijection(fn, cl, m, D.shape[0], lower, upper, r[1]):
        return None
    n = len(m)
    key = (lambda c: f"{fn}:{c}:{key_suffix}") if key_suffix else (lambda c: None)
    c1 = "entry (i,j), i != j, = number of hyperedges" + (" of that order" if cl and "order" in cl else "") + \
         " containing both i and j"
    run.matrix(fn, c1, cl, D, (n, n), lambda i, j: D[i][j].item() if i == j else count(m[i], m[j]), key=key(c1))
    if tuple(D.shape) == (n, n):
        diag = [D[i][i].item() for i in range(n)]
        run.check(all(_close(x, 0) for x in diag), fn, "zero diagonal", cl, expected=[0] * n, observed=diag)
    run.nomap_matrix(fn, lambda: f(), _join(cl, "return_mapping=False"), D)
    return m


def _join(a, b):
    return b if not a else f"{a}, {b}"


def _laplacian(run, fn, cl, D, m, N, d, deg, count):
    run.matrix(fn, "L_d = d * D_d - A_d entry by entry (rows as in adjacency_matrix_by_order)", cl, D, (N, N),
               lambda i, j: d * deg[m[i]] if i == j else -count(m[i], m[j]))
    if tuple(D.shape) != (N, N):
        return
    rows = D.tolist()
    run.check(all(_close(rows[i][j], rows[j][i]) for i in range(N) for j in range(N)), fn, "symmetric", cl,
              observed=rows)
    sums = [sum(rows[i]) for i in range(N)]
    run.check(all(_close(s, 0) for s in sums), fn, "zero row sums", cl, expected=[0] * N, observed=sums)


# ----------------------------------------------------------------------------------------------- stress
def check_stress(rec, spec):
    """Nodes `common` share one hyperedge per subset of `others`."""
    _, L, Hypergraph, _ = _lib()
    run = _Run(rec, spec)
    common, others = list(spec["common"]), list(spec["others"])
    edges = [tuple(common) + s for r in range(len(others) + 1) for s in itertools.combinations(others, r)]
    h = Hypergraph(edges)
    rec.case(spec)
    rec.count("stress inputs")
    nodes = set(h.get_nodes())
    esets = [frozenset(e) for e in h.get_edges()]
    _adjacency(run, "linalg.adjacency_matrix", lambda **kw: L.adjacency_matrix(h, **kw), nodes, nodes, len(nodes),
               lambda a, b: sum(1 for e in esets if a in e and b in e), None,
               key_suffix=">=256 common hyperedges")


# ----------------------------------------------------------------------------------------------- temporal
def build_temporal(spec):
    return _build_temporal(spec)[0]


def _build_temporal(spec):
    _, _, _, TemporalHypergraph = _lib()
    before = None
    ws = spec.get("weights")
    wmode = spec.get("wmode")
    if wmode:  # zero / extreme weights, see _build_hg; a rejection is a skipped case
        try:
            with warnings.catch_warnings():
                warnings.simplefilter("ignore")
                if wmode == "ctor":
                    th = TemporalHypergraph([tuple(e) for _, e in spec["edges"]], [int(t) for t, _ in spec["edges"]],
                                            weighted=True, weights=list(ws))
                    for n in spec.get("pre_nodes", []):
                        th.add_node(n)
                else:
                    th = TemporalHypergraph(weighted=True)
                    for n in spec.get("pre_nodes", []):
                        th.add_node(n)
                    w0 = spec["weights0"] if wmode == "set" else ws
                    for k, (t, e) in enumerate(spec["edges"]):
                        th.add_edge(tuple(e), int(t), weight=w0[k])
                    if wmode == "set":
                        for k, (t, e) in enumerate(spec["edges"]):
                            if repr(w0[k]) != repr(ws[k]):
                                th.set_weight(tuple(e), int(t), ws[k])
        except Exception as ex:
            raise InputRejected(f"{type(ex).__name__}: {ex}")
    else:
        th = TemporalHypergraph(weighted=bool(spec["weighted"]))
        for n in spec.get("pre_nodes", []):
            th.add_node(n)
        for k, (t, e) in enumerate(spec["edges"]):
            if spec["weighted"]:
                th.add_edge(tuple(e), int(t), weight=ws[k])
            else:
                th.add_edge(tuple(e), int(t))
    if spec.get("then"):
        # query (the complete set of calls that is checked afterwards, into a recorder that is thrown away), edit, and
        # only then check: nothing computed before the edit may survive it
        before = (list(th.get_nodes()), [(t, tuple(e)) for t, e in th.get_edges()])
        _check_temporal_object(Rec(), spec, th, register=False)
        try:
            with warnings.catch_warnings():
                warnings.simplefilter("ignore")
                for op in spec["then"]:
                    if op[0] == "rm_node":
                        th.remove_node(op[1], keep_edges=bool(op[2]))
                    elif op[0] == "add_node":
                        th.add_node(op[1])
                    elif op[0] == "rm_edge":
                        th.remove_edge(tuple(op[2]), int(op[1]))
                    elif op[0] == "add_edge":
                        if len(op) > 3 and op[3] is not None:
                            th.add_edge(tuple(op[2]), int(op[1]), weight=op[3])
                        else:
                            th.add_edge(tuple(op[2]), int(op[1]))
                    elif op[0] == "set_weight":
                        th.set_weight(tuple(op[2]), int(op[1]), op[3])
                    else:
                        raise AssertionError(f"unknown edit {op!r}")
        except AssertionError:
            raise
        except Exception as ex:  # an edit the library rejects: the statement of C09 says nothing about edits
            raise EditRejected(f"{type(ex).__name__}: {ex}")
    return th, before


def check_temporal(rec, spec):
    try:
        th, before = _build_temporal(spec)
    except EditRejected:
        rec.case(spec, nontrivial=False)
        rec.count("edited inputs skipped (the library rejected the edit)")
        return
    except InputRejected:
        rec.case(spec, nontrivial=False)
        rec.count("zero / extreme weight inputs skipped (the library rejected the weights)")
        return
    if spec.get("wmode"):
        rec.count("temporal inputs built with zero / extreme weights (" + spec["wmode"] + ")")
    _check_temporal_object(rec, spec, th, before=before)


def _check_temporal_object(rec, spec, th, register=True, before=None):
    _, L, _, _ = _lib()
    run = _Run(rec, spec)
    nodeset = set(th.get_nodes())
    run.set_nodes(nodeset)
    tedges = [(t, frozenset(e)) for t, e in th.get_edges()]
    weighted = bool(th.is_weighted())
    times = sorted({t for t, _ in tedges})
    if register:
        rec.case(spec, nontrivial=len(tedges) >= 1)
        if before is not None:
            n0, e0 = before
            e0 = [(t, frozenset(e)) for t, e in e0]
            rec.count("edited temporal inputs")
            if len(n0) == len(nodeset) and set(n0) != nodeset:
                rec.count("edited temporal inputs: node count unchanged, node set changed")
            if len(e0) == len(tedges) and set(e0) != set(tedges):
                rec.count("edited temporal inputs: number of (time, hyperedge) pairs unchanged, pairs changed")
            if set(n0) == nodeset and set(e0) == set(tedges) and e0 != tedges:
                rec.count("edited temporal inputs: same content, get_edges() order changed")
    rec.count("temporal hypergraphs")
    if weighted:
        try:  # (a counter only: the temporal matrices do not depend on the weights)
            tw = [th.get_weight(tuple(e), t) for t, e in th.get_edges()]
            if any(w == 0 for w in tw):
                rec.count("temporal hypergraphs with a hyperedge of weight 0")
            if any(w != 0 and not 1e-100 <= abs(w) <= 1e100 for w in tw):
                rec.count("temporal hypergraphs with a weight below 1e-100 or above 1e100 in absolute value")
        except Exception:
            pass
    if len(times) > 1:
        rec.count("temporal hypergraphs with >= 2 times")

    def snapshot(t, d=None):
        return [e for tt, e in tedges if tt == t and (d is None or len(e) == d + 1)]

    def one(fn, f, cl, d):
        ok, r = run.call(fn, lambda: _pair(f(return_mapping=True)), _join(cl, "return_mapping=True"))
        if not ok:
            return
        mats, maps = r
        ok_t = isinstance(mats, dict) and isinstance(maps, dict) and set(times) <= set(mats) and set(mats) <= set(maps)
        run.check(ok_t, fn, "a matrix and a mapping for every time that has a hyperedge", cl, expected=times,
                  observed=dict(matrices=sorted(mats) if isinstance(mats, dict) else repr(mats),
                                mappings=sorted(maps) if isinstance(maps, dict) else repr(maps)))
        if not ok_t:
            return
        dense = {}
        for t in sorted(mats):
            clt = _join(cl, f"t={t}")
            snap = snapshot(t, d)
            D, m = _dense(mats[t]), _normmap(maps[t])
            dense[t] = D
            lower = set().union(*snap) if snap else set()
            if not run.bijection(fn, clt, m, D.shape[0], lower, nodeset, maps[t]):
                continue
            n = len(m)
            run.matrix(fn, "entry (i,j) at t = number of hyperedges at t" + (" of that order" if d is not None else "")
                       + " containing both i and j (adjacency of the snapshot)", clt, D, (n, n),
                       lambda i, j: D[i][j].item() if i == j else sum(1 for e in snap if m[i] in e and m[j] in e))
            if tuple(D.shape) == (n, n):
                diag = [D[i][i].item() for i in range(n)]
                run.check(all(_close(x, 0) for x in diag), fn, "zero diagonal", clt, expected=[0] * n, observed=diag)

        def same(r2):
            if not isinstance(r2, dict):
                return False, repr(r2)
            try:
                shown = {str(t): _dense(r2[t]).tolist() for t in r2}
                return set(r2) == set(dense) and all(_same(_dense(r2[t]), dense[t]) for t in dense), shown
            except Exception:
                return False, repr(r2)
        run.nomap(fn, lambda: f(), _join(cl, "return_mapping=False"), same, {str(t): dense[t].tolist() for t in dense})

    one("linalg.temporal_adjacency_matrix", lambda **kw: L.temporal_adjacency_matrix(th, **kw), None, None)
    one("TemporalHypergraph.temporal_adjacency_matrix", lambda **kw: th.temporal_adjacency_matrix(**kw), None, None)
    if not weighted and tedges:
        maxord = max(len(e) for _, e in tedges)
        for d in range(0, maxord + 1):
            one("linalg.temporal_adjacency_matrix_by_order",
                lambda d=d, **kw: L.temporal_adjacency_matrix_by_order(th, d, **kw), f"order={d}", d)


# ----------------------------------------------------------------------------------------------- generation
INT_LABELS = [20, 5, 30, 10, 40]
STR_LABELS = ["n3", "a", "n10", "B", "zz"]
WEIGHTS = [0.5, 2, 3, 2.5, 7]


def _relabel(kind, N):
    if kind == "range":
        return list(range(N))
    return (INT_LABELS if kind == "ints" else STR_LABELS)[:N]


def exhaustive_specs(caps):
    """caps: {N: (K for labels 0..N-1 unweighted, K for the five other variants)}."""
    for N in sorted(caps):
        universe = [c for k in range(1, N + 1) for c in itertools.combinations(range(N), k)]
        for kind in ("range", "ints", "str"):
            lab = _relabel(kind, N)
            for weighted in (False, True):
                K = caps[N][0] if (kind == "range" and not weighted) else caps[N][1]
                for ne in range(0, min(K, len(universe)) + 1):
                    for es in itertools.combinations(universe, ne):
                        yield dict(kind="hg", weighted=weighted, pre_nodes=list(lab),
                                   edges=[[lab[a] for a in e] for e in es],
                                   weights=WEIGHTS[:ne] if weighted else None, post_nodes=[])


def exhaustive_temporal_specs(max_n, max_pairs=3, times=(0, 2)):
    for N in range(1, max_n + 1):
        universe = [(t, c) for k in range(1, N + 1) for c in itertools.combinations(range(N), k) for t in times]
        variants = (("range", False), ("range", True), ("ints", False), ("str", False))
        for kind, weighted in (variants if N <= 3 else (("range", False), ("str", False))):
            lab = _relabel(kind, N)
            for ne in range(0, min(max_pairs, len(universe)) + 1):
                for es in itertools.combinations(universe, ne):
                    yield dict(kind="temporal", weighted=weighted, pre_nodes=list(lab),
                               edges=[[t, [lab[a] for a in e]] for t, e in es],
                               weights=WEIGHTS[:ne] if weighted else None)


STR_POOL = ["a", "B", "n3", "n10", "zeta", "Z", "node 7", "10", "9", "x_y", "", "é"]
FLOAT_POOL = [0.5, -2.25, 3.0, 1e3, 7.75, -0.5, 12.5, 100.25, 2.0, 0.0]


def _labels(rng, kind, N):
    if kind == "range":
        return list(range(N))
    if kind == "offset":
        return list(range(1, N + 1))
    if kind == "ints":
        return rng.sample(range(-50, 1000), N)
    if kind == "str":
        return rng.sample(STR_POOL, N)
    return rng.sample(FLOAT_POOL, N)


def random_specs(rng, n):
    for _ in range(n):
        N = rng.choice([3, 4, 5, 5, 6, 6, 7, 7])
        uniform = rng.random() < 0.2
        kind = "range" if uniform else rng.choice(["range", "offset", "ints", "ints", "str", "str", "float"])
        lab = _labels(rng, kind, N)
        ne = rng.randint(1, 8)
        k0 = rng.randint(1, min(5, N))
        seen, edges = set(), []
        for _e in range(ne):
            size = k0 if uniform else min(N, rng.choice([1, 2, 2, 3, 3, 4, 4, 5]))
            e = rng.sample(range(N), size)  # random in-edge order
            if frozenset(e) in seen:
                continue
            seen.add(frozenset(e))
            edges.append([lab[a] for a in e])
        weighted = (not uniform) and rng.random() < 0.4
        pre = [a for a in lab if rng.random() < 0.4]
        post = list(lab) if uniform else [a for a in lab if rng.random() < 0.4]
        rng.shuffle(pre)
        yield dict(kind="hg", weighted=weighted, pre_nodes=pre, edges=edges,
                   weights=[rng.choice([0.5, 1, 2, 2.5, 3, 7, 0.1, 10]) for _ in edges] if weighted else None,
                   post_nodes=post)


def edited_specs(rng, specs, every=3):
    """Variants of the given inputs in which the object is queried once, then edited (a node removed with or without keeping
    its hyperedges, a hyperedge removed, a fresh node / hyperedge added), and only then checked."""
    for i, sp in enumerate(specs):
        if i % every or sp.get("kind") != "hg" or not sp["edges"]:
            continue
        nodes = sorted({a for e in sp["edges"] for a in e} | set(sp.get("pre_nodes", [])) | set(sp.get("post_nodes", [])), key=repr)
        kind = i // every % 4
        if kind in (0, 1):
            then = [["rm_node", rng.choice(nodes), kind]]
        elif kind == 2:
            then = [["rm_edge", rng.choice(sp["edges"])]]
        else:
            fresh = max((a for a in nodes if isinstance(a, int)), default=0) + 3 if all(isinstance(a, (int, float)) for a in nodes) else "zz_new"
            then = [["add_edge", [fresh, nodes[0]]]]
        if sp["weighted"] and then[0][0] == "add_edge":
            continue
        yield dict(sp, then=then)


def _spec_nodes(sp):
    es = [e for e in sp["edges"]] if sp.get("kind") == "hg" else [e for _, e in sp["edges"]]
    return sorted({a for e in es for a in e} | set(sp.get("pre_nodes", [])) | set(sp.get("post_nodes", [])), key=repr)


def _fresh_label(rng, nodes):
    """A label of the same kind as `nodes` (str / int / float) that is none of them, placed before, between or after
    them in sorted order."""
    if all(isinstance(a, str) for a in nodes):
        return rng.choice([c for c in ("", "0_new", "M_new", "b_new", "zz_new", "~new") if c not in nodes])
    s = sorted(nodes)
    ints = all(type(a) is int for a in s)
    where = rng.choice(["before", "after", "between", "between"])
    if where == "between":
        gaps = [(a, b) for a, b in zip(s, s[1:]) if (b - a > 1 if ints else b > a)]
        if gaps:
            a, b = rng.choice(gaps)
            return rng.randint(a + 1, b - 1) if ints else (a + b) / 2
        where = rng.choice(["before", "after"])
    return s[0] - 1 if where == "before" else s[-1] + 1


def _other_edges(nodes, present, sizes):
    """Every node subset of one of the given sizes that is not a hyperedge yet (deterministic order)."""
    have = {frozenset(e) for e in present}
    return [list(c) for k in sizes for c in itertools.combinations(nodes, k) if frozenset(c) not in have]


PRESERVING_KINDS = ("swap_node", "relabel_node", "readd_node", "swap_edge_same_size", "swap_edge_other_size",
                    "reinsert_edge", "reweight")


def preserving_specs(rng, specs, every=1, offset=0):
    """Variants of the given static inputs in which the object is queried, then edited by a pair (or a few pairs) of calls
    that leaves the NUMBER of nodes and / or of hyperedges as it was while the content changes, and only then checked.
    Kinds, taken in turn:
      swap_node            remove_node(x, keep_edges=False/True); add_node(y), y a new label        (node count kept)
      relabel_node         remove_node(x); every hyperedge of x added again with y in place of x   (both counts and every
                           per-order count kept, the new node is NOT isolated)
      readd_node           remove_node(x, keep_edges=False/True); add_node(x)                       (same node set, get_nodes() order
                           changes; labels 0..N-1 stay 0..N-1)
      swap_edge_same_size  remove_edge(e); add_edge(e'), |e'| = |e|, e' new, on the existing nodes  (all counts kept)
      swap_edge_other_size the same with |e'| != |e|                                              (counts kept, per-order counts change)
      reinsert_edge        remove_edge(e); add_edge(e)         (same content, e moves to the end of get_edges(): columns move)
      reweight             weighted: set_weight(e, w') or add_edge(e, weight=w') (the weight accumulates); unweighted inputs
                           take swap_edge_same_size instead
    A kind that is impossible on an input (no free subset, ...) falls through to the next one."""
    j = 0
    for i, sp in enumerate(specs):
        if i % every != offset or sp.get("kind") != "hg" or not sp["edges"]:
            continue
        nodes = _spec_nodes(sp)
        edges = [list(e) for e in sp["edges"]]
        wt = (lambda k: sp["weights"][k]) if sp["weighted"] else (lambda k: None)
        start = j % len(PRESERVING_KINDS)
        j += 1
        then = None
        for step in range(len(PRESERVING_KINDS)):
            kind = PRESERVING_KINDS[(start + step) % len(PRESERVING_KINDS)]
            if kind == "reweight" and not sp["weighted"]:
                kind = "swap_edge_same_size"
            if kind == "swap_node":
                then = [["rm_node", rng.choice(nodes), rng.randint(0, 1)], ["add_node", _fresh_label(rng, nodes)]]
            elif kind == "relabel_node":
                x = rng.choice(sorted({a for e in edges for a in e}, key=repr))
                y = _fresh_label(rng, nodes)
                then = [["rm_node", x, 0]] + [["add_edge", [y if a == x else a for a in e], wt(k)]
                                              for k, e in enumerate(edges) if x in e]
            elif kind == "readd_node":
                x = rng.choice(nodes)
                then = [["rm_node", x, rng.randint(0, 1)], ["add_node", x]]
            elif kind in ("swap_edge_same_size", "swap_edge_other_size"):
                k = rng.randrange(len(edges))
                size = len(edges[k])
                sizes = [size] if kind == "swap_edge_same_size" else [z for z in range(1, min(5, len(nodes)) + 1) if z != size]
                free = _other_edges(nodes, edges, sizes)
                if not free:
                    continue
                e2 = rng.choice(free)
                rng.shuffle(e2)
                then = [["rm_edge", edges[k]], ["add_edge", e2, wt(k)]]
            elif kind == "reinsert_edge":
                if len(edges) < 2:
                    continue
                k = rng.randrange(len(edges) - 1)  # not the last one: the order of get_edges() has to change
                then = [["rm_edge", edges[k]], ["add_edge", edges[k], wt(k)]]
            elif kind == "reweight":
                k = rng.randrange(len(edges))
                w2 = rng.choice([w for w in (0.25, 1.5, 4, 9) if w != wt(k)])
                then = [["set_weight", edges[k], w2]] if rng.random() < 0.5 else [["add_edge", edges[k], w2]]
            if then:
                yield dict(sp, then=then, edit=kind)
                break


PRESERVING_TEMPORAL_KINDS = ("swap_edge", "move_edge", "swap_node", "relabel_node", "reinsert_edge")


def preserving_temporal_specs(rng, specs, every=1, offset=0):
    """The same for temporal inputs: query, edit without changing the number of nodes / of (time, hyperedge) pairs, check.
      swap_edge      remove_edge(e, t); add_edge(e', t), e' not present at t, on the existing nodes
      move_edge      remove_edge(e, t); add_edge(e, t'), t' != t (a time in use or a new one)
      swap_node      remove_node(x, keep_edges=False); add_node(y), y a new label
      relabel_node   remove_node(x); every (t, hyperedge) of x added again with y in place of x
      reinsert_edge  remove_edge(e, t); add_edge(e, t)  (same content, other position in get_edges())"""
    j = 0
    for i, sp in enumerate(specs):
        if i % every != offset or sp.get("kind") != "temporal" or not sp["edges"]:
            continue
        nodes = _spec_nodes(sp)
        edges = [[t, list(e)] for t, e in sp["edges"]]
        wt = (lambda k: sp["weights"][k]) if sp["weighted"] else (lambda k: None)
        start = j % len(PRESERVING_TEMPORAL_KINDS)
        j += 1
        then = None
        for step in range(len(PRESERVING_TEMPORAL_KINDS)):
            kind = PRESERVING_TEMPORAL_KINDS[(start + step) % len(PRESERVING_TEMPORAL_KINDS)]
            k = rng.randrange(len(edges))
            t, e = edges[k]
            if kind == "swap_edge":
                free = _other_edges(nodes, [f for tt, f in edges if tt == t], range(1, min(5, len(nodes)) + 1))
                if not free:
                    continue
                then = [["rm_edge", t, e], ["add_edge", t, rng.choice(free), wt(k)]]
            elif kind == "move_edge":
                free = [t2 for t2 in range(0, 6) if t2 != t and not any(tt == t2 and set(f) == set(e) for tt, f in edges)]
                then = [["rm_edge", t, e], ["add_edge", rng.choice(free), e, wt(k)]]
            elif kind == "swap_node":
                then = [["rm_node", rng.choice(nodes), 0], ["add_node", _fresh_label(rng, nodes)]]
            elif kind == "relabel_node":
                x = rng.choice(e)
                y = _fresh_label(rng, nodes)
                then = [["rm_node", x, 0]] + [["add_edge", tt, [y if a == x else a for a in f], wt(q)]
                                              for q, (tt, f) in enumerate(edges) if x in f]
            elif kind == "reinsert_edge":
                if len(edges) < 2:
                    continue
                k = rng.randrange(len(edges) - 1)
                t, e = edges[k]
                then = [["rm_edge", t, e], ["add_edge", t, e, wt(k)]]
            if then:
                yield dict(sp, then=then, edit=kind)
                break


def random_temporal_specs(rng, n):
    for _ in range(n):
        N = rng.choice([3, 4, 5, 6])
        kind = rng.choice(["range", "offset", "ints", "str", "float"])
        lab = _labels(rng, kind, N)
        seen, edges = set(), []
        for _e in range(rng.randint(1, 7)):
            size = min(N, rng.choice([1, 2, 2, 3, 3, 4, 5]))
            e = rng.sample(range(N), size)
            t = rng.randint(0, 4)
            if (t, frozenset(e)) in seen:
                continue
            seen.add((t, frozenset(e)))
            edges.append([t, [lab[a] for a in e]])
        weighted = rng.random() < 0.25
        yield dict(kind="temporal", weighted=weighted, pre_nodes=[a for a in lab if rng.random() < 0.3], edges=edges,
                   weights=[rng.choice([0.5, 1, 2, 3]) for _ in edges] if weighted else None)


STRESS = dict(kind="stress", common=[0, 1], others=[2, 3, 4, 5, 6, 7, 8, 9])


# ------------------------------------------------------------------------ zero / extreme weights
# Weights by position (as WEIGHTS above).  0 and 0.0 in every position, alone and together with ordinary weights, all
# weights zero, weights whose products underflow (1e-200, 1e-300) or overflow (1e200, 1e300), mixtures, a negative weight.
WEIGHT_PROFILES = [
    [0, 2, 3, 2.5, 7],
    [0.5, 0.0, 3, 0, 7],
    [-1.5, 3, 0, 0.5, 0.0],
    [0, 0.0, 0, 0.0, 0],
    [1e-200, 1e-200, 1e-200, 1e-300, 1e-200],
    [1e200, 1e200, 1e200, 1e300, 1e200],
    [1e-200, 1e200, 0, 1, 1e-300],
    [1e200, 0.0, 1e-200, -1.5, 2],
]
SPECIAL_WEIGHTS = [0, 0.0, 0, 1e-200, 1e200, 1e-300, 1e300, -1.5]
WEIGHT_MODES = ("add", "ctor", "set")  # 3 modes x 8 profiles: every combination occurs (taken in turn)


def _is_range(labels):
    return all(type(a) is int for a in labels) and set(labels) == set(range(len(labels)))


def _mode(sp, mode):
    """The constructor of TemporalHypergraph refuses weights= when a hyperedge occurs at two times (whatever the weights):
    such inputs are built with add_edge instead."""
    if mode == "ctor" and sp["kind"] == "temporal" and len({frozenset(e) for _, e in sp["edges"]}) < len(sp["edges"]):
        return "add"
    return mode


def extreme_weight_specs(specs, every_other=4):
    """Every weighted input of `specs` (static or temporal) that has a hyperedge, with its weights replaced by one of the
    WEIGHT_PROFILES and built in one of the WEIGHT_MODES (both taken in turn): all of those on labels 0..N-1, every
    `every_other`-th of the others."""
    q = skipped = 0
    for sp in specs:
        if not sp["weighted"] or not sp["edges"]:
            continue
        if not _is_range(sp["pre_nodes"]):
            skipped += 1
            if skipped % every_other:
                continue
        ne = len(sp["edges"])
        prof = WEIGHT_PROFILES[q % len(WEIGHT_PROFILES)]
        mode = _mode(sp, WEIGHT_MODES[q % len(WEIGHT_MODES)])
        q += 1
        ws = [prof[k % len(prof)] for k in range(ne)]
        yield dict(sp, weights=ws, wmode=mode, weights0=list(sp["weights"]) if mode == "set" else None)


def _extreme_draw(rng, sp, ordinary):
    """sp (a random input, weighted or not) as a weighted input: every weight is special with probability 1/2, at least one is."""
    ne = len(sp["edges"])
    ws = [rng.choice(SPECIAL_WEIGHTS) if rng.random() < 0.5 else rng.choice(ordinary) for _ in range(ne)]
    ws[rng.randrange(ne)] = rng.choice(SPECIAL_WEIGHTS)
    mode = _mode(sp, rng.choice(WEIGHT_MODES))
    return dict(sp, weighted=True, weights=ws, wmode=mode,
                weights0=[rng.choice(ordinary) for _ in range(ne)] if mode == "set" else None)


def random_extreme_specs(rng, n):
    """Random static inputs as in random_specs (the uniform ones on 0..N-1 too: adjacency tensor), all weighted."""
    for sp in random_specs(rng, n):
        yield _extreme_draw(rng, sp, [0.5, 1, 2, 2.5, 3, 7, 0.1, 10])


def random_extreme_temporal_specs(rng, n):
    for sp in random_temporal_specs(rng, n):
        yield _extreme_draw(rng, sp, [0.5, 1, 2, 3])


def reweight_extreme_specs(rng, specs, every=1, offset=0):
    """Weighted inputs (static or temporal) that are queried completely, then get ONE weight replaced by a zero / extreme
    one - set_weight(e, w') or, static only, add_edge(e, weight=w') which accumulates - and are only then checked."""
    for i, sp in enumerate(specs):
        if i % every != offset or not sp["weighted"] or not sp["edges"] or sp.get("then"):
            continue
        k = rng.randrange(len(sp["edges"]))
        w2 = rng.choice([w for w in SPECIAL_WEIGHTS if repr(w) != repr(sp["weights"][k])])
        if sp["kind"] == "temporal":
            t, e = sp["edges"][k]
            then = [["set_weight", t, e, w2]]
        else:
            e = sp["edges"][k]
            then = [["set_weight", e, w2]] if rng.random() < 0.7 else [["add_edge", e, w2]]
        yield dict(sp, then=then, edit="reweight_extreme")


# ----------------------------------------------------------------------------------------------- driver
def _dispatch(rec, spec):
    {"hg": check_hg, "temporal": check_temporal, "stress": check_stress}[spec["kind"]](rec, spec)


def _work(chunk):
    rec = Rec()
    for spec in chunk:
        _dispatch(rec, spec)
    return rec.export()


def run(ctx):
    _lib()  # import the tree under check once, before forking
    if ctx.quick:
        k_plain, k_other, caps, tn, n_rand, n_rand_t = 3, 3, {N: (3, 3) for N in (1, 2, 3, 4)}, 3, 300, 100
    else:
        k_plain, k_other, caps, tn, n_rand, n_rand_t = 5, 4, {N: (5, 4) for N in (1, 2, 3, 4)}, 4, 3000, 1000
        caps[5] = (2, 2)
    ex = list(exhaustive_specs(caps))
    ext = list(exhaustive_temporal_specs(tn))
    rnd = list(random_specs(ctx.rng, n_rand))
    rndt = list(random_temporal_specs(ctx.rng, n_rand_t))
    edited = list(edited_specs(ctx.rng, ex, every=10)) + list(edited_specs(ctx.rng, rnd, every=3))
    # (generated after everything else so that the inputs above do not depend on them)
    kept = list(preserving_specs(ctx.rng, ex, every=17, offset=3)) + list(preserving_specs(ctx.rng, rnd, every=3, offset=1))
    keptt = (list(preserving_temporal_specs(ctx.rng, ext, every=23, offset=5)) +
             list(preserving_temporal_specs(ctx.rng, rndt, every=2, offset=1)))
    # zero / extreme weights (generated last, from their own draws: the inputs above are what they were without them)
    xw = list(extreme_weight_specs(ex)) + list(random_extreme_specs(ctx.rng, n_rand // 3))
    xwt = list(extreme_weight_specs(ext)) + list(random_extreme_temporal_specs(ctx.rng, n_rand_t // 4))
    xwe = (list(reweight_extreme_specs(ctx.rng, ex, every=11, offset=4)) +
           list(reweight_extreme_specs(ctx.rng, [sp for sp in rnd if sp["weighted"]], every=2)) +
           list(reweight_extreme_specs(ctx.rng, xw, every=7, offset=2)) +
           list(reweight_extreme_specs(ctx.rng, [sp for sp in ext + rndt if sp["weighted"]], every=9, offset=1)) +
           list(reweight_extreme_specs(ctx.rng, xwt, every=9, offset=3)))
    specs = ex + ext + [STRESS] + rnd + rndt + edited + kept + keptt + xw + xwt + xwe
    ctx.count("inputs built with zero / extreme weights (static)", len(xw))
    ctx.count("inputs built with zero / extreme weights (temporal)", len(xwt))
    ctx.count("inputs queried, given a zero / extreme weight and queried again", len(xwe))
    ctx.rule("zero / extreme weights: every exhaustive weighted input on labels 0..N-1 and every 4th of the two relabellings (static and "
             "temporal) once more with its weights replaced by one of 8 profiles (0 / 0.0 in each position, all zero, 1e-200 / 1e-300, "
             "1e200 / 1e300, mixtures, a negative weight), given through add_edge(weight=), the constructor (weights=) or set_weight "
             "after creation with ordinary weights, in turn; random inputs as above (a third / a quarter as many) with every weight "
             "special with probability 1/2; and weighted inputs (ordinary and these) queried completely, then set_weight(e, w) / "
             "add_edge(e, weight=w) with such a w, then checked. Weights the library rejects with an exception are skipped "
             "(degenerate case)")
    ctx.count("inputs queried, edited and queried again", len(edited) + len(kept) + len(keptt))
    ctx.count("inputs queried, edited by a size-preserving edit and queried again (static)", len(kept))
    ctx.count("inputs queried, edited by a size-preserving edit and queried again (temporal)", len(keptt))
    ctx.rule("edited inputs: every 10th exhaustive and every 3rd random static input once more with the object queried (get_mapping and "
             "every call that is checked afterwards), then edited (remove_node with / without keep_edges, remove_edge, add_edge with a "
             "new node) and only then checked")
    ctx.rule("size-preserving edits: every 17th exhaustive and every 3rd random static input (others than the ones above) once more, queried in the same way, then edited "
             "so that the number of nodes and / or hyperedges is what it was while the content differs (" + ", ".join(PRESERVING_KINDS) +
             ": remove_node(x)+add_node(y), x replaced by a new label y in its hyperedges, remove_node(x)+add_node(x), remove_edge(e)+"
             "add_edge(e') of the same / another size, remove_edge(e)+add_edge(e), set_weight / accumulating add_edge), then checked "
             "on the same object; every 23rd exhaustive and every 2nd random temporal input likewise (" +
             ", ".join(PRESERVING_TEMPORAL_KINDS) + "). The new label sorts before, between or after the old ones. An edit that the "
             "library rejects with an exception is skipped (degenerate case)")
    ctx.count("exhaustive static inputs", len(ex))
    ctx.count("exhaustive temporal inputs", len(ext))
    ctx.count("random static inputs", len(rnd))
    ctx.count("random temporal inputs", len(rndt))

    ctx.rule("exhaustive: every hypergraph with node set {0..N-1}, N<=4, and every set of <= K distinct hyperedges "
             f"(K={k_plain} for labels 0..N-1 unweighted, K={k_other} for the variants: labels 20,5,30,10 / strings, "
             "weighted), uncovered nodes stay isolated" + ("" if ctx.quick else "; the same with N=5 and <= 2 hyperedges") +
             "; every temporal hypergraph given by <= 3 (time, hyperedge) pairs, "
             f"times in {{0,2}}, N<={tn}")
    ctx.rule("random: 3..7 nodes, 1..8 hyperedges of size 1..5, label kinds 0..N-1 / 1..N / random ints / strings / floats, "
             "isolated nodes, 40% weighted, random insertion order; random temporal hypergraphs on <= 6 nodes, times 0..4")
    ctx.rule("one stress input: 10 nodes, 256 hyperedges all containing nodes 0 and 1")
    ctx.rule("a case is one hypergraph (all matrix functions, all orders 0..max+1, both keep_isolated_nodes values are "
             "evaluated on it); non-trivial = it has at least one hyperedge")
    ctx.assume("columns of an incidence matrix are the hyperedges in get_edges() order (per order: the order-d hyperedges "
               "in that order) - anchor 'column index = position in get_edges()'")
    ctx.assume("rows of laplacian_matrix_by_order (which returns no mapping) are read under the mapping returned by "
               "adjacency_matrix_by_order for the same order")
    ctx.assume("entries are compared with tolerance 1e-9 * max(1, |expected|); the entries of the weighted incidence matrices, which "
               "are copies of a weight, with 1e-9 * |weight| (where 0 is expected: 1e-9 * the smallest non-zero |weight| of the "
               "hypergraph, at most 1e-9)")
    ctx.assume("the abstract value of the input is what get_nodes / get_edges / get_weight / is_weighted return")
    ctx.exhaustive_parts.append(f"all hypergraphs on node set {{0..N-1}}, N<=4, <= {k_plain} hyperedges (labels 0..N-1, "
                                f"unweighted) / <= {k_other} hyperedges (2 relabellings, weighted variants)" +
                                ("" if ctx.quick else "; N=5 with <= 2 hyperedges, all six variants"))
    ctx.exhaustive_parts.append(f"all temporal hypergraphs on node set {{0..N-1}}, N<={tn}, <= 3 (time,hyperedge) pairs, "
                                "times {0,2}")

    size = 48
    chunks = [specs[i:i + size] for i in range(0, len(specs), size)]
    nproc = max(1, min(16, os.cpu_count() or 1))
    fails = []
    if nproc > 1 and len(chunks) > 1:
        mp = multiprocessing.get_context("fork")
        with mp.Pool(nproc) as pool:
            for out in pool.imap(_work, chunks):  # ordered: the merge is deterministic
                _merge(ctx, out, fails)
    else:
        for ch in chunks:
            _merge(ctx, _work(ch), fails)
    _forward(ctx, fails)


def replay(data):
    spec, key = data["spec"], data.get("key")
    rec = Rec()
    _dispatch(rec, spec)
    hits = [f for f in rec.fails if key is None or f["key"] == key]
    if hits:
        f = hits[0]
        return False, (f"{f['key']} fails again on {spec}: call={f['input']['call']} expected={f['expected']} "
                       f"observed={f['observed']}")
    return True, f"{key}: the clause holds on this input ({sum(rec.evals.values())} clause evaluations, " \
                 f"{sum(rec.nfail.values())} other failures)"
