"""C03 bounded tier: TemporalHypergraph against a map (time, node set) -> (weight, metadata).

Scope (bounded): every history of length <= 2 (quick) / <= 3 (thorough) over a fixed alphabet of ~30 timed operations on nodes {0,1,2},
times {0,1,2,5} (plus rejected times -1, 1.5, "1"), weighted and unweighted; seeded random histories of length <= 12 / <= 30 over {0..5},
times 0..6, hyperedges up to size 5. After every prefix: all queries with all order/size/up_to filters, 20 time windows x 4 filters,
snapshots (subhypergraph) for 4 windows x add_all_nodes, aggregate(w) for w in {1,2,3,7}; the derivations are recomputed to show that they
leave the object unchanged. Not generated: remove_edges (outside the quantifier of C03), add_edges(weights=..) on an unweighted hypergraph and
weighted batches repeating a node tuple (unspecified).
"""
import itertools
from .containers import Explorer, replay_history
from .ad_temporal import TemporalAdaptor
from .. import common

PROPERTY = "C03"
PROBES = [(0,), (2,), (0, 1), (1, 0), (1, 2), (0, 1, 2), (2, 0, 1), (3, 4), (0, 1, 2, 3)]
ALPHABET = [
    ("add_node", 0), ("add_node", 1, {"c": 1}), ("add_nodes", [1, 2]),
    ("add_edge", (0, 1), 0), ("add_edge", (1, 0), 0), ("add_edge", (0, 1), 1), ("add_edge", (0, 1, 2), 2), ("add_edge", (2,), 5),
    ("add_edge", (1, 2), 1, 2), ("add_edge", (0, 1), 0, None, {"t": "x"}), ("add_edge", (0, 2), 1, 1),
    ("add_edge", (0, 1), -1), ("add_edge", (0, 1), 1.5), ("add_edge", (0, 1), "1"),
    ("add_edges", [(0, 1), (1, 2)], [0, 2]), ("add_edges", [(0, 2), (2, 1)], [1, 1], [2, 3]),
    ("remove_edge", (0, 1), 0), ("remove_edge", (1, 0), 1), ("remove_edge", (0, 1, 2), 2),
    ("remove_node", 0), ("remove_node", 1, True), ("remove_node", 2, True), ("remove_nodes", [0, 1]), ("remove_nodes", [0, 0]),
    ("set_weight", (0, 1), 0, 5), ("set_weight", (1, 0), 1, 1),
    ("set_node_metadata", 0, {"a": 1}), ("set_edge_metadata", (1, 0), 0, {"b": 2}),
    ("set_attr_node", 0, "x", 1), ("set_attr_node", 1, "z", 3), ("set_attr_edge", (0, 1), 0, "y", 2),
    ("del_attr_node", 0, "x"), ("del_attr_edge", (0, 1), 0, "y"),
    ("clear",), ("copy",),
]


def adaptor():
    return TemporalAdaptor([0, 1, 2, 3, 4, 5], PROBES, times=(0, 1, 2, 5))


def random_history(rng, length, n_nodes=6):
    hist, edges = [], []

    def rnd_edge():
        k = rng.choice([1, 2, 2, 3, 3, 4, 5])
        return tuple(rng.sample(range(n_nodes), min(k, n_nodes))), rng.choice([0, 1, 2, 2, 5, 6])

    def some_edge():
        if edges and rng.random() < 0.8:
            e, t = rng.choice(edges)
            e = list(e)
            rng.shuffle(e)
            return tuple(e), (t if rng.random() < 0.85 else rng.choice([0, 1, 2, 5]))
        return rnd_edge()

    for _ in range(length):
        r = rng.random()
        if r < 0.34:
            e, t = rnd_edge() if rng.random() < 0.7 else some_edge()
            w = rng.choice([None, None, 1, 2, 0.5])
            md = rng.choice([None, None, {"k": rng.randrange(3)}])
            op = ("add_edge", e, t, w, md) if md is not None else (("add_edge", e, t, w) if w is not None else ("add_edge", e, t))
            edges.append((e, t))
        elif r < 0.40:
            es = [rnd_edge() for _ in range(rng.randrange(1, 4))]
            op = ("add_edges", [e for e, _ in es], [t for _, t in es])
            edges += es
        elif r < 0.52:
            e, t = some_edge()
            op = ("remove_edge", e, t)
        elif r < 0.61:
            op = ("remove_node", rng.randrange(n_nodes), rng.random() < 0.5)
        elif r < 0.64:
            op = ("remove_nodes", rng.sample(range(n_nodes), 2), rng.random() < 0.5)
        elif r < 0.71:
            op = ("add_node", rng.randrange(n_nodes)) if rng.random() < 0.6 else ("add_nodes", rng.sample(range(n_nodes), 2))
        elif r < 0.79:
            e, t = some_edge()
            op = ("set_weight", e, t, rng.choice([1, 2, 7]))
        elif r < 0.84:
            op = ("set_node_metadata", rng.randrange(n_nodes), {"a": rng.randrange(3)})
        elif r < 0.89:
            e, t = some_edge()
            op = ("set_edge_metadata", e, t, {"b": rng.randrange(3)})
        elif r < 0.93:
            e, t = some_edge()
            op = rng.choice([("set_attr_node", rng.randrange(n_nodes), "x", rng.randrange(3)), ("set_attr_edge", e, t, "y", rng.randrange(3))])
        elif r < 0.96:
            e, t = some_edge()
            op = rng.choice([("del_attr_node", rng.randrange(n_nodes), "x"), ("del_attr_edge", e, t, "y")])
        elif r < 0.98:
            op = ("copy",)
        else:
            op = ("clear",)
        hist.append(op)
    return hist


def _work(sub, chunk):
    ex = Explorer(sub, adaptor())
    for cfg, h in chunk:
        ex.run_history(cfg, h)


def run(ctx):
    ctx.rule("history = list of public mutating calls on a TemporalHypergraph; exhaustive over a 33-operation alphabet on nodes {0,1,2} and times "
             "{0,1,2,5} up to length 2 (quick) / 3 (thorough), plus seeded random histories on {0..5}; non-trivial = at least one call changed "
             "the abstract state; distinct = distinct (configuration, history)")
    maxlen = 2 if ctx.quick else 3
    hs = [(dict(weighted=w), list(h)) for n in range(1, maxlen + 1) for h in itertools.product(ALPHABET, repeat=n) for w in (False, True)]
    ctx.exhaustive_parts.append(f"all histories of length <= {maxlen} over the alphabet, weighted and unweighted: {len(hs)}")
    n_rand, rl = (250, 12) if ctx.quick else (6000, 30)
    rnd = [(dict(weighted=bool(i % 2)), random_history(ctx.rng, ctx.rng.randrange(3, rl + 1))) for i in range(n_rand)]
    allh = hs + rnd
    step = max(1, len(allh) // 64)
    common.parallel_map(ctx, _work, [allh[i:i + step] for i in range(0, len(allh), step)])


def replay(data):
    return replay_history(adaptor(), data)
