"""C02 bounded tier: DirectedHypergraph against a map (source set, target set) -> (weight, metadata).

Scope (bounded): every history of length <= 2 (quick) / <= 3 (thorough) over a fixed alphabet of ~28 operations on the node universe
{0,1,2,3} (insertions with differently listed source/target sets, the reversed hyperedge, batched insertions, removals, node removals,
weight and metadata updates, rejected calls, clear, copy), weighted and unweighted; seeded random histories of length <= 12 / <= 30 over
{0..5} with hyperedges of total size up to 5. After every prefix all queries of the statement (all order/size/up_to filters) are compared
with the ghost; after a raising call the observable state is compared with the state before it.
Not generated (outside the quantifier of C02 or unspecified): remove_node(keep_edges=True), add_edges(weights=..) on an unweighted
hypergraph (the code announces that the hypergraph becomes weighted), scalar endpoints.
"""
import itertools
from .containers import Explorer, replay_history
from .ad_directed import DirectedAdaptor
from .. import common

PROPERTY = "C02"
A, B_, C, D = (0,), (1,), (2,), (3,)
PROBES = [((0,), (1,)), ((1,), (0,)), ((0, 1), (2,)), ((1, 0), (2,)), ((2,), (0, 1)), ((0,), (1, 2)), ((0,), (2, 1)), ((3,), (0,)),
          ((0, 1), (2, 3)), ((4,), (5,)), ((0, 1, 2), (3, 4))]
ALPHABET = [
    ("add_node", 0), ("add_node", 1, {"c": 1}), ("add_nodes", [2, 3]),
    ("add_edge", ((0,), (1,))), ("add_edge", ((1,), (0,))), ("add_edge", ((0, 1), (2,))), ("add_edge", ((1, 0), (2,))),
    ("add_edge", ((2,), (0, 1))), ("add_edge", ((0,), (2, 1)), 2), ("add_edge", ((0,), (1,)), None, {"t": "x"}), ("add_edge", ((3,), (0,)), 1),
    ("add_edges", [((0,), (1,)), ((1,), (2, 3))]), ("add_edges", [((0,), (2,)), ((2,), (1,))], [2, 3]),
    ("remove_edge", ((0,), (1,))), ("remove_edge", ((1,), (0,))), ("remove_edge", ((1, 0), (2,))),
    ("remove_edges", [((0,), (1,)), ((0, 1), (2,))]), ("remove_edges", [((0,), (1,)), ((0,), (1,))]),
    ("remove_node", 0), ("remove_node", 2), ("remove_nodes", [0, 1]), ("remove_nodes", [0, 0]),
    ("set_weight", ((0,), (1,)), 5), ("set_weight", ((0, 1), (2,)), 1),
    ("set_node_metadata", 0, {"a": 1}), ("set_edge_metadata", ((0,), (1,)), {"b": 2}),
    ("set_attr_node", 0, "x", 1), ("set_attr_node", 2, "z", 3), ("set_attr_edge", ((0,), (1,)), "y", 2),
    ("del_attr_node", 0, "x"), ("del_attr_edge", ((0,), (1,)), "y"),
    ("clear",), ("copy",),
]


def adaptor():
    return DirectedAdaptor([0, 1, 2, 3, 4, 5], PROBES)


def random_history(rng, length, n_nodes=6):
    hist, edges = [], []

    def rnd_edge():
        k = rng.choice([2, 2, 3, 3, 4, 5])
        ns = rng.sample(range(n_nodes), min(k, n_nodes))
        cut = rng.randrange(1, len(ns))
        return (tuple(ns[:cut]), tuple(ns[cut:]))

    def some_edge():
        if edges and rng.random() < 0.8:
            s, t = rng.choice(edges)
            s, t = list(s), list(t)
            rng.shuffle(s), rng.shuffle(t)
            e = (tuple(s), tuple(t))
            return (e[1], e[0]) if rng.random() < 0.15 else e
        return rnd_edge()

    for _ in range(length):
        r = rng.random()
        if r < 0.32:
            e = rnd_edge() if rng.random() < 0.7 else some_edge()
            w = rng.choice([None, None, 1, 2, 0.5])
            md = rng.choice([None, None, {"k": rng.randrange(3)}])
            op = ("add_edge", e, w, md) if md is not None else (("add_edge", e, w) if w is not None else ("add_edge", e))
            edges.append(e)
        elif r < 0.38:
            es = list(dict.fromkeys(rnd_edge() for _ in range(rng.randrange(1, 4))))
            op = ("add_edges", es)
            edges += es
        elif r < 0.50:
            op = ("remove_edge", some_edge())
        elif r < 0.54:
            op = ("remove_edges", list(dict.fromkeys(some_edge() for _ in range(2))))
        elif r < 0.62:
            op = ("remove_node", rng.randrange(n_nodes))
        elif r < 0.65:
            op = ("remove_nodes", rng.sample(range(n_nodes), 2))
        elif r < 0.72:
            op = ("add_node", rng.randrange(n_nodes)) if rng.random() < 0.6 else ("add_nodes", rng.sample(range(n_nodes), 2))
        elif r < 0.79:
            op = ("set_weight", some_edge(), rng.choice([1, 2, 7]))
        elif r < 0.84:
            op = ("set_node_metadata", rng.randrange(n_nodes), {"a": rng.randrange(3)})
        elif r < 0.89:
            op = ("set_edge_metadata", some_edge(), {"b": rng.randrange(3)})
        elif r < 0.93:
            op = rng.choice([("set_attr_node", rng.randrange(n_nodes), "x", rng.randrange(3)), ("set_attr_edge", some_edge(), "y", rng.randrange(3))])
        elif r < 0.96:
            op = rng.choice([("del_attr_node", rng.randrange(n_nodes), "x"), ("del_attr_edge", some_edge(), "y")])
        elif r < 0.98:
            op = ("copy",)
        else:
            op = ("clear",)
        hist.append(op)
    return hist


def _work(sub, chunk):
    ex = Explorer(sub, adaptor())
    for cfg, h in chunk:
        ex.run_history(cfg, h)


def run(ctx):
    ctx.rule("history = list of public mutating calls on a DirectedHypergraph; exhaustive over a 30-operation alphabet on nodes {0..3} up to "
             "length 2 (quick) / 3 (thorough), plus seeded random histories on {0..5}; non-trivial = at least one call changed the abstract "
             "state; distinct = distinct (configuration, history)")
    maxlen = 2 if ctx.quick else 3
    hs = [(dict(weighted=w), list(h)) for n in range(1, maxlen + 1) for h in itertools.product(ALPHABET, repeat=n) for w in (False, True)]
    ctx.exhaustive_parts.append(f"all histories of length <= {maxlen} over the alphabet, weighted and unweighted: {len(hs)}")
    n_rand, rl = (300, 12) if ctx.quick else (6000, 30)
    rnd = [(dict(weighted=bool(i % 2)), random_history(ctx.rng, ctx.rng.randrange(3, rl + 1))) for i in range(n_rand)]
    allh = hs + rnd
    step = max(1, len(allh) // 64)
    common.parallel_map(ctx, _work, [allh[i:i + step] for i in range(0, len(allh), step)])


def replay(data):
    return replay_history(adaptor(), data)
